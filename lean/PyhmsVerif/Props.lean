import PyhmsVerif.Props.C17
import PyhmsVerif.Props.C16
import PyhmsVerif.Props.C12
import PyhmsVerif.Props.C01
import PyhmsVerif.Props.C05
import PyhmsVerif.Props.C06
import PyhmsVerif.Props.C14
import PyhmsVerif.Props.C13
