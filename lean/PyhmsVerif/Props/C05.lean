import PyhmsVerif.Proofs.TreeSteps
/-!
# C05 — run() stops exactly at the global stop condition, with a bounded wind-down

`Tree.step` is the small-step semantics of `DemeTree.run()`.  The program counter `pc` is
`head` exactly at metaepoch boundaries inside `run()`, `done` after `run()` returned.
-/
namespace C05
open Tree

/-- does this event start a metaepoch (a loop-head consult that came out false)? -/
def startsMetaepoch (t : T) : Ev → Bool
  | .loop ge => gscEval t ge t.cfg.gsc == some false
  | _ => false

/-- **The metaepoch counter counts the metaepochs performed**: it is incremented by one
exactly by a loop-head consult that came out false, and by nothing else. -/
theorem C05_metaepoch_count {t t' : T} {ev : Ev} (h : step t ev = .ok t') :
    t'.metaepoch = t.metaepoch + (if startsMetaepoch t ev then 1 else 0) := by
  cases ev with
  | loop ge =>
    obtain ⟨_, _, _, _, _, _, _, hc⟩ := stepLoop_effect h
    rcases hc with ⟨hm, _, _, hg⟩ | ⟨hm, _, _, hg⟩
    · simp [startsMetaepoch, hg, hm]
    · simp [startsMetaepoch, hg, hm]
  | gen id g l => simp [startsMetaepoch, (stepGen_effect h).metaepoch]
  | localRun id reqs its nfev => simp [startsMetaepoch, (stepLocal_effect h).metaepoch]
  | round ge renv news =>
    obtain ⟨_, hm, _⟩ := stepRound_effect h
    simp [startsMetaepoch, hm]

/-- **run() returns exactly when the condition holds at a boundary**: the consult at the
loop head ends the run iff its verdict is true; otherwise the next metaepoch starts. -/
theorem C05_returns_iff_true {t t' : T} {ge : Option Bool} (h : step t (.loop ge) = .ok t') :
    (t'.pc = .done ↔ gscEval t ge t.cfg.gsc = some true) := by
  simp only [step, stepLoop] at h
  split at h
  · split at h
    · simp at h
    · rename_i hg
      simp only [Except.ok.injEq] at h; subst h; simp [hg]
    · rename_i hg
      split at h
      · simp at h
      · simp only [Except.ok.injEq] at h; subst h
        simp only [hg, reduceCtorEq, iff_false]
        simp only [finish]; split <;> simp
  · simp at h

/-- at a metaepoch boundary nothing but the loop-head consult can happen -/
theorem C05_boundary_only_consult {t t' : T} {ev : Ev} (hpc : t.pc = .head) (h : step t ev = .ok t') :
    ∃ ge, ev = .loop ge := by
  cases ev with
  | loop ge => exact ⟨ge, rfl⟩
  | gen id g l =>
    simp only [step, stepGen, prepareGen, hpc] at h
    simp at h
  | localRun id reqs its nfev => simp [step, stepLocal, hpc] at h
  | round ge renv news => simp [step, stepRound, hpc] at h

/-- once `run()` has returned no further event is possible -/
theorem C05_done_is_final {t t' : T} {ev : Ev} (hpc : t.pc = .done) : step t ev ≠ .ok t' := by
  intro h
  cases ev with
  | loop ge => simp [step, stepLoop, hpc] at h
  | gen id g l => simp [step, stepGen, prepareGen, hpc] at h
  | localRun id reqs its nfev => simp [step, stepLocal, hpc] at h
  | round ge renv news => simp [step, stepRound, hpc] at h

/-- **No deme is sprouted once the condition has been observed true**, and the observation
is never forgotten. -/
theorem C05_no_sprout_after_true {t t' : T} {ev : Ev} (hs : t.gscSeen = true) (h : step t ev = .ok t') :
    t'.demes.length = t.demes.length ∧ t'.gscSeen = true := by
  cases ev with
  | loop ge =>
    obtain ⟨_, hd, _, _, _, _, hg, _⟩ := stepLoop_effect h
    exact ⟨by rw [hd], hg hs⟩
  | gen id g l =>
    have e := stepGen_effect h
    exact ⟨(forall2_length e.demes).symm, e.gscSeenMono hs⟩
  | localRun id reqs its nfev =>
    have e := stepLocal_effect h
    exact ⟨(forall2_length e.demes).symm, e.gscSeenMono hs⟩
  | round ge renv news =>
    obtain ⟨_, _, _, _, hg, _, hcase⟩ := stepRound_effect h
    rcases hcase with ⟨hd, _, _, _, _⟩ | ⟨hf, _⟩
    · exact ⟨by rw [hd], hg hs⟩
    · simp [hs] at hf

/-- **Bounded wind-down**: after the condition has been observed true a deme can only
perform the *first* generation of its metaepoch — a second one is not accepted. -/
theorem C05_winddown {t : T} {id : Id} {q : List Id} {done : Nat} {pending : List Gen} {d : Deme}
    {lc : LevelCfg} (hs : t.gscSeen = true) (h : prepareGen t id = .ok (q, done, pending, d, lc)) :
    done = 0 := by
  unfold prepareGen at h
  split at h
  · split at h
    · simp at h
    · split at h
      · simp at h
      · split at h
        · simp at h
        · split at h
          · simp at h
          · split at h
            · simp at h
            · split at h
              · simp at h
              · rename_i hq _ _ _ _ _ _ _ hnot
                simp only [Except.ok.injEq, Prod.mk.injEq] at h
                obtain ⟨_, rfl, _⟩ := h
                simp only [hs, Bool.true_and, decide_eq_true_eq, not_lt, Nat.le_zero_eq] at hnot
                simpa using hnot
  · simp at h

end C05
