/-!
# M0 — IEEE-754 binary64 arithmetic on exact rationals

Every finite double is a dyadic rational.  `rnd` is round-to-nearest-even to binary64
(`none` = overflow); the arithmetic operations round the exact result.  `cfmod` is C's
`fmod` (exact), `npDivmod` is NumPy's `npy_divmod` (the kernel behind `np.mod`,
`np.floor_divide` and the `%` operator on float arrays).

All operations are parametrised by the rounding function where that matters
(`Repair.lean`), so that the same definitions give the ideal real-number algorithm
(`rnd := some`) and the binary64 algorithm (`rnd := F64.rnd`).

Core Lean only (no Mathlib): this file is loaded by the line-protocol driver.
-/
namespace F64

/-- 2^e as a rational, for any integer exponent. -/
def pow2 (e : Int) : Rat :=
  if e ≥ 0 then ((2 ^ e.toNat : Nat) : Rat) else 1 / ((2 ^ (-e).toNat : Nat) : Rat)

/-- ⌊log₂ q⌋ for q > 0. -/
def ilog2 (q : Rat) : Int :=
  let n := q.num.toNat
  let d := q.den
  let e : Int := (n.log2 : Int) - (d.log2 : Int)
  if pow2 e ≤ q then e else e - 1

/-- Round a rational to the nearest integer, ties to even. -/
def roundHalfEven (m : Rat) : Int :=
  let f := m.floor
  let d := m - (f : Rat)
  if d < 1/2 then f else if d > 1/2 then f + 1 else if f % 2 = 0 then f else f + 1

def absR (q : Rat) : Rat := if q < 0 then -q else q

/-- Round to nearest-even binary64; `none` on overflow. -/
def rnd (q : Rat) : Option Rat :=
  if q = 0 then some 0 else
  let a := absR q
  let e := ilog2 a
  let ee := if e < -1022 then -1022 else e
  let ulp := pow2 (ee - 52)
  let r := (roundHalfEven (q / ulp) : Rat) * ulp
  if absR r ≥ pow2 1024 then none else some r

/-- A rounding mode: `F64.rnd` for binary64, `ideal` for exact real arithmetic. -/
abbrev Rounding := Rat → Option Rat

def ideal : Rounding := some

/-- `isF64 q` — q is exactly representable as a finite binary64. -/
def isF64 (q : Rat) : Bool := rnd q == some q

/-- C `fmod` (exact in IEEE arithmetic): a − trunc(a/b)·b, sign of `a`. -/
def cfmod (a b : Rat) : Rat :=
  let q := a / b
  let t : Int := if q ≥ 0 then q.floor else -((-q).floor)
  a - (t : Rat) * b

/-- NumPy `npy_divmod(a, b)` for b ≠ 0: `(floor_divide, mod)`. -/
def npDivmod (r : Rounding) (a b : Rat) : Option (Rat × Rat) :=
  if b = 0 then none else
  let mod0 := cfmod a b
  (r (a - mod0)).bind fun d0 =>
  (r (d0 / b)).bind fun div0 =>
  (if mod0 ≠ 0 then
      if (decide (b < 0)) != (decide (mod0 < 0)) then
        (r (mod0 + b)).bind fun m => (r (div0 - 1)).bind fun d => some (m, d)
      else some (mod0, div0)
    else some (0, div0)).bind fun (md, dv) =>
  let fl : Rat :=
    if dv ≠ 0 then
      let f : Rat := (dv.floor : Rat)
      if dv - f > 1/2 then f + 1 else f
    else 0
  some (fl, md)

def npMod (r : Rounding) (a b : Rat) : Option Rat := (npDivmod r a b).map (·.2)
def npFloorDiv (r : Rounding) (a b : Rat) : Option Rat := (npDivmod r a b).map (·.1)

end F64
