#!/bin/bash
# usage: tools/cheapchecks.sh <seed> [<seed> ...] — the component-level checks (no traced runs) with many seeds
cd "$(dirname "$0")/.."
(cd lean && lake build PyhmsVerif PyhmsVerif.Props > /dev/null 2>&1)
for seed in "$@"; do
  for p in C12 C13 C14 C15 C16 C17 C19 C20; do
    out=$(VERIF_SEED=$seed timeout 3600 /venv/bin/python check.py $p --tier quick 2>&1 | grep -v "^KNOWN-FINDING" | tail -2 | tr '\n' ' ')
    echo "seed=$seed $out"
  done
done
