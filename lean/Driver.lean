import PyhmsVerif.Model.Proto
import PyhmsVerif.Model.Repair
/-!
Line-protocol driver: one operation per input line, one answer per output line.
`lake env lean --run Driver.lean < ops.txt`
-/
open Proto

def parseMethod : P Repair.Method := do
  let t ← tok
  match t with
  | "clip" => pure .clip
  | "reflect" => pure .reflect
  | "toroidal" => pure .toroidal
  | _ => failure

def parseRounding : P F64.Rounding := do
  let t ← tok
  match t with
  | "f64" => pure F64.rnd
  | "ideal" => pure F64.ideal
  | _ => failure

def handle : P String := do
  let op ← tok
  match op with
  | "repair" => do
    let r ← parseRounding; let m ← parseMethod; let lo ← rat; let hi ← rat; let x ← rat
    pure (showOpt showRat (Repair.repair m r lo hi x))
  | "affine" => do
    let lo ← rat; let hi ← rat; let u ← rat
    pure (showOpt showRat (Repair.affine F64.rnd lo hi u))
  | "rnd" => do
    let x ← rat
    pure (showOpt showRat (F64.rnd x))
  | _ => failure

def stepLine (line : String) : String :=
  let toks := (line.trimAscii.toString.splitOn " ").filter (· ≠ "")
  match run handle toks with
  | some s => s
  | none => "bad-op"

partial def loop (h : IO.FS.Stream) : IO Unit := do
  let line ← h.getLine
  if line.isEmpty then return ()
  IO.println (stepLine line)
  loop h

def main : IO Unit := do loop (← IO.getStdin)
