import PyhmsVerif.Model.Repair
import Mathlib.Algebra.Order.Ring.Rat
import Mathlib.Tactic.Linarith
import PyhmsVerif.Proofs.DivmodIdeal
/-!
# C17 — bound repair always lands inside the box and only moves what it must

Property theorems only.  `r : Rounding` is arbitrary in the first four theorems: they
hold for binary64 rounding, for ideal arithmetic and for any other rounding function,
because `apply_bounds` returns in-box coordinates untouched and clips repaired ones.
-/
namespace C17
open Repair F64

theorem clip_inBox (lo hi x : Rat) (h : lo ≤ hi) : lo ≤ clip lo hi x ∧ clip lo hi x ≤ hi := by
  unfold clip
  constructor
  · exact le_min (le_max_right _ _) h
  · exact min_le_right _ _

/-- every repair method returns a point inside the box (any rounding function). -/
theorem repair_inBox (m : Method) (r : Rounding) (lo hi x y : Rat) (h : lo ≤ hi)
    (hy : repair m r lo hi x = some y) : lo ≤ y ∧ y ≤ hi := by
  cases m with
  | clip =>
    simp only [repair, Option.some.injEq] at hy
    subst hy; exact clip_inBox lo hi x h
  | reflect =>
    simp only [repair, Option.map_eq_some_iff] at hy
    obtain ⟨z, _, rfl⟩ := hy
    split
    · rename_i hb; simpa [inBox] using hb
    · exact clip_inBox lo hi z h
  | toroidal =>
    simp only [repair, Option.map_eq_some_iff] at hy
    obtain ⟨z, _, rfl⟩ := hy
    split
    · rename_i hb; simpa [inBox] using hb
    · exact clip_inBox lo hi z h

/-- a point already inside the box is left exactly where it is (any rounding function). -/
theorem inside_unchanged (m : Method) (r : Rounding) (lo hi x y : Rat)
    (hlo : lo ≤ x) (hhi : x ≤ hi) (hy : repair m r lo hi x = some y) : y = x := by
  have hb : inBox lo hi x = true := by simp [inBox, hlo, hhi]
  cases m with
  | clip =>
    simp only [repair, Option.some.injEq] at hy
    subst hy; unfold clip
    rw [max_eq_left hlo, min_eq_left hhi]
  | reflect =>
    simp only [repair, Option.map_eq_some_iff] at hy
    obtain ⟨z, _, rfl⟩ := hy
    simp [hb]
  | toroidal =>
    simp only [repair, Option.map_eq_some_iff] at hy
    obtain ⟨z, _, rfl⟩ := hy
    simp [hb]

/-- contrapositive: a coordinate is moved only if it violated a bound. -/
theorem moved_only_if_outside (m : Method) (r : Rounding) (lo hi x y : Rat)
    (hy : repair m r lo hi x = some y) (hne : y ≠ x) : x < lo ∨ hi < x := by
  by_contra hcon
  push Not at hcon
  exact hne (inside_unchanged m r lo hi x y hcon.1 hcon.2 hy)

/-- clip moves to the nearest face. -/
theorem clip_nearest_face (lo hi x : Rat) (h : lo ≤ hi) :
    (hi < x → repair .clip F64.rnd lo hi x = some hi) ∧
    (x < lo → repair .clip F64.rnd lo hi x = some lo) := by
  constructor
  · intro hx
    simp only [repair, clip, Option.some.injEq]
    rw [max_eq_left (by linarith), min_eq_right (le_of_lt hx)]
  · intro hx
    simp only [repair, clip, Option.some.injEq]
    rw [max_eq_right (le_of_lt hx), min_eq_left h]

/-- clip is total. -/
theorem clip_total (r : Rounding) (lo hi x : Rat) : (repair .clip r lo hi x).isSome := by
  simp [repair]

-- non-vacuity: the decimal box (-1/10, 1/5) of finding D1, point on the upper face, all
-- three methods defined in binary64 and returning the point itself.
example : repair .reflect F64.rnd (-1/10) (1/5) (1/5) = some (1/5) := by decide +kernel
example : repair .toroidal F64.rnd (-20) 20 20 = some 20 := by decide +kernel
example : repair .toroidal F64.rnd (-20) 20 (45/2) = some (-35/2) := by decide +kernel
example : repair .reflect F64.rnd (-20) 20 (45/2) = some (35/2) := by decide +kernel

end C17

namespace C17
open Repair F64

theorem ideal_apply (q : Rat) : F64.ideal q = some q := rfl

/-- **Toroidal wraps** (ideal arithmetic): a coordinate outside the box is mapped to
`x − k·(upper − lower)` for an integer `k`, and that point lies in `[lower, upper)`. -/
theorem toroidal_congr (lo hi x : Rat) (h : lo < hi) (hout : inBox lo hi x = false) :
    ∃ k : Int, repair .toroidal F64.ideal lo hi x = some (x - (k : Rat) * (hi - lo)) ∧
      lo ≤ x - (k : Rat) * (hi - lo) ∧ x - (k : Rat) * (hi - lo) < hi := by
  obtain ⟨k, hk, h0, h1⟩ := npDivmod_ideal (x - lo) (hi - lo) (by linarith)
  refine ⟨k, ?_, by linarith, by linarith⟩
  have hy : lo + (x - lo - (k : Rat) * (hi - lo)) = x - (k : Rat) * (hi - lo) := by ring
  simp only [repair, toroidalRaw, ideal_apply, Option.bind_some, npMod, hk, Option.map_some, hout,
    Bool.false_eq_true, ↓reduceIte, hy, Option.some.injEq]
  unfold clip
  rw [max_eq_left (by linarith), min_eq_left (by linarith)]

theorem int_01 (z : Int) (h0 : (0 : Rat) ≤ (z : Rat)) (h2 : (z : Rat) < 2) : z = 0 ∨ z = 1 := by
  have a : (0 : Int) ≤ z := by exact_mod_cast h0
  have b : z < 2 := by exact_mod_cast h2
  omega

/-- **Reflect mirrors** (ideal arithmetic): a coordinate outside the box is mapped to a point
`y` of the box with `y − lower = (x − lower) − 2m·range` or `y − lower = −(x − lower) + 2m·range`
for an integer `m` — congruent to ± the input modulo twice the range. -/
theorem reflect_congr (lo hi x : Rat) (h : lo < hi) (hout : inBox lo hi x = false) :
    ∃ (m : Int) (y : Rat), repair .reflect F64.ideal lo hi x = some y ∧ lo ≤ y ∧ y ≤ hi ∧
      (y - lo = (x - lo) - 2 * (m : Rat) * (hi - lo) ∨ y - lo = -(x - lo) + 2 * (m : Rat) * (hi - lo)) := by
  obtain ⟨k, hk, h0, h1⟩ := npDivmod_ideal (x - lo) (hi - lo) (by linarith)
  obtain ⟨j, hj, j0, j1⟩ := npDivmod_ideal (k : Rat) 2 (by norm_num)
  have hz : ((k - 2 * j : Int) : Rat) = (k : Rat) - (j : Rat) * 2 := by push_cast; ring
  rcases int_01 (k - 2 * j) (by rw [hz]; exact j0) (by rw [hz]; exact j1) with hz0 | hz1
  · -- even number of flips: plain wrap
    have hodd : (k : Rat) - (j : Rat) * 2 = 0 := by rw [← hz, hz0]; simp
    have hke : (k : Rat) = 2 * (j : Rat) := by linarith
    refine ⟨j, lo + (x - lo - (k : Rat) * (hi - lo)), ?_, by linarith, by linarith, Or.inl ?_⟩
    · simp only [repair, reflectRaw, ideal_apply, Option.bind_some, npFloorDiv, npMod, hk, hj, Option.map_some, hodd,
        zero_ne_one, ↓reduceIte, hout, Bool.false_eq_true, Option.some.injEq]
      unfold clip
      rw [max_eq_left (by linarith), min_eq_left (by linarith)]
    · rw [hke]; ring
  · -- odd number of flips: mirrored
    have hodd : (k : Rat) - (j : Rat) * 2 = 1 := by rw [← hz, hz1]; simp
    have hke : (k : Rat) = 2 * (j : Rat) + 1 := by linarith
    refine ⟨j + 1, lo + (hi - lo - (x - lo - (k : Rat) * (hi - lo))), ?_, by linarith, by linarith, Or.inr ?_⟩
    · simp only [repair, reflectRaw, ideal_apply, Option.bind_some, npFloorDiv, npMod, hk, hj, Option.map_some, hodd,
        ↓reduceIte, hout, Bool.false_eq_true, Option.some.injEq]
      unfold clip
      rw [max_eq_left (by linarith), min_eq_left (by linarith)]
    · rw [hke]; push_cast; ring

-- non-vacuity: wrap and mirror of 22.5 in [-20, 20] (ideal arithmetic)
example : repair .toroidal F64.ideal (-20) 20 (45/2) = some (-35/2) := by decide +kernel
example : repair .reflect F64.ideal (-20) 20 (45/2) = some (35/2) := by decide +kernel

end C17
