"""C11 — Each generation is bred from the generation immediately before it

Theorems: lean/PyhmsVerif/Props/C11.lean (about the tree model lean/PyhmsVerif/Model/Tree.lean).
Tie to /repo: trace refinement — real runs are re-executed by `Tree.step`, state dumps and
sprout-stage outputs are diffed (harness/refine.py); only disagreements that bear on this
property count.  Direct monitor of the property on the same kind of runs (harness/monitors.py).
"""
from .. import refine, runs

MODULE = "PyhmsVerif.Props.C11"
THEOREMS = ['C11.C11_chain', 'C11.step_chain', 'C11.gen_chain', 'C11.local_chain', 'C11.chainOk_pair', 'C11.genOk_member', 'EngineDE.deGen_next_mem', 'EngineDE.deGen_size']
EXTRA_MODULES = ['PyhmsVerif.Props.EngineDE']
LEVEL = 'proof'
LEVEL_TEXT = 'Theorem C11_chain: in every reachable state, for every deme and every consecutive pair of generations (G, G-prime) of its flattened history — also inside a metaepoch of several generations — each individual of G-prime belonged to G (same genome and fitness) or was evaluated while G-prime was being made (or carries the sentinel of a refused request). Inductive over all event sequences; the pending generations of the metaepoch in progress are part of the invariant. Tie: trace refinement re-checks genOk on every real generation with the parents the model threaded (finding D2 is rejected at the first non-chaining generation) + direct monitor joining histories with the time-stamped call log. ENGINE LEVEL (Model/Engine.lean, Props/EngineDE.lean): one whole generation of DE.run / SHADE.run is in the model, deterministic given the generator draws (donor arithmetic in binary64, reflect repair, crossover mask incl. the row-zeroing quirk, fitness carry-over, which rows are evaluated, replacement), and is diffed bit-exactly against the real engines with recorded draws: deGen_next_mem — every individual of the new generation is its row parent or its row trial, and every trial is computed from the parent generation only.'
LEVEL_NOTE = 'Trusted: Lean kernel + standard axioms; the hand-written tree model is tied to the code by trace refinement on sampled runs (the model refuses a generation that does not chain, a stored individual that was never evaluated, an iterate scipy never evaluated); numerical engines and objective values are environment; monitors trusted as failing-input search. The ghost list evald (requests issued while a generation was made) is part of the model state; the tracer attributes objective calls to generations by the GSC consults between them.'
TECHNIQUE = "Lean 4 theorems (inductive invariants of the tree machine Tree.step, proved for all configurations and event sequences) tied to the code by trace refinement (Tree.step re-executes real runs; engine generations replayed bit-exactly by the engine model) + direct monitors as failing-input search"
RULE = "case = one traced run of a random configuration (1-3 levels, engine per level from the full list, every shipped GSC/LSC kind plus user-defined ones, both stock sprout mechanisms and user-composed chains, hibernation on/off, both directions, decimal boxes, optional cutoff/precision/stats wrappers, shared or per-level problems); non-trivial = run with >= 2 demes and >= 2 metaepochs; distinct by configuration hash"
ASSUMPTIONS = ["objective is deterministic and never returns NaN", "runs are capped at 12 metaepochs by a user-level composite stop condition"]
FORCE = None
PID = "C11"


def _reader(rng):
    return {"gsc": {"kind": "User", "evals": int(rng.integers(200, 700)), "metaepochs": int(rng.integers(4, 9)), "look": True}, "min_generations": 2,
            "nlev": int(rng.choice([2, 2, 3])), "engines": {0: ["sea", "de", "shade", "ded", "seax"], 1: ["sea", "de", "shade", "cma"], 2: ["sea", "de", "cma"]}}


def run(ctx):
    from .. import engine

    return [
        refine.refine_batch(ctx, ctx.size(120, 1500), force=FORCE, pid=PID, name="trace-refinement(Tree.step vs DemeTree.run)"),
        runs.monitor_batch(ctx, PID, ctx.size(250, 3000), force=FORCE),
        _contracted(ctx),
        engine.slice_engine(ctx, ctx.rng(81), ctx.size(250, 3000), only="C11/"),
        fault_chain(ctx, ctx.size(40, 500)),
        # a user-defined stop condition that reads populations, histories and centroids at EVERY consult — also
        # between two generations of a running metaepoch: reading changes nothing
        refine.refine_batch(ctx, ctx.size(30, 300), salt=55, force=_reader, pid=PID, name="trace-refinement(a stop condition that reads the demes between generations)"),
        runs.monitor_batch(ctx, PID, ctx.size(50, 500), salt=57, name="traced-runs-monitor-C11(a stop condition that reads the demes between generations)", force=_reader),
    ]


class InjectedFault(Exception):
    """raised by the objective at a chosen call made inside run_metaepoch"""


class LoggingFaulty(runs.CountingObjective):
    holder = None

    def __call__(self, x):
        h = self.holder
        if h["in_me"]:
            h["left"] -= 1
            if h["left"] == 0:
                h["faults"] += 1
                raise InjectedFault("objective failed")
        v = super().__call__(x)
        h["log"].append((tuple(float(t) for t in x), float(v)))
        return v


def _fault_chain_worker(args):
    """the objective fails once or twice in the middle of a metaepoch (2nd or later generation included); the
    caller survives and goes on stepping.  Afterwards every recorded generation must still be bred from the
    recorded generation before it: a member is a member of that generation, or was evaluated after it was complete."""
    spec, first, second = args
    import pyhms.tree as T
    from pyhms.config import TreeConfig

    from ..common import RunTimeout, is_env_crash, run_limit

    holder = {"in_me": False, "left": first, "faults": 0, "log": []}
    found = []
    try:
        with run_limit():
            o = runs.build(spec, None, plain="callable")
            for r in o["recs"]:
                r.__class__ = LoggingFaulty
                r.holder = holder
            opts = {"random_seed": spec["seed"], "hibernation": spec["hibernation"]}
            tree = T.DemeTree(TreeConfig(o["levels"], o["gsc"], o["sm"], options=opts, config_class_to_deme_class=o["custom"]))
            orig = tree.run_metaepoch

            def rm():
                holder["in_me"] = True
                try:
                    return orig()
                finally:
                    holder["in_me"] = False

            tree.run_metaepoch = rm
            steps = 0
            while steps < spec["max_steps"]:
                try:
                    if tree._gsc(tree):
                        break
                    tree.run_step()
                except InjectedFault:
                    holder["in_me"] = False
                    if holder["faults"] == 1:
                        holder["left"] = second
                steps += 1
            when = {}
            for k, e in enumerate(holder["log"]):
                when.setdefault(e, []).append(k)
            for _, d in tree.all_demes:
                if type(d).__name__ not in ("EADeme", "DEDeme", "SHADEDeme", "UserEADeme", "UserDEDeme"):
                    continue
                hist = [[(tuple(float(t) for t in i.genome), float(i.fitness)) for i in g] for g in d.history]
                for j in range(1, len(hist)):
                    a, b = hist[j - 1], hist[j]
                    ta = [when[x][0] for x in a if x in when]
                    if not ta:
                        continue
                    done = max(ta)  # the generation before was complete no earlier than this call
                    aset = set(a)
                    for x in b:
                        if x in aset:
                            continue
                        if x not in when or when[x][-1] <= done:
                            found.append(f"deme {d.id} ({type(d).__name__}), recorded generation {j}: the individual {x} is not a member of recorded generation {j - 1} and was not evaluated after that generation was complete ({holder['faults']} injected fault(s) in the run)")
                            break
                    if found:
                        break
                if found:
                    break
    except RunTimeout as e:
        return {"status": "env", "detail": str(e)}
    except Exception as e:  # noqa: BLE001
        return {"status": "env" if (is_env_crash(e) or holder["faults"]) else "crash", "detail": f"{type(e).__name__}: {e}", "found": found, "faults": holder["faults"]}
    return {"status": "ok", "found": found, "faults": holder["faults"]}


def fault_chain(ctx, n):
    from ..common import Slice, pmap

    sl = Slice("objective fails in the middle of a metaepoch; the run goes on (every recorded generation bred from the recorded one before it)")
    n = ctx.boost(n) if hasattr(ctx, "boost") else n
    rng = ctx.rng(67)
    args = []
    pop = ["sea", "de", "shade", "ded", "seax", "xde"]
    for _ in range(n):
        spec = runs.rand_spec(rng, nlev=int(rng.choice([1, 1, 2])), engines={0: pop, 1: pop}, min_generations=2, objective=str(rng.choice(["four", "sphere"])),
                              gsc={"kind": "MetaepochLimit", "limit": 7}, max_steps=7, cutoff=None, precision_wrapper=None, use_cache=False)
        args.append((spec, int(rng.integers(3, 60)), int(rng.integers(3, 60))))
    for (spec, a, b), r in zip(args, pmap(_fault_chain_worker, args, chunksize=2)):
        for m in r.get("found", []):
            sl.violations.append({"signature": "C11/chain-broken-after-a-failed-metaepoch", "detail": m, "replay": {"spec": spec, "faults_at": [a, b]}})
        if r["status"] == "env":
            sl.skipped += 1
            continue
        if r["status"] == "crash":
            sl.violations.append({"signature": "C11/run-crashed", "detail": r["detail"], "replay": {"spec": spec}})
            continue
        sl.cases += 1
        sl.count(f"faults:{r['faults']}")
        if r["faults"]:
            sl.nontrivial.add(runs.spec_id(spec))
    if args:
        sl.sample(runs.describe(args[0][0]))
    return sl


def _contracted(ctx):
    """engine-level generations on contracted populations (what a deme looks like after ~100 generations):
    every individual handed back is an individual of the preceding generation or was evaluated while this
    generation was made"""
    from . import c02

    sl = c02.slice_contracted(ctx, ctx.rng(33), ctx.size(300, 4000), only="C11/")
    sl.name = "engine-runs-on-contracted-populations(each individual from the preceding generation or freshly evaluated)"
    return sl


def search(ctx, broken):
    return runs.monitor_batch(ctx, PID, 500, salt=97, force=FORCE).violations


def replay(data):
    spec = data["violation"]["replay"]["spec"]
    _, res = runs.monitored_run(spec, {PID})
    for v in res.get(PID, []):
        print(v["signature"], v["detail"])
    return not res.get(PID)
