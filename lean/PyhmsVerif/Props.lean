import PyhmsVerif.Props.C17
import PyhmsVerif.Props.C16
import PyhmsVerif.Props.C12
