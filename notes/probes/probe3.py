import numpy as np, random, sys, warnings
warnings.filterwarnings("ignore")
from pyhms import *
from pyhms.config import *
from pyhms.demes.single_pop_eas.sea import *
from pyhms.tree import DemeTree
from pyhms.sprout import *

# C03: minimize nfev vs calls
for maxfun in [1,5,14,15,25,100,333]:
    calls=[]
    def f(x):
        calls.append(np.array(x,copy=True)); return float(np.sum(np.asarray(x)**2))
    r=minimize(f,[(-3.0,5.0),(-2.0,7.0)],maxfun=maxfun,seed=1)
    print("maxfun",maxfun,"nfev",r.nfev,"calls",len(calls),"fun",r.fun,"min seen",min(float(np.sum(c**2)) for c in calls), "nit", r.nit)
