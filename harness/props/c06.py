"""C06 — Deme lifecycle: one metaepoch per step while active; stopping is final

Theorems: lean/PyhmsVerif/Props/C06.lean (about the tree model lean/PyhmsVerif/Model/Tree.lean).
Tie to /repo: trace refinement — real runs are re-executed by `Tree.step`, state dumps and
sprout-stage outputs are diffed (harness/refine.py); only disagreements that bear on this
property count.  Direct monitor of the property on the same kind of runs (harness/monitors.py).
"""
from .. import refine, runs

MODULE = 'PyhmsVerif.Props.C06Step'
THEOREMS = ['C06.C06_absorbing', 'C06.C06_running_frame', 'C06.C06_only_active_runs', 'C06.C06_new_runs_next', 'C06.C06_one_metaepoch', 'C06.C06_one_metaepoch_reachable', 'C06.run_phase', 'C06.schedule_nodup']
LEVEL = 'proof'
LEVEL_TEXT = 'Theorems for every later state of every accepted run (positional, independent of ids): an inactive deme is never reactivated and its history and counter never change; histories are append-only; only an active deme can run; generations never create demes or touch the metaepoch counter; demes created by a round are active, start at the current metaepoch and cannot run before the next step. Tie: trace refinement (schedule, generation counts, LSC/GSC/CMA-stop consequences are computed by the model and diffed) + direct monitor. C06_one_metaepoch: from any boundary state with pairwise distinct ids (every reachable state, C07_wf), after the loop-head consult came out false, ANY accepted sequence of generation / local-search events that reaches the end of run_metaepoch leaves every scheduled deme (active and awake when the step began) with exactly one more recorded metaepoch and every other deme unchanged (run_phase, schedule_nodup).'
LEVEL_NOTE = 'Trusted: Lean kernel + standard axioms; the hand-written tree model (Tree.step) is tied to DemeTree.run by trace refinement on sampled runs (every run is re-executed by the model, dumps and sprout stages diffed); numerical engines (NumPy RNG, cma, scipy), objective values and user-defined stop-condition verdicts are environment; monitors trusted as failing-input search. The equivalence inactive <-> (LSC verdict or GSC verdict or engine self-stop) is computed by the model per engine and checked by refinement, not stated as a separate theorem; exactly-one-metaepoch-per-step is checked by refinement and monitor.'
TECHNIQUE = "trace refinement against the Lean tree model (Tree.step re-executes real runs) + direct monitors"
RULE = "case = one traced run of a random configuration (1-3 levels, engine per level from the full list, every shipped GSC/LSC kind plus user-defined ones, both stock sprout mechanisms and user-composed chains, hibernation on/off, both directions, decimal boxes, optional cutoff/precision/stats wrappers, shared or per-level problems); non-trivial = run with >= 2 demes and >= 2 metaepochs; distinct by configuration hash"
ASSUMPTIONS = ["objective is deterministic and never returns NaN", "runs are capped at 12 metaepochs by a user-level composite stop condition"]
FORCE = None
PID = "C06"


def run(ctx):
    return [
        refine.refine_batch(ctx, ctx.size(120, 1500), force=FORCE, pid=PID, name="trace-refinement(Tree.step vs DemeTree.run)"),
        runs.monitor_batch(ctx, PID, ctx.size(250, 3000), force=FORCE),
    ]


def search(ctx, broken):
    return runs.monitor_batch(ctx, PID, 500, salt=97, force=FORCE).violations


def replay(data):
    spec = data["violation"]["replay"]["spec"]
    _, res = runs.monitored_run(spec, {PID})
    for v in res.get(PID, []):
        print(v["signature"], v["detail"])
    return not res.get(PID)
