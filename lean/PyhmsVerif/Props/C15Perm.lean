import PyhmsVerif.Props.C15Full
import Mathlib.Algebra.Order.Ring.Rat
/-!
# C15 — the clustering does not depend on the order of its input

`NearestBetterClustering` first orders its input: a stable sort by genome (lexicographic), then
a stable best-first sort by fitness, then truncation.  `kept_perm_invariant`: for **any** two
input lists that are permutations of each other the kept, best-first population — the list the
nearest-better search, the threshold and the cut are computed on — is the same list of
individuals, whatever the tie pattern (individuals that tie in fitness *and* genome are equal).
With `C15.cluster_eq_spec` (the seeds are the declarative set of cluster seeds of the kept
population) this is the permutation invariance of the clustering: the only other input of the
definition is the distance between individuals.  (This is what finding D16 violated: the order
of equal-fitness individuals used to be the input order.)
-/
namespace C15Perm
open NBC Select

/-! ### lexicographic order on genomes -/

theorem lexLt_irrefl : ∀ a : List Rat, lexLt a a = false
  | [] => rfl
  | x :: xs => by simp [lexLt, lexLt_irrefl xs]

theorem lexLt_trans : ∀ {a b c : List Rat}, lexLt a b = true → lexLt b c = true → lexLt a c = true
  | [], [], _, h, _ => by simp [lexLt] at h
  | [], _ :: _, [], _, h => by simp [lexLt] at h
  | [], _ :: _, _ :: _, _, _ => by simp [lexLt]
  | _ :: _, [], _, h, _ => by simp [lexLt] at h
  | _ :: _, _ :: _, [], _, h => by simp [lexLt] at h
  | x :: xs, y :: ys, z :: zs, h1, h2 => by
    simp only [lexLt] at h1 h2 ⊢
    by_cases hxy : x < y
    · by_cases hyz : y < z
      · simp [lt_trans hxy hyz]
      · simp only [hyz, ↓reduceIte] at h2
        by_cases hzy : z < y
        · simp [hzy] at h2
        · have : y = z := le_antisymm (not_lt.mp hzy) (not_lt.mp hyz)
          subst this
          simp [hxy]
    · simp only [hxy, ↓reduceIte] at h1
      by_cases hyx : y < x
      · simp [hyx] at h1
      · have : x = y := le_antisymm (not_lt.mp hyx) (not_lt.mp hxy)
        subst this
        simp only [hyx, ↓reduceIte] at h1
        by_cases hxz : x < z
        · simp [hxz]
        · simp only [hxz, ↓reduceIte] at h2 ⊢
          by_cases hzx : z < x
          · simp [hzx] at h2
          · simp only [hzx, ↓reduceIte] at h2 ⊢
            exact lexLt_trans h1 h2

theorem lexLt_asymm {a b : List Rat} (h : lexLt a b = true) : lexLt b a = false := by
  by_contra hc
  have hb : lexLt b a = true := by simpa using hc
  have := lexLt_trans h hb
  rw [lexLt_irrefl] at this
  exact absurd this (by simp)

theorem lexLt_total : ∀ {a b : List Rat}, lexLt a b = false → lexLt b a = false → a = b
  | [], [], _, _ => rfl
  | [], _ :: _, h, _ => by simp [lexLt] at h
  | _ :: _, [], _, h => by simp [lexLt] at h
  | x :: xs, y :: ys, h1, h2 => by
    simp only [lexLt] at h1 h2
    by_cases hxy : x < y
    · simp [hxy] at h1
    · by_cases hyx : y < x
      · simp [hyx] at h2
      · have : x = y := le_antisymm (not_lt.mp hyx) (not_lt.mp hxy)
        subst this
        simp only [hxy, ↓reduceIte] at h1 h2
        rw [lexLt_total h1 h2]

/-! ### the order the two sorts establish -/

/-- `a` comes strictly before `b`: strictly better, or equal fitness and lexicographically
smaller genome -/
def Before (mx : Bool) (a b : Ind) : Prop :=
  better mx a b = true ∨ (a.fit = b.fit ∧ lexLt a.genome b.genome = true)

/-- `b` does not come strictly before `a` -/
def Le (mx : Bool) (a b : Ind) : Prop := ¬ Before mx b a

theorem le_antisymm (mx : Bool) (a b : Ind) (h1 : Le mx a b) (h2 : Le mx b a) : a = b := by
  simp only [Le, Before, not_or, not_and, Bool.not_eq_true] at h1 h2
  have hf : a.fit = b.fit := by
    have e1 : Fit.worse mx a.fit b.fit = false := by simpa [better, Select.better, worse] using h1.1
    have e2 : Fit.worse mx b.fit a.fit = false := by simpa [better, Select.better, worse] using h2.1
    cases mx
    · simp only [Fit.worse, Bool.false_eq_true, ↓reduceIte] at e1 e2
      exact (Fit.eq_of_not_lt e1 e2).symm
    · simp only [Fit.worse, ↓reduceIte] at e1 e2
      exact Fit.eq_of_not_lt e1 e2
  have hg : a.genome = b.genome := lexLt_total (h2.2 hf) (h1.2 hf.symm)
  cases a; cases b
  simp only at hf hg
  subst hf; subst hg; rfl

/-- non-strictly ascending in the genome: no later element is lexicographically smaller -/
def LexSorted (l : List (Nat × Ind)) : Prop :=
  l.Pairwise fun a b => lexLt b.2.genome a.2.genome = false

theorem insertLex_sorted (a : Nat × Ind) (l : List (Nat × Ind)) (h : LexSorted l) : LexSorted (insertLex a l) := by
  induction l with
  | nil => simp [insertLex, LexSorted]
  | cons b t ih =>
    simp only [LexSorted, List.pairwise_cons] at h
    obtain ⟨hb, ht⟩ := h
    simp only [insertLex]
    split
    · rename_i hab
      simp only [LexSorted, List.pairwise_cons, List.mem_cons]
      refine ⟨?_, hb, ht⟩
      intro x hx
      rcases hx with rfl | hx
      · exact lexLt_asymm hab
      · by_contra hc
        have hxa : lexLt x.2.genome a.2.genome = true := by simpa using hc
        have := lexLt_trans hxa hab
        rw [hb x hx] at this
        exact absurd this (by simp)
    · rename_i hab
      simp only [LexSorted, List.pairwise_cons]
      refine ⟨?_, ih ht⟩
      intro y hy
      have hy' : y ∈ a :: t := (C15.insertLex_perm a t).mem_iff.mp hy
      rcases List.mem_cons.mp hy' with rfl | hyt
      · simpa using hab
      · exact hb y hyt

theorem sortLex_sorted (l : List (Nat × Ind)) : LexSorted (sortLex l) := by
  have key : ∀ (l acc : List (Nat × Ind)), LexSorted acc → LexSorted (l.foldl (fun acc a => insertLex a acc) acc) := by
    intro l
    induction l with
    | nil => intro acc h; exact h
    | cons a t ih => intro acc h; exact ih _ (insertLex_sorted a acc h)
  exact key l [] (by simp [LexSorted])

/-- best first, ties in genome order -/
def FullSorted (mx : Bool) (l : List (Nat × Ind)) : Prop := l.Pairwise fun a b => Le mx a.2 b.2

theorem insertDesc_full (mx : Bool) (a : Nat × Ind) (l : List (Nat × Ind)) (h : FullSorted mx l)
    (hlex : ∀ b ∈ l, lexLt b.2.genome a.2.genome = false) : FullSorted mx (insertDesc mx a l) := by
  induction l with
  | nil => simp [insertDesc, FullSorted]
  | cons b t ih =>
    simp only [FullSorted, List.pairwise_cons] at h
    obtain ⟨hb, ht⟩ := h
    simp only [insertDesc]
    split
    · rename_i hw
      -- b is strictly better than a: b stays in front
      simp only [FullSorted, List.pairwise_cons]
      refine ⟨?_, ih ht (fun x hx => hlex x (List.mem_cons_of_mem _ hx))⟩
      intro y hy
      have hy' : y ∈ a :: t := (insertDesc_perm mx a t).mem_iff.mp hy
      rcases List.mem_cons.mp hy' with rfl | hyt
      · -- Le b a : a does not come before b
        simp only [Le, Before, not_or, not_and, Bool.not_eq_true]
        constructor
        · have := Fit.worse_asymm hw
          simpa [better, Select.better, worse] using this
        · intro he
          simp only [worse] at hw
          rw [he, Fit.worse_irrefl] at hw
          exact absurd hw (by simp)
      · exact hb y hyt
    · rename_i hw
      have hw' : worse mx a.2 b.2 = false := by simpa using hw
      simp only [FullSorted, List.pairwise_cons, List.mem_cons]
      refine ⟨?_, hb, ht⟩
      intro y hy
      simp only [Le, Before, not_or, not_and, Bool.not_eq_true]
      have hlexy : lexLt y.2.genome a.2.genome = false := hlex y (by
        rcases hy with rfl | hy
        · simp
        · simp [hy])
      refine ⟨?_, fun _ => hlexy⟩
      rcases hy with rfl | hy
      · simpa [better, Select.better, worse] using hw'
      · -- worse a y = false from worse a b = false and Le b y
        have hby := hb y hy
        simp only [Le, Before, not_or, not_and, Bool.not_eq_true] at hby
        have e1 : Fit.worse mx b.2.fit y.2.fit = false := by simpa [better, Select.better, worse] using hby.1
        have e2 : Fit.worse mx a.2.fit b.2.fit = false := by simpa [worse] using hw'
        have := Fit.not_worse_trans (mx := mx) (a := y.2.fit) (b := b.2.fit) (c := a.2.fit) e1 e2
        simpa [better, Select.better, worse] using this

theorem sortDesc_full (mx : Bool) : ∀ (l : List (Nat × Ind)), LexSorted l → FullSorted mx (sortDesc mx l)
  | [], _ => by simp [sortDesc, FullSorted]
  | a :: t, h => by
    simp only [LexSorted, List.pairwise_cons] at h
    obtain ⟨ha, ht⟩ := h
    simp only [sortDesc]
    refine insertDesc_full mx a _ (sortDesc_full mx t ht) ?_
    intro b hb
    exact ha b ((sortDesc_perm mx t).mem_iff.mp hb)

/-- the individuals in the order the two sorts leave them depend only on the multiset of individuals -/
theorem sorted_inds_eq (mx : Bool) (l l' : List (Nat × Ind)) (h : (l.map (·.2)).Perm (l'.map (·.2))) :
    (sortDesc mx (sortLex l)).map (·.2) = (sortDesc mx (sortLex l')).map (·.2) := by
  have hp : ∀ k : List (Nat × Ind), ((sortDesc mx (sortLex k)).map (·.2)).Perm (k.map (·.2)) := fun k =>
    ((sortDesc_perm mx (sortLex k)).trans (C15.sortLex_perm k)).map _
  have hs : ∀ k : List (Nat × Ind), ((sortDesc mx (sortLex k)).map (·.2)).Pairwise (Le mx) := fun k => by
    rw [List.pairwise_map]
    exact sortDesc_full mx _ (sortLex_sorted k)
  exact List.Perm.eq_of_pairwise (fun a b _ _ h1 h2 => le_antisymm mx a b h1 h2) (hs l) (hs l')
    ((hp l).trans (h.trans (hp l').symm))

theorem zipIdx_inds (pop : List Ind) : ((List.zipIdx pop).map fun p => (p.2, p.1)).map (·.2) = pop := by
  simp only [List.map_map]
  have : ((fun (p : Nat × Ind) => p.2) ∘ fun (p : Ind × Nat) => (p.2, p.1)) = fun p => p.1 := by
    funext p; rfl
  rw [this]
  exact List.zipIdx_map_fst 0 pop |> fun h => by simpa using h

/-- **C15, permutation invariance.**  For any two populations that are permutations of each other
— any tie pattern, any direction, any truncation — the kept, best-first population the clustering
computes on is the same list of individuals. -/
theorem kept_perm_invariant (mx : Bool) (pop pop' : List Ind) (m : Nat) (h : pop.Perm pop') :
    ((sortDesc mx (sortLex ((List.zipIdx pop).map fun p => (p.2, p.1)))).take m).map (·.2) =
    ((sortDesc mx (sortLex ((List.zipIdx pop').map fun p => (p.2, p.1)))).take m).map (·.2) := by
  rw [List.map_take, List.map_take]
  congr 1
  apply sorted_inds_eq
  rw [zipIdx_inds, zipIdx_inds]
  exact h

/-- non-vacuity / the D16 scenario: three individuals of equal fitness, two input orders, one result -/
example : ((sortDesc false (sortLex ((List.zipIdx [(⟨[2], .fin 1⟩ : Ind), ⟨[1], .fin 1⟩, ⟨[3], .fin 1⟩]).map fun p => (p.2, p.1)))).take 2).map (·.2)
    = [⟨[1], .fin 1⟩, ⟨[2], .fin 1⟩] := by decide +kernel

end C15Perm
