import PyhmsVerif.Proofs.TreeBasic
/-!
Effect lemmas for the four sub-steps of `Tree.step`.
-/
namespace Tree

/-- functions on demes that only let a deme "grow": same identity, activity can only
drop, history is extended, the counter does not decrease -/
structure Grow (f : Deme → Deme) : Prop where
  id : ∀ d, (f d).id = d.id
  level : ∀ d, (f d).level = d.level
  startedAt : ∀ d, (f d).startedAt = d.startedAt
  parent : ∀ d, (f d).parent = d.parent
  seed : ∀ d, (f d).seed = d.seed
  active : ∀ d, (f d).active = true → d.active = true
  hist : ∀ d, ∃ ext, (f d).hist = d.hist ++ ext
  counter : ∀ d, d.counter ≤ (f d).counter
  hib : ∀ d, (f d).hib = d.hib
  children : ∀ d, (f d).children = d.children

theorem Grow.demeStep {f : Deme → Deme} (hf : Grow f) (d : Deme) (ha : d.active = true) : DemeStep d (f d) :=
  ⟨hf.id d, hf.level d, hf.startedAt d, hf.parent d, hf.seed d, hf.active d,
    fun h => by simp [ha] at h, hf.hist d, hf.counter d⟩

theorem Grow.comp {f g : Deme → Deme} (hf : Grow f) (hg : Grow g) : Grow (f ∘ g) := by
  refine ⟨fun d => (hf.id _).trans (hg.id d), fun d => (hf.level _).trans (hg.level d),
    fun d => (hf.startedAt _).trans (hg.startedAt d), fun d => (hf.parent _).trans (hg.parent d),
    fun d => (hf.seed _).trans (hg.seed d), fun d h => hg.active d (hf.active _ h), ?_,
    fun d => Nat.le_trans (hg.counter d) (hf.counter _), fun d => (hf.hib _).trans (hg.hib d),
    fun d => (hf.children _).trans (hg.children d)⟩
  intro d
  obtain ⟨e1, h1⟩ := hg.hist d
  obtain ⟨e2, h2⟩ := hf.hist (g d)
  exact ⟨e1 ++ e2, by simp [Function.comp, h2, h1, List.append_assoc]⟩

theorem grow_bump (k : Nat) : Grow (bump k) :=
  ⟨fun _ => rfl, fun _ => rfl, fun _ => rfl, fun _ => rfl, fun _ => rfl, fun _ h => h,
    fun _ => ⟨[], by simp [bump]⟩, fun _ => by simp [bump], fun _ => rfl, fun _ => rfl⟩

theorem grow_append (gens : List Gen) (b : Bool) :
    Grow (fun d => { d with hist := d.hist ++ [gens], active := d.active && b }) :=
  ⟨fun _ => rfl, fun _ => rfl, fun _ => rfl, fun _ => rfl, fun _ => rfl,
    fun d h => by simp only [Bool.and_eq_true] at h; exact h.1,
    fun _ => ⟨[gens], rfl⟩, fun _ => Nat.le_refl _, fun _ => rfl, fun _ => rfl⟩

theorem grow_deact (b : Bool) : Grow (fun d => { d with active := d.active && b }) :=
  ⟨fun _ => rfl, fun _ => rfl, fun _ => rfl, fun _ => rfl, fun _ => rfl,
    fun d h => by simp only [Bool.and_eq_true] at h; exact h.1,
    fun _ => ⟨[], by simp⟩, fun _ => Nat.le_refl _, fun _ => rfl, fun _ => rfl⟩

theorem grow_local (n : Nat) (gens : List Gen) :
    Grow (fun d => { d with counter := d.counter + n, hist := d.hist ++ [gens], active := false }) :=
  ⟨fun _ => rfl, fun _ => rfl, fun _ => rfl, fun _ => rfl, fun _ => rfl,
    fun d h => by simp at h, fun _ => ⟨[gens], rfl⟩, fun _ => by simp, fun _ => rfl, fun _ => rfl⟩

/-- updating the first deme with `id` by a growing function, when that deme is active -/
theorem grow_forall2 {f : Deme → Deme} (hf : Grow f) (id : Id) (ds : List Deme) (d0 : Deme)
    (hfind : ds.find? (·.id == id) = some d0) (ha : d0.active = true) :
    List.Forall₂ DemeStep ds (updFirst id f ds) := by
  apply updFirst_forall2
  intro d hd
  rw [hfind] at hd
  cases hd
  exact hf.demeStep d0 ha

/-- common frame of the non-sprouting steps -/
structure RunEffect (t t' : T) (id : Id) : Prop where
  cfg : t'.cfg = t.cfg
  metaepoch : t'.metaepoch = t.metaepoch
  levels : t'.levels = t.levels
  demes : List.Forall₂ DemeStep t.demes t'.demes
  gscSeenMono : t.gscSeen = true → t'.gscSeen = true
  refusedMono : t.refused = true → t'.refused = true
  log : ∃ invs : List Inv, t'.log = t.log ++ invs ∧
    ∀ i ∈ invs, ∃ lc, t.cfg.levels[i.level]? = some lc ∧ inBox lc.box i.x = true
  /-- only the deme that ran can have changed, and not its hibernation flag -/
  only : ∃ f, t'.demes = updFirst id f t.demes ∧ (∀ d, (f d).hib = d.hib) ∧ (∀ d, (f d).id = d.id) ∧
    ∃ d0, t.find id = some d0 ∧ d0.active = true
  /-- … and not its list of children -/
  onlyChildren : ∃ f, t'.demes = updFirst id f t.demes ∧ ∀ d, (f d).children = d.children ∧ (f d).id = d.id

theorem finishGen_demes {t1 t' : T} {id : Id} {lc : LevelCfg} {q : List Id} {done : Nat}
    {pending : List Gen} {gen : Gen} {g : GenEnv} {lscEnv : Option Bool}
    (h : finishGen t1 id lc q done pending gen g lscEnv = .ok t') :
    ∃ f, Grow f ∧ t'.demes = updFirst id f t1.demes ∧ t'.cfg = t1.cfg ∧ t'.metaepoch = t1.metaepoch ∧
      t'.levels = t1.levels ∧ t'.log = t1.log ∧ t'.refused = t1.refused ∧ t'.stacks = t1.stacks ∧
      (t1.gscSeen = true → t'.gscSeen = true) ∧ (∀ d, (f d).counter = d.counter) := by
  unfold finishGen at h
  split at h
  · -- lhs / sobol
    simp only [] at h
    split at h
    · simp at h
    · rename_i gv hgv
      split at h
      · simp at h
      · rename_i d2 hd2
        split at h
        · simp at h
        · rename_i lv hlv
          simp only [Except.ok.injEq] at h
          subst h
          refine ⟨(fun d => { d with active := d.active && !(gv || lv) }) ∘
              (fun d => { d with hist := d.hist ++ [pending ++ [gen]], active := d.active && true }),
            (grow_deact _).comp (grow_append (pending ++ [gen]) true), ?_, rfl, rfl, rfl, rfl, rfl, rfl, ?_, fun _ => rfl⟩
          · simp only [T.update, appendHist]
            exact updFirst_comp _ _ _ _ (fun _ => rfl)
          · intro hs; simp [T.update, appendHist, hs]
  · split at h
    · simp at h
    · rename_i gv hgv
      simp only [] at h
      split at h
      · simp only [Except.ok.injEq] at h
        subst h
        exact ⟨_, grow_append _ false, rfl, rfl, rfl, rfl, rfl, rfl, rfl, by intro hs; simp [appendHist, T.update, hs], fun _ => rfl⟩
      · split at h
        · simp only [Except.ok.injEq] at h
          subst h
          refine ⟨bump 0, grow_bump 0, by simp [updFirst_bump_zero], rfl, rfl, rfl, rfl, rfl, rfl, fun hs => hs, fun _ => by simp [bump]⟩
        · split at h
          · simp at h
          · rename_i d2 hd2
            split at h
            · simp at h
            · rename_i lv hlv
              simp only [Except.ok.injEq] at h
              subst h
              refine ⟨(fun d => { d with active := d.active && !lv }) ∘
                  (fun d => { d with hist := d.hist ++ [pending ++ [gen]], active := d.active && true }),
                (grow_deact _).comp (grow_append (pending ++ [gen]) true), ?_, rfl, rfl, rfl, rfl, rfl, rfl, ?_, fun _ => rfl⟩
              · simp only [T.update, appendHist]
                exact updFirst_comp _ _ _ _ (fun _ => rfl)
              · intro hs; simpa [T.update, appendHist] using hs

theorem prepareGen_ok {t : T} {id : Id} {q : List Id} {done : Nat} {pending : List Gen} {d : Deme} {lc : LevelCfg}
    (h : prepareGen t id = .ok (q, done, pending, d, lc)) :
    t.find id = some d ∧ d.active = true ∧ t.cfg.levels[d.level]? = some lc ∧ lc.engine ≠ .localOpt ∧
      ∃ queue cur, t.pc = .running queue cur := by
  unfold prepareGen at h
  split at h
  · rename_i queue cur hpc
    split at h
    · simp at h
    · split at h
      · simp at h
      · rename_i d' hd'
        split at h
        · simp at h
        · rename_i lc' hlc'
          split at h
          · simp at h
          · rename_i hl
            split at h
            · simp at h
            · rename_i ha
              split at h
              · simp at h
              · simp only [Except.ok.injEq, Prod.mk.injEq] at h
                obtain ⟨_, _, _, rfl, rfl⟩ := h
                refine ⟨hd', by simpa using ha, hlc', by simpa using hl, queue, cur, hpc⟩
  · simp at h

theorem stepGen_effect {t t' : T} {id : Id} {g : GenEnv} {l : Option Bool}
    (h : stepGen t id g l = .ok t') : RunEffect t t' id := by
  unfold stepGen at h
  split at h
  · simp at h
  · rename_i q done pending d lc hprep
    obtain ⟨hfind, hact, _, _, _⟩ := prepareGen_ok hprep
    simp only [] at h
    split at h
    · simp at h
    · rename_i t1 ev hev
      split at h
      · simp at h
      · have e := evalReqs_effect hev
        obtain ⟨f, hf, hd, hc, hm, hl, hlog, hr, _, hg, _⟩ := finishGen_demes h
        obtain ⟨invs, hi1, _, hi3, _⟩ := e.log
        refine ⟨hc.trans e.cfg, hm.trans e.metaepoch, hl.trans e.levels, ?_, ?_, ?_,
          ⟨invs, by rw [hlog, hi1], fun i hi => by obtain ⟨a, _, lc, h1, h2⟩ := hi3 i hi; exact ⟨lc, a ▸ h1, h2⟩⟩,
          ⟨f ∘ bump _, by rw [hd, e.demes, updFirst_comp id f (bump _) t.demes (fun _ => rfl)],
            (hf.comp (grow_bump _)).hib, (hf.comp (grow_bump _)).id, d, hfind, hact⟩,
          ⟨f ∘ bump _, by rw [hd, e.demes, updFirst_comp id f (bump _) t.demes (fun _ => rfl)],
            fun x => ⟨(hf.comp (grow_bump _)).children x, (hf.comp (grow_bump _)).id x⟩⟩⟩
        · rw [hd, e.demes, updFirst_comp id f (bump _) t.demes (fun _ => rfl)]
          exact grow_forall2 (hf.comp (grow_bump _)) id t.demes d hfind hact
        · intro hs; exact hg (by rw [e.gscSeen]; exact hs)
        · intro hs; rw [hr]; exact e.refusedMono hs

theorem stepLocal_effect {t t' : T} {id : Id} {reqs : List Req} {its : List Ind} {nfev : Nat}
    (h : stepLocal t id reqs its nfev = .ok t') : RunEffect t t' id := by
  unfold stepLocal at h
  split at h
  · split at h
    · simp at h
    · split at h
      · simp at h
      · rename_i d hfind
        split at h
        · simp at h
        · split at h
          · simp at h
          · split at h
            · simp at h
            · rename_i ha
              split at h
              · simp at h
              · rename_i t1 ev hev
                split at h
                · simp at h
                · simp only [] at h
                  split at h
                  · simp at h
                  · simp only [Except.ok.injEq] at h
                    subst h
                    have e := evalReqs_effect hev
                    obtain ⟨invs, hi1, _, hi3, _⟩ := e.log
                    refine ⟨e.cfg, e.metaepoch, e.levels, ?_, fun hs => by simpa [T.update, e.gscSeen] using hs,
                      fun hs => by simpa [T.update] using e.refusedMono hs,
                      ⟨invs, by simpa [T.update] using hi1, fun i hi => by obtain ⟨a, _, lc, h1, h2⟩ := hi3 i hi; exact ⟨lc, a ▸ h1, h2⟩⟩,
                      ⟨_, by simp only [T.update]; rw [e.demes, updFirst_comp id _ (bump _) t.demes (fun _ => rfl)],
                        ((grow_local _ _).comp (grow_bump _)).hib, ((grow_local _ _).comp (grow_bump _)).id, d, hfind, by simpa using ha⟩,
                      ⟨_, by simp only [T.update]; rw [e.demes, updFirst_comp id _ (bump _) t.demes (fun _ => rfl)],
                        fun x => ⟨((grow_local _ _).comp (grow_bump _)).children x, ((grow_local _ _).comp (grow_bump _)).id x⟩⟩⟩
                    simp only [T.update]
                    rw [e.demes, updFirst_comp id _ (bump _) t.demes (fun _ => rfl)]
                    exact grow_forall2 ((grow_local _ _).comp (grow_bump _)) id t.demes d hfind (by simpa using ha)
  · simp at h

theorem stepLoop_effect {t t' : T} {ge : Option Bool} (h : stepLoop t ge = .ok t') :
    t'.cfg = t.cfg ∧ t'.demes = t.demes ∧ t'.levels = t.levels ∧ t'.log = t.log ∧ t'.refused = t.refused ∧
    t'.stacks = t.stacks ∧ (t.gscSeen = true → t'.gscSeen = true) ∧
    ((t'.metaepoch = t.metaepoch ∧ t'.pc = .done ∧ t'.gscSeen = true ∧ gscEval t ge t.cfg.gsc = some true) ∨
     (t'.metaepoch = t.metaepoch + 1 ∧ t.gscSeen = false ∧ t'.gscSeen = false ∧
        gscEval t ge t.cfg.gsc = some false)) := by
  unfold stepLoop at h
  split at h
  · split at h
    · simp at h
    · rename_i hg
      simp only [Except.ok.injEq] at h
      subst h
      exact ⟨rfl, rfl, rfl, rfl, rfl, rfl, fun _ => rfl, Or.inl ⟨rfl, rfl, rfl, hg⟩⟩
    · rename_i hg
      split at h
      · simp at h
      · rename_i hs
        simp only [Except.ok.injEq] at h
        subst h
        have hs' : t.gscSeen = false := by simpa using hs
        exact ⟨rfl, rfl, rfl, rfl, rfl, rfl, fun hx => by simp [hs'] at hx, Or.inr ⟨rfl, hs', hs', hg⟩⟩
  · simp at h

end Tree

namespace Tree

/-- invariant: a deme's level is the length of its id path -/
def LvlId (t : T) : Prop := ∀ d ∈ t.demes, d.level = d.id.length

theorem forall2_mem_right {R : Deme → Deme → Prop} {as bs : List Deme} (h : List.Forall₂ R as bs) :
    ∀ b ∈ bs, ∃ a ∈ as, R a b := by
  induction h with
  | nil => intro b hb; simp at hb
  | cons hab _ ih =>
    intro b hb
    rcases List.mem_cons.mp hb with rfl | hb
    · exact ⟨_, by simp, hab⟩
    · obtain ⟨a, ha, hr⟩ := ih b hb
      exact ⟨a, List.mem_cons_of_mem _ ha, hr⟩

theorem forall2_mem_left {R : Deme → Deme → Prop} {as bs : List Deme} (h : List.Forall₂ R as bs) :
    ∀ a ∈ as, ∃ b ∈ bs, R a b := by
  induction h with
  | nil => intro b hb; simp at hb
  | cons hab _ ih =>
    intro a ha
    rcases List.mem_cons.mp ha with rfl | ha
    · exact ⟨_, by simp, hab⟩
    · obtain ⟨b, hb, hr⟩ := ih a ha
      exact ⟨b, List.mem_cons_of_mem _ hb, hr⟩

theorem find_some_mem {ds : List Deme} {id : Id} {d : Deme} (h : ds.find? (·.id == id) = some d) :
    d ∈ ds ∧ d.id = id := by
  have := List.find?_some h
  exact ⟨List.mem_of_find?_eq_some h, by simpa using this⟩

theorem forall2_length {α β : Type} {R : α → β → Prop} {l1 : List α} {l2 : List β}
    (h : List.Forall₂ R l1 l2) : l1.length = l2.length := by
  induction h with
  | nil => rfl
  | cons _ _ ih => simp [ih]

theorem forall2_mem_right_gen {α β : Type} {R : α → β → Prop} {l1 : List α} {l2 : List β}
    (h : List.Forall₂ R l1 l2) : ∀ b ∈ l2, ∃ a ∈ l1, R a b := by
  induction h with
  | nil => intro b hb; simp at hb
  | cons hab _ ih =>
    intro b hb
    rcases List.mem_cons.mp hb with rfl | hb
    · exact ⟨_, by simp, hab⟩
    · obtain ⟨a, ha, hr⟩ := ih b hb
      exact ⟨a, List.mem_cons_of_mem _ ha, hr⟩

theorem forall2_imp {α β : Type} {R S : α → β → Prop} {l1 : List α} {l2 : List β}
    (h : ∀ a b, R a b → S a b) (hr : List.Forall₂ R l1 l2) : List.Forall₂ S l1 l2 := by
  induction hr with
  | nil => exact .nil
  | cons hab _ ih => exact .cons (h _ _ hab) ih

/-- what a sprouting batch does -/
structure SproutEffect (t t' : T) (flat : List (Id × Ind)) : Prop where
  cfg : t'.cfg = t.cfg
  metaepoch : t'.metaepoch = t.metaepoch
  pc : t'.pc = t.pc
  gscSeen : t'.gscSeen = t.gscSeen
  refusedMono : t.refused = true → t'.refused = true
  lvlId : LvlId t → LvlId t'
  log : ∃ invs : List Inv, t'.log = t.log ++ invs ∧
    ∀ i ∈ invs, ∃ lc, t.cfg.levels[i.level]? = some lc ∧ inBox lc.box i.x = true
  demes : ∃ old nd, t'.demes = old ++ nd ∧ List.Forall₂ SameBC t.demes old ∧
    List.Forall₂ (fun (p : Id × Ind) (d : Deme) =>
      d.active = true ∧ d.hib = false ∧ d.startedAt = t.metaepoch ∧ d.seed = some p.2 ∧
      d.parent = some p.1 ∧ (LvlId t → d.level = p.1.length + 1)) flat nd

theorem createDeme_lvlId {t t' : T} {p : Deme} {seed : Option Ind} {env : NewEnv}
    (h : createDeme t (some p) seed env = .ok t') (hp : p.level = p.id.length) (hl : LvlId t) : LvlId t' := by
  obtain ⟨old, d, hd, hf, _, _, _, hlev, hid, _⟩ := (createDeme_effect h).demes
  intro x hx
  rw [hd] at hx
  rcases List.mem_append.mp hx with hx | hx
  · obtain ⟨a, ha, hr⟩ := forall2_mem_right hf x hx
    obtain ⟨cs, rfl⟩ := hr
    exact hl a ha
  · simp only [List.mem_singleton] at hx
    subst hx
    simp only [] at hlev hid
    rw [hlev, hid, nextChildId, hp]
    simp

theorem doSprout_effect {t t' : T} {flat : List (Id × Ind)} {news : List NewEnv}
    (h : doSprout t flat news = .ok t') : SproutEffect t t' flat := by
  induction flat generalizing t news with
  | nil =>
    cases news with
    | nil =>
      simp only [doSprout, Except.ok.injEq] at h
      subst h
      exact ⟨rfl, rfl, rfl, rfl, fun h => h, fun h => h, ⟨[], by simp, by simp⟩, t.demes, [], by simp, forall2_sameBC_refl _, .nil⟩
    | cons e es => simp [doSprout] at h
  | cons ps rest ih =>
    obtain ⟨pid, s⟩ := ps
    cases news with
    | nil => simp [doSprout] at h
    | cons e es =>
      simp only [doSprout] at h
      split at h
      · simp at h
      · rename_i p' hfind
        split at h
        · simp at h
        · rename_i t1 hc
          have ce := createDeme_effect hc
          have ie := ih h
          obtain ⟨old1, d1, hd1, hf1, _, _, _, hlev1, _, hact1, hhib1, hst1, hseed1, hpar1, _, invs1, hlog1, _, hbox1, _⟩ := ce.demes
          obtain ⟨invs2, hlog2, hbox2⟩ := ie.log
          obtain ⟨old2, nd2, hd2, hf2, hnew2⟩ := ie.demes
          have hpm := find_some_mem (show t.demes.find? (·.id == pid) = some p' from hfind)
          refine ⟨ie.cfg.trans ce.cfg, ie.metaepoch.trans ce.metaepoch, ie.pc.trans ce.pc,
            ie.gscSeen.trans ce.gscSeen, fun hr => ie.refusedMono (ce.refusedMono hr), ?_, ?_, ?_⟩
          · intro hl
            exact ie.lvlId (createDeme_lvlId hc (hl p' hpm.1) hl)
          · refine ⟨invs1 ++ invs2, by rw [hlog2, hlog1, List.append_assoc], ?_⟩
            intro i hi
            rcases List.mem_append.mp hi with hi | hi
            · obtain ⟨a, lc, h1, h2⟩ := hbox1 i hi
              exact ⟨lc, a ▸ h1, h2⟩
            · obtain ⟨lc, h1, h2⟩ := hbox2 i hi
              exact ⟨lc, by rw [← ce.cfg]; exact h1, h2⟩
          · rw [hd1] at hf2
            obtain ⟨c1, c2, hc12, h1, h2⟩ := forall2_sameBC_append_left hf2
            cases h2 with
            | cons hdd hnil =>
              cases hnil
              obtain ⟨cs, rfl⟩ := hdd
              refine ⟨c1, { d1 with children := cs } :: nd2, by rw [hd2, hc12]; simp, forall2_sameBC_trans hf1 h1, .cons ?_ ?_⟩
              · refine ⟨hact1, hhib1, hst1, hseed1, by simpa [hpm.2] using hpar1, fun hl => ?_⟩
                simp only [] at hlev1
                rw [hlev1, hl p' hpm.1, hpm.2]
              · -- the remaining new demes: facts are stated relative to `t1`, transfer to `t`
                refine forall2_imp ?_ hnew2
                intro p d hpd
                obtain ⟨a1, a2, a3, a4, a5, a6⟩ := hpd
                exact ⟨a1, a2, a3.trans ce.metaepoch, a4, a5,
                  fun hl => a6 (createDeme_lvlId hc (hl p' hpm.1) hl)⟩

end Tree

namespace Tree

theorem updateHibernation_forall2 (t : T) (took : List Id) :
    List.Forall₂ (fun d d' => ∃ h, d' = { d with hib := h }) t.demes (updateHibernation t took).demes := by
  unfold updateHibernation
  split
  · generalize t.demes = ds
    induction ds with
    | nil => exact .nil
    | cons d ds ih => exact .cons ⟨d.hib, rfl⟩ ih
  · simp only
    generalize t.demes = ds
    induction ds with
    | nil => exact .nil
    | cons d ds ih =>
      simp only [List.map_cons]
      refine .cons ?_ ih
      split
      · exact ⟨_, rfl⟩
      · exact ⟨d.hib, rfl⟩

theorem updateHibernation_frame (t : T) (took : List Id) :
    (updateHibernation t took).cfg = t.cfg ∧ (updateHibernation t took).metaepoch = t.metaepoch ∧
    (updateHibernation t took).log = t.log ∧ (updateHibernation t took).refused = t.refused ∧
    (updateHibernation t took).gscSeen = t.gscSeen ∧ (updateHibernation t took).levels = t.levels := by
  unfold updateHibernation; split <;> simp

/-- the sprouting round: either nothing but the program counter changes (the stop condition
holds), or demes are created for the seeds the mechanism returned -/
theorem stepRound_effect {t t' : T} {ge : Option Bool} {renv : Sprout.Env} {news : List NewEnv}
    (h : stepRound t ge renv news = .ok t') :
    t'.cfg = t.cfg ∧ t'.metaepoch = t.metaepoch ∧ t.pc = .post ∧ t'.pc = .head ∧
    (t.gscSeen = true → t'.gscSeen = true) ∧ (t.refused = true → t'.refused = true) ∧
    ((t'.demes = t.demes ∧ t'.gscSeen = true ∧ t'.log = t.log ∧ t'.refused = t.refused ∧ t'.levels = t.levels) ∨
     (t.gscSeen = false ∧ t'.gscSeen = false ∧ gscEval t ge t.cfg.gsc = some false ∧
      ∃ seeds t1, Sprout.getSeeds (view t) renv t.cfg.mech = some seeds ∧
        SproutEffect t t1 (seeds.flatMap fun c => c.inds.map fun i => (c.deme, i)) ∧
        doSprout t (seeds.flatMap fun c => c.inds.map fun i => (c.deme, i)) news = .ok t1 ∧
        t' = { updateHibernation t1 (seeds.map (·.deme)) with pc := .head })) := by
  unfold stepRound at h
  split at h
  · rename_i hpc
    split at h
    · simp at h
    · split at h
      · simp only [Except.ok.injEq] at h
        subst h
        exact ⟨rfl, rfl, hpc, rfl, fun _ => rfl, fun hr => hr, Or.inl ⟨rfl, rfl, rfl, rfl, rfl⟩⟩
      · simp at h
    · rename_i hg
      split at h
      · simp at h
      · rename_i hs
        have hs' : t.gscSeen = false := by simpa using hs
        split at h
        · simp at h
        · rename_i seeds hseeds
          simp only [] at h
          split at h
          · simp at h
          · rename_i t1 hds
            simp only [Except.ok.injEq] at h
            subst h
            have se := doSprout_effect hds
            obtain ⟨f1, f2, f3, f4, f5, f6⟩ := updateHibernation_frame t1 (seeds.map (·.deme))
            refine ⟨by simp [f1, se.cfg], by simp [f2, se.metaepoch], hpc, rfl, fun hx => by simp [hs'] at hx,
              fun hr => by simpa [f4] using se.refusedMono hr, Or.inr ⟨hs', ?_, hg, seeds, t1, hseeds, se, hds, rfl⟩⟩
            simp [f5, se.gscSeen, hs']
  · simp at h

theorem sameBH_demeStep {d d' : Deme} (h : ∃ b, d' = { d with hib := b }) : DemeStep d d' := by
  obtain ⟨b, rfl⟩ := h
  exact ⟨rfl, rfl, rfl, rfl, rfl, fun h => h, fun _ => ⟨rfl, rfl⟩, ⟨[], by simp⟩, Nat.le_refl _⟩

theorem forall2_append {R : Deme → Deme → Prop} {a b c d : List Deme} (h1 : List.Forall₂ R a b)
    (h2 : List.Forall₂ R c d) : List.Forall₂ R (a ++ c) (b ++ d) := by
  induction h1 with
  | nil => simpa using h2
  | cons hab _ ih => exact .cons hab ih

/-- **Every step extends the deme list**: old demes change only as `DemeStep` allows, new
ones are appended. -/
theorem step_ext {t t' : T} {ev : Ev} (h : step t ev = .ok t') : Ext t.demes t'.demes := by
  cases ev with
  | loop ge =>
    obtain ⟨_, hd, _⟩ := stepLoop_effect h
    rw [hd]; exact Ext.refl _
  | gen id g l => exact ⟨t'.demes, [], by simp, (stepGen_effect h).demes⟩
  | localRun id reqs its nfev => exact ⟨t'.demes, [], by simp, (stepLocal_effect h).demes⟩
  | round ge renv news =>
    obtain ⟨_, _, _, _, _, _, hcase⟩ := stepRound_effect h
    rcases hcase with ⟨hd, _, _, _, _⟩ | ⟨_, _, _, seeds, t1, _, se, _, rfl⟩
    · rw [hd]; exact Ext.refl _
    · obtain ⟨old, nd, hd, hf, _⟩ := se.demes
      have hu := updateHibernation_forall2 t1 (seeds.map (·.deme))
      rw [hd] at hu
      -- split the hibernation-updated list along old ++ nd
      have : ∃ o2 n2, (updateHibernation t1 (seeds.map (·.deme))).demes = o2 ++ n2 ∧
          List.Forall₂ (fun d d' => ∃ h, d' = { d with hib := h }) old o2 := by
        generalize (updateHibernation t1 (seeds.map (·.deme))).demes = res at hu
        clear hd hf
        induction old generalizing res with
        | nil => exact ⟨[], res, by simp, .nil⟩
        | cons a as ih =>
          cases hu with
          | cons hab htl =>
            obtain ⟨o2, n2, rfl, hf2⟩ := ih _ htl
            exact ⟨_ :: o2, n2, by simp, .cons hab hf2⟩
      obtain ⟨o2, n2, ho, hf2⟩ := this
      refine ⟨o2, n2, by simpa using ho, forall2_trans (forall2_sameBC_demeStep hf) ?_⟩
      exact forall2_imp (fun a b hab => sameBH_demeStep hab) hf2

theorem exec_ext {t t' : T} {evs : List Ev} (h : exec t evs = .ok t') : Ext t.demes t'.demes := by
  induction evs generalizing t with
  | nil => simp only [exec, Except.ok.injEq] at h; subst h; exact Ext.refl _
  | cons e es ih =>
    simp only [exec, bind, Except.bind] at h
    split at h
    · simp at h
    · rename_i t1 h1
      exact (step_ext h1).trans (ih h)

end Tree
