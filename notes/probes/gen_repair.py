import numpy as np, sys
from fractions import Fraction
from pyhms.demes.single_pop_eas.common import apply_bounds
rng=np.random.default_rng(int(sys.argv[1]))
def fr(x): 
    f=Fraction(float(x)); return f"{f.numerator}/{f.denominator}"
lines=[];exp=[]
boxes=[(-0.1,0.2),(-20.,20.),(0.1,0.7),(-1e-3,1e-3),(1e10,3e10),(-0.3,-0.1),(1/3,2/3)]
for _ in range(300):
    l=float(rng.uniform(-10,10)); boxes.append((l,l+float(rng.uniform(1e-6,10))))
for (lo,hi) in boxes:
    r=hi-lo
    xs=[lo,hi,np.nextafter(lo,-np.inf),np.nextafter(hi,np.inf),np.nextafter(lo,np.inf),np.nextafter(hi,-np.inf),lo+r,lo-r,lo+2*r,lo+3*r,lo-2*r, hi+r, lo+0.5*r, lo-1e-17, lo-1e-300, hi+1e-17]
    xs+=list(rng.normal((lo+hi)/2, 3*r, 20)); xs+=[lo+k*r for k in range(-6,7)]; xs+=[np.nextafter(lo+k*r,s) for k in range(-3,4) for s in(-np.inf,np.inf)]
    for x in xs:
        for m in ["clip","reflect","toroidal"]:
            y=apply_bounds(np.array([[x]]),np.array([[lo,hi]]),m)[0,0]
            lines.append(f"{m} {fr(lo)} {fr(hi)} {fr(x)}"); exp.append(fr(y))
open("/root/scratch/rep_in.txt","w").write("\n".join(lines)+"\n")
open("/root/scratch/rep_exp.txt","w").write("\n".join(exp)+"\n")
print(len(lines))
