#!/venv/bin/python
"""Entry point of every registered check:  ./check.py Cxx [--tier quick|thorough] [--replay file]

Stages (DESIGN.md §2.5): Lean build of the property's theorems -> axiom / escape audit ->
correspondence slices (model driver vs. /repo's working tree) -> direct monitors ->
verdict -> evidence/Cxx.json.

exit 0  property held on everything explored (KNOWN-FINDING lines may be printed)
exit 1  `VIOLATION property=Cxx replay=<file>` (ends with no-failing-input-found when a
        proof / the correspondence broke but no concrete failing input was found)
exit 2  tool failure / time-out (never a verdict)
"""
import argparse
import hashlib
import importlib
import json
import os
import sys
import time
import traceback

HERE = os.path.dirname(os.path.abspath(__file__))
sys.path.insert(0, HERE)
os.chdir(HERE)

from harness import common, leantools  # noqa: E402


class Ctx:
    def __init__(self, pid, tier, seed):
        self.pid = pid
        self.tier = tier
        self.seed = seed
        self.thorough = tier == "thorough"
        self.t0 = time.time()
        self.notes = []

    def rng(self, salt=0):
        import numpy as np

        return np.random.default_rng([self.seed, salt, int(self.pid[1:])])

    def size(self, quick, thorough):
        if self.thorough:
            return thorough
        # change-directed depth: more cases when /repo differs from the recorded source (harness/focus.py)
        from harness import focus

        return min(max(thorough, quick), quick * focus.get().scale)

    def boost(self, n):
        """traced-run batches are spread over all cores (harness.common.pmap): the quick tier affords
        three times the cases it had when they ran in one process"""
        if self.thorough:
            return n
        return n * int(os.environ.get("VERIF_QUICK_BOOST", "3"))

    def elapsed(self):
        return time.time() - self.t0


def load_known():
    p = os.path.join(HERE, "known_findings.json")
    if not os.path.exists(p):
        return []
    return json.load(open(p)).get("findings", [])


def write_replay(pid, kind, payload):
    h = hashlib.sha1(json.dumps(payload, sort_keys=True, default=str).encode()).hexdigest()[:10]
    path = os.path.join("replays", f"{pid}-{kind}-{h}.json")
    common.jdump(payload, os.path.join(HERE, path))
    return path


def main():
    ap = argparse.ArgumentParser()
    ap.add_argument("pid")
    ap.add_argument("--tier", default=os.environ.get("VERIF_TIER", "quick"), choices=["quick", "thorough"])
    ap.add_argument("--replay")
    args = ap.parse_args()
    pid = args.pid.upper()
    seed = int(os.environ.get("VERIF_SEED", "0") or 0)
    ctx = Ctx(pid, args.tier, seed)
    mod = importlib.import_module(f"harness.props.{pid.lower()}")

    if args.replay:
        data = json.load(open(args.replay))
        if hasattr(mod, "replay"):
            common.use_repo()
            ok = mod.replay(data)
            print("replay:", "property holds on this input" if ok else "VIOLATION reproduced")
            sys.exit(0 if ok else 1)
        print(json.dumps(data, indent=1)[:4000])
        sys.exit(0)

    level = getattr(mod, "LEVEL", "proof")
    theorems = list(getattr(mod, "THEOREMS", []))
    module = getattr(mod, "MODULE", f"PyhmsVerif.Props.{pid}")
    modules = [module] + [m for m in getattr(mod, "EXTRA_MODULES", []) if m != module]
    evidence = {
        "property_id": pid,
        "tier": args.tier,
        "seed": seed,
        "level": level,
        "coverage": {},
        "assumptions": list(getattr(mod, "ASSUMPTIONS", [])),
        "wall_s": 0.0,
        "violations": 0,
    }
    broken = []  # reasons why proof / correspondence no longer checks
    lean_info = {}

    # ---- stage 1+2: Lean ---------------------------------------------------------------
    try:
        ok_model, out_model = leantools.lake_build("PyhmsVerif")
        if not ok_model:
            broken.append({"kind": "model-build", "detail": out_model[-1500:]})
        ok_props, out_props = leantools.lake_build(modules) if theorems else (True, "")
        if not ok_props:
            broken.append({"kind": "proof-build", "module": module, "detail": out_props[-1500:]})
        per, raw = ({}, "")
        if ok_props and theorems:
            per, raw = leantools.audit(modules, theorems)
        discharged = [t for t in theorems if per.get(t, (False,))[0]]
        for t in theorems:
            if t not in discharged:
                broken.append({"kind": "theorem", "theorem": t, "detail": per.get(t, (False, ["module did not build"]))[1]})
        esc = leantools.grep_forbidden()
        if esc:
            broken.append({"kind": "escape-hatch", "detail": esc[:10]})
        if ctx.thorough and ok_props and theorems:
            import subprocess

            p = subprocess.run(["lake", "env", "leanchecker"] + modules, cwd=common.LEAN_DIR, stdout=subprocess.PIPE, stderr=subprocess.STDOUT, timeout=3000)
            lean_info["leanchecker_rc"] = p.returncode
            lean_info["leanchecker_tail"] = p.stdout.decode()[-300:]
            if p.returncode != 0:
                broken.append({"kind": "leanchecker", "detail": p.stdout.decode()[-1500:]})
        lean_info.update({"obligations": len(theorems), "discharged": len(discharged), "axioms": {t: per[t][1] for t in per}})
    except Exception as e:  # tool failure
        print(f"TOOL-FAILURE lean stage: {e!r}")
        traceback.print_exc()
        sys.exit(2)

    # ---- stage 3+4: correspondence slices and monitors ------------------------------------
    slices = []
    try:
        common.use_repo()
        slices = mod.run(ctx)
    except common.DriverError as e:
        print(f"TOOL-FAILURE driver: {e}")
        sys.exit(2)
    except Exception as e:
        # the harness could not drive the implementation at all (API it relies on is gone):
        # that is a broken correspondence, not a verdict by itself
        broken.append({"kind": "harness-exception", "detail": traceback.format_exc()[-2500:]})
        ctx.notes.append(f"harness exception {e!r}")

    violations = [v for s in slices for v in s.violations]
    disagreements = [dict(d, slice=s.name) for s in slices for d in s.disagreements]
    for d in disagreements[:50]:
        broken.append({"kind": "correspondence", "slice": d["slice"], "detail": d})

    # ---- failing-input search when something no longer checks ---------------------------
    if broken and not violations and hasattr(mod, "search"):
        try:
            violations += mod.search(ctx, broken)
        except Exception:
            ctx.notes.append("search raised: " + traceback.format_exc()[-800:])

    # ---- verdict ----------------------------------------------------------------------------
    known = [k for k in load_known() if k.get("property") == pid and k.get("status") == "known"]
    out_lines = []
    new_viol = []
    seen_known = set()
    for v in violations:
        sig = v.get("signature", "")
        k = next((k for k in known if k["signature"] == sig), None)
        if k is not None:
            if sig not in seen_known:
                seen_known.add(sig)
                out_lines.append(f"KNOWN-FINDING: property={pid} {sig} — {k.get('what', '')}")
        else:
            new_viol.append(v)
    rc = 0
    if new_viol:
        v = new_viol[0]
        path = write_replay(pid, "violation", {"property": pid, "kind": "failing-input", "seed": seed, "tier": args.tier, "violation": v, "more": new_viol[1:5], "broken": broken[:5]})
        out_lines.append(f"VIOLATION property={pid} replay={path}")
        rc = 1
    elif broken:
        path = write_replay(pid, "unproved", {"property": pid, "kind": "no-longer-checks", "seed": seed, "tier": args.tier, "what_no_longer_checks": broken[:20], "note": "no concrete failing input found by the property's monitors within the search budget"})
        out_lines.append(f"VIOLATION property={pid} replay={path} no-failing-input-found")
        rc = 1

    # ---- evidence -----------------------------------------------------------------------------
    cov = evidence["coverage"]
    cov["obligations"] = lean_info.get("obligations", 0)
    cov["discharged"] = lean_info.get("discharged", 0)
    cov["checker_cmd"] = f"cd lean && lake build {' '.join(modules)} && lake env lean <#print axioms of {len(theorems)} theorems>" + (" && lake env leanchecker " + " ".join(modules) if ctx.thorough else "")
    cov["trusted_base"] = list(getattr(mod, "TRUSTED_BASE", [])) + [
        "Lean 4.33 kernel; axioms allowed: propext, Classical.choice, Quot.sound (audited per theorem this run)",
        "hand-written Lean model tied to /repo by the correspondence slices listed under 'slices'",
    ]
    cov["theorems"] = lean_info.get("axioms", {})
    cov["evaluations"] = sum(s.cases for s in slices)
    cov["distinct_nontrivial"] = sum(len(s.nontrivial) for s in slices)
    cov["traces_validated_against_impl"] = sum(s.cases for s in slices if getattr(s, "is_trace", False))
    cov["disagreements_checked"] = len(disagreements)
    cov["rule"] = getattr(mod, "RULE", "")
    cov["explanation"] = getattr(mod, "EXPLANATION", "")
    cov["samples"] = [x for s in slices for x in s.samples][:12] or ["<no case ran>"]
    cov["slices"] = {s.name: {"cases": s.cases, "distinct_nontrivial": len(s.nontrivial), "skipped": s.skipped, "disagreements": len(s.disagreements), "monitor_hits": len(s.violations), "hist": s.hist} for s in slices}
    cov["no_longer_checks"] = broken[:10]
    cov["known_findings_seen"] = sorted(seen_known)
    cov["notes"] = ctx.notes
    try:
        from harness import focus

        cov["change_directed"] = focus.get().describe()
    except Exception as exc:  # never let the focus helper decide anything
        cov["change_directed"] = {"error": repr(exc)}
    if "leanchecker_rc" in lean_info:
        cov["leanchecker_rc"] = lean_info["leanchecker_rc"]
    evidence["violations"] = len(new_viol) + (1 if (broken and not new_viol) else 0)
    evidence["wall_s"] = round(time.time() - ctx.t0, 2)
    common.jdump(evidence, os.path.join(HERE, "evidence", f"{pid}.json"))

    for line in out_lines:
        print(line)
    print(f"{pid} tier={args.tier} seed={seed} theorems={cov['discharged']}/{cov['obligations']} cases={cov['evaluations']} distinct={cov['distinct_nontrivial']} disagreements={len(disagreements)} monitor_hits={len(violations)} wall={evidence['wall_s']}s -> exit {rc}")
    sys.exit(rc)


if __name__ == "__main__":
    try:
        main()
    except SystemExit:
        raise
    except Exception:
        traceback.print_exc()
        print("TOOL-FAILURE")
        sys.exit(2)
