def hello := "world"
