import PyhmsVerif.Props.C18Run
import PyhmsVerif.Props.C07
/-!
# C18 — only awake demes ever run

`QueueAwake`: with hibernation enabled, every deme still scheduled in the metaepoch in progress
is awake.  Inductive on well-formed trees; hence in every reachable state a generation or a
local search is only ever accepted from a deme that is not hibernating
(`C18_only_awake_run`) — a hibernating deme performs no objective evaluations.
-/
namespace C18
open Tree

def QueueAwake (t : T) : Prop :=
  t.cfg.hibernation = true → ∀ id ∈ C06.remaining t, ∀ d, t.find id = some d → d.hib = false

theorem find_updFirst_hib {id id' : Id} {f : Deme → Deme} (hf : ∀ d, (f d).hib = d.hib) (hid : ∀ d, (f d).id = d.id)
    {ds : List Deme} {d' : Deme} (h : (updFirst id f ds).find? (·.id == id') = some d') :
    ∃ d, ds.find? (·.id == id') = some d ∧ d'.hib = d.hib := by
  induction ds with
  | nil => simp [updFirst] at h
  | cons a l ih =>
    simp only [updFirst] at h
    by_cases ha : (a.id == id) = true
    · simp only [ha, ↓reduceIte, List.find?_cons, hid] at h
      by_cases ha' : (a.id == id') = true
      · simp only [ha', Option.some.injEq] at h
        exact ⟨a, by simp [List.find?_cons, ha'], by rw [← h, hf]⟩
      · have ha'' : (a.id == id') = false := by simpa using ha'
        simp only [ha''] at h
        exact ⟨d', by simp [List.find?_cons, ha'', h], rfl⟩
    · have hb : (a.id == id) = false := by simpa using ha
      simp only [hb, Bool.false_eq_true, ↓reduceIte, List.find?_cons] at h
      by_cases ha' : (a.id == id') = true
      · simp only [ha', Option.some.injEq] at h
        exact ⟨a, by simp [List.find?_cons, ha'], by rw [h]⟩
      · have ha'' : (a.id == id') = false := by simpa using ha'
        simp only [ha''] at h
        obtain ⟨d, hd, hh⟩ := ih h
        exact ⟨d, by simp [List.find?_cons, ha'', hd], hh⟩

/-- **the invariant is inductive** (on well-formed trees) -/
theorem step_queueAwake {t t' : T} {ev : Ev} (hw : C07.WF t) (hinv : QueueAwake t) (h : step t ev = .ok t') :
    QueueAwake t' := by
  cases ev with
  | loop ge =>
    intro hon id hid d hfind
    simp only [step, stepLoop] at h
    split at h
    · split at h
      · simp at h
      · simp only [Except.ok.injEq] at h
        subst h
        simp [C06.remaining] at hid
      · split at h
        · simp at h
        · simp only [Except.ok.injEq] at h
          subst h
          have hr : C06.remaining ({ ({ t with metaepoch := t.metaepoch + 1 } : T) with
              pc := finish (schedule ({ t with metaepoch := t.metaepoch + 1 } : T)) } : T) = schedule t :=
            C06.remaining_finish _ (schedule t) rfl
          rw [hr] at hid
          obtain ⟨d0, hd0, hid0, _, hh⟩ := schedule_awake t id hid
          have hu := C07.find_unique hw hd0
          rw [hid0] at hu
          have : t.find id = some d := hfind
          rw [hu] at this
          cases this
          exact hh hon
    · simp at h
  | gen id g l =>
    intro hon id' hid' d' hfind'
    have e := stepGen_effect h
    obtain ⟨f, hd, hf, hfid, _⟩ := e.only
    obtain ⟨_, q, _, hr, _, hcase⟩ := C06.stepGen_advance h
    have hsub : id' ∈ C06.remaining t := by
      rw [hr]
      rcases hcase with ⟨_, hr'⟩ | ⟨_, hr'⟩
      · rw [hr'] at hid'; exact hid'
      · rw [hr'] at hid'; exact List.mem_cons_of_mem _ hid'
    unfold T.find at hfind'
    rw [hd] at hfind'
    obtain ⟨d, hdf, hh⟩ := find_updFirst_hib hf hfid hfind'
    rw [hh]
    exact hinv (by rw [← e.cfg]; exact hon) id' hsub d hdf
  | localRun id reqs its nfev =>
    intro hon id' hid' d' hfind'
    have e := stepLocal_effect h
    obtain ⟨f, hd, hf, hfid, _⟩ := e.only
    obtain ⟨_, q, _, hr, _, _, hr'⟩ := C06.stepLocal_advance h
    have hsub : id' ∈ C06.remaining t := by
      rw [hr]; rw [hr'] at hid'; exact List.mem_cons_of_mem _ hid'
    unfold T.find at hfind'
    rw [hd] at hfind'
    obtain ⟨d, hdf, hh⟩ := find_updFirst_hib hf hfid hfind'
    rw [hh]
    exact hinv (by rw [← e.cfg]; exact hon) id' hsub d hdf
  | round ge renv news =>
    intro _ id hid
    obtain ⟨_, _, _, hpc, _⟩ := stepRound_effect h
    simp [C06.remaining, hpc] at hid

/-- **C18 — only awake demes run.**  In every state reachable from a freshly constructed tree
with hibernation enabled, a generation is only accepted from a deme that is not hibernating. -/
theorem C18_only_awake_run {cfg : Cfg} {stks : List (List Problem.Wrapper)} {rootEnv : NewEnv} {t0 t t' : T}
    {evs : List Ev} {id : Id} {g : GenEnv} {l : Option Bool}
    (hi : init cfg stks rootEnv = .ok t0) (h : exec t0 evs = .ok t) (hon : t.cfg.hibernation = true)
    (hstep : step t (.gen id g l) = .ok t') : ∃ d, t.find id = some d ∧ d.hib = false ∧ d.active = true := by
  have hq : C07.WF t ∧ QueueAwake t := by
    have h0 : QueueAwake t0 := by
      intro _ id hid
      have := (createDeme_effect hi).pc
      simp [C06.remaining, this] at hid
    have hw0 := C07.init_wf hi
    clear hi
    induction evs generalizing t0 with
    | nil => simp only [exec, Except.ok.injEq] at h; subst h; exact ⟨hw0, h0⟩
    | cons e es ih =>
      simp only [exec, bind, Except.bind] at h
      split at h
      · simp at h
      · rename_i t1 h1
        exact ih h (step_queueAwake hw0 h0 h1) (C07.step_wf hw0 h1)
  obtain ⟨_, q, _, hr, _⟩ := C06.stepGen_advance hstep
  obtain ⟨f, _, _, _, d0, hfind, hact⟩ := (stepGen_effect hstep).only
  exact ⟨d0, hfind, hq.2 hon id (by rw [hr]; simp) d0 hfind, hact⟩

end C18
