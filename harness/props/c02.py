"""C02 — Stored individuals carry the true fitness of their genome; history is immutable

Theorems: lean/PyhmsVerif/Props/C02.lean (about the tree model lean/PyhmsVerif/Model/Tree.lean).
Tie to /repo: trace refinement — real runs are re-executed by `Tree.step`, state dumps and
sprout-stage outputs are diffed (harness/refine.py); only disagreements that bear on this
property count.  Direct monitor of the property on the same kind of runs (harness/monitors.py).
"""
import numpy as np
from .. import refine, runs

MODULE = 'PyhmsVerif.Props.C02Log'
THEOREMS = ['C02.C02_stored_evaluated', 'C02.eval_value', 'C02.C02_history_immutable', 'C02.step_first', 'C02.chain_all', 'C16.transparent', 'C02.C02_stored_is_objective_value', 'C02.step_evlog', 'C02.evalReqs_backed', 'EngineDE.deGen_carry', 'EngineDE.deGen_requests', 'EngineSEA.seaOffspring_carried', 'EngineDE.shadeGen_requests_carry', 'MWProps.repeated_mem']
EXTRA_MODULES = ['PyhmsVerif.Props.EngineDE', 'PyhmsVerif.Props.EngineSEA', 'PyhmsVerif.Props.Multiwinner']
LEVEL = 'proof'
LEVEL_TEXT = 'Theorems: one evaluation request returns exactly the value the objective returned (wrappers transparent) and logs that pair, a refused request returns the sentinel; in every reachable state every stored individual of every deme was evaluated while one of that deme generations was made, or carries the sentinel of an exhausted budget, or is the deme sprout seed (local deme starting point); recorded metaepochs never change in any later state. Tie: trace refinement (full histories as exact rationals in every dump; the model rejects unevaluated stored individuals) + monitor re-evaluating every stored genome, digests of recorded generations at all later boundaries, minimize(). NEW: C02_stored_is_objective_value — in every reachable state every stored individual is backed by a logged invocation of the objective by that deme, at that level, at exactly its genome, that returned exactly its fitness — or carries the sentinel of a refused request, or is the deme own seed (inductive invariant EvLog on well-formed trees). ENGINE LEVEL (Model/Engine.lean, Props/EngineDE.lean): one whole generation of DE.run / SHADE.run is in the model, deterministic given the generator draws (donor arithmetic in binary64, reflect repair, crossover mask incl. the row-zeroing quirk, fitness carry-over, which rows are evaluated, replacement), and is diffed bit-exactly against the real engines with recorded draws: deGen_carry — a trial that keeps a fitness without being evaluated is its parent (same genome, same fitness), every other trial carries a logged objective value; deGen_requests — the evaluated rows are exactly the rows that differ from their parent. SEA FAMILY (Engine.seaOffspring, Props/EngineSEA.lean): one pass of the variational pipeline (tournament = first best contestant, arithmetic crossover in binary64, Gaussian mutation with toroidal repair or uniform mutation, loss of fitness on changed rows, evaluation in row order) is in the model and diffed bit-exactly against BaseSEA.run with recorded draws: seaOffspring_carried — every offspring either was evaluated in this pass or is, genome and fitness together, an individual of the parent population (all three pipelines). MWEA SELECTION (Model/Multiwinner.lean, Props/Multiwinner.lean): MultiwinnerRepeatedSelection with the CCGreedy voting scheme is in the model (Borda scores from the positions in the preference lists, greedy rounds with the strict-improvement rule, n//k+1 elections, concatenation; groups, preference lists and shuffles are environment) and is diffed against the real operator with recorded draws: repeated_mem — every individual the selection hands on is, genome and fitness together, an individual of the population it was given.'
LEVEL_NOTE = 'Trusted: Lean kernel + standard axioms; the hand-written tree model is tied to the code by trace refinement on sampled runs (the model refuses a generation that does not chain, a stored individual that was never evaluated, an iterate scipy never evaluated); numerical engines and objective values are environment; monitors trusted as failing-input search. Functional: the objective is deterministic (equal genomes get equal values) — needed to read -was evaluated with that value- as -carries the true fitness-; re-evaluation with a pristine copy of the objective is done by the monitor.'
TECHNIQUE = "Lean 4 theorems (inductive invariants of the tree machine Tree.step, proved for all configurations and event sequences) tied to the code by trace refinement (Tree.step re-executes real runs; engine generations replayed bit-exactly by the engine model) + direct monitors as failing-input search"
RULE = "case = one traced run of a random configuration (1-3 levels, engine per level from the full list, every shipped GSC/LSC kind plus user-defined ones, both stock sprout mechanisms and user-composed chains, hibernation on/off, both directions, decimal boxes, optional cutoff/precision/stats wrappers, shared or per-level problems); non-trivial = run with >= 2 demes and >= 2 metaepochs; distinct by configuration hash"
ASSUMPTIONS = ["objective is deterministic and never returns NaN", "runs are capped at 12 metaepochs by a user-level composite stop condition"]
FORCE = None
PID = "C02"


def run(ctx):
    from .. import engine

    return [
        refine.refine_batch(ctx, ctx.size(120, 1500), force=FORCE, pid=PID, name="trace-refinement(Tree.step vs DemeTree.run)"),
        runs.minimize_slice(ctx, PID, ctx.size(12, 150)),
        runs.monitor_batch(ctx, PID, ctx.size(250, 3000), force=FORCE),
        # objects shared between levels: a child built from its parent's individual must not write
        # into it — visible when the levels use different objectives or when a shared budget runs out
        runs.monitor_batch(ctx, PID, ctx.size(50, 500), salt=29, name="traced-runs-monitor-C02(local-or-population-leaves,per-level-objectives-or-exhausted-budget)", force=_shared_objects),
        slice_contracted(ctx, ctx.rng(31), ctx.size(300, 4000)),
        # a filter the model does not know (MahalanobisFarEnough screens candidates against CMA-ES children):
        # monitors only — the candidates it screens are stored individuals of the parent
        runs.monitor_batch(ctx, PID, ctx.size(30, 300), salt=37, name="traced-runs-monitor-C02(MahalanobisFarEnough over CMA-ES children)", force=_mahalanobis),
        slice_cobyla(ctx, ctx.rng(39), ctx.size(24, 200)),
        # FunctionProblem(use_cache=True), one problem (and objective) per level: a value cached for one
        # level's objective must never be served for another's (monitors only: with a cache the objective is
        # invoked less often than the counters say, by design)
        runs.monitor_batch(ctx, PID, ctx.size(30, 300), salt=41, name="traced-runs-monitor-C02(cached problems, one objective per level)", force=_cached),
        # selection operators that rank by fitness (multiwinner elections, tournaments) on NON-FINITE values — a
        # death-penalty objective or an exhausted budget — with p_mutation < 1, so that selected individuals
        # reach the next generation without being re-evaluated: what they carry must still be their own value
        runs.monitor_batch(ctx, PID, ctx.size(40, 400), salt=43, name="traced-runs-monitor-C02(MWEA / SEA with p_mutation < 1 on non-finite values)", force=_nonfinite_selection),
        engine.slice_engine(ctx, ctx.rng(81), ctx.size(250, 3000), only="C02/"),
        engine.slice_sea(ctx, ctx.rng(83), ctx.size(400, 5000), only="C02/"),
        engine.slice_mwea(ctx, ctx.rng(87), ctx.size(150, 2000), only="C02/"),
        _level_boxes(ctx),
        # an objective with NaN holes: NaN is a legal value, ordered as worst
        runs.nan_monitor_batch(ctx, PID, ctx.size(30, 300), salt=73),
    ]


def _level_boxes(ctx):
    return runs.level_boxes_batch(ctx, PID, ctx.size(30, 300), 47)


def _nonfinite_selection(rng):
    nlev = int(rng.choice([1, 2, 2]))
    pen = bool(rng.random() < 0.6)
    return {"nlev": nlev, "engines": {0: ["mwea", "mwea", "sea", "ga"], 1: ["mwea", "sea", "de"]}, "p_mutation": float(rng.choice([0.3, 0.5, 0.7])),
            "objective": "penalty" if pen else "four", "cutoff": None if pen else int(rng.integers(30, 120)), "shared_problem": True,
            "precision_wrapper": None, "gsc": {"kind": "MetaepochLimit", "limit": int(rng.integers(4, 9))}}


def _cached(rng):
    nlev = int(rng.choice([2, 2, 3]))
    pop = ["sea", "de", "shade", "ga", "seax"]
    return {"nlev": nlev, "engines": {0: pop, 1: pop + ["cma"], 2: pop + ["local"]}, "use_cache": True, "shared_problem": False, "level_shift": True,
            "cutoff": None, "stats_wrapper": False, "precision_wrapper": None, "gsc": {"kind": "MetaepochLimit", "limit": int(rng.integers(3, 7))}}


def _cobyla_spec(rng):
    """a SEA root with COBYLA leaves on the death-penalty objective or with a budget that runs out"""
    spec = runs.rand_spec(rng, nlev=2, engines={0: ["sea", "de", "ga"], 1: ["local"]}, objective=str(rng.choice(["penalty", "four"])),
                          gsc={"kind": "MetaepochLimit", "limit": int(rng.integers(3, 7))}, shared_problem=True)
    spec["levels"][1]["method"] = "COBYLA"
    spec["levels"][1]["maxiter"] = int(rng.integers(3, 12))
    spec["cutoff"] = int(rng.integers(20, 80)) if spec["objective"] == "four" else None
    return spec


def _cobyla_worker(spec):
    from ..common import RunTimeout, is_env_crash, run_limit

    try:
        with run_limit():
            snap = runs.plain_run(spec)
    except RunTimeout as e:
        return {"status": "timeout", "detail": str(e)}
    except Exception as e:  # noqa: BLE001
        return {"status": "env" if is_env_crash(e) else "crash", "detail": f"{type(e).__name__}: {e}"}
    bad = [(d["id"], x, f) for d in snap["demes"] if d["cls"] == "LocalDeme" for g in d["hist"] for x, f in g if f == f and abs(f) >= 1e29 and abs(f) != float("inf")]
    return {"status": "ok", "bad": bad[:3], "local": sum(1 for d in snap["demes"] if d["cls"] == "LocalDeme")}


def slice_cobyla(ctx, rng, n):
    """regression slice for finding D21: COBYLA moderates an infinite objective value to 1e30 in what it
    reports to the callback; a stored individual must carry what the problem returned (+-inf), never +-1e30"""
    from ..common import Slice, pmap

    sl = Slice("COBYLA-leaves-on-infinite-values(stored fitness is never scipy's moderated 1e30)")
    specs = [_cobyla_spec(rng) for _ in range(n)]
    for spec, r in zip(specs, pmap(_cobyla_worker, specs, chunksize=2)):
        if r["status"] in ("env", "timeout"):
            sl.skipped += 1
            continue
        if r["status"] == "crash":
            sl.violations.append({"signature": "C02/run-crashed", "detail": r["detail"], "replay": {"spec": spec}})
            continue
        sl.cases += 1
        if r["local"]:
            sl.nontrivial.add(runs.spec_id(spec))
        for did, x, f in r["bad"]:
            sl.violations.append({"signature": "C02/stored-fitness-wrong/local-search-moderated-infinite-value", "detail": f"local deme {did} stores genome {x} with fitness {f!r}: scipy's moderated copy of an infinite value, not what the problem returned", "replay": {"spec": spec}})
            break
    if specs:
        sl.sample(runs.describe(specs[0]))
    return sl


def _mahalanobis(rng):
    nlev = int(rng.choice([2, 2, 3]))
    eng = {0: ["sea", "de", "shade", "ga"], 1: ["cma", "cmaw", "cma"], 2: ["cma", "local", "sea"]}
    sprout = {
        "kind": "custom",
        "generator": str(rng.choice(["nbc", "best"])),
        "gen_dist_factor": float(rng.uniform(1, 2.5)),
        "trunc_factor": float(rng.choice([0.7, 1.0])),
        "deme_filters": ["mahalanobis"] + (["demelimit"] if rng.random() < 0.5 else []),
        "percentile": float(rng.choice([0.5, 0.95])),
        "far_enough": 0.1,
        "fil_dist_factor": 1.0,
        "norm_ord": 2,
        "check_only_active": False,
        "deme_limit": int(rng.integers(1, 3)),
        "tree_filters": ["levellimit"],
        "level_limit": int(rng.integers(2, 5)),
    }
    return {"nlev": nlev, "engines": eng, "sprout": sprout, "gsc": {"kind": "MetaepochLimit", "limit": int(rng.integers(5, 9))}}


def slice_contracted(ctx, rng, n_cases, only="C02/"):
    """Engine-level runs on a *contracted* population (what a deme looks like after many
    generations): parents within 1e-9 .. 1e-3 of one point that is not the origin, several
    generations in a row.  Every individual an engine hands back must carry exactly the objective
    value of its own genome — a tolerance in a "did this row change?" test, or an offspring that
    keeps its parent's value, shows here and nowhere in a short whole run."""
    from pyhms.core.individual import Individual
    from pyhms.core.problem import FunctionProblem
    from pyhms.demes.single_pop_eas.de import DE, SHADE
    from pyhms.demes.single_pop_eas import sea as S
    from ..common import Slice

    sl = Slice("engine-runs-on-contracted-populations(stored fitness = objective of the stored genome)")
    for _ in range(n_cases):
        mx = bool(rng.random() < 0.5)
        n = int(rng.integers(5, 13))
        d = int(rng.integers(2, 5))
        centre = rng.uniform(-4, 4, d)
        spread = float(rng.choice([1e-9, 1e-8, 1e-7, 1e-6, 1e-4, 1e-3]))
        offset = float(rng.choice([0.0, 250.0]))

        seen_calls = []

        def f(x, offset=offset, seen_calls=seen_calls):
            x = np.asarray(x, dtype=float)
            seen_calls.append(tuple(float(t) for t in x))
            return offset + float(np.sum((x - 1.0) ** 2)) + float(np.sum(np.cos(3.0 * x)))

        bounds = np.array([[-5.0, 5.0]] * d)
        prob = FunctionProblem(f, bounds=bounds, maximize=mx)
        parents = [Individual(np.clip(centre + spread * rng.normal(size=d), -5, 5), problem=prob) for _ in range(n)]
        for q in parents:
            q.evaluate()
        np.random.seed(int(rng.integers(1 << 30)))
        import random as _r

        _r.seed(int(rng.integers(1 << 30)))
        which = int(rng.integers(0, 7))
        kw = {}
        if which == 0:
            eng = DE(use_dither=False, crossover_probability=float(rng.choice([0.9, 0.5])), f=0.8)
        elif which == 1:
            eng = DE(use_dither=True, crossover_probability=0.5)
        elif which == 2:
            eng = SHADE(memory_size=4, population_size=n)
        elif which == 3:
            eng = S.SEA.create(problem=prob, mutation_std=spread, p_mutation=float(rng.choice([1.0, 0.5])), k_elites=int(rng.integers(1, 3)))
        elif which == 4:
            eng = S.SEAWithCrossover.create(problem=prob, mutation_std=spread, p_mutation=float(rng.choice([1.0, 0.5])), p_crossover=0.7, k_elites=1)
        elif which == 5:
            eng = S.GAStyleSEA.create(problem=prob, p_mutation=0.3, p_crossover=0.7, k_elites=1)
        else:
            eng = S.SEAWithAdaptiveMutation.create(problem=prob, p_mutation=float(rng.choice([1.0, 0.5])), k_elites=1)
            kw = {"mutation_std": spread}
        name = type(eng).__name__
        pop = parents
        bad = None
        try:
            bad11 = None
            for g in range(int(rng.integers(2, 6))):
                prev = {(tuple(float(t) for t in q.genome), float(q.fitness)) for q in pop}
                seen_calls.clear()
                pop = eng.run(pop, **kw)
                fresh = set(seen_calls)
                for ind in pop:
                    key = (tuple(float(t) for t in ind.genome), float(ind.fitness))
                    if bad11 is None and key not in prev and key[0] not in fresh:
                        bad11 = (g, list(key[0]), key[1])
                for ind in pop:
                    true = f(ind.genome)
                    if not (ind.fitness == true):
                        bad = (g, [float(t) for t in ind.genome], float(ind.fitness), true)
                        break
                if bad:
                    break
        except Exception as e:  # noqa: BLE001
            from ..common import is_env_crash

            if is_env_crash(e):
                sl.skipped += 1
                continue
            raise
        sl.cases += 1
        sl.count(name)
        sl.count(f"spread={spread:g}")
        sl.nontrivial.add((name, spread, offset, mx, n, d, tuple(np.round(centre, 6))))
        if bad:
            sl.violations.append({"signature": "C02/stale-fitness-in-engine-run", "detail": f"{name} on a population within {spread:g} of one point: generation {bad[0] + 1} contains genome {bad[1]} with stored fitness {bad[2]!r} but the objective there is {bad[3]!r}", "replay": {"engine": name, "spread": spread, "offset": offset, "maximize": mx}})
        if bad11:
            sl.violations.append({"signature": "C11/not-from-previous-generation(engine-run)", "detail": f"{name} on a population within {spread:g} of one point: generation {bad11[0] + 1} contains genome {bad11[1]} (fitness {bad11[2]!r}) that is neither an individual of the preceding generation nor a point evaluated while this generation was made", "replay": {"engine": name, "spread": spread, "offset": offset, "maximize": mx}})
        if sl.cases <= 2:
            sl.sample({"engine": name, "n": n, "d": d, "spread": spread, "offset": offset, "maximize": mx})
    if only is not None:
        sl.violations = [v for v in sl.violations if v["signature"].startswith(only)]
    return sl


def _shared_objects(rng):
    nlev = int(rng.choice([2, 2, 3]))
    leaf = ["local", "local", "sea", "de", "shade", "cma"]
    eng = {0: ["sea", "seax", "de", "ded", "shade"], 1: (leaf if nlev == 2 else ["sea", "de", "cma"]), 2: leaf}
    if rng.random() < 0.6:
        return {"nlev": nlev, "engines": eng, "shared_problem": False, "level_shift": True, "cutoff": None}
    return {"nlev": nlev, "engines": eng, "shared_problem": True, "cutoff": int(rng.integers(25, 120)), "gsc": {"kind": "MetaepochLimit", "limit": int(rng.integers(4, 9))}}


def search(ctx, broken):
    return runs.monitor_batch(ctx, PID, 500, salt=97, force=FORCE).violations


def replay(data):
    spec = data["violation"]["replay"]["spec"]
    _, res = runs.monitored_run(spec, {PID})
    for v in res.get(PID, []):
        print(v["signature"], v["detail"])
    return not res.get(PID)
