import PyhmsVerif.Props.C02
import PyhmsVerif.Props.C06Step
import PyhmsVerif.Props.C07Children
import PyhmsVerif.Props.C18
import PyhmsVerif.Props.SproutRun
/-!
# Every deme that has sprouted has run

`RanInv`: in every reachable state every deme has run at least one metaepoch, or is still
scheduled in the metaepoch in progress, or is a deme created by the last sprouting round that
waits (active, awake) for the next metaepoch.  Consequently, when a sprouting round begins all
demes have run (`all_ran_at_post`), and a deme that lists a child has run at least one
metaepoch (`ParentRan`, `C07_parents_ran`).
-/
namespace C07
open Tree

def Waiting (t : T) (d : Deme) : Prop :=
  (t.pc = .head ∨ t.pc = .done) ∧ d.active = true ∧ d.hib = false ∧ d.level < t.height

def RanInv (t : T) : Prop :=
  ∀ d ∈ t.demes, d.hist ≠ [] ∧ (d.metaepochs ≥ 1 ∨ d.id ∈ C06.remaining t ∨ Waiting t d)

theorem metaepochs_of_length {d : Deme} (h : d.hist.length ≥ 2) : d.metaepochs ≥ 1 := by
  unfold Deme.metaepochs; omega

/-- a run event (generation / local search) keeps the invariant -/
theorem run_ranInv {t t' : T} {id : Id} {f : Deme → Deme} {q : List Id} {k : Nat}
    (hw : WF t) (hinv : RanInv t) (hd : t'.demes = updFirst id f t.demes) (hr : C06.remaining t = id :: q)
    (hid : ∀ d, (f d).id = d.id) (hh : ∀ d, (f d).hist.length = d.hist.length + k)
    (hcase : (k = 0 ∧ C06.remaining t' = id :: q) ∨ (k = 1 ∧ C06.remaining t' = q))
    (hrun : ∃ q0 c, t.pc = .running q0 c) : RanInv t' := by
  have h1 := C06.updFirst_hist id f k hh hid t.demes hw.nodup
  rw [← hd] at h1
  intro d' hd'
  obtain ⟨d, hdm, hidd, hlen, hsame⟩ := forall2_mem_right h1 d' hd'
  obtain ⟨hne, hcases⟩ := hinv d hdm
  have hne' : d'.hist ≠ [] := by
    intro h0
    have : d'.hist.length = 0 := by rw [h0]; rfl
    have : d.hist.length = 0 := by omega
    exact hne (List.length_eq_zero_iff.mp this)
  refine ⟨hne', ?_⟩
  have hpos : d.hist.length ≥ 1 := by
    cases h : d.hist with
    | nil => exact absurd h hne
    | cons a l => simp
  by_cases hdi : d.id = id
  · -- the deme that ran
    rcases hcase with ⟨rfl, hr'⟩ | ⟨rfl, hr'⟩
    · right; left
      rw [hr', hidd, hdi]
      simp
    · left
      apply metaepochs_of_length
      simp only [hdi, ↓reduceIte] at hlen
      omega
  · have hd'' : d' = d := hsame hdi
    subst hd''
    rcases hcases with h | h | h
    · exact Or.inl h
    · right; left
      rw [hr] at h
      rcases List.mem_cons.mp h with h | h
      · exact absurd h hdi
      · rcases hcase with ⟨_, hr'⟩ | ⟨_, hr'⟩
        · rw [hr']; exact List.mem_cons_of_mem _ h
        · rw [hr']; exact h
    · obtain ⟨q0, c, hpc⟩ := hrun
      rcases h.1 with h0 | h0 <;> rw [hpc] at h0 <;> cases h0


theorem updateHibernation_rel (t : T) (took : List Id) :
    List.Forall₂ (fun d d' => d'.id = d.id ∧ d'.hist = d.hist ∧ d'.active = d.active ∧ d'.level = d.level ∧
        (d.startedAt = t.metaepoch → d'.hib = d.hib))
      t.demes (updateHibernation t took).demes := by
  unfold updateHibernation
  split
  · generalize t.demes = ds
    induction ds with
    | nil => exact .nil
    | cons a l ih => exact .cons ⟨rfl, rfl, rfl, rfl, fun _ => rfl⟩ ih
  · simp only
    generalize t.demes = ds
    induction ds with
    | nil => exact .nil
    | cons a l ih =>
      simp only [List.map_cons]
      refine .cons ?_ ih
      by_cases hc : (a.active && decide (a.level + 1 < t.height) && a.startedAt != t.metaepoch) = true
      · rw [if_pos hc]
        refine ⟨rfl, rfl, rfl, rfl, fun hs => ?_⟩
        simp [hs] at hc
      · rw [if_neg hc]
        exact ⟨rfl, rfl, rfl, rfl, fun _ => rfl⟩

/-- when a sprouting round begins every deme has run at least one metaepoch -/
theorem all_ran_at_post {t : T} (hinv : RanInv t) (hpc : t.pc = .post) : ∀ d ∈ t.demes, d.metaepochs ≥ 1 := by
  intro d hd
  rcases (hinv d hd).2 with h | h | h
  · exact h
  · simp [C06.remaining, hpc] at h
  · rcases h.1 with h0 | h0 <;> rw [hpc] at h0 <;> cases h0

/-- **the invariant is inductive** (on well-formed trees) -/
theorem step_ranInv {t t' : T} {ev : Ev} (hw : WF t) (hfst : C02.First t) (hinv : RanInv t)
    (h : step t ev = .ok t') : RanInv t' := by
  cases ev with
  | gen id g l =>
    obtain ⟨f, q, hd, hr, hid, hcase⟩ := C06.stepGen_advance h
    have hrun : ∃ q0 c, t.pc = .running q0 c := by
      have e := stepGen_effect h
      simp only [step, stepGen] at h
      split at h
      · simp at h
      · rename_i hp
        exact (prepareGen_ok hp).2.2.2.2
    rcases hcase with ⟨hh, hr'⟩ | ⟨hh, hr'⟩
    · exact run_ranInv hw hinv hd hr hid hh (Or.inl ⟨rfl, hr'⟩) hrun
    · exact run_ranInv hw hinv hd hr hid hh (Or.inr ⟨rfl, hr'⟩) hrun
  | localRun id reqs its nfev =>
    obtain ⟨f, q, hd, hr, hid, hh, hr'⟩ := C06.stepLocal_advance h
    have hrun : ∃ q0 c, t.pc = .running q0 c := by
      simp only [step, stepLocal] at h
      split at h
      · rename_i qid q0 hpc; exact ⟨_, _, hpc⟩
      · simp at h
    exact run_ranInv hw hinv hd hr hid hh (Or.inr ⟨rfl, hr'⟩) hrun
  | loop ge =>
    have hhead : t.pc = .head := by
      simp only [step, stepLoop] at h
      split at h
      · assumption
      · simp at h
    simp only [step, stepLoop, hhead] at h
    split at h
    · simp at h
    · -- the run returns
      simp only [Except.ok.injEq] at h
      subst h
      intro d hd
      obtain ⟨hne, hc⟩ := hinv d hd
      refine ⟨hne, ?_⟩
      rcases hc with hc | hc | hc
      · exact Or.inl hc
      · simp [C06.remaining, hhead] at hc
      · exact Or.inr (Or.inr ⟨Or.inr rfl, hc.2⟩)
    · split at h
      · simp at h
      · simp only [Except.ok.injEq] at h
        subst h
        intro d hd
        obtain ⟨hne, hc⟩ := hinv d hd
        refine ⟨hne, ?_⟩
        rcases hc with hc | hc | hc
        · exact Or.inl hc
        · simp [C06.remaining, hhead] at hc
        · right; left
          rw [C06.remaining_finish _ _ rfl]
          show d.id ∈ schedule t
          apply (C06.mem_schedule hw.nodup hd).mpr
          have hl : d.level < t.height := hc.2.2.2
          simp [hl, hc.2.1, hc.2.2.1]
  | round ge renv news =>
    obtain ⟨hcfg, hmeta, hpost, hpc, _, _, hcase⟩ := stepRound_effect h
    have hran := all_ran_at_post hinv hpost
    have hw' := step_wf hw h
    rcases hcase with ⟨hd, _⟩ | ⟨_, _, _, seeds, t1, _, se, hds, rfl⟩
    · intro d hdm
      rw [hd] at hdm
      exact ⟨(hinv d hdm).1, Or.inl (hran d hdm)⟩
    · obtain ⟨old, nd, hd1, hf, hnew⟩ := se.demes
      have hrel := updateHibernation_rel t1 (seeds.map (·.deme))
      -- every deme of the new state has a non-empty history
      have hfirst : ∀ d ∈ (updateHibernation t1 (seeds.map (·.deme))).demes, d.hist ≠ [] := by
        intro d hdm
        obtain ⟨g, rest, hg, _⟩ := C02.step_first hfst h d hdm
        intro he
        simp [Deme.gens, he] at hg
      intro d hdm
      refine ⟨hfirst d hdm, ?_⟩
      obtain ⟨a, ha, _, hh, hact, hlev, hhib⟩ := forall2_mem_right hrel d hdm
      rw [hd1] at ha
      rcases List.mem_append.mp ha with ha | ha
      · obtain ⟨b, hb, cs, rfl⟩ := forall2_mem_right hf a ha
        left
        have : d.metaepochs = b.metaepochs := by simp [Deme.metaepochs, hh]
        rw [this]; exact hran b hb
      · right; right
        obtain ⟨p, _, hp⟩ := forall2_mem_right_gen hnew a ha
        refine ⟨Or.inl rfl, by rw [hact]; exact hp.1, ?_, ?_⟩
        · rw [hhib (by rw [hp.2.2.1, se.metaepoch])]; exact hp.2.1
        · have := hw'.below d hdm
          simpa [T.height] using this


-- ------------------------------------------------------------------ parents have run

/-- a deme that lists a child has run at least one metaepoch -/
def ParentRan (t : T) : Prop := ∀ d ∈ t.demes, d.children ≠ [] → d.metaepochs ≥ 1

theorem updFirst_two {id : Id} {f1 f2 : Deme → Deme} : ∀ {l : List Deme},
    updFirst id f1 l = updFirst id f2 l →
    ∀ d' ∈ updFirst id f1 l, ∃ d ∈ l, d' = d ∨ (d' = f1 d ∧ d' = f2 d)
  | [], _, d', hd' => by simp [updFirst] at hd'
  | a :: l, h, d', hd' => by
    simp only [updFirst] at h hd'
    by_cases ha : (a.id == id) = true
    · rw [if_pos ha, if_pos ha] at h
      rw [if_pos ha] at hd'
      rcases List.mem_cons.mp hd' with rfl | hm
      · exact ⟨a, List.mem_cons_self, Or.inr ⟨rfl, (List.cons.inj h).1⟩⟩
      · exact ⟨d', List.mem_cons_of_mem _ hm, Or.inl rfl⟩
    · rw [if_neg ha, if_neg ha] at h
      rw [if_neg ha] at hd'
      rcases List.mem_cons.mp hd' with rfl | hm
      · exact ⟨d', List.mem_cons_self, Or.inl rfl⟩
      · obtain ⟨d, hd, hc⟩ := updFirst_two (List.cons.inj h).2 d' hm
        exact ⟨d, List.mem_cons_of_mem _ hd, hc⟩

theorem run_parentRan {t t' : T} {id : Id} {f : Deme → Deme} {k : Nat} (hp : ParentRan t) (e : RunEffect t t' id)
    (hd : t'.demes = updFirst id f t.demes) (hh : ∀ d, (f d).hist.length = d.hist.length + k) : ParentRan t' := by
  obtain ⟨f2, hd2, hf2⟩ := e.onlyChildren
  intro d' hd' hne
  rw [hd] at hd'
  obtain ⟨d, hdm, hc⟩ := updFirst_two (hd.symm.trans hd2) d' hd'
  rcases hc with rfl | ⟨h1, h2⟩
  · exact hp _ hdm hne
  · have hch : d'.children = d.children := by rw [h2]; exact (hf2 d).1
    have := hp d hdm (by rw [← hch]; exact hne)
    have hl : d'.hist.length = d.hist.length + k := by rw [h1]; exact hh d
    simp only [Deme.metaepochs] at this ⊢
    omega

theorem step_parentRan {t t' : T} {ev : Ev} (hw : WF t) (hc : ChildOk t) (hinv : RanInv t) (hp : ParentRan t)
    (h : step t ev = .ok t') : ParentRan t' := by
  cases ev with
  | gen id g l =>
    obtain ⟨f, q, hd, hr, hid, hcase⟩ := C06.stepGen_advance h
    have e : RunEffect t t' id := stepGen_effect h
    rcases hcase with ⟨hh, _⟩ | ⟨hh, _⟩
    · exact run_parentRan hp e hd hh
    · exact run_parentRan hp e hd hh
  | localRun id reqs its nfev =>
    obtain ⟨f, q, hd, hr, hid, hh, _⟩ := C06.stepLocal_advance h
    exact run_parentRan hp (stepLocal_effect h) hd hh
  | loop ge =>
    obtain ⟨_, hd, _⟩ := stepLoop_effect h
    intro d hdm; rw [hd] at hdm; exact hp d hdm
  | round ge renv news =>
    obtain ⟨hcfg, hmeta, hpost, hpc, _, _, hcase⟩ := stepRound_effect h
    have hran := all_ran_at_post hinv hpost
    have hw' := step_wf hw h
    have hc' := step_childOk hw hc h
    have hgen := SproutRun.C10_created_from_generator h
    rcases hcase with ⟨hd, _⟩ | ⟨_, _, _, seeds, t1, _, se, hds, ht'⟩
    · intro d hdm _
      rw [hd] at hdm
      exact hran d hdm
    · obtain ⟨old, nd, hd1, hf, hnew⟩ := se.demes
      have hrel := updateHibernation_rel t1 (seeds.map (·.deme))
      have hDem : (updateHibernation t1 (seeds.map (·.deme))).demes = t'.demes := by rw [ht']
      rw [hd1, hDem] at hrel
      obtain ⟨ho', hn'⟩ := SproutRun.forall2_split hrel
      have hlen : old.length = t.demes.length := (forall2_length hf).symm
      rw [hlen] at ho' hn'
      have hsplit : ∀ x ∈ t'.demes, x ∈ t'.demes.take t.demes.length ∨ x ∈ t'.demes.drop t.demes.length :=
        fun x hx => List.mem_append.mp (by rw [List.take_append_drop]; exact hx)
      -- every old deme of the new state is a copy (up to children / hibernation flag) of a deme of `t`
      have hold : ∀ x ∈ t'.demes.take t.demes.length, ∃ b ∈ t.demes, x.id = b.id ∧ x.hist = b.hist := by
        intro x hx
        obtain ⟨a, ha, hid, hh, _⟩ := forall2_mem_right ho' x hx
        obtain ⟨b, hb, cs, rfl⟩ := forall2_mem_right hf a ha
        exact ⟨b, hb, hid, hh⟩
      have hfwd : ∀ b ∈ t.demes, ∃ x ∈ t'.demes.take t.demes.length, x.id = b.id := by
        intro b hb
        obtain ⟨a, ha, cs, rfl⟩ := forall2_mem_left hf b hb
        obtain ⟨x, hx, hid, _⟩ := forall2_mem_left ho' _ ha
        exact ⟨x, hx, hid⟩
      have hnd : ((t'.demes.take t.demes.length ++ t'.demes.drop t.demes.length).map (·.id)).Nodup := by
        rw [List.take_append_drop]; exact hw'.nodup
      intro p hpD hne
      rcases hsplit p hpD with hp | hp
      · obtain ⟨b, hb, _, hh⟩ := hold p hp
        have : p.metaepochs = b.metaepochs := by simp [Deme.metaepochs, hh]
        rw [this]; exact hran b hb
      · exfalso
        obtain ⟨c, hcm⟩ := List.exists_mem_of_ne_nil _ hne
        obtain ⟨hdl, hcne, x, hx, hxid⟩ := hc'.real p hpD c hcm
        -- the deme above `x` already existed before the round
        have hex : ∃ p0 ∈ t.demes, p0.id = p.id := by
          rcases hsplit x hx with hx' | hx'
          · obtain ⟨b, hb, hbid, _⟩ := hold x hx'
            obtain ⟨p0, hp0, hp0id, _⟩ := hc.listed b hb (by rw [← hbid, hxid]; exact hcne)
            exact ⟨p0, hp0, by rw [hp0id, ← hbid, hxid, hdl]⟩
          · obtain ⟨s0, pid, _, hpar, g, _, c0, _, _, _, pv, hpv, hpvid, _⟩ := hgen x hx'
            have hxp := (hw'.parent x hx (by rw [hxid]; exact hcne)).1
            rw [hpar] at hxp
            have hpid : pid = p.id := by
              have := Option.some.inj hxp
              rw [this, hxid, hdl]
            simp only [view, List.mem_map] at hpv
            obtain ⟨d0, hd0, rfl⟩ := hpv
            exact ⟨d0, (C04.mem_levelMajor.mp hd0).1, by rw [← hpid, ← hpvid]⟩
        obtain ⟨p0, hp0, hp0id⟩ := hex
        obtain ⟨x0, hx0, hx0id⟩ := hfwd p0 hp0
        rw [List.map_append] at hnd
        have hdis := (List.nodup_append.mp hnd).2.2 x0.id (List.mem_map_of_mem hx0) p.id (List.mem_map_of_mem hp)
        exact hdis (by rw [hx0id, hp0id])


-- ------------------------------------------------------------------ whole runs

/-- the invariants this file needs, bundled -/
structure RanGood (t : T) : Prop where
  wf : WF t
  first : C02.First t
  child : ChildOk t
  ran : RanInv t
  parent : ParentRan t

theorem step_ranGood {t t' : T} {ev : Ev} (hg : RanGood t) (h : step t ev = .ok t') : RanGood t' :=
  ⟨step_wf hg.wf h, C02.step_first hg.first h, step_childOk hg.wf hg.child h,
   step_ranInv hg.wf hg.first hg.ran h, step_parentRan hg.wf hg.child hg.ran hg.parent h⟩

theorem exec_ranGood {t t' : T} {evs : List Ev} (hg : RanGood t) (h : exec t evs = .ok t') : RanGood t' := by
  induction evs generalizing t with
  | nil => simp only [exec, Except.ok.injEq] at h; subst h; exact hg
  | cons e es ih =>
    simp only [exec, bind, Except.bind] at h
    split at h
    · simp at h
    · rename_i t1 h1
      exact ih (step_ranGood hg h1) h

theorem init_ranGood {cfg : Cfg} {stks : List (List Problem.Wrapper)} {rootEnv : NewEnv} {t0 : T}
    (hi : init cfg stks rootEnv = .ok t0) : RanGood t0 := by
  have ce := createDeme_effect hi
  have hw := init_wf hi
  obtain ⟨o, dn, hdn, hfn, _, hch, ⟨g, hg, hp⟩, hlev, _, hact, hhib, _⟩ := ce.demes
  have ho : o = [] := by cases hfn; rfl
  rw [ho, List.nil_append] at hdn
  refine ⟨hw, ?_, init_childOk hi, ?_, ?_⟩
  · intro x hx
    rw [hdn] at hx
    simp only [List.mem_singleton] at hx; subst hx
    exact ⟨g, [], by simp [Deme.gens, hg], hp⟩
  · intro x hx
    have hx' := hx
    rw [hdn] at hx
    simp only [List.mem_singleton] at hx; subst hx
    refine ⟨by rw [hg]; simp, Or.inr (Or.inr ⟨Or.inl ?_, hact, hhib, hw.below x hx'⟩)⟩
    rw [ce.pc]
  · intro x hx hne
    rw [hdn] at hx
    simp only [List.mem_singleton] at hx; subst hx
    exact absurd hch hne

/-- **C07 — a deme that has sprouted has run.**  In every state reachable from a freshly
constructed tree, a deme that lists a child has run at least one metaepoch, and when a
sprouting round begins every deme of the tree has. -/
theorem C07_parents_ran {cfg : Cfg} {stks : List (List Problem.Wrapper)} {rootEnv : NewEnv} {t0 t : T}
    {evs : List Ev} (hi : init cfg stks rootEnv = .ok t0) (h : exec t0 evs = .ok t) :
    (∀ d ∈ t.demes, d.children ≠ [] → d.metaepochs ≥ 1) ∧
    (t.pc = .post → ∀ d ∈ t.demes, d.metaepochs ≥ 1) := by
  have hg := exec_ranGood (init_ranGood hi) h
  exact ⟨hg.parent, all_ran_at_post hg.ran⟩

/-- every prefix of the id of a deme is the id of a deme -/
theorem ancestor_exists {t : T} (hc : ChildOk t) : ∀ (n : Nat) (d : Deme) (q rest : Id), d ∈ t.demes →
    d.id = q ++ rest → rest.length = n → ∃ x ∈ t.demes, x.id = q
  | 0, d, q, rest, hd, hid, hl => by
    have : rest = [] := List.length_eq_zero_iff.mp hl
    subst this
    exact ⟨d, hd, by simpa using hid⟩
  | n + 1, d, q, rest, hd, hid, hl => by
    have hrne : rest ≠ [] := by intro h; rw [h] at hl; simp at hl
    have hne : d.id ≠ [] := by rw [hid]; simp [hrne]
    obtain ⟨p, hp, hpid, _⟩ := hc.listed d hd hne
    refine ancestor_exists hc n p q rest.dropLast hp ?_ (by simp [hl])
    rw [hpid, hid, List.dropLast_append_of_ne_nil hrne]

/-- a proper ancestor lists a child -/
theorem ancestor_has_child {t : T} (hw : WF t) (hc : ChildOk t) {a d : Deme} (ha : a ∈ t.demes) (hd : d ∈ t.demes)
    (hpre : a.id <+: d.id) (hne : a.id ≠ d.id) : a.children ≠ [] := by
  obtain ⟨rest, hr⟩ := hpre
  cases rest with
  | nil => exact absurd (by simpa using hr) hne
  | cons k rest =>
    obtain ⟨x, hx, hxid⟩ := ancestor_exists hc rest.length d (a.id ++ [k]) rest hd (by rw [← hr]; simp) rfl
    obtain ⟨p, hp, hpid, hin⟩ := hc.listed x hx (by rw [hxid]; simp)
    have hpa : p.id = a.id := by rw [hpid, hxid]; simp
    have : p = a := List.inj_on_of_nodup_map hw.nodup hp ha hpa
    subst this
    exact List.ne_nil_of_mem hin

/-- **every proper ancestor of a deme has run** (reachable states) -/
theorem C07_ancestors_ran {cfg : Cfg} {stks : List (List Problem.Wrapper)} {rootEnv : NewEnv} {t0 t : T}
    {evs : List Ev} (hi : init cfg stks rootEnv = .ok t0) (h : exec t0 evs = .ok t) :
    ∀ a ∈ t.demes, ∀ d ∈ t.demes, a.id <+: d.id → a.id ≠ d.id → a.metaepochs ≥ 1 := by
  have hg := exec_ranGood (init_ranGood hi) h
  intro a ha d hd hpre hne
  exact hg.parent a ha (ancestor_has_child hg.wf hg.child ha hd hpre hne)

end C07
