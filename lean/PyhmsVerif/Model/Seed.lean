/-!
# Seeding plan (`pyhms/tree.py`, `cma_deme.py`, `lhs_deme.py`, `sobol_deme.py`)

Which random generator feeds which consumer.  Generator *states* are opaque (`Nat`);
`mix` stands for "the state reached after seeding with / drawing from".  The only thing
modelled is the data flow: with `random_seed` set, both global generators are re-seeded in
`DemeTree.__init__` before anything draws; CMA demes seed their strategy with
`random_seed + started_at`; LHS / Sobol samplers are constructed from `random_seed`.
-/
namespace Seed

structure Ambient where
  np : Nat      -- NumPy's global generator state before the tree is built
  py : Nat      -- Python's `random` state before the tree is built
  entropy : Nat -- OS entropy a freshly constructed unseeded sampler would draw
deriving Repr, DecidableEq

inductive Consumer
  | npGlobal            -- SEA / DE / SHADE operators, initial populations, `sample_normal`
  | pyGlobal            -- `worse_than` on two NaN values
  | cma (startedAt : Nat)
  | sampler             -- LHS / Sobol
deriving Repr, DecidableEq

/-- the state a consumer's generator starts from -/
def source (seed : Option Nat) (amb : Ambient) : Consumer → Nat
  | .npGlobal => match seed with | some s => s | none => amb.np
  | .pyGlobal => match seed with | some s => s | none => amb.py
  | .cma k => match seed with | some s => s + k | none => amb.np
  | .sampler => match seed with | some s => s | none => amb.entropy

end Seed
