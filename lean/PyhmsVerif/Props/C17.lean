import PyhmsVerif.Model.Repair
import Mathlib.Algebra.Order.Ring.Rat
import Mathlib.Tactic.Linarith
/-!
# C17 — bound repair always lands inside the box and only moves what it must

Property theorems only.  `r : Rounding` is arbitrary in the first four theorems: they
hold for binary64 rounding, for ideal arithmetic and for any other rounding function,
because `apply_bounds` returns in-box coordinates untouched and clips repaired ones.
-/
namespace C17
open Repair F64

theorem clip_inBox (lo hi x : Rat) (h : lo ≤ hi) : lo ≤ clip lo hi x ∧ clip lo hi x ≤ hi := by
  unfold clip
  constructor
  · exact le_min (le_max_right _ _) h
  · exact min_le_right _ _

/-- every repair method returns a point inside the box (any rounding function). -/
theorem repair_inBox (m : Method) (r : Rounding) (lo hi x y : Rat) (h : lo ≤ hi)
    (hy : repair m r lo hi x = some y) : lo ≤ y ∧ y ≤ hi := by
  cases m with
  | clip =>
    simp only [repair, Option.some.injEq] at hy
    subst hy; exact clip_inBox lo hi x h
  | reflect =>
    simp only [repair, Option.map_eq_some_iff] at hy
    obtain ⟨z, _, rfl⟩ := hy
    split
    · rename_i hb; simpa [inBox] using hb
    · exact clip_inBox lo hi z h
  | toroidal =>
    simp only [repair, Option.map_eq_some_iff] at hy
    obtain ⟨z, _, rfl⟩ := hy
    split
    · rename_i hb; simpa [inBox] using hb
    · exact clip_inBox lo hi z h

/-- a point already inside the box is left exactly where it is (any rounding function). -/
theorem inside_unchanged (m : Method) (r : Rounding) (lo hi x y : Rat)
    (hlo : lo ≤ x) (hhi : x ≤ hi) (hy : repair m r lo hi x = some y) : y = x := by
  have hb : inBox lo hi x = true := by simp [inBox, hlo, hhi]
  cases m with
  | clip =>
    simp only [repair, Option.some.injEq] at hy
    subst hy; unfold clip
    rw [max_eq_left hlo, min_eq_left hhi]
  | reflect =>
    simp only [repair, Option.map_eq_some_iff] at hy
    obtain ⟨z, _, rfl⟩ := hy
    simp [hb]
  | toroidal =>
    simp only [repair, Option.map_eq_some_iff] at hy
    obtain ⟨z, _, rfl⟩ := hy
    simp [hb]

/-- contrapositive: a coordinate is moved only if it violated a bound. -/
theorem moved_only_if_outside (m : Method) (r : Rounding) (lo hi x y : Rat)
    (hy : repair m r lo hi x = some y) (hne : y ≠ x) : x < lo ∨ hi < x := by
  by_contra hcon
  push Not at hcon
  exact hne (inside_unchanged m r lo hi x y hcon.1 hcon.2 hy)

/-- clip moves to the nearest face. -/
theorem clip_nearest_face (lo hi x : Rat) (h : lo ≤ hi) :
    (hi < x → repair .clip F64.rnd lo hi x = some hi) ∧
    (x < lo → repair .clip F64.rnd lo hi x = some lo) := by
  constructor
  · intro hx
    simp only [repair, clip, Option.some.injEq]
    rw [max_eq_left (by linarith), min_eq_right (le_of_lt hx)]
  · intro hx
    simp only [repair, clip, Option.some.injEq]
    rw [max_eq_right (le_of_lt hx), min_eq_left h]

/-- clip is total. -/
theorem clip_total (r : Rounding) (lo hi x : Rat) : (repair .clip r lo hi x).isSome := by
  simp [repair]

-- non-vacuity: the decimal box (-1/10, 1/5) of finding D1, point on the upper face, all
-- three methods defined in binary64 and returning the point itself.
example : repair .reflect F64.rnd (-1/10) (1/5) (1/5) = some (1/5) := by decide +kernel
example : repair .toroidal F64.rnd (-20) 20 20 = some 20 := by decide +kernel
example : repair .toroidal F64.rnd (-20) 20 (45/2) = some (-35/2) := by decide +kernel
example : repair .reflect F64.rnd (-20) 20 (45/2) = some (35/2) := by decide +kernel

end C17
