import PyhmsVerif.Model.Repair
import PyhmsVerif.Model.Select
/-!
# M9 — one generation of DE / SHADE, deterministic given the random draws

`pyhms/demes/single_pop_eas/de.py`: `BinaryMutation`, `BinaryMutationWithDither`,
`CurrentToPBestMutation`, `Crossover`, `DE.run`, the replacement part of `SHADE.run`.

Everything NumPy's generators decide is *environment* (`Draws`): which three individuals a
row is built from, the scaling factors, the uniform matrix and the row offset of the
crossover, SHADE's p-best picks; the objective values of the rows that are evaluated.
Everything the code decides is computed here, in binary64 (`r := F64.rnd`) or ideal
arithmetic: the donor `a + F·(b − c)` with the code's association order, the `reflect`
repair (`Repair.repair`), the crossover mask (incl. the quirk that `chosen[j_rand::d] = 0`
zeroes whole *rows* `j_rand, j_rand+d, …`), the carry-over of the parent's fitness for a
trial row that equals its parent, which rows are evaluated and in which order, and the
one-to-one replacement (`Select.deSelect`).

Core Lean only: loaded by the line-protocol driver.
-/
namespace Engine
open F64 Repair

abbrev Box := List (Rat × Rat)
abbrev Genome := List Rat

/-- all-or-nothing: `some` of the values when every entry is `some` -/
def seqOpt {α : Type} : List (Option α) → Option (List α)
  | [] => some []
  | none :: _ => none
  | some a :: l => (seqOpt l).map (a :: ·)

/-- one coordinate of `a + f * (b - c)`: `fl(a + fl(f * fl(b - c)))` -/
def donorCoord (r : Rounding) (f a b c : Rat) : Option Rat :=
  (r (b - c)).bind fun d => (r (f * d)).bind fun m => r (a + m)

/-- `randoms[:, 0] + f * (randoms[:, 1] - randoms[:, 2])`, one row -/
def donorRow (r : Rounding) (f : Rat) (a b c : Genome) : Option Genome :=
  seqOpt ((a.zip (b.zip c)).map fun p => donorCoord r f p.1 p.2.1 p.2.2)

/-- `apply_bounds(row, bounds, method)` -/
def repairRow (m : Method) (r : Rounding) (box : Box) (x : Genome) : Option Genome :=
  seqOpt ((box.zip x).map fun p => repair m r p.1.1 p.1.2 p.2)

/-- one coordinate of SHADE's current-to-p-best/1:
`x + f * (pbest - x) + f * (r0 - r1)` = `fl(fl(x + fl(f·fl(pb − x))) + fl(f·fl(r0 − r1)))` -/
def pbestCoord (r : Rounding) (f x pb r0 r1 : Rat) : Option Rat :=
  (r (pb - x)).bind fun d1 => (r (f * d1)).bind fun m1 => (r (x + m1)).bind fun s1 =>
  (r (r0 - r1)).bind fun d2 => (r (f * d2)).bind fun m2 => r (s1 + m2)

def pbestRow (r : Rounding) (f : Rat) (x pb r0 r1 : Genome) : Option Genome :=
  seqOpt ((x.zip (pb.zip (r0.zip r1))).map fun p => pbestCoord r f p.1 p.2.1 p.2.2.1 p.2.2.2)

/-- the draws of one row of `BinaryMutation` / `BinaryMutationWithDither` -/
structure Pick where
  i0 : Nat
  i1 : Nat
  i2 : Nat
  f : Rat          -- `self.f`, or the row's dither draw
deriving Repr

/-- `select_parents` draws three *distinct* indices from `0..n-1` without the row's own -/
def pickOk (n i : Nat) (p : Pick) : Bool :=
  decide (p.i0 < n) && decide (p.i1 < n) && decide (p.i2 < n) &&
  decide (p.i0 ≠ i) && decide (p.i1 ≠ i) && decide (p.i2 ≠ i) &&
  decide (p.i0 ≠ p.i1) && decide (p.i0 ≠ p.i2) && decide (p.i1 ≠ p.i2)

/-- the mutant of one row: donor, then `reflect` -/
def mutant (r : Rounding) (box : Box) (genomes : List Genome) (p : Pick) : Option Genome :=
  match genomes[p.i0]?, genomes[p.i1]?, genomes[p.i2]? with
  | some a, some b, some c => (donorRow r p.f a b c).bind (repairRow .reflect r box)
  | _, _, _ => none

/-- `chosen[j_rand::d] = 0` — on a 2-D array the slice selects ROWS `j_rand, j_rand + d, …` -/
def rowZeroed (jrand d i : Nat) : Bool := decide (jrand ≤ i) && decide ((i - jrand) % d = 0)

/-- `np.where(chosen <= probability, mutated, parent)`, one row -/
def crossRow (zeroed : Bool) (cr : Rat) (chosen : List Rat) (mu par : Genome) : Genome :=
  (chosen.zip (mu.zip par)).map fun p =>
    if (if zeroed then (0 : Rat) else p.1) ≤ cr then p.2.1 else p.2.2

/-- the trial genome of every row: crossover of the parent row with its mutant -/
def trialRows (d jrand : Nat) (crs : List Rat) (chosen : List (List Rat))
    (muts pars : List Genome) : List Genome :=
  (List.range pars.length).zip (crs.zip (chosen.zip (muts.zip pars))) |>.map fun p =>
    crossRow (rowZeroed jrand d p.1) p.2.1 p.2.2.1 p.2.2.2.1 p.2.2.2.2

/-- `Population.evaluate()` after the crossover: a trial row that equals its parent row keeps
the parent's fitness, every other row is evaluated, in row order.  Returns the trial
individuals and the evaluation requests `(genome, value)`; `none` when the number of values
the environment supplied is not the number of rows to evaluate. -/
def assignFit : List (Genome × Ind) → List Fit → Option (List Ind × List (Genome × Fit))
  | [], [] => some ([], [])
  | [], _ :: _ => none
  | (g, p) :: l, vs =>
    if g = p.genome then
      (assignFit l vs).map fun q => (⟨g, p.fit⟩ :: q.1, q.2)
    else match vs with
      | [] => none
      | v :: vs => (assignFit l vs).map fun q => (⟨g, v⟩ :: q.1, (g, v) :: q.2)

/-- everything the generators decide in one `DE.run` -/
structure Draws where
  picks : List Pick
  chosen : List (List Rat)
  jrand : Nat
  crs : List Rat            -- the crossover probability of every row (constant for DE)
  values : List Fit         -- objective values of the evaluated rows, in row order
deriving Repr

structure Gen where
  trials : List Ind
  requests : List (Genome × Fit)
  next : List Ind
deriving Repr

/-- the mutants of all rows -/
def mutants (r : Rounding) (box : Box) (genomes : List Genome) (picks : List Pick) : Option (List Genome) :=
  seqOpt (picks.map (mutant r box genomes))

def shapeOk (box : Box) (parents : List Ind) (dr : Draws) : Bool :=
  let n := parents.length
  let d := box.length
  decide (0 < d) && decide (dr.picks.length = n) && decide (dr.chosen.length = n) && decide (dr.crs.length = n) &&
  decide (dr.jrand < d) &&
  parents.all (fun p => p.genome.length == d) && dr.chosen.all (fun c => c.length == d) &&
  ((List.range n).zip dr.picks).all fun p => pickOk n p.1 p.2

/-- `DE.run(parents)`: mutation, crossover, evaluation of the changed rows, replacement -/
def deGen (mx : Bool) (r : Rounding) (box : Box) (parents : List Ind) (dr : Draws) : Option Gen :=
  if !shapeOk box parents dr then none else
  let genomes := parents.map (·.genome)
  (mutants r box genomes dr.picks).bind fun muts =>
  let tg := trialRows box.length dr.jrand dr.crs dr.chosen muts genomes
  (assignFit (tg.zip parents) dr.values).map fun q =>
    { trials := q.1, requests := q.2, next := Select.deSelect mx parents q.1 }

/-! ### SHADE (`CurrentToPBestMutation` + the same crossover and replacement) -/

/-- the draws of one row of `CurrentToPBestMutation` -/
structure PPick where
  pb : Nat         -- index of the chosen p-best individual
  p : Rat          -- the row's draw `p_i` from `U(2/n, 0.2)`
  i0 : Nat         -- `randoms[:, 0]`: index into the population
  j1 : Nat         -- `randoms_with_archive[:, 1]`: index into population ++ archive
  f : Rat
deriving Repr

/-- a p-best pick is admissible when the individual belongs to *some* best-`m` prefix of an
ascending (descending when maximising) ordering of the fitness values: fewer than `m`
individuals are strictly better (`argsort` is free on ties). -/
def pbestOk (mx : Bool) (parents : List Ind) (m : Nat) (p : PPick) : Bool :=
  match parents[p.pb]? with
  | none => false
  | some b => decide ((parents.countP fun a => Select.better mx a b) < m)

/-- `max(2, int(round(p_i * n)))`: the product is a binary64 product, Python's `round` is
half-to-even -/
def poolSize (r : Rounding) (n : Nat) (p : Rat) : Option Nat :=
  (r (p * (n : Rat))).map fun q => max 2 (roundHalfEven q).toNat

def pmutant (r : Rounding) (box : Box) (genomes merged : List Genome) (i : Nat) (p : PPick) : Option Genome :=
  match genomes[i]?, genomes[p.pb]?, genomes[p.i0]?, merged[p.j1]? with
  | some x, some pb, some r0, some r1 => (pbestRow r p.f x pb r0 r1).bind (repairRow .reflect r box)
  | _, _, _, _ => none

structure SDraws where
  picks : List PPick
  chosen : List (List Rat)
  jrand : Nat
  crs : List Rat
  values : List Fit
deriving Repr

def sshapeOk (mx : Bool) (r : Rounding) (box : Box) (parents : List Ind) (archive : List Genome) (dr : SDraws) : Bool :=
  let n := parents.length
  let d := box.length
  decide (0 < d) && decide (dr.picks.length = n) && decide (dr.chosen.length = n) && decide (dr.crs.length = n) &&
  decide (dr.jrand < d) &&
  parents.all (fun p => p.genome.length == d) && dr.chosen.all (fun c => c.length == d) &&
  ((List.range n).zip dr.picks).all fun p =>
    (match poolSize r n p.2.p with
      | some m => pbestOk mx parents m p.2
      | none => false) && decide (p.2.i0 < n) && decide (p.2.i0 ≠ p.1) &&
    decide (p.2.j1 < n + archive.length) && decide (p.2.j1 ≠ p.1)

structure SGen where
  trials : List Ind
  requests : List (Genome × Fit)
  next : List Ind
  archive : List Genome      -- the archive after `merge(parent_population[replaced])`, before trimming
deriving Repr

/-- the parents that were replaced (`parent_population[new_population_indices]`) -/
def replaced (mx : Bool) (parents trials : List Ind) : List Ind :=
  ((parents.zip trials).filter fun p => Select.trialWins mx p.1 p.2).map (·.1)

/-- `SHADE.run(parents)` up to the memory update (which only feeds later draws).
Populations of fewer than four individuals are not mutated (`if population.size < 4`). -/
def shadeGen (mx : Bool) (r : Rounding) (box : Box) (parents : List Ind) (archive : List Genome)
    (dr : SDraws) : Option SGen :=
  if !sshapeOk mx r box parents archive dr then none else
  let genomes := parents.map (·.genome)
  let merged := genomes ++ archive
  (if parents.length < 4 then some genomes
   else seqOpt (((List.range parents.length).zip dr.picks).map fun p => pmutant r box genomes merged p.1 p.2)).bind fun muts =>
  let tg := trialRows box.length dr.jrand dr.crs dr.chosen muts genomes
  (assignFit (tg.zip parents) dr.values).map fun q =>
    { trials := q.1, requests := q.2, next := Select.deSelect mx parents q.1,
      archive := archive ++ (replaced mx parents q.1).map (·.genome) }

end Engine

/-! ## The SEA family: one pass of the variational-operator pipeline

`pyhms/demes/single_pop_eas/sea.py`: `TournamentSelection`, `ArithmeticCrossover`,
`GaussianMutation`, `UniformMutation`.  A population travelling through the pipeline is a
list of rows `(genome, fitness?)`: `none` is NumPy's `nan` — "has to be evaluated"
(`Population.update_genome` sets it on every row whose genome changed). -/
namespace Engine
open F64 Repair

abbrev Row := Genome × Option Fit

/-- `np.argmin` / `np.argmax` over the contestants' fitness: the first best contestant -/
def firstBest (mx : Bool) : List Ind → Option Ind
  | [] => none
  | a :: l => match firstBest mx l with
    | none => some a
    | some b => if Select.better mx b a then some b else some a

/-- `TournamentSelection`: row `i` becomes the first best of the contestants `idx[i]` -/
def tournament (mx : Bool) (pop : List Ind) (idx : List (List Nat)) : Option (List Ind) :=
  seqOpt (idx.map fun cs => (seqOpt (cs.map fun c => pop[c]?)).bind (firstBest mx))

/-- `Population.update_genome` on one row: a changed genome loses its fitness -/
def updateRow (old : Row) (g : Genome) : Row := if g = old.1 then old else (g, none)

/-- one coordinate of `alpha * a + (1 - alpha) * b` -/
def mixCoord (r : Rounding) (al a b : Rat) : Option Rat :=
  (r (al * a)).bind fun x => (r (1 - al)).bind fun om => (r (om * b)).bind fun y => r (x + y)

/-- one coordinate of `(1 - alpha) * a + alpha * b` -/
def mixCoord' (r : Rounding) (al a b : Rat) : Option Rat :=
  (r (1 - al)).bind fun om => (r (om * a)).bind fun x => (r (al * b)).bind fun y => r (x + y)

/-- `ArithmeticCrossover` (with `evaluate_fitness = False`): consecutive pairs; a pair is mixed
when its draw `u < probability` (then `alpha` is drawn), otherwise copied; an odd last row is copied.
`draws` holds one `(u, alpha)` per pair (`alpha` unused when the pair is not mixed). -/
def arithX (r : Rounding) (prob : Rat) : List Row → List (Rat × Rat) → Option (List Row)
  | a :: b :: rest, (u, al) :: ds =>
    if u < prob then
      (seqOpt ((a.1.zip b.1).map fun p => mixCoord r al p.1 p.2)).bind fun ga =>
      (seqOpt ((a.1.zip b.1).map fun p => mixCoord' r al p.1 p.2)).bind fun gb =>
      (arithX r prob rest ds).map fun t => updateRow a ga :: updateRow b gb :: t
    else (arithX r prob rest ds).map fun t => a :: b :: t
  | [a], [] => some [a]
  | [], [] => some []
  | _, _ => none

/-- one coordinate of `genomes + binary_mask * noise`: `u < probability` decides the mask -/
def gaussCoord (r : Rounding) (prob : Rat) (g u noise : Rat) : Option Rat :=
  if u < prob then r (g + noise) else some g

/-- `GaussianMutation` on one row (before the evaluation): add the masked noise, repair
toroidally, and forget the fitness when the genome changed -/
def gaussRow (r : Rounding) (box : Box) (prob : Rat) (row : Row) (us noise : List Rat) : Option Row :=
  (seqOpt ((row.1.zip (us.zip noise)).map fun p => gaussCoord r prob p.1 p.2.1 p.2.2)).bind fun moved =>
  (repairRow .toroidal r box moved).map fun g => updateRow row g

/-- `UniformMutation` on one row: a coordinate is replaced by its uniform draw when `u < probability` -/
def uniformRow (prob : Rat) (row : Row) (us draws : List Rat) : Row :=
  updateRow row ((row.1.zip (us.zip draws)).map fun p => if p.2.1 < prob then p.2.2 else p.1)

/-- `Population.evaluate()`: rows without a fitness are evaluated in row order -/
def evalRows : List Row → List Fit → Option (List Ind × List (Genome × Fit))
  | [], [] => some ([], [])
  | [], _ :: _ => none
  | (g, some f) :: l, vs => (evalRows l vs).map fun q => (⟨g, f⟩ :: q.1, q.2)
  | (g, none) :: l, vs => match vs with
    | [] => none
    | v :: vs => (evalRows l vs).map fun q => (⟨g, v⟩ :: q.1, (g, v) :: q.2)

/-- the three shipped pipelines after the tournament -/
inductive Pipe | sea | seax | ga
deriving DecidableEq, Repr

structure SeaDraws where
  contestants : List (List Nat)
  pairs : List (Rat × Rat)           -- crossover: `(u, alpha)` per pair (seax, ga)
  mask : List (List Rat)             -- mutation: the uniform matrix behind the binary mask
  noise : List (List Rat)            -- gaussian noise (sea, seax) or the uniform replacement draws (ga)
  values : List Fit
deriving Repr

structure SeaGen where
  offspring : List Ind
  requests : List (Genome × Fit)
deriving Repr

def zip3With {α β γ δ : Type} (f : α → β → γ → δ) (a : List α) (b : List β) (c : List γ) : List δ :=
  (a.zip (b.zip c)).map fun p => f p.1 p.2.1 p.2.2

/-- one pass of `BaseSEA.run` up to (not including) `select_new_population` -/
def seaOffspring (mx : Bool) (r : Rounding) (pipe : Pipe) (box : Box) (pX pM : Rat)
    (parents : List Ind) (dr : SeaDraws) : Option SeaGen :=
  if !(decide (dr.contestants.length = parents.length) && decide (dr.mask.length = parents.length) &&
       decide (dr.noise.length = parents.length) && parents.all (fun p => p.genome.length == box.length) &&
       dr.mask.all (fun m => m.length == box.length) && dr.noise.all (fun m => m.length == box.length)) then none else
  (tournament mx parents dr.contestants).bind fun sel =>
  let rows : List Row := sel.map fun i => (i.genome, some i.fit)
  (match pipe with
    | .sea => some rows
    | .seax | .ga => arithX r pX rows dr.pairs).bind fun crossed =>
  (match pipe with
    | .ga => some (zip3With (uniformRow pM) crossed dr.mask dr.noise)
    | .sea | .seax => seqOpt (zip3With (gaussRow r box pM) crossed dr.mask dr.noise)).bind fun mutated =>
  (evalRows mutated dr.values).map fun (q : List Ind × List (Genome × Fit)) => ({ offspring := q.1, requests := q.2 } : SeaGen)

end Engine
