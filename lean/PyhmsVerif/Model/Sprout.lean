import PyhmsVerif.Model.NBC
/-!
# M5 — sprout generators, filters and mechanisms (`pyhms/sprout/*.py`)

The mechanism works on a *view* of the tree: per deme its id, level, activity, children,
current population, whole-history best, and the bookkeeping the local-method generator
reads.  Euclidean / p-norm distances and NBC means are environment (`Env`), keyed by
genome and sibling id; everything else is computed here.
-/
namespace Sprout
open Select

structure DemeView where
  id : List Nat
  level : Nat
  active : Bool
  children : List (List Nat)
  seed : Option Ind
  pop : List Ind            -- current population
  histBest : Option Ind     -- best over the whole history
  startedAt : Nat
  histLen : Nat             -- len(deme._history)
deriving Repr

structure View where
  height : Nat
  metaepoch : Nat
  maximize : Bool
  /-- all demes, level-major, in `levels[l]` order -/
  demes : List DemeView
deriving Repr

def View.level (v : View) (l : Nat) : List DemeView := v.demes.filter (·.level == l)
def View.activeAt (v : View) (l : Nat) : Nat := ((v.level l).filter (·.active)).length

structure Cand where
  deme : List Nat
  level : Nat
  inds : List Ind
  /-- `features.nbc_mean_distance`: `none` = not set, `some none` = NaN, `some (some m)` -/
  nbcMean : Option (Option Rat)
deriving Repr

/-- environment answers for one sprouting round -/
structure Env where
  /-- NBC of a deme's current population: distance matrix (input order) and `np.mean` -/
  nbc : List Nat → Option ((Nat → Nat → Rat) × Option Rat)
  /-- `norm(ind.genome − sibling.centroid, ord)`; `none` = the sibling has no centroid -/
  dist : List Rat → List Nat → Option Rat
  /-- `Cluster.from_deme(sibling).is_in_extension(genome, threshold)` for a CMA-ES sibling (the
  Mahalanobis distance under the strategy's covariance and the χ² threshold are numerics of
  NumPy / SciPy / cma); `none` = the sibling is not a CMA-ES deme -/
  maha : List Rat → List Nat → Option Bool := fun _ _ => none

inductive Generator
  | bestPerDeme
  | nbc (phi t : Rat)
  | nbcLocal (phi t : Rat)
deriving Repr

inductive Filter
  | farEnough (minDist : Rat)
  | nbcFarEnough (factor : Rat) (onlyActive : Bool)
  | demeLimit (limit : Nat)
  | levelLimit (limit : Nat)
  | skipSame
  /-- `MahalanobisFarEnough(percentile)`: drop a candidate that lies in the extension of a CMA-ES
  deme of the target level (the percentile only enters the environment's verdicts) -/
  | mahalanobis
deriving Repr

structure Mechanism where
  gen : Generator
  demeFilters : List Filter
  treeFilters : List Filter
deriving Repr

def nbcCand (v : View) (env : Env) (phi t : Rat) (d : DemeView) : Option Cand :=
  match env.nbc d.id with
  | none => none
  | some (dist, mean) =>
    (NBC.cluster v.maximize dist d.pop phi t mean).map fun r =>
      { deme := d.id, level := d.level, inds := r.seeds, nbcMean := some mean }

/-- the candidate generators; `none` = the model cannot perform it (missing environment) -/
def generate (v : View) (env : Env) : Generator → Option (List Cand)
  | .bestPerDeme =>
    some <| (v.demes.filter fun d => d.level + 1 < v.height && d.active).filterMap fun d =>
      (best v.maximize d.pop).map fun b => { deme := d.id, level := d.level, inds := [b], nbcMean := none }
  | .nbc phi t =>
    (v.demes.filter fun d => d.level + 1 < v.height && d.active).mapM (nbcCand v env phi t)
  | .nbcLocal phi t =>
    ((v.demes.filter fun d => d.level + 2 < v.height && d.active).mapM (nbcCand v env phi t)).map fun cs =>
      cs ++ ((v.demes.filter fun d =>
          d.level + 2 == v.height && !d.active && d.startedAt + d.histLen == v.metaepoch).filterMap fun d =>
        d.histBest.map fun b => { deme := d.id, level := d.level, inds := [b], nbcMean := some (some 0) })

def farOk (env : Env) (thr : Rat) (sibs : List DemeView) (i : Ind) : Bool :=
  sibs.all fun s => match env.dist i.genome s.id with
    | some d => decide (d > thr)
    | none => false

/-- `sorted(inds, reverse=True)[:limit]` when there are more than `limit` -/
def demeLimit (mx : Bool) (limit : Nat) (inds : List Ind) : List Ind :=
  if inds.length > limit then
    ((NBC.sortDesc mx (inds.map fun i => (0, i))).map (·.2)).take limit
  else inds

/-- Python list indexing with a possibly negative index -/
def pyIndex {α} (l : List α) (i : Int) : Option α :=
  if i ≥ 0 then l[i.toNat]? else if (-i).toNat ≤ l.length then l[l.length - (-i).toNat]? else none

/-- all candidates of one parent level, best first (`level_candidates.sort(reverse=True)`) -/
def levelCands (mx : Bool) (l : Nat) (cs : List Cand) : List Ind :=
  (NBC.sortDesc mx (((cs.filter (·.level == l)).flatMap (·.inds)).map fun i => (0, i))).map (·.2)

/-- the cut-off candidate of `LevelLimit` for one parent level: `none` = an `IndexError` in the
code, `some none` = nothing has to be cut, `some (some c)` = keep only candidates strictly
better than `c` -/
def levelCut (mx : Bool) (limit active : Nat) (all : List Ind) : Option (Option Ind) :=
  if active + all.length > limit then
    match pyIndex all ((limit : Int) - (active : Int)) with
    | none => none
    | some cut => some (some cut)
  else some none

/-- `LevelLimit` for one parent level `l`: candidates of other levels are untouched -/
def levelLimitLevel (mx : Bool) (limit active l : Nat) (cs : List Cand) : Option (List Cand) :=
  match levelCut mx limit active (levelCands mx l cs) with
  | none => none
  | some none => some cs
  | some (some cut) =>
    some (cs.map fun c => if c.level == l then { c with inds := c.inds.filter fun i => better mx i cut } else c)

/-- `np.isclose(a, b)` with default tolerances, as computed in binary64 -/
def isclose (a b : Rat) : Bool :=
  let rtol : Rat := 5902958103587057 / 590295810358705651712   -- 1e-05
  let atol : Rat := 3022314549036573 / 302231454903657293676544 -- 1e-08
  match F64.rnd (a - b), F64.rnd (rtol * F64.absR b) with
  | some d, some rb => match F64.rnd (atol + rb) with
    | some tol => decide (F64.absR d ≤ tol)
    | none => false
  | _, _ => false

def sameGenome (a b : List Rat) : Bool := a.length == b.length && (a.zip b).all fun p => isclose p.1 p.2

def applyFilter (v : View) (env : Env) (f : Filter) (cs : List Cand) : Option (List Cand) :=
  match f with
  | .farEnough thr =>
    some <| cs.map fun c =>
      let sibs := (v.level (c.level + 1)).filter (·.active)
      { c with inds := c.inds.filter (farOk env thr sibs) }
  | .nbcFarEnough factor onlyActive =>
    if cs.any (fun c => c.nbcMean.isNone) then none   -- the code asserts
    else some <| cs.map fun c =>
      let sibs := (v.level (c.level + 1)).filter fun s => s.active || !onlyActive
      match c.nbcMean with
      | some (some m) => match F64.rnd (factor * m) with
        | some thr => { c with inds := c.inds.filter (farOk env thr sibs) }
        | none => { c with inds := [] }
      | _ => { c with inds := if sibs.isEmpty then c.inds else [] }   -- NaN threshold: nothing is `>` NaN
  | .demeLimit limit => some <| cs.map fun c => { c with inds := demeLimit v.maximize limit c.inds }
  | .levelLimit limit =>
    (List.range (v.height - 1)).foldlM (fun (acc : List Cand) l =>
      levelLimitLevel v.maximize limit (v.activeAt (l + 1)) l acc) cs
  | .skipSame =>
    some <| cs.map fun c =>
      match v.demes.find? (·.id == c.deme) with
      | none => c
      | some d =>
        if d.children.isEmpty then c else
        let kids := (v.level c.level).flatMap (·.children)
        let seeds := (v.demes.filter fun k => kids.contains k.id).filterMap (·.seed)
        { c with inds := c.inds.filter fun i => !(seeds.any fun s => sameGenome s.genome i.genome) }
  | .mahalanobis =>
    -- every deme of the target level, active or not; non-CMA siblings are skipped by the code
    some <| cs.map fun c =>
      { c with inds := c.inds.filter fun i => (v.level (c.level + 1)).all fun s => env.maha i.genome s.id != some true }

/-- a chain of filters, applied in order -/
def applyFilters (v : View) (env : Env) : List Filter → List Cand → Option (List Cand)
  | [], cs => some cs
  | f :: fs, cs => (applyFilter v env f cs).bind (applyFilters v env fs)

/-- `SproutMechanism.get_seeds`: generator, deme filters, tree filters, non-empty only -/
def getSeeds (v : View) (env : Env) (m : Mechanism) : Option (List Cand) :=
  (generate v env m.gen).bind fun g =>
    (applyFilters v env (m.demeFilters ++ m.treeFilters) g).map fun cs => cs.filter fun c => !c.inds.isEmpty

/-- the output of every stage (generator, then each filter) — for the correspondence check -/
def getSeedsTrace (v : View) (env : Env) (m : Mechanism) : Option (List (List Cand)) :=
  (generate v env m.gen).bind fun g =>
    (m.demeFilters ++ m.treeFilters).foldlM (fun (acc : List (List Cand)) f =>
      match acc.getLast? with
      | none => none
      | some cur => (applyFilter v env f cur).map fun nxt => acc ++ [nxt]) [g]

end Sprout
