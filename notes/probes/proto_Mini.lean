/-! Mini prototype of the M6 style: event-driven model + inductive invariant (C08 shape). -/
namespace Mini

structure Deme where
  id : Nat
  level : Nat
  active : Bool
deriving Repr, DecidableEq

structure Tree where
  limit : Nat
  demes : List Deme
deriving Repr

def activeAt (t : Tree) (l : Nat) : Nat :=
  (t.demes.filter (fun d => d.level == l && d.active)).length

inductive Event
  | stop (i : Nat)                 -- deme i becomes inactive (LSC / GSC / engine stop)
  | sprout (l : Nat) (want : Nat)  -- a round on parent level l wants `want` children on level l+1

/-- LevelLimit: number of children actually created on level l+1 -/
def granted (t : Tree) (l want : Nat) : Nat :=
  let a := activeAt t (l+1)
  if a + want > t.limit then t.limit - a else want

def step (t : Tree) : Event → Tree
  | .stop i => { t with demes := t.demes.map (fun d => if d.id = i then { d with active := false } else d) }
  | .sprout l want => { t with demes := t.demes ++ List.replicate (granted t l want) ⟨0, l+1, true⟩ }

def Inv (t : Tree) : Prop := ∀ l, 1 ≤ l → activeAt t l ≤ t.limit

theorem activeAt_stop_le (t : Tree) (i l : Nat) : activeAt (step t (.stop i)) l ≤ activeAt t l := by
  unfold activeAt step
  simp only
  generalize t.demes = ds
  induction ds with
  | nil => simp
  | cons d ds ih =>
    simp only [List.map_cons, List.filter_cons]
    by_cases hk : d.id = i <;> by_cases ha : (d.level == l && d.active) = true <;>
      simp [hk, ha] <;> omega

theorem activeAt_sprout (t : Tree) (l want m : Nat) :
    activeAt (step t (.sprout l want)) m = activeAt t m + (if m = l+1 then granted t l want else 0) := by
  unfold activeAt step
  simp only [List.filter_append, List.length_append]
  congr 1
  by_cases h : m = l + 1
  · subst h; simp [List.filter_replicate]
  · have : ((l + 1 == m) && true) = false := by simp; omega
    simp [List.filter_replicate, this, h]

theorem step_inv (t : Tree) (e : Event) (h : Inv t) : Inv (step t e) := by
  intro l hl
  cases e with
  | stop i => exact Nat.le_trans (activeAt_stop_le t i l) (h l hl)
  | sprout p want =>
    rw [activeAt_sprout]
    have hlim : (step t (.sprout p want)).limit = t.limit := rfl
    rw [hlim]
    have := h l hl
    split
    · rename_i heq; subst heq
      unfold granted; simp only; split <;> omega
    · omega

theorem run_inv (t : Tree) (es : List Event) (h : Inv t) : Inv (es.foldl step t) := by
  induction es generalizing t with
  | nil => simpa
  | cons e es ih => exact ih _ (step_inv t e h)

-- non-vacuity
example : Inv ⟨2, [⟨0, 0, true⟩, ⟨1, 1, true⟩]⟩ := by
  intro l hl; unfold activeAt; simp
  rcases l with _ | _ | l <;> simp <;> omega
end Mini
#print axioms Mini.run_inv
