import PyhmsVerif.Props.C06Step
/-!
# C06 — why a running deme becomes inactive

`finishGen_active`: the four things that can happen after a generation's evaluations, with
their effect on the running deme's activity flag.  `C06_deactivation_gen`: an accepted
generation deactivates the running deme **iff** the global stop condition held at the consult
after it, or CMA-ES stopped itself, or the generation completed the metaepoch and the local
stop condition's verdict was true; while a metaepoch goes on the deme stays as it is.
`C06_local_one_shot`: a local search always deactivates its deme.
-/
namespace C06
open Tree

/-- what the consults after a generation decided -/
inductive Outcome
  /-- the global stop condition held -/
  | gsc
  /-- CMA-ES reported its own termination (the global condition did not hold) -/
  | selfStop
  /-- neither: the metaepoch goes on with its next generation -/
  | goesOn
  /-- neither, and the metaepoch is complete: the local stop condition gave this verdict -/
  | lsc (verdict : Bool)
deriving DecidableEq

/-- does this outcome deactivate the deme? -/
def Outcome.stops : Outcome → Bool
  | .gsc => true
  | .selfStop => true
  | .goesOn => false
  | .lsc v => v

theorem finishGen_active {t1 t' : T} {id : Id} {lc : LevelCfg} {q : List Id} {done : Nat}
    {pending : List Gen} {gen : Gen} {g : GenEnv} {lscEnv : Option Bool}
    (h : finishGen t1 id lc q done pending gen g lscEnv = .ok t') :
    ∃ (f : Deme → Deme) (o : Outcome), t'.demes = updFirst id f t1.demes ∧ (∀ d, (f d).id = d.id) ∧
      (∀ d, (f d).active = (d.active && !o.stops)) ∧
      t'.gscSeen = (t1.gscSeen || decide (o = .gsc)) ∧
      (o = .selfStop → lc.engine = .cma ∧ g.cmaStop = true) ∧
      (o = .goesOn → (∀ d, (f d).hist = d.hist) ∧ ∃ p, t'.pc = .running q (some (id, done + 1, p))) ∧
      (o ≠ .goesOn → (∀ d, (f d).hist = d.hist ++ [pending ++ [gen]]) ∧ t'.pc = finish q) ∧
      (∀ v, o = .lsc v → lc.lsc = .dontStop → v = false) := by
  unfold finishGen at h
  split at h
  · simp only [] at h
    split at h
    · simp at h
    · rename_i gv hgv
      split at h
      · simp at h
      · rename_i d2 hd2
        split at h
        · simp at h
        · rename_i lv hlv
          simp only [Except.ok.injEq] at h
          subst h
          cases gv with
          | true =>
            refine ⟨(fun d => { d with active := d.active && !(true || lv) }) ∘
                (fun d => { d with hist := d.hist ++ [pending ++ [gen]], active := d.active && true }), .gsc, ?_,
                fun _ => rfl, fun d => by simp [Outcome.stops], by simp [appendHist, T.update], by simp, by simp,
                fun _ => ⟨fun _ => rfl, rfl⟩, by simp⟩
            simp only [T.update, appendHist]
            exact updFirst_comp _ _ _ _ (fun _ => rfl)
          | false =>
            refine ⟨(fun d => { d with active := d.active && !(false || lv) }) ∘
                (fun d => { d with hist := d.hist ++ [pending ++ [gen]], active := d.active && true }), .lsc lv, ?_,
                fun _ => rfl, fun d => by simp [Outcome.stops], by simp [appendHist, T.update], by simp, by simp,
                fun _ => ⟨fun _ => rfl, rfl⟩, ?_⟩
            · simp only [T.update, appendHist]
              exact updFirst_comp _ _ _ _ (fun _ => rfl)
            · intro v hv hds
              injection hv with hv
              subst hv
              simp only [Bool.false_eq_true, ↓reduceIte, hds, lscEval, Option.some.injEq] at hlv
              exact hlv.symm
  · split at h
    · simp at h
    · rename_i gv hgv
      simp only [] at h
      split at h
      · rename_i hstop
        simp only [Except.ok.injEq] at h
        subst h
        cases gv with
        | true =>
          exact ⟨_, .gsc, rfl, fun _ => rfl, fun d => by simp [Outcome.stops], by simp [appendHist, T.update], by simp,
            by simp, fun _ => ⟨fun _ => rfl, rfl⟩, by simp⟩
        | false =>
          simp only [Bool.false_or, Bool.and_eq_true, beq_iff_eq] at hstop
          exact ⟨_, .selfStop, rfl, fun _ => rfl, fun d => by simp [Outcome.stops], by simp [appendHist, T.update],
            fun _ => hstop, by simp, fun _ => ⟨fun _ => rfl, rfl⟩, by simp⟩
      · rename_i hstop
        have hgvf : gv = false := by
          cases gv with
          | true => simp at hstop
          | false => rfl
        subst hgvf
        split at h
        · simp only [Except.ok.injEq] at h
          subst h
          exact ⟨bump 0, .goesOn, by simp [updFirst_bump_zero], fun _ => rfl, fun d => by simp [Outcome.stops, bump],
            by simp, by simp, fun _ => ⟨fun _ => rfl, _, rfl⟩, by simp, by simp⟩
        · split at h
          · simp at h
          · rename_i d2 hd2
            split at h
            · simp at h
            · rename_i lv hlv
              simp only [Except.ok.injEq] at h
              subst h
              refine ⟨(fun d => { d with active := d.active && !lv }) ∘
                  (fun d => { d with hist := d.hist ++ [pending ++ [gen]], active := d.active && true }), .lsc lv, ?_,
                  fun _ => rfl, fun d => by simp [Outcome.stops], by simp [appendHist, T.update], by simp, by simp,
                  fun _ => ⟨fun _ => rfl, rfl⟩, ?_⟩
              · simp only [T.update, appendHist]
                exact updFirst_comp _ _ _ _ (fun _ => rfl)
              · intro v hv hds
                injection hv with hv
                subst hv
                simp only [hds, lscEval, Option.some.injEq] at hlv
                exact hlv.symm

/-- **C06 — an accepted generation deactivates the running deme exactly when a stop reason
held.**  The deme that runs is active; after the generation it is inactive iff the outcome of
the consults was: the global stop condition held, or CMA-ES stopped itself (only a CMA-ES deme
whose strategy reports termination), or the metaepoch was complete and the local stop
condition's verdict was true (never for `DontStop`).  While the metaepoch goes on, its history
is untouched; otherwise exactly one metaepoch is recorded.  The global condition is marked as
seen exactly when it held. -/
theorem C06_deactivation_gen {t t' : T} {id : Id} {g : GenEnv} {l : Option Bool}
    (h : stepGen t id g l = .ok t') :
    ∃ (d d' : Deme) (lc : LevelCfg) (o : Outcome),
      t.find id = some d ∧ d.active = true ∧ t.cfg.levels[d.level]? = some lc ∧
      t'.find id = some d' ∧ d'.active = !o.stops ∧
      (o = .goesOn → d'.hist = d.hist) ∧ (o ≠ .goesOn → d'.hist.length = d.hist.length + 1) ∧
      t'.gscSeen = (t.gscSeen || decide (o = .gsc)) ∧
      (o = .selfStop → lc.engine = .cma ∧ g.cmaStop = true) ∧
      (∀ v, o = .lsc v → lc.lsc = .dontStop → v = false) := by
  unfold stepGen at h
  split at h
  · simp at h
  · rename_i q done pending d lc hprep
    obtain ⟨hfind, hact, hlev, _, _⟩ := prepareGen_ok hprep
    simp only [] at h
    split at h
    · simp at h
    · rename_i t1 ev hev
      split at h
      · simp at h
      · have e := evalReqs_effect hev
        obtain ⟨f, o, hd, hfid, hfact, hseen, hself, hgo, hrec, hds⟩ := finishGen_active h
        have hed := e.demes
        generalize (if true = true then g.reqs.length else 0) = k at hed
        have hdem : t'.demes = updFirst id (f ∘ bump k) t.demes := by
          rw [hd, hed, updFirst_comp id f (bump k) t.demes (fun _ => rfl)]
        have hfind' : t'.find id = some ((f ∘ bump k) d) := by
          unfold T.find at hfind ⊢
          rw [hdem, find_updFirst id _ _ (fun x => by simp [hfid, bump]), hfind]
          rfl
        refine ⟨d, _, lc, o, hfind, hact, hlev, hfind', ?_, ?_, ?_, by rw [hseen, e.gscSeen], hself, hds⟩
        · simp [hfact, bump, hact]
        · intro ho
          simp [(hgo ho).1, bump]
        · intro ho
          simp [(hrec ho).1, bump]

/-- **a local search is one-shot**: whatever scipy did, its deme is inactive afterwards and
exactly one metaepoch was recorded -/
theorem C06_local_one_shot {t t' : T} {id : Id} {reqs : List Req} {its : List Ind} {nfev : Nat}
    (h : stepLocal t id reqs its nfev = .ok t') :
    ∃ d d', t.find id = some d ∧ d.active = true ∧ t'.find id = some d' ∧ d'.active = false ∧
      d'.hist.length = d.hist.length + 1 := by
  unfold stepLocal at h
  split at h
  · split at h
    · simp at h
    · split at h
      · simp at h
      · rename_i d hfind
        split at h
        · simp at h
        · split at h
          · simp at h
          · split at h
            · simp at h
            · rename_i hact
              split at h
              · simp at h
              · rename_i t1 ev hev
                have e := evalReqs_effect hev
                split at h
                · simp at h
                · simp only [] at h
                  split at h
                  · simp at h
                  · simp only [Except.ok.injEq] at h
                    subst h
                    have hact' : d.active = true := by simpa using hact
                    have hed := e.demes
                    generalize (if false = true then reqs.length else 0) = k at hed
                    let f : Deme → Deme := fun x =>
                      { x with counter := x.counter + nfev, hist := x.hist ++ [[⟨its, ev⟩]], active := false }
                    refine ⟨d, (f ∘ bump k) d, hfind, hact', ?_, rfl, by simp [f, bump]⟩
                    show (updFirst id f t1.demes).find? (·.id == id) = some _
                    rw [hed, updFirst_comp id f (bump k) t.demes (fun _ => rfl),
                      find_updFirst id _ _ (fun x => by simp [f, bump])]
                    unfold T.find at hfind
                    rw [hfind]
                    rfl
  · simp at h

end C06
