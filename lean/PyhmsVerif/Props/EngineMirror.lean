import PyhmsVerif.Props.EngineDE
/-!
# C13 — SHADE: maximising f is minimising −f, one whole generation

`EngineDE.deGen_mirror` for `shadeGen`: the p-best admissibility test (`pbestOk`: fewer than `m`
individuals strictly better) is symmetric, the mutation does not look at fitness values, the
carry-over / evaluation / replacement mirror as for DE, and the archive (genomes only) is the same.
-/
namespace EngineMirror
open Engine Repair F64 Select EngineDE

def negSDraws (dr : SDraws) : SDraws := { dr with values := dr.values.map Fit.neg }
def negSGen (g : SGen) : SGen :=
  { trials := g.trials.map negInd, requests := g.requests.map (fun q => (q.1, q.2.neg)),
    next := g.next.map negInd, archive := g.archive }

theorem pbestOk_neg (parents : List Ind) (m : Nat) (p : PPick) :
    pbestOk false (parents.map negInd) m p = pbestOk true parents m p := by
  unfold pbestOk
  simp only [List.getElem?_map]
  cases parents[p.pb]? with
  | none => rfl
  | some b =>
    simp only [Option.map_some, List.countP_map]
    have : ((fun a => better false a (negInd b)) ∘ negInd) = fun a => better true a b := by
      funext a
      simp [Function.comp, C13.better_mirror]
    rw [this]

theorem sshapeOk_neg (r : Rounding) (box : Box) (parents : List Ind) (arch : List Genome) (dr : SDraws) :
    sshapeOk false r box (parents.map negInd) arch (negSDraws dr) = sshapeOk true r box parents arch dr := by
  simp only [sshapeOk, negSDraws, List.all_map, Function.comp_def, negInd, List.length_map]
  congr 1
  congr 1
  funext p
  have := pbestOk_neg parents
  cases poolSize r parents.length p.2.p with
  | none => rfl
  | some m => simp only [this]

theorem replaced_neg (parents trials : List Ind) :
    (replaced false (parents.map negInd) (trials.map negInd)).map (·.genome) = (replaced true parents trials).map (·.genome) := by
  unfold replaced
  have hz : (parents.map negInd).zip (trials.map negInd) = (parents.zip trials).map (fun p => (negInd p.1, negInd p.2)) := by
    rw [List.zip_map]; rfl
  rw [hz, List.filter_map, List.map_map, List.map_map]
  have hf : List.filter ((fun p : Ind × Ind => trialWins false p.1 p.2) ∘ fun p => (negInd p.1, negInd p.2)) (parents.zip trials)
      = List.filter (fun p => trialWins true p.1 p.2) (parents.zip trials) := by
    apply List.filter_congr; intro p _; simp [Function.comp, C13.trialWins_mirror]
  rw [hf, List.map_map]
  apply List.map_congr_left
  intro p _
  simp [Function.comp, negInd]

/-- **C13, SHADE.**  One SHADE generation under `maximize = true` and the same generation on the
mirrored population (fitness and objective values negated, `maximize = false`, same archive, same
draws) are defined together and are mirror images: same trial genomes, same requests in the same
order, mirrored survivors, identical archive. -/
theorem shadeGen_mirror (r : Rounding) (box : Box) (parents : List Ind) (arch : List Genome) (dr : SDraws) :
    shadeGen false r box (parents.map negInd) arch (negSDraws dr) = (shadeGen true r box parents arch dr).map negSGen := by
  unfold shadeGen
  rw [sshapeOk_neg]
  split
  · rfl
  · simp only [map_genome_neg, List.length_map]
    have hd : (negSDraws dr).picks = dr.picks ∧ (negSDraws dr).jrand = dr.jrand ∧ (negSDraws dr).crs = dr.crs ∧
        (negSDraws dr).chosen = dr.chosen ∧ (negSDraws dr).values = dr.values.map Fit.neg := ⟨rfl, rfl, rfl, rfl, rfl⟩
    rw [hd.1, hd.2.1, hd.2.2.1, hd.2.2.2.1, hd.2.2.2.2]
    cases hm : (if parents.length < 4 then some (parents.map (·.genome))
        else seqOpt (((List.range parents.length).zip dr.picks).map fun p =>
          pmutant r box (parents.map (·.genome)) (parents.map (·.genome) ++ arch) p.1 p.2)) with
    | none => simp
    | some muts =>
      simp only [Option.bind_some]
      rw [assignFit_mirror]
      cases assignFit ((trialRows box.length dr.jrand dr.crs dr.chosen muts (parents.map (·.genome))).zip parents) dr.values with
      | none => rfl
      | some q =>
        simp only [Option.map_some, negSGen, Option.some.injEq]
        rw [C13.deSelect_mirror, replaced_neg]

end EngineMirror

/-! ## SEA family: one pass of the variational pipeline mirrors too -/
namespace EngineMirror
open Engine Repair F64 Select EngineDE

def negSeaDraws (dr : SeaDraws) : SeaDraws := { dr with values := dr.values.map Fit.neg }
def negSeaGen (g : SeaGen) : SeaGen :=
  { offspring := g.offspring.map negInd, requests := g.requests.map (fun q => (q.1, q.2.neg)) }
def negRow (r : Row) : Row := (r.1, r.2.map Fit.neg)

theorem firstBest_mirror : ∀ l : List Ind, firstBest false (l.map negInd) = (firstBest true l).map negInd
  | [] => rfl
  | a :: l => by
    simp only [List.map_cons, firstBest, firstBest_mirror l]
    cases firstBest true l with
    | none => rfl
    | some b =>
      simp only [Option.map_some]
      rw [← C13.better_mirror]
      split <;> rfl

theorem seqOpt_map {α β : Type} (f : α → β) : ∀ l : List (Option α), seqOpt (l.map (Option.map f)) = (seqOpt l).map (List.map f)
  | [] => rfl
  | none :: _ => rfl
  | some a :: l => by
    simp only [List.map_cons, Option.map_some, seqOpt, seqOpt_map f l]
    cases seqOpt l <;> rfl

theorem tournament_mirror (pop : List Ind) (idx : List (List Nat)) :
    tournament false (pop.map negInd) idx = (tournament true pop idx).map (List.map negInd) := by
  unfold tournament
  rw [← seqOpt_map]
  congr 1
  simp only [List.map_map]
  apply List.map_congr_left
  intro cs _
  simp only [Function.comp, List.getElem?_map]
  have : (cs.map fun c => Option.map negInd pop[c]?) = (cs.map fun c => pop[c]?).map (Option.map negInd) := by
    simp [List.map_map, Function.comp_def]
  rw [this, seqOpt_map]
  cases seqOpt (cs.map fun c => pop[c]?) with
  | none => rfl
  | some l => simp [firstBest_mirror]

theorem updateRow_neg (old : Row) (g : Genome) : updateRow (negRow old) g = negRow (updateRow old g) := by
  unfold updateRow negRow
  split <;> simp_all

theorem arithX_neg (r : Rounding) (prob : Rat) : ∀ (rows : List Row) (ds : List (Rat × Rat)),
    arithX r prob (rows.map negRow) ds = (arithX r prob rows ds).map (List.map negRow)
  | a :: b :: rest, (u, al) :: ds => by
    simp only [List.map_cons, arithX]
    have h1 : (negRow a).1 = a.1 := rfl
    have h2 : (negRow b).1 = b.1 := rfl
    rw [h1, h2]
    split
    · cases seqOpt ((a.1.zip b.1).map fun p => mixCoord r al p.1 p.2) with
      | none => rfl
      | some ga =>
        cases seqOpt ((a.1.zip b.1).map fun p => mixCoord' r al p.1 p.2) with
        | none => rfl
        | some gb =>
          simp only [Option.bind_some]
          rw [arithX_neg r prob rest ds]
          cases arithX r prob rest ds with
          | none => rfl
          | some t => simp [updateRow_neg]
    · rw [arithX_neg r prob rest ds]
      cases arithX r prob rest ds <;> simp
  | [a], [] => by simp [arithX]
  | [], [] => by simp [arithX]
  | [], _ :: _ => by simp [arithX]
  | [_], _ :: _ => by simp [arithX]
  | _ :: _ :: _, [] => by simp [arithX]

theorem gaussRow_neg (r : Rounding) (box : Box) (prob : Rat) (row : Row) (us noise : List Rat) :
    gaussRow r box prob (negRow row) us noise = (gaussRow r box prob row us noise).map negRow := by
  unfold gaussRow
  have h1 : (negRow row).1 = row.1 := rfl
  rw [h1]
  cases seqOpt ((row.1.zip (us.zip noise)).map fun p => gaussCoord r prob p.1 p.2.1 p.2.2) with
  | none => rfl
  | some moved =>
    simp only [Option.bind_some]
    cases repairRow .toroidal r box moved with
    | none => rfl
    | some g => simp [updateRow_neg]

theorem uniformRow_neg (prob : Rat) (row : Row) (us draws : List Rat) :
    uniformRow prob (negRow row) us draws = negRow (uniformRow prob row us draws) := by
  unfold uniformRow
  have h1 : (negRow row).1 = row.1 := rfl
  rw [h1, updateRow_neg]

theorem evalRows_neg : ∀ (rows : List Row) (vs : List Fit),
    evalRows (rows.map negRow) (vs.map Fit.neg) =
      (evalRows rows vs).map fun q => (q.1.map negInd, q.2.map fun x => (x.1, x.2.neg))
  | [], [] => by simp [evalRows]
  | [], _ :: _ => by simp [evalRows]
  | (g, some f) :: l, vs => by
    have e : negRow (g, some f) = (g, some f.neg) := rfl
    rw [List.map_cons, e]
    simp only [evalRows]
    rw [evalRows_neg l vs]
    cases evalRows l vs <;> simp [negInd]
  | (g, none) :: l, [] => by
    have e : negRow (g, (none : Option Fit)) = (g, none) := rfl
    rw [List.map_cons, e]
    simp [evalRows]
  | (g, none) :: l, v :: vs => by
    have e : negRow (g, (none : Option Fit)) = (g, none) := rfl
    rw [List.map_cons, e, List.map_cons]
    simp only [evalRows]
    rw [evalRows_neg l vs]
    cases evalRows l vs <;> simp [negInd]

theorem zip3With_map_left {α β γ δ ε : Type} (f : α → β → γ → δ) (g : ε → α) (a : List ε) (b : List β) (c : List γ) :
    zip3With f (a.map g) b c = zip3With (fun x y z => f (g x) y z) a b c := by
  simp only [zip3With, List.zip_map_left, List.map_map]
  rfl

theorem zip3With_map_out {α β γ δ ε : Type} (f : α → β → γ → δ) (g : δ → ε) (a : List α) (b : List β) (c : List γ) :
    (zip3With f a b c).map g = zip3With (fun x y z => g (f x y z)) a b c := by
  simp only [zip3With, List.map_map]
  rfl

theorem pipeline_mirror (X M : List Row → Option (List Row)) (rows : List Row) (vs : List Fit)
    (hX : X (rows.map negRow) = (X rows).map (List.map negRow))
    (hM : ∀ c, M (c.map negRow) = (M c).map (List.map negRow)) :
    ((X (rows.map negRow)).bind fun c => (M c).bind fun m =>
        (evalRows m (vs.map Fit.neg)).map fun (q : List Ind × List (Genome × Fit)) => ({ offspring := q.1, requests := q.2 } : SeaGen)) =
    ((X rows).bind fun c => (M c).bind fun m =>
        (evalRows m vs).map fun (q : List Ind × List (Genome × Fit)) => ({ offspring := q.1, requests := q.2 } : SeaGen)).map negSeaGen := by
  rw [hX]
  cases X rows with
  | none => rfl
  | some c =>
    simp only [Option.map_some, Option.bind_some]
    rw [hM c]
    cases M c with
    | none => rfl
    | some m =>
      simp only [Option.map_some, Option.bind_some]
      rw [evalRows_neg]
      cases evalRows m vs <;> simp [negSeaGen]

theorem gaussStage_neg (r : Rounding) (box : Box) (pM : Rat) (mask noise : List (List Rat)) (c : List Row) :
    seqOpt (zip3With (gaussRow r box pM) (c.map negRow) mask noise) =
      (seqOpt (zip3With (gaussRow r box pM) c mask noise)).map (List.map negRow) := by
  rw [← seqOpt_map, zip3With_map_left, zip3With_map_out]
  simp only [gaussRow_neg]

theorem uniformStage_neg (pM : Rat) (mask noise : List (List Rat)) (c : List Row) :
    (some (zip3With (uniformRow pM) (c.map negRow) mask noise) : Option (List Row)) =
      (some (zip3With (uniformRow pM) c mask noise)).map (List.map negRow) := by
  rw [zip3With_map_left, Option.map_some, zip3With_map_out]
  simp only [uniformRow_neg]

/-- **C13, SEA family.**  One pass of the variational pipeline (tournament, crossover, mutation,
evaluation) under `maximize = true` and the same pass on the mirrored population (fitness and
objective values negated, `maximize = false`, same draws) are defined together and produce mirror
images: same offspring genomes, same evaluation requests in the same order. -/
theorem seaOffspring_mirror (r : Rounding) (pipe : Pipe) (box : Box) (pX pM : Rat) (parents : List Ind) (dr : SeaDraws) :
    seaOffspring false r pipe box pX pM (parents.map negInd) (negSeaDraws dr) =
      (seaOffspring true r pipe box pX pM parents dr).map negSeaGen := by
  have hg : ((parents.map negInd).all fun p => p.genome.length == box.length) = (parents.all fun p => p.genome.length == box.length) := by
    simp [List.all_map, Function.comp_def, negInd]
  have hrows : ∀ sel : List Ind, ((sel.map negInd).map fun (i : Ind) => ((i.genome, some i.fit) : Row)) =
      (sel.map fun (i : Ind) => ((i.genome, some i.fit) : Row)).map negRow := by
    intro sel
    simp [List.map_map, Function.comp_def, negRow, negInd]
  cases pipe
  all_goals
    simp only [seaOffspring, negSeaDraws, List.length_map, hg]
    split
    · rfl
    · rw [tournament_mirror]
      cases tournament true parents dr.contestants with
      | none => rfl
      | some sel =>
        simp only [Option.map_some, Option.bind_some]
        rw [hrows sel]
        first
          | exact pipeline_mirror (fun rows => some rows) (fun c => seqOpt (zip3With (gaussRow r box pM) c dr.mask dr.noise)) _ dr.values
              (by simp) (gaussStage_neg r box pM dr.mask dr.noise)
          | exact pipeline_mirror (fun rows => arithX r pX rows dr.pairs) (fun c => seqOpt (zip3With (gaussRow r box pM) c dr.mask dr.noise)) _ dr.values
              (arithX_neg r pX _ dr.pairs) (gaussStage_neg r box pM dr.mask dr.noise)
          | exact pipeline_mirror (fun rows => arithX r pX rows dr.pairs) (fun c => some (zip3With (uniformRow pM) c dr.mask dr.noise)) _ dr.values
              (arithX_neg r pX _ dr.pairs) (uniformStage_neg pM dr.mask dr.noise)

end EngineMirror
