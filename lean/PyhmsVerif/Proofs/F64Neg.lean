import PyhmsVerif.Model.F64
import Mathlib.Tactic.Linarith
import Mathlib.Data.Rat.Floor
/-!
binary64 rounding is symmetric: `rnd (−q) = −rnd q`
-/
namespace F64

theorem absR_neg (q : Rat) : absR (-q) = absR q := by
  unfold absR
  by_cases h1 : q < 0
  · have : ¬ (-q < 0) := by linarith
    simp [h1, this]
  · by_cases h2 : q = 0
    · simp [h2]
    · have : -q < 0 := by
        have : 0 < q := lt_of_le_of_ne (not_lt.mp h1) (Ne.symm h2)
        linarith
      simp [h1, this]

theorem roundHalfEven_neg (m : Rat) : roundHalfEven (-m) = -roundHalfEven m := by
  unfold roundHalfEven
  have hf : m.floor = ⌊m⌋ := rfl
  have hf' : (-m).floor = ⌊-m⌋ := rfl
  simp only [hf, hf']
  have h1 : (⌊m⌋ : ℚ) ≤ m := Int.floor_le m
  have h2 : m < ⌊m⌋ + 1 := Int.lt_floor_add_one m
  by_cases hd : m = ⌊m⌋
  · -- m is an integer
    have hn : ⌊-m⌋ = -⌊m⌋ := by
      rw [hd]
      rw [← Int.cast_neg, Int.floor_intCast, Int.floor_intCast]
    rw [hn]
    have e1 : m - (⌊m⌋ : ℚ) = 0 := by linarith
    have e2 : -m - ((-⌊m⌋ : ℤ) : ℚ) = 0 := by push_cast; linarith
    rw [e1, e2]
    norm_num
  · have hlt : (⌊m⌋ : ℚ) < m := lt_of_le_of_ne h1 (Ne.symm hd)
    have hn : ⌊-m⌋ = -⌊m⌋ - 1 := by
      rw [Int.floor_eq_iff]
      push_cast
      constructor <;> linarith
    rw [hn]
    have e2 : -m - ((-⌊m⌋ - 1 : ℤ) : ℚ) = 1 - (m - ⌊m⌋) := by push_cast; ring
    rw [e2]
    generalize hdd : m - (⌊m⌋ : ℚ) = d
    have hd0 : 0 < d := by rw [← hdd]; linarith
    have hd1 : d < 1 := by rw [← hdd]; linarith
    by_cases c1 : d < 1 / 2
    · have : ¬ (1 - d < 1 / 2) := by linarith
      have c2 : 1 - d > 1 / 2 := by linarith
      simp only [c1, this, c2, ↓reduceIte]
      omega
    · by_cases c2 : d > 1 / 2
      · have : 1 - d < 1 / 2 := by linarith
        simp only [c1, c2, this, ↓reduceIte]
        omega
      · have hh : d = 1 / 2 := by linarith
        subst hh
        norm_num
        by_cases hp : ⌊m⌋ % 2 = 0
        · have : ¬ ((-⌊m⌋ - 1) % 2 = 0) := by omega
          simp only [hp, this, ↓reduceIte]
        · have : (-⌊m⌋ - 1) % 2 = 0 := by omega
          simp only [hp, this, ↓reduceIte]
          omega

theorem rnd_neg (q : Rat) : rnd (-q) = (rnd q).map (fun r => -r) := by
  unfold rnd
  by_cases h0 : q = 0
  · simp [h0]
  · have h0' : -q ≠ 0 := by simpa using h0
    simp only [h0, h0', ↓reduceIte, absR_neg]
    have : -q / pow2 ((if ilog2 (absR q) < -1022 then -1022 else ilog2 (absR q)) - 52) =
        -(q / pow2 ((if ilog2 (absR q) < -1022 then -1022 else ilog2 (absR q)) - 52)) := by ring
    rw [this, roundHalfEven_neg]
    simp only [Int.cast_neg, neg_mul, absR_neg]
    split <;> (split <;> simp)

end F64
