import PyhmsVerif.Props.C18
import PyhmsVerif.Props.C06Step
/-!
# C18, run level — sleeping demes are frozen through a whole metaepoch; only rounds touch flags
-/
namespace C18
open Tree

/-- **A sleeping deme costs nothing.**  With hibernation enabled, through a whole
`run_metaepoch` (from the loop-head consult that came out false to the end of the phase, any
accepted generation / local-search events in between) every deme that was hibernating when the
step began is *unchanged* — same history, same evaluation counter, same flags; and so is every
inactive deme. -/
theorem C18_sleeping_frozen {t t1 t2 : T} {ge : Option Bool} {evs : List Ev}
    (hnd : (t.demes.map (·.id)).Nodup) (hon : t.cfg.hibernation = true)
    (hloop : step t (.loop ge) = .ok t1) (hgo : t1.pc ≠ .done)
    (hrun : ∀ e ∈ evs, C06.isRun e = true) (hexec : exec t1 evs = .ok t2) (hpost : t2.pc = .post) :
    List.Forall₂ (fun d d' => (d.hib = true ∨ d.active = false) → d' = d) t.demes t2.demes := by
  obtain ⟨_, hall⟩ := C06.C06_one_metaepoch hnd hloop hgo hrun hexec hpost
  refine forall2_imp (fun d d' hdd hc => hdd.2.2 ?_) hall
  rcases hc with hh | ha
  · simp [hon, hh]
  · simp [ha]

/-- **Only sprouting rounds touch hibernation flags**: the loop-head consult, generations and
local searches leave every deme's flag as it was -/
theorem C18_flags_only_in_rounds {t t' : T} {ev : Ev} (h : step t ev = .ok t')
    (hnr : ∀ ge renv news, ev ≠ .round ge renv news) :
    List.Forall₂ (fun d d' => d'.hib = d.hib) t.demes t'.demes := by
  have hrefl : ∀ ds : List Deme, List.Forall₂ (fun d d' => d'.hib = d.hib) ds ds := by
    intro ds
    induction ds with
    | nil => exact .nil
    | cons a l ih => exact .cons rfl ih
  have hupd : ∀ (id : Id) (f : Deme → Deme), (∀ d, (f d).hib = d.hib) → ∀ ds : List Deme,
      List.Forall₂ (fun d d' => d'.hib = d.hib) ds (updFirst id f ds) := by
    intro id f hf ds
    induction ds with
    | nil => exact .nil
    | cons a l ih =>
      simp only [updFirst]
      split
      · exact .cons (hf a) (hrefl l)
      · exact .cons rfl ih
  cases ev with
  | loop ge =>
    obtain ⟨_, hd, _⟩ := stepLoop_effect h
    rw [hd]; exact hrefl _
  | gen id g l =>
    obtain ⟨f, hd, hf, _⟩ := (stepGen_effect h).only
    rw [hd]; exact hupd id f hf _
  | localRun id reqs its nfev =>
    obtain ⟨f, hd, hf, _⟩ := (stepLocal_effect h).only
    rw [hd]; exact hupd id f hf _
  | round ge renv news => exact absurd rfl (hnr ge renv news)

end C18
