"""C01 — The objective is never evaluated outside the declared box bounds

Theorems: lean/PyhmsVerif/Props/C01.lean (about the tree model lean/PyhmsVerif/Model/Tree.lean).
Tie to /repo: trace refinement — real runs are re-executed by `Tree.step`, state dumps and
sprout-stage outputs are diffed (harness/refine.py); only disagreements that bear on this
property count.  Direct monitor of the property on the same kind of runs (harness/monitors.py).
"""
from .. import refine, runs

MODULE = 'PyhmsVerif.Props.C01Stored'
THEOREMS = ['C01.C01_run', 'C01.step_logInBox', 'C01.rejection_inBox', 'C01.repaired_inBox', 'C17.repair_inBox', 'C01.C01_stored_in_box', 'EngineDE.deGen_trials_inBox', 'EngineDE.shadeGen_trials_inBox', 'EngineSEA.seaOffspring_inBox', 'EngineDE.shadeGen_archive', 'C01Affine.affine_inBox', 'C01Affine.ideal_laws']
EXTRA_MODULES = ['PyhmsVerif.Props.EngineDE', 'PyhmsVerif.Props.EngineSEA', 'PyhmsVerif.Props.C01Affine']
LEVEL = 'proof'
LEVEL_TEXT = 'Theorem: in every state reachable in the tree model every objective invocation lies in its level box (all configs, engines, seeds, event sequences); kernel theorems: apply_bounds result in box for every input and rounding function, rejection loop returns only in-box points. Tie: trace refinement (the model rejects an out-of-box invocation at that event) + bit-exact apply_bounds correspondence (C17) + direct monitor of all invocations, stored genomes and seeds. NEW: C01_stored_in_box — in every reachable state every stored individual that was obtained from the objective lies inside the box of its deme level (it is backed by a logged invocation, C02_stored_is_objective_value, and every logged invocation is in the box, C01_run); the only other stored individuals are sentinel carriers of refused requests and a local deme starting point (its seed). ENGINE LEVEL (Model/Engine.lean, Props/EngineDE.lean): one whole generation of DE.run / SHADE.run is in the model, deterministic given the generator draws (donor arithmetic in binary64, reflect repair, crossover mask incl. the row-zeroing quirk, fitness carry-over, which rows are evaluated, replacement), and is diffed bit-exactly against the real engines with recorded draws: deGen_trials_inBox / shadeGen_trials_inBox — parents inside the box imply every trial genome inside the box, for all draws, scaling factors, crossover probabilities, archives and rounding functions (no EnvBox assumption for DE / SHADE). SEA FAMILY (Engine.seaOffspring, Props/EngineSEA.lean): one pass of the variational pipeline (tournament = first best contestant, arithmetic crossover in binary64, Gaussian mutation with toroidal repair or uniform mutation, loss of fitness on changed rows, evaluation in row order) is in the model and diffed bit-exactly against BaseSEA.run with recorded draws: seaOffspring_inBox — for SEA / SEAWithCrossover / SEAWithAdaptiveMutation every offspring genome lies inside the box whatever the crossover produced and whatever noise was drawn (GAStyleSEA keeps crossover results and uniform draws unrepaired: EnvBox, monitored). LHS / SOBOL SCALING (Props/C01Affine.lean): affine_inBox — fl(lo + fl(u*fl(hi-lo))) lies in [lo, hi] for every rounding function that is monotone, exact on 0 and idempotent, every representable box and every unit sample whose product with a rounded-up range does not round back up to the range (the one binary64-specific fact, not proved for F64.rnd: validated by the bit-exact differential of LHSDeme.run / SobolDeme.run with adversarial samples 1-2^-53, 1-2^-52, ... on every run).'
LEVEL_NOTE = 'Trusted: Lean kernel + standard axioms; the hand-written tree model (Tree.step) is tied to DemeTree.run by trace refinement on sampled runs (every run is re-executed by the model, dumps and sprout stages diffed); numerical engines (NumPy RNG, cma, scipy), objective values and user-defined stop-condition verdicts are environment; monitors trusted as failing-input search. EnvBox: points proposed by cma.ask, L-BFGS-B and np.random.uniform / qmc samplers are assumed in the box and monitored on every traced run.'
TECHNIQUE = "Lean 4 theorems (inductive invariants of the tree machine Tree.step, proved for all configurations and event sequences) tied to the code by trace refinement (Tree.step re-executes real runs; engine generations replayed bit-exactly by the engine model) + direct monitors as failing-input search"
RULE = "case = one traced run of a random configuration (1-3 levels, engine per level from the full list, every shipped GSC/LSC kind plus user-defined ones, both stock sprout mechanisms and user-composed chains, hibernation on/off, both directions, decimal boxes, optional cutoff/precision/stats wrappers, shared or per-level problems); non-trivial = run with >= 2 demes and >= 2 metaepochs; distinct by configuration hash"
ASSUMPTIONS = ["objective is deterministic and never returns NaN", "runs are capped at 12 metaepochs by a user-level composite stop condition"]
FORCE = None
PID = "C01"


def witness_d18():
    """known finding D18, replayed from its stored witness: must still show exactly the listed signature"""
    import json
    import os

    from ..common import VERIF, Slice

    sl = Slice("known-finding-D18-witness")
    spec = json.load(open(os.path.join(VERIF, "corpus", "d18_witness.json")))
    _, res = runs.monitored_run(spec, {PID})
    sl.cases = 1
    sl.nontrivial.add("d18")
    for v in res.get(PID, []):
        sl.violations.append({"signature": v["signature"], "detail": v["detail"], "replay": {"spec": spec}})
    sl.sample({"witness": runs.describe(spec), "signatures": [v["signature"] for v in res.get(PID, [])]})
    return sl


def slice_affine(ctx, rng, n):
    """LHSDeme.run / SobolDeme.run with the sampler replaced by adversarial unit samples (a public attribute of
    the deme): the scaled genomes against `Repair.affine F64.rnd`, bit for bit, and inside the box"""
    import numpy as np
    from pyhms.config import LHSLevelConfig, SobolLevelConfig, TreeConfig
    from pyhms.core.problem import FunctionProblem
    from pyhms.sprout import get_simple_sprout
    from pyhms.stop_conditions import DontStop, MetaepochLimit
    from pyhms.tree import DemeTree

    from ..common import Slice, fr, run_driver

    sl = Slice("LHS / Sobol affine scaling vs Repair.affine (adversarial unit samples, bit-exact)")
    edge = [np.nextafter(1.0, 0.0), 1.0 - 2.0**-52, 1.0 - 2.0**-51, 0.0, 2.0**-53, 0.5, 1.0 - 2.0**-30, np.nextafter(0.5, 1.0)]
    lines, metas = [], []
    for _ in range(n):
        d = int(rng.integers(2, 4))
        kind = int(rng.integers(0, 4))
        if kind == 0:
            box = [(-0.1, 0.2), (-0.3, 0.6), (0.1, 0.7)][:d]
        elif kind == 1:
            lo = rng.uniform(-5, 0, d)
            box = [(float(a), float(a + w)) for a, w in zip(lo, rng.uniform(1e-3, 9, d))]
        elif kind == 2:
            lo = rng.uniform(-1, 1, d) * 10.0 ** rng.integers(-6, 7, d).astype(float)
            box = [(float(a), float(a + abs(a) * w + 1e-12)) for a, w in zip(lo, rng.uniform(1e-9, 2, d))]
        else:
            box = [(float(a), float(np.nextafter(a, np.inf) if rng.random() < 0.3 else a + 2.0 ** -int(rng.integers(1, 60)))) for a in rng.uniform(-3, 3, d)]
        bounds = np.array(box, dtype=float)
        if not np.all(bounds[:, 0] < bounds[:, 1]):
            continue
        n_pop = 6
        U = rng.random((n_pop, d))
        for i in range(n_pop):
            for j in range(d):
                if rng.random() < 0.5:
                    U[i, j] = edge[int(rng.integers(len(edge)))]
        seen = []
        prob = FunctionProblem(lambda x: (seen.append(np.array(x, dtype=float)) or 0.0), maximize=False, bounds=bounds)
        cls = LHSLevelConfig if rng.random() < 0.5 else SobolLevelConfig
        cfg = TreeConfig([cls(problem=prob, pop_size=8 if cls is SobolLevelConfig else n_pop, lsc=DontStop())], MetaepochLimit(3), get_simple_sprout(1.0), options={"random_seed": 1})
        tree = DemeTree(cfg)
        root = tree.root
        root._pop_size = n_pop

        class S:
            def random(self, k, U=U):
                return U[:k].copy()

        root.sampler = S()
        seen.clear()
        tree.run_step()
        got = [tuple(float(t) for t in i.genome) for i in root.history[-1]]
        for i, g in enumerate(got):
            for j, x in enumerate(g):
                lo, hi = box[j]
                lines.append(f"affine {fr(lo)} {fr(hi)} {fr(U[i, j])}")
                metas.append((fr(x), lo, hi, float(U[i, j]), x, cls.__name__))
                if not (lo <= x <= hi):
                    sl.violations.append({"signature": "C01/eval-outside-box/affine-scaling", "detail": f"{cls.__name__}: unit sample {float(U[i, j])!r} on [{lo!r}, {hi!r}] was scaled to {x!r}, outside the box", "replay": {"box": box, "u": float(U[i, j])}})
        for x in seen:
            if np.any(x < bounds[:, 0]) or np.any(x > bounds[:, 1]):
                sl.violations.append({"signature": "C01/eval-outside-box/affine-scaling", "detail": f"{cls.__name__}: objective invoked at {x.tolist()} outside {box}", "replay": {"box": box}})
                break
    got = run_driver(lines)
    for line, g, (e, lo, hi, u, x, name) in zip(lines, got, metas):
        sl.cases += 1
        sl.count(name.replace("LevelConfig", ""))
        if u > 1.0 - 2.0**-40 or u == 0.0:
            sl.nontrivial.add(hash(line))
        if g != e:
            sl.disagreements.append({"op": line, "impl": e, "model": g})
    if lines:
        sl.sample({"op": lines[0], "model": got[0]})
    return sl


def _repair(ctx):
    """the claim of this property rests on `apply_bounds` landing inside the box for every double: the bit-exact
    differential of the C17 check on adversarial doubles (faces, one ulp outside, exact multiples of the range)"""
    from ..common import Slice
    from . import c17

    sl = Slice("apply_bounds-vs-Repair.repair(F64) (adversarial doubles; a repaired coordinate outside the box is a C01 violation)")
    c17.run_cases(ctx, ctx.rng(91), 60, 40, sl)
    out = []
    for v in sl.violations:
        if v["signature"] in ("C17/outside-box", "C17/not-finite"):
            out.append(dict(v, signature="C01/eval-outside-box/bound-repair-leaves-the-box"))
    sl.violations = out
    return sl


def run(ctx):
    from .. import engine

    return [
        witness_d18(),
        refine.refine_batch(ctx, ctx.size(120, 1500), force=FORCE, pid=PID, name="trace-refinement(Tree.step vs DemeTree.run)"),
        runs.minimize_slice(ctx, PID, ctx.size(12, 150)),
        runs.monitor_batch(ctx, PID, ctx.size(250, 3000), force=FORCE),
        # local methods that do not keep their iterates inside the bounds they are given (BFGS, CG, SLSQP's
        # line search) on an objective that descends towards a corner of the box: whatever the deme records
        # or evaluates must be inside the box all the same
        refine.refine_batch(ctx, ctx.size(30, 300), salt=73, force=_unbounded_local, pid=PID, name="trace-refinement(local leaves with BFGS / CG / SLSQP on a slope towards a corner)"),
        runs.monitor_batch(ctx, PID, ctx.size(40, 400), salt=75, name="traced-runs-monitor-C01(local leaves with BFGS / CG / SLSQP on a slope towards a corner)", force=_unbounded_local),
        engine.slice_engine(ctx, ctx.rng(81), ctx.size(250, 3000), only="C01/"),
        engine.slice_sea(ctx, ctx.rng(83), ctx.size(400, 5000), only="C01/"),
        slice_affine(ctx, ctx.rng(85), ctx.size(150, 2000)),
        _repair(ctx),
        # an objective with NaN holes (NaN is a legal value, ordered as worst): the property does not depend on it
        runs.nan_monitor_batch(ctx, PID, ctx.size(30, 300), salt=57),
    ]


def _unbounded_local(rng):
    return {"nlev": 2, "engines": {0: ["sea", "de", "ga", "shade", "lhs"], 1: ["local"]}, "objective": "slope",
            "local_methods": ["BFGS", "CG", "SLSQP", "BFGS"], "gsc": {"kind": "MetaepochLimit", "limit": int(rng.integers(3, 7))}}


def search(ctx, broken):
    return runs.monitor_batch(ctx, PID, 500, salt=97, force=FORCE).violations


def replay(data):
    spec = data["violation"]["replay"]["spec"]
    _, res = runs.monitored_run(spec, {PID})
    for v in res.get(PID, []):
        print(v["signature"], v["detail"])
    return not res.get(PID)
