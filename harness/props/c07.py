"""C07 — The demes always form a well-formed tree; sprout seeds come from the parent

Theorems: lean/PyhmsVerif/Props/C07.lean (about the tree model lean/PyhmsVerif/Model/Tree.lean).
Tie to /repo: trace refinement — real runs are re-executed by `Tree.step`, state dumps and
sprout-stage outputs are diffed (harness/refine.py); only disagreements that bear on this
property count.  Direct monitor of the property on the same kind of runs (harness/monitors.py).
"""
from .. import refine, runs

MODULE = 'PyhmsVerif.Props.C07Ran'
THEOREMS = ['C07.C07_wf', 'C07.step_wf', 'C07.create_wf', 'C07.init_wf', 'C07.find_unique', 'C07.root_facts', 'C07.C07_children', 'C07.step_childOk', 'C07.C07_seed_in_initial_population', 'C07.C07_parents_ran', 'C07.C07_ancestors_ran', 'C07.step_ranInv', 'C07.step_parentRan', 'C07.all_ran_at_post']
LEVEL = 'proof'
LEVEL_TEXT = 'Theorem C07_wf: every state reachable from a fresh tree is well formed — level = id length, ids pairwise distinct (fresh-id argument: suffix = current size of the target level), levels registration has one entry per configured level, nothing below the last level, start metaepochs not in the future, every non-root deme records the deme one level up with id = own id minus the last component as its parent and that deme exists and did not start later, the root has no parent; lookup by id is unambiguous. Inductive (step_wf) for every configuration and event sequence. Tie: trace refinement (ids, levels, parents, children, start metaepochs, seeds, class names in every dump) + structural monitor + seed provenance monitor. NEW: C07_children — in every reachable state every non-root deme is listed exactly once among the children of the deme one level above whose id is its own id without the last component, every entry of a children list is the id of an existing deme of that shape, no children list has repetitions (inductive ChildOk); C07_seed_in_initial_population — every SEA / DE / SHADE deme sprouted from a seed has an individual with exactly the seed genome in its initial population. NEW: C07_parents_ran / C07_ancestors_ran — in every reachable state a deme that lists a child (hence every proper ancestor of every deme) has run at least one metaepoch, and when a sprouting round begins every deme of the tree has (inductive RanInv: ran, or still scheduled in the metaepoch in progress, or created by the last round and waiting awake for the next one).'
LEVEL_NOTE = 'Trusted: Lean kernel + standard axioms; the hand-written tree model is tied to the code by trace refinement on sampled runs; numerical engines, objective values and user-defined stop-condition verdicts are environment; monitors trusted as failing-input search. Ids are modelled as paths of per-level creation indices (root = empty path); their rendering as strings (root, 3/4) is part of the dump compared with the real ids. Seed provenance (seed is an individual of the parent population at sprouting time; population children contain it) is enforced by the model per event (initPopOk, generators) and checked by refinement and the monitor rather than stated as a separate theorem; the children-list half of the parent link is checked by refinement.'
TECHNIQUE = "Lean 4 theorems (inductive invariants of the tree machine Tree.step, proved for all configurations and event sequences) tied to the code by trace refinement (Tree.step re-executes real runs; engine generations replayed bit-exactly by the engine model) + direct monitors as failing-input search"
RULE = "case = one traced run of a random configuration (1-3 levels, engine per level from the full list, every shipped GSC/LSC kind plus user-defined ones, both stock sprout mechanisms and user-composed chains, hibernation on/off, both directions, decimal boxes, optional cutoff/precision/stats wrappers, shared or per-level problems); non-trivial = run with >= 2 demes and >= 2 metaepochs; distinct by configuration hash"
ASSUMPTIONS = ["objective is deterministic and never returns NaN", "runs are capped at 12 metaepochs by a user-level composite stop condition"]
FORCE = None
PID = "C07"


def run(ctx):
    return [
        refine.refine_batch(ctx, ctx.size(120, 1500), force=FORCE, pid=PID, name="trace-refinement(Tree.step vs DemeTree.run)"),
        runs.monitor_batch(ctx, PID, ctx.size(250, 3000), force=FORCE),
        _shared_mechanism(ctx),
        fault_injection(ctx, ctx.size(40, 500)),
        custom_classes_two_trees(ctx, ctx.size(12, 120)),
        # an objective with NaN holes: the STRUCTURE of the tree does not depend on how NaN values are ordered
        # (seed provenance is compared by value and is left to the NaN-free runs)
        _nan_structure(ctx),
        # a box of its own per level (the child's narrower): a population-based child still holds its sprout seed
        runs.level_boxes_batch(ctx, PID, ctx.size(30, 300), 49),
    ]


def _two_trees_worker(seed):
    """two trees of one process register the SAME custom level-config class with DIFFERENT deme classes
    (config_class_to_deme_class is per tree): in each tree every deme of that level is of that tree's class"""
    import numpy as np
    import pyhms.tree as T
    from pyhms.config import EALevelConfig, TreeConfig
    from pyhms.core.problem import FunctionProblem
    from pyhms.demes.ea_deme import EADeme
    from pyhms.demes.single_pop_eas.sea import SEA
    from pyhms.sprout import get_simple_sprout
    from pyhms.stop_conditions import DontStop, MetaepochLimit

    from ..common import RunTimeout, is_env_crash, run_limit

    class SharedConfig(EALevelConfig):
        pass

    class DemeA(EADeme):
        pass

    class DemeB(EADeme):
        pass

    rng = np.random.default_rng([seed, 5])
    found = []
    try:
        with run_limit():
            bounds = np.array([(-5.0, 5.0)] * 2)
            order = [DemeA, DemeB] if rng.random() < 0.5 else [DemeB, DemeA]
            lvl_custom = int(rng.integers(0, 2))
            # a tree whose levels 0 and 1 are ONE level-config object (a user reusing a configuration), level 2 CMA-ES
            from pyhms.config import CMALevelConfig
            from pyhms.demes.cma_deme import CMADeme

            prob0 = FunctionProblem(lambda x: float(np.sum(np.asarray(x) ** 2)), maximize=False, bounds=bounds)
            shared_cfg = EALevelConfig(ea_class=SEA, generations=1, problem=prob0, pop_size=6, lsc=MetaepochLimit(3), mutation_std=0.5, sample_std_dev=0.5)
            leaf_cfg = CMALevelConfig(generations=2, problem=prob0, sigma0=0.3, lsc=DontStop())
            tree3 = T.DemeTree(TreeConfig([shared_cfg, shared_cfg, leaf_cfg], MetaepochLimit(5), get_simple_sprout(0.2, level_limit=3), options={"random_seed": int(rng.integers(1, 10**6))}))
            tree3.run()
            for lv, demes in enumerate(tree3.levels):
                for d in demes:
                    want = CMADeme if lv == 2 else EADeme
                    if type(d) is not want and not found:
                        found.append(f"levels 0 and 1 share one level-config object, level 2 is CMA-ES: deme {d.id} registered at level {lv + 1} (reports level {d.level}) is a {type(d).__name__}, configured {want.__name__}")
            for k, cls in enumerate(order + [order[0]]):
                prob = FunctionProblem(lambda x: float(np.sum(np.asarray(x) ** 2)), maximize=False, bounds=bounds)
                mk = lambda C: C(ea_class=SEA, generations=1, problem=prob, pop_size=6, lsc=DontStop(), mutation_std=0.5, sample_std_dev=0.5)  # noqa: E731
                levels = [mk(SharedConfig if lvl_custom == 0 else EALevelConfig), mk(SharedConfig if lvl_custom == 1 else EALevelConfig)]
                tree = T.DemeTree(TreeConfig(levels, MetaepochLimit(4), get_simple_sprout(0.3, level_limit=3), options={"random_seed": int(rng.integers(1, 10**6))}, config_class_to_deme_class={SharedConfig: cls}))
                tree.run()
                for lv, demes in enumerate(tree.levels):
                    for d in demes:
                        want = cls if lv == lvl_custom else EADeme
                        if type(d) is not want and not found:
                            found.append(f"tree {k + 1} of the process maps its custom config class to {cls.__name__}, but deme {d.id} at level {lv + 1} is a {type(d).__name__} (an earlier tree mapped the same config class to {order[0].__name__ if k else '-'})")
    except RunTimeout as e:
        return {"status": "env", "detail": str(e)}
    except Exception as e:  # noqa: BLE001
        return {"status": "env" if is_env_crash(e) else "crash", "detail": f"{type(e).__name__}: {e}"}
    return {"status": "ok", "found": found}


def custom_classes_two_trees(ctx, n):
    from ..common import Slice, pmap

    sl = Slice("two trees of one process map one custom config class to different deme classes")
    n = ctx.boost(n) if hasattr(ctx, "boost") else n
    base = int(ctx.rng(63).integers(1 << 30))
    seeds = [base + i for i in range(n)]
    for sd, r in zip(seeds, pmap(_two_trees_worker, seeds, chunksize=2)):
        if r["status"] == "env":
            sl.skipped += 1
            continue
        if r["status"] == "crash":
            sl.violations.append({"signature": "C07/run-crashed", "detail": r["detail"], "replay": {"seed": sd}})
            continue
        sl.cases += 1
        sl.nontrivial.add(sd)
        for m in r["found"]:
            sl.violations.append({"signature": "C07/wrong-engine(two trees, one custom config class)", "detail": m, "replay": {"seed": sd}})
    if seeds:
        sl.sample({"seed": seeds[0]})
    return sl


class InjectedFault(Exception):
    """raised by the objective at a chosen call made while the tree is sprouting"""


class FaultyObjective(runs.CountingObjective):
    holder = None

    def __call__(self, x):
        h = self.holder
        if h is not None and h["in_sprout"]:
            h["left"] -= 1
            if h["left"] == 0:
                h["faults"] += 1
                raise InjectedFault("objective failed")
        return super().__call__(x)


def structure_of(tree, nlev):
    """the tree's structure by object identity; returns a description of the first defect or None"""
    levels = tree.levels
    if len(levels) != nlev or len(levels[0]) != 1 or levels[0][0] is not tree.root:
        return f"levels have the shape {[len(lv) for lv in levels]}"
    alld = [d for lv in levels for d in lv]
    ids = [d.id for d in alld]
    if len(set(ids)) != len(ids):
        return f"two demes carry the same id: {sorted(ids)}"
    listed = {}
    for lvl, lv in enumerate(levels):
        for d in lv:
            if d.level != lvl:
                return f"deme {d.id} registered at level {lvl} reports level {d.level}"
            for c in d.children:
                nxt = levels[lvl + 1] if lvl + 1 < len(levels) else []
                if not any(c is x for x in nxt):
                    return f"deme {d.id} lists a child (id {getattr(c, 'id', '?')}, {type(c).__name__}) that is not a deme of the tree one level below"
                listed[id(c)] = listed.get(id(c), 0) + 1
    for d in alld:
        if d is not tree.root and listed.get(id(d), 0) != 1:
            return f"deme {d.id} is listed as a child {listed.get(id(d), 0)} times"
    return None


def _fault_worker(args):
    """a run in which the objective fails once or twice DURING SPROUTING (while a child's initial population is
    evaluated); the caller survives the exception and goes on stepping.  Whatever happened to the child that
    was being built, the demes must still form a well-formed tree after every step."""
    spec, first, second = args
    import pyhms.tree as T
    from pyhms.config import TreeConfig

    from ..common import RunTimeout, is_env_crash, run_limit

    holder = {"in_sprout": False, "left": first, "faults": 0}
    found = []
    census = []  # active demes per level after every step (read by the C08 check)
    try:
        with run_limit():
            o = runs.build(spec, None, plain="callable")
            for r in o["recs"]:
                r.__class__ = FaultyObjective
                r.holder = holder
            opts = {"random_seed": spec["seed"], "hibernation": spec["hibernation"]}
            tree = T.DemeTree(TreeConfig(o["levels"], o["gsc"], o["sm"], options=opts, config_class_to_deme_class=o["custom"]))
            orig = tree.run_sprout

            def rs():
                holder["in_sprout"] = True
                try:
                    return orig()
                finally:
                    holder["in_sprout"] = False

            tree.run_sprout = rs
            steps = 0
            while steps < spec["max_steps"]:
                try:
                    if tree._gsc(tree):
                        break
                    tree.run_step()
                except InjectedFault:
                    holder["in_sprout"] = False
                    if holder["faults"] == 1:
                        holder["left"] = second
                steps += 1
                bad = structure_of(tree, len(spec["levels"]))
                if bad and not found:
                    found.append(f"after step {steps} ({holder['faults']} injected fault(s) so far): {bad}")
                census.append([sum(1 for d in lv if d.is_active) for lv in tree.levels])
    except RunTimeout as e:
        return {"status": "env", "detail": str(e)}
    except Exception as e:  # noqa: BLE001 (what a run does after a fault, apart from keeping its structure, is not claimed)
        return {"status": "env" if (is_env_crash(e) or holder["faults"]) else "crash", "detail": f"{type(e).__name__}: {e}", "found": found, "faults": holder["faults"]}
    return {"status": "ok", "found": found, "faults": holder["faults"], "demes": sum(len(lv) for lv in tree.levels), "census": census}


def fault_injection(ctx, n):
    from ..common import Slice, pmap

    sl = Slice("objective fails while a child is being constructed; the run goes on (structure by object identity after every step)")
    n = ctx.boost(n) if hasattr(ctx, "boost") else n
    rng = ctx.rng(61)
    args = []
    for _ in range(n):
        spec = runs.rand_spec(rng, nlev=int(rng.choice([2, 2, 3])), engines={0: ["sea", "de", "shade", "ga", "seax"], 1: ["sea", "de", "shade", "cma", "xsea", "xde"], 2: ["sea", "de", "local", "cma"]},
                              gsc={"kind": "MetaepochLimit", "limit": 8}, max_steps=8, cutoff=None)
        args.append((spec, int(rng.integers(1, 12)), int(rng.integers(1, 12))))
    for (spec, a, b), r in zip(args, pmap(_fault_worker, args, chunksize=2)):
        for m in r.get("found", []):
            sl.violations.append({"signature": "C07/structure-broken-after-a-failed-sprout", "detail": m, "replay": {"spec": spec, "faults_at": [a, b]}})
        if r["status"] == "env":
            sl.skipped += 1
            sl.count("skipped:run-raised-after-the-fault")
            continue
        if r["status"] == "crash":
            sl.violations.append({"signature": "C07/run-crashed", "detail": r["detail"], "replay": {"spec": spec}})
            continue
        sl.cases += 1
        sl.count(f"faults:{r['faults']}")
        if r["faults"]:
            sl.nontrivial.add(runs.spec_id(spec))
    if args:
        sl.sample(runs.describe(args[0][0]))
    return sl


def _nan_structure(ctx):
    sl = runs.nan_monitor_batch(ctx, PID, ctx.size(30, 300), salt=57)
    keep = ("C07/duplicate-ids", "C07/root", "C07/level-registration", "C07/wrong-engine", "C07/started-at", "C07/child-unknown", "C07/child-level", "C07/started-before-parent", "C07/parent-count", "C07/run-did-not-terminate")
    sl.violations = [v for v in sl.violations if v["signature"] in keep]
    return sl


def _shared_mechanism(ctx):
    """two trees that share one sprout mechanism object, stepped side by side: every seed the chain hands
    out is an individual of its parent's current population"""
    from . import c15

    sl = c15.shared_generator(ctx, 16 if not ctx.thorough else 300, 9, only="C07/")
    sl.name = "one sprout mechanism object serving two trees (every seed comes from its parent's current population)"
    return sl


def search(ctx, broken):
    return runs.monitor_batch(ctx, PID, 500, salt=97, force=FORCE).violations


def replay(data):
    spec = data["violation"]["replay"]["spec"]
    _, res = runs.monitored_run(spec, {PID})
    for v in res.get(PID, []):
        print(v["signature"], v["detail"])
    return not res.get(PID)
