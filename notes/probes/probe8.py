import numpy as np, random, sys, warnings, os, hashlib
warnings.filterwarnings("ignore")
sys.path.insert(0,'/root/scratch')
from mon import *
from probe7 import digest
def run(seedcfg, pre):
    np.random.seed(pre); random.seed(pre); np.random.rand(pre%7)
    rng=np.random.default_rng(seedcfg); cfg=rand_cfg(rng)
    t=DemeTree(TreeConfig(cfg['levels'],cfg['gsc'],cfg['sm'],options={"random_seed":cfg['seed'],"hibernation":cfg['hib']}))
    k=0
    while not t._gsc(t) and k<8: t.run_step(); k+=1
    return digest(t), cfg['names']
if __name__=="__main__":
    out=[]
    for s in range(int(sys.argv[1]),int(sys.argv[2])):
        try:
            a,n=run(s,int(sys.argv[3])); out.append(f"{s} {a} {n}")
        except Exception as e: out.append(f"{s} EXC {type(e).__name__}")
    print("\n".join(out))
