import PyhmsVerif.Props.C11
import PyhmsVerif.Props.C06
import PyhmsVerif.Props.C16
/-!
# C02 — stored individuals carry the true fitness of their genome; history is immutable

* `eval_value`: one evaluation request returns the pair (requested point, value): the value is
  exactly what the objective returned when it was invoked (problem wrappers are transparent,
  C16), and the invocation is logged with that very pair; a request refused by an exhausted
  budget returns the direction's sentinel and logs nothing.
* `C02_stored_evaluated`: in every reachable state every stored individual of every deme is
  recorded in the `evald` list (the requests issued while some generation of that deme was
  made) of one of the deme's generations, or carries the sentinel of a refused request, or is
  the deme's own sprout seed (the starting point of a local deme — an individual of its parent).
* `C02_history_immutable`: recorded metaepochs never change (C06's append-only history).
-/
namespace C02
open Tree

/-- **One evaluation request.** -/
theorem eval_value {t t' : T} {id : Id} {lvl : Nat} {counts : Bool} {r : Req} {i : Ind}
    (h : evalReq t id lvl counts r = .ok (t', i)) :
    i.genome = r.x ∧
    (∀ v, r.v = some v → i.fit = v ∧ t'.log = t.log ++ [⟨lvl, id, r.x, v⟩]) ∧
    (r.v = none → i.fit = Fit.sentinel t.cfg.maximize ∧ t'.log = t.log) := by
  unfold evalReq at h
  split at h
  · simp at h
  · rename_i lc hlc
    split at h
    · simp at h
    · have htr := C16.transparent t.cfg.maximize (t.stacks.getD lc.stack []) (r.v.getD (Fit.sentinel t.cfg.maximize))
      generalize Problem.evalStack t.cfg.maximize (t.stacks.getD lc.stack []) (r.v.getD (Fit.sentinel t.cfg.maximize)) = res at h htr
      unfold evalReqCore at h
      split at h
      · simp at h
      · rename_i hfw
        simp only [Except.ok.injEq, Prod.mk.injEq] at h
        obtain ⟨rfl, rfl⟩ := h
        have hsome : res.2.2 = r.v.isSome := by simpa using hfw
        refine ⟨rfl, ?_, ?_⟩
        · intro v hv
          have hs : res.2.2 = true := by rw [hsome, hv]; rfl
          have hval := htr.1 hs
          simp only [hv, Option.getD_some] at hval
          refine ⟨hval, ?_⟩
          by_cases hc : counts = true <;> simp [hc, hs, hval, T.update]
        · intro hn
          have hs : res.2.2 = false := by rw [hsome, hn]; rfl
          have hval := (htr.2 hs).1
          refine ⟨hval, ?_⟩
          by_cases hc : counts = true <;> simp [hc, hs, T.update]

/-- the first generation of every deme consists of individuals evaluated while the deme was
built — or of the deme's seed (local deme) -/
def First (t : T) : Prop :=
  ∀ d ∈ t.demes, ∃ g rest, d.gens = g :: rest ∧ ∀ i ∈ g.inds, g.evald.contains i = true ∨ d.seed = some i

theorem first_of_demeStep {d d' : Deme} (h : DemeStep d d')
    (hf : ∃ g rest, d.gens = g :: rest ∧ ∀ i ∈ g.inds, g.evald.contains i = true ∨ d.seed = some i) :
    ∃ g rest, d'.gens = g :: rest ∧ ∀ i ∈ g.inds, g.evald.contains i = true ∨ d'.seed = some i := by
  obtain ⟨g, rest, hg, hp⟩ := hf
  obtain ⟨ext, he⟩ := h.histGrows
  refine ⟨g, rest ++ ext.flatten, ?_, by rw [h.seed]; exact hp⟩
  simp [Deme.gens, he, List.flatten_append] at hg ⊢
  rw [hg]; simp

theorem create_first {t t' : T} {parent : Option Deme} {seed : Option Ind} {env : NewEnv}
    (hinv : First t) (h : createDeme t parent seed env = .ok t') : First t' := by
  have ce := createDeme_effect h
  obtain ⟨o, dn, hdn, hfn, _, _, ⟨g, hg, hp⟩, _⟩ := ce.demes
  intro x hx
  rw [hdn] at hx
  rcases List.mem_append.mp hx with hx | hx
  · obtain ⟨a, ha, cs, rfl⟩ := forall2_mem_right hfn x hx
    exact hinv a ha
  · simp only [List.mem_singleton] at hx; subst hx
    exact ⟨g, [], by simp [Deme.gens, hg], hp⟩

theorem sprout_first {t t' : T} {flat : List (Id × Ind)} {news : List NewEnv}
    (hinv : First t) (h : doSprout t flat news = .ok t') : First t' := by
  induction flat generalizing t news with
  | nil =>
    cases news with
    | nil => simp only [doSprout, Except.ok.injEq] at h; subst h; exact hinv
    | cons e es => simp [doSprout] at h
  | cons ps rest ih =>
    obtain ⟨pid, s⟩ := ps
    cases news with
    | nil => simp [doSprout] at h
    | cons e es =>
      simp only [doSprout] at h
      split at h
      · simp at h
      · split at h
        · simp at h
        · rename_i t1 hc
          exact ih (create_first hinv hc) h

theorem first_of_forall2 {t : T} {ds' : List Deme} (hinv : First t)
    (hf : List.Forall₂ DemeStep t.demes ds') :
    ∀ d ∈ ds', ∃ g rest, d.gens = g :: rest ∧ ∀ i ∈ g.inds, g.evald.contains i = true ∨ d.seed = some i := by
  intro d hd
  obtain ⟨a, ha, hr⟩ := forall2_mem_right hf d hd
  exact first_of_demeStep hr (hinv a ha)

/-- **`First` is inductive** (old demes keep their first generation, new ones satisfy it by
construction). -/
theorem step_first {t t' : T} {ev : Ev} (hinv : First t) (h : step t ev = .ok t') : First t' := by
  cases ev with
  | loop ge =>
    obtain ⟨_, hdm, _⟩ := stepLoop_effect h
    intro d hd; rw [hdm] at hd; exact hinv d hd
  | gen id g l => exact first_of_forall2 hinv (stepGen_effect h).demes
  | localRun id reqs its nfev => exact first_of_forall2 hinv (stepLocal_effect h).demes
  | round ge renv news =>
    obtain ⟨_, _, _, _, _, _, hcase⟩ := stepRound_effect h
    rcases hcase with ⟨hdm, _⟩ | ⟨_, _, _, seeds, t1, _, _, hds, rfl⟩
    · intro d hd; rw [hdm] at hd; exact hinv d hd
    · have h1 := sprout_first hinv hds
      intro d hd
      obtain ⟨a, ha, x, rfl⟩ := forall2_mem_right (updateHibernation_forall2 t1 (seeds.map (·.deme))) d hd
      exact h1 a ha

/-- along a chained list of generations: if the first generation's members have property `Q`,
`Q` holds of everything evaluated in one of the generations and of sentinel carriers, then `Q`
holds of every stored individual -/
theorem chain_all (mx : Bool) (Q : Ind → Prop) (whole : List Gen)
    (hev : ∀ G ∈ whole, ∀ i ∈ G.evald, Q i) (hsent : ∀ i : Ind, i.fit = Fit.sentinel mx → Q i)
    (l : List Gen) (a : Gen) (hsub : ∀ G ∈ a :: l, G ∈ whole)
    (hchain : C11.chainOk mx (a :: l) = true) (ha : ∀ i ∈ a.inds, Q i) :
    ∀ G ∈ a :: l, ∀ i ∈ G.inds, Q i := by
  induction l generalizing a with
  | nil => intro G hG i hi; simp only [List.mem_singleton] at hG; subst hG; exact ha i hi
  | cons b l ih =>
    simp only [C11.chainOk, Bool.and_eq_true, List.all_eq_true] at hchain
    have hb : ∀ i ∈ b.inds, Q i := by
      intro i hi
      have := hchain.1 i hi
      simp only [memberOk, Bool.or_eq_true, List.contains_iff_mem, Bool.and_eq_true, beq_iff_eq] at this
      rcases this with (h1 | h1) | h1
      · exact ha i h1
      · exact hev b (hsub b (by simp)) i h1
      · exact hsent i h1.2
    intro G hG i hi
    rcases List.mem_cons.mp hG with rfl | hG'
    · exact ha i hi
    · exact ih b (fun G hG => hsub G (List.mem_cons_of_mem _ hG)) hchain.2 hb G hG' i hi

/-- **C02, run level.** In every state reachable from a freshly constructed tree, every stored
individual of every deme was evaluated while one of that deme's generations was being made
(so, by `eval_value`, carries exactly the value the objective returned for its genome), or
carries the sentinel of an exhausted evaluation budget, or is the deme's sprout seed (the
starting point of a local deme: an individual of the parent). -/
theorem C02_stored_evaluated {cfg : Cfg} {stks : List (List Problem.Wrapper)} {rootEnv : NewEnv} {t0 t : T}
    {evs : List Ev} (hi : init cfg stks rootEnv = .ok t0) (h : exec t0 evs = .ok t) :
    ∀ d ∈ t.demes, ∀ G ∈ d.gens, ∀ i ∈ G.inds,
      (∃ G' ∈ d.gens, i ∈ G'.evald) ∨ i.fit = Fit.sentinel t.cfg.maximize ∨ d.seed = some i := by
  -- chain invariant
  have hchain0 : C11.Chain t0 := by
    refine ⟨C11.create_chain (by intro d hd; simp at hd) hi, ?_⟩
    intro q id done pending hpc
    have := (createDeme_effect hi).pc
    rw [this] at hpc; cases hpc
  have hc := (C11.exec_chain hchain0 h).1
  -- first-generation invariant
  have hfirst0 : First t0 := by
    have ce := createDeme_effect hi
    obtain ⟨o, dn, hdn, hfn, _, _, ⟨g, hg, hp⟩, _⟩ := ce.demes
    have ho : o = [] := by cases hfn; rfl
    intro x hx
    rw [hdn, ho] at hx
    simp only [List.nil_append, List.mem_singleton] at hx; subst hx
    exact ⟨g, [], by simp [Deme.gens, hg], hp⟩
  have hfirst : First t := by
    clear hchain0 hc hi
    induction evs generalizing t0 with
    | nil => simp only [exec, Except.ok.injEq] at h; subst h; exact hfirst0
    | cons e es ih =>
      simp only [exec, bind, Except.bind] at h
      split at h
      · simp at h
      · rename_i t1 h1
        exact ih h (step_first hfirst0 h1)
  intro d hd G hG i hi
  obtain ⟨g, rest, hg, hp⟩ := hfirst d hd
  rw [hg] at hG
  refine chain_all t.cfg.maximize
    (fun i => (∃ G' ∈ d.gens, i ∈ G'.evald) ∨ i.fit = Fit.sentinel t.cfg.maximize ∨ d.seed = some i)
    d.gens (fun G' hG' i hi' => Or.inl ⟨G', hG', hi'⟩) (fun i hs => Or.inr (Or.inl hs))
    rest g (fun G' hG' => by rw [hg]; exact hG') (by rw [← hg]; exact hc d hd) ?_ G hG i hi
  intro j hj
  rcases hp j hj with h1 | h1
  · exact Or.inl ⟨g, by rw [hg]; simp, by simpa using h1⟩
  · exact Or.inr (Or.inr h1)

/-- **History is immutable**: in every later state the demes that existed are still there,
each with its recorded metaepochs unchanged (the history is only extended at the end). -/
theorem C02_history_immutable {t t' : T} {evs : List Ev} (h : exec t evs = .ok t') :
    ∃ old new, t'.demes = old ++ new ∧ List.Forall₂ (fun d d' => ∃ ext, d'.hist = d.hist ++ ext) t.demes old := by
  obtain ⟨old, new, hd, hf⟩ := C06.C06_absorbing h
  exact ⟨old, new, hd, forall2_imp (fun _ _ hab => hab.appendOnly) hf⟩

end C02
