import PyhmsVerif.Proofs.TreeSteps
import PyhmsVerif.Props.C17
/-!
# C01 — the objective is never evaluated outside the declared box

Two layers.  (1) Run level: in every state reachable in the tree model every logged
invocation of the objective lies in the box of its level — the model refuses to perform an
out-of-box invocation, so a real run that makes one is rejected by the trace refinement at
that very event.  (2) Kernel level: the points pyhms itself constructs are repaired by
`apply_bounds`, whose result is in the box for every input and every rounding function
(`C17.repair_inBox`); the sampling rejection loop returns only points that passed the
bounds test (`rejection_inBox`).  What `cma`, L-BFGS-B and NumPy's uniform generator
propose is environment (`EnvBox`), monitored on every traced run.
-/
namespace C01
open Tree

/-- every logged objective invocation lies inside the box of the level that made it -/
def LogInBox (t : T) : Prop :=
  ∀ i ∈ t.log, ∃ lc, t.cfg.levels[i.level]? = some lc ∧ inBox lc.box i.x = true

theorem logInBox_append {t t' : T} (hc : t'.cfg = t.cfg) (h : LogInBox t)
    (hl : ∃ invs : List Inv, t'.log = t.log ++ invs ∧
      ∀ i ∈ invs, ∃ lc, t.cfg.levels[i.level]? = some lc ∧ inBox lc.box i.x = true) : LogInBox t' := by
  obtain ⟨invs, hlog, hb⟩ := hl
  intro i hi
  rw [hlog] at hi
  rw [hc]
  rcases List.mem_append.mp hi with hi | hi
  · exact h i hi
  · exact hb i hi

theorem step_logInBox {t t' : T} {ev : Ev} (hinv : LogInBox t) (h : step t ev = .ok t') : LogInBox t' := by
  cases ev with
  | loop ge =>
    obtain ⟨hc, _, _, hl, _⟩ := stepLoop_effect h
    exact logInBox_append hc hinv ⟨[], by simp [hl], by simp⟩
  | gen id g l => have e := stepGen_effect h; exact logInBox_append e.cfg hinv e.log
  | localRun id reqs its nfev => have e := stepLocal_effect h; exact logInBox_append e.cfg hinv e.log
  | round ge renv news =>
    obtain ⟨hc, _, _, _, _, _, hcase⟩ := stepRound_effect h
    rcases hcase with ⟨_, _, hl, _, _⟩ | ⟨_, _, _, seeds, t1, _, se, _, rfl⟩
    · exact logInBox_append hc hinv ⟨[], by simp [hl], by simp⟩
    · obtain ⟨_, _, f3, _, _, _⟩ := updateHibernation_frame t1 (seeds.map (·.deme))
      exact logInBox_append hc hinv (by simpa [f3] using se.log)

/-- **C01, run level.** Starting from a freshly constructed tree, after any sequence of
events the model accepts, every invocation of the objective was made inside the box. -/
theorem C01_run {cfg : Cfg} {stks : List (List Problem.Wrapper)} {rootEnv : NewEnv} {t0 t : T}
    {evs : List Ev} (hi : init cfg stks rootEnv = .ok t0) (h : exec t0 evs = .ok t) : LogInBox t := by
  have h0 : LogInBox t0 := by
    have ce := createDeme_effect hi
    obtain ⟨_, d, _, _, _, _, _, _, _, _, _, _, _, _, _, invs, hlog, _, hb, _⟩ := ce.demes
    apply logInBox_append ce.cfg (by intro i hi; simp at hi) ⟨invs, hlog, ?_⟩
    intro i hi
    obtain ⟨a, lc, h1, h2⟩ := hb i hi
    exact ⟨lc, a ▸ h1, h2⟩
  clear hi
  induction evs generalizing t0 with
  | nil => simp only [exec, Except.ok.injEq] at h; subst h; exact h0
  | cons e es ih =>
    simp only [exec, bind, Except.bind] at h
    split at h
    · simp at h
    · rename_i t1 h1
      exact ih h (step_logInBox h0 h1)

/-- the loop of `sample_normal.create`: keep sampling until the bounds test passes; whatever
it returns passed the test (fuel = number of draws the environment supplied) -/
def rejection (box : List (Rat × Rat)) : List (List Rat) → Option (List Rat)
  | [] => none
  | x :: xs => if inBox box x then some x else rejection box xs

theorem rejection_inBox (box : List (Rat × Rat)) (draws : List (List Rat)) (x : List Rat)
    (h : rejection box draws = some x) : inBox box x = true := by
  induction draws with
  | nil => simp [rejection] at h
  | cons d ds ih =>
    simp only [rejection] at h
    split at h
    · rename_i hb; simp only [Option.some.injEq] at h; subst h; exact hb
    · exact ih h

/-- every coordinate produced by a bound repair is inside its interval (from C17) -/
theorem repaired_inBox (m : Repair.Method) (r : F64.Rounding) (lo hi x y : Rat) (h : lo ≤ hi)
    (hy : Repair.repair m r lo hi x = some y) : lo ≤ y ∧ y ≤ hi :=
  C17.repair_inBox m r lo hi x y h hy

end C01
