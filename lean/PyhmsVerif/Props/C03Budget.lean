import PyhmsVerif.Props.C03
import PyhmsVerif.Props.C08
import PyhmsVerif.Props.C16Run
/-!
# C03 — a hard evaluation budget, at run level (`minimize(maxfun = N)`)

`pyhms.minimize(fun, bounds, maxfun = N)` builds a tree whose levels all evaluate through one
shared `EvalCutoffProblem(FunctionProblem(fun), N)` and reports `nfev` = that wrapper's counter.
In the model: every level uses wrapper stack 0, which is the single layer `cutoff 0 N`.

`C03_budget_run`: in every state reachable from such a tree the wrapper's counter equals the
number of objective invocations made so far, and that number never exceeds `N` — the budget is
hard for whole runs (whatever the engines request, however long the run continues), and the
reported `nfev` is exactly the number of calls made to `fun`.
-/
namespace C03
open Tree

def AllStack0 (cfg : Cfg) : Prop := ∀ lc ∈ cfg.levels, lc.stack = 0

/-- the shared wrapper has counted exactly the invocations made so far, and they are within budget -/
def Budget (N : Nat) (t : T) : Prop := t.stacks = [[.cutoff t.log.length N]] ∧ t.log.length ≤ N

theorem evalReq_budget {N : Nat} {t t' : T} {id : Id} {lvl : Nat} {counts : Bool} {r : Req} {i : Ind}
    (hb : Budget N t) (hs : AllStack0 t.cfg) (h : evalReq t id lvl counts r = .ok (t', i)) : Budget N t' := by
  obtain ⟨hst, hle⟩ := hb
  unfold evalReq at h
  split at h
  · simp at h
  · rename_i lc hlc
    have hmem : lc ∈ t.cfg.levels := List.mem_of_getElem? hlc
    have h0 : lc.stack = 0 := hs lc hmem
    split at h
    · simp at h
    · have hget : t.stacks.getD lc.stack [] = [.cutoff t.log.length N] := by rw [h0, hst]; rfl
      rw [hget] at h
      unfold evalReqCore at h
      by_cases hfull : t.log.length ≥ N
      · -- the budget is exhausted: the wrapper refuses, nothing is invoked, nothing changes
        have hev : Problem.evalStack t.cfg.maximize [.cutoff t.log.length N] (r.v.getD (Fit.sentinel t.cfg.maximize)) =
            ([.cutoff t.log.length N], Fit.sentinel t.cfg.maximize, false) := by
          simp [Problem.evalStack, Problem.Wrapper.refuses, hfull]
        rw [hev] at h
        simp only [] at h
        split at h
        · simp at h
        · simp only [Bool.false_eq_true, ↓reduceIte, Except.ok.injEq, Prod.mk.injEq] at h
          obtain ⟨rfl, _⟩ := h
          constructor
          · cases counts <;> simp [T.update, h0, hst]
          · cases counts <;> simpa [T.update] using hle
      · have hlt : t.log.length < N := by omega
        have hev : Problem.evalStack t.cfg.maximize [.cutoff t.log.length N] (r.v.getD (Fit.sentinel t.cfg.maximize)) =
            ([.cutoff (t.log.length + 1) N], r.v.getD (Fit.sentinel t.cfg.maximize), true) := by
          simp [Problem.evalStack, Problem.Wrapper.refuses, Problem.Wrapper.after, hfull]
        rw [hev] at h
        simp only [] at h
        split at h
        · simp at h
        · simp only [↓reduceIte, Except.ok.injEq, Prod.mk.injEq] at h
          obtain ⟨rfl, _⟩ := h
          constructor
          · cases counts <;> simp [T.update, h0, hst]
          · cases counts <;> simp [T.update] <;> omega

theorem evalReqs_budget {N : Nat} {id : Id} {lvl : Nat} {counts : Bool} {rs : List Req} :
    ∀ {t t' : T} {is : List Ind}, Budget N t → AllStack0 t.cfg → evalReqs t id lvl counts rs = .ok (t', is) →
      Budget N t' := by
  induction rs with
  | nil =>
    intro t t' is hb _ h
    simp only [evalReqs, Except.ok.injEq, Prod.mk.injEq] at h
    obtain ⟨rfl, _⟩ := h
    exact hb
  | cons r rs ih =>
    intro t t' is hb hs h
    simp only [evalReqs, bind, Except.bind] at h
    split at h
    · simp at h
    · rename_i p hp
      obtain ⟨t1, i1⟩ := p
      split at h
      · simp at h
      · rename_i q hq
        obtain ⟨t2, is2⟩ := q
        simp only [pure, Except.pure, Except.ok.injEq, Prod.mk.injEq] at h
        obtain ⟨rfl, _⟩ := h
        have hb1 := evalReq_budget hb hs hp
        have hc1 : t1.cfg = t.cfg := (evalReq_effect hp).cfg
        exact ih hb1 (by rw [hc1]; exact hs) hq


theorem budget_congr {N : Nat} {t t' : T} (hs : t'.stacks = t.stacks) (hl : t'.log = t.log) (hb : Budget N t) :
    Budget N t' := by
  unfold Budget at *
  rw [hs, hl]; exact hb

theorem createDeme_budget {N : Nat} {t t' : T} {parent : Option Deme} {seed : Option Ind} {env : NewEnv}
    (hb : Budget N t) (hs : AllStack0 t.cfg) (h : createDeme t parent seed env = .ok t') : Budget N t' := by
  unfold createDeme at h
  simp only [] at h
  split at h
  · simp at h
  · split at h
    · simp at h
    · rename_i t1 ev0 hev
      split at h
      · simp at h
      · simp only [Except.ok.injEq] at h
        subst h
        exact budget_congr (t := t1) rfl rfl (evalReqs_budget hb hs hev)

theorem doSprout_budget {N : Nat} {t t' : T} {flat : List (Id × Ind)} {news : List NewEnv}
    (hb : Budget N t) (hs : AllStack0 t.cfg) (h : doSprout t flat news = .ok t') : Budget N t' := by
  induction flat generalizing t news with
  | nil =>
    cases news with
    | nil => simp only [doSprout, Except.ok.injEq] at h; subst h; exact hb
    | cons e es => simp [doSprout] at h
  | cons ps rest ih =>
    obtain ⟨pid, s⟩ := ps
    cases news with
    | nil => simp [doSprout] at h
    | cons e es =>
      simp only [doSprout] at h
      split at h
      · simp at h
      · split at h
        · simp at h
        · rename_i t1 hc
          exact ih (createDeme_budget hb hs hc) (by rw [(createDeme_effect hc).cfg]; exact hs) h

/-- **the budget invariant is inductive** -/
theorem step_budget {N : Nat} {t t' : T} {ev : Ev} (hb : Budget N t) (hs : AllStack0 t.cfg)
    (h : step t ev = .ok t') : Budget N t' := by
  cases ev with
  | loop ge =>
    obtain ⟨_, _, _, hl, _, hst, _⟩ := stepLoop_effect h
    exact budget_congr hst hl hb
  | gen id g l =>
    simp only [step] at h
    unfold stepGen at h
    split at h
    · simp at h
    · simp only [] at h
      split at h
      · simp at h
      · rename_i t1 ev hev
        split at h
        · simp at h
        · obtain ⟨_, _, _, _, _, _, hl, _, hst, _⟩ := finishGen_demes h
          exact budget_congr hst hl (evalReqs_budget hb hs hev)
  | localRun id reqs its nfev =>
    simp only [step] at h
    unfold stepLocal at h
    split at h
    · split at h
      · simp at h
      · split at h
        · simp at h
        · split at h
          · simp at h
          · split at h
            · simp at h
            · split at h
              · simp at h
              · split at h
                · simp at h
                · rename_i t1 ev hev
                  split at h
                  · simp at h
                  · simp only [] at h
                    split at h
                    · simp at h
                    · simp only [Except.ok.injEq] at h
                      subst h
                      exact budget_congr (t := t1) rfl rfl (evalReqs_budget hb hs hev)
    · simp at h
  | round ge renv news =>
    simp only [step] at h
    unfold stepRound at h
    split at h
    · split at h
      · simp at h
      · split at h
        · simp only [Except.ok.injEq] at h
          subst h
          exact budget_congr (t := t) rfl rfl hb
        · simp at h
      · split at h
        · simp at h
        · split at h
          · simp at h
          · simp only [] at h
            split at h
            · simp at h
            · rename_i t1 hds
              simp only [Except.ok.injEq] at h
              subst h
              have h1 := doSprout_budget hb hs hds
              refine budget_congr ?_ ?_ h1
              · show (updateHibernation t1 _).stacks = t1.stacks
                unfold updateHibernation; split <;> rfl
              · show (updateHibernation t1 _).log = t1.log
                unfold updateHibernation; split <;> rfl
    · simp at h

/-- **C03 — the budget of `minimize(maxfun = N)` is hard, and `nfev` is exact.**  For every
configuration whose levels all evaluate through wrapper stack 0 and whose stack 0 is the single
layer `cutoff 0 N`: in every reachable state the wrapper's counter (what `minimize` reports as
`nfev`) equals the number of objective invocations made so far, and that number is at most `N`. -/
theorem C03_budget_run {cfg : Cfg} {rootEnv : NewEnv} {t0 t : T} {evs : List Ev} {N : Nat}
    (hs : AllStack0 cfg) (hi : init cfg [[.cutoff 0 N]] rootEnv = .ok t0) (h : exec t0 evs = .ok t) :
    t.stacks = [[.cutoff t.log.length N]] ∧ t.log.length ≤ N := by
  have h0 : Budget N t0 ∧ AllStack0 t0.cfg := by
    unfold init at hi
    refine ⟨createDeme_budget ⟨rfl, Nat.zero_le _⟩ hs hi, ?_⟩
    rw [(createDeme_effect hi).cfg]; exact hs
  clear hi
  induction evs generalizing t0 with
  | nil => simp only [exec, Except.ok.injEq] at h; subst h; exact h0.1
  | cons e es ih =>
    simp only [exec, bind, Except.bind] at h
    split at h
    · simp at h
    · rename_i t1 h1
      exact ih h ⟨step_budget h0.1 h0.2 h1, by rw [C08.step_cfg h1]; exact h0.2⟩

end C03

namespace C03
open Tree

/-- the tree `pyhms.minimize(fun, bounds, maxfun = N)` builds (`hms.py`): an SEA root and a CMA-ES
leaf level that share one problem object — the bare objective under one evaluation cutoff `N` —,
the NBC sprout mechanism, and the stop condition "N evaluations reached" -/
def minimizeCfg (N gens0 gens1 pop0 : Nat) (box : List (Rat × Rat)) (mech : Sprout.Mechanism) : Cfg :=
  { levels := [ { engine := .ea, cls := "EADeme", generations := gens0, popSize := pop0, lsc := .dontStop, stack := 0,
                  elitist := true, box := box },
                { engine := .cma, cls := "CMADeme", generations := gens1, popSize := 0, lsc := .env, stack := 0,
                  elitist := false, box := box } ],
    gsc := .evalLimit N, hibernation := false, maximize := false, mech := mech }

theorem minimizeCfg_allStack0 (N gens0 gens1 pop0 : Nat) (box : List (Rat × Rat)) (mech : Sprout.Mechanism) :
    AllStack0 (minimizeCfg N gens0 gens1 pop0 box mech) := by
  intro lc hlc
  simp only [minimizeCfg, List.mem_cons, List.mem_nil_iff, or_false] at hlc
  rcases hlc with rfl | rfl <;> rfl

/-- **`minimize(maxfun = N)`**: in every state the run can reach, `nfev` (the counter of the shared
cutoff wrapper) is exactly the number of calls made to `fun`, and never exceeds `N`. -/
theorem minimize_budget {N gens0 gens1 pop0 : Nat} {box : List (Rat × Rat)} {mech : Sprout.Mechanism}
    {rootEnv : NewEnv} {t0 t : T} {evs : List Ev}
    (hi : init (minimizeCfg N gens0 gens1 pop0 box mech) [[.cutoff 0 N]] rootEnv = .ok t0) (h : exec t0 evs = .ok t) :
    t.stacks = [[.cutoff t.log.length N]] ∧ t.log.length ≤ N :=
  C03_budget_run (minimizeCfg_allStack0 N gens0 gens1 pop0 box mech) hi h

end C03
