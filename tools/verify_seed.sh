#!/bin/bash
# usage: tools/verify_seed.sh <worktree> <seed-id> <property>
# Confirms in the scratch worktree that the seeded change (a) passes the 55 baseline tests,
# (b) makes its demo fail, (c) the demo passes without it; then stores it under seeded/<id>/.
set -u
WT=$1; ID=$2; PROP=$3
V=/verif/seeded/$ID
cd "$WT" || exit 2
[ -f _seed/patch.diff ] || { echo "no patch"; exit 2; }
git checkout -q -- pyhms
PYTHONPATH=$WT timeout 600 /venv/bin/python _seed/demo.py > /tmp/seed_clean.log 2>&1; rc_clean=$?
git apply _seed/patch.diff || { echo "patch does not apply"; exit 2; }
PYTHONPATH=$WT timeout 600 /venv/bin/python _seed/demo.py > /tmp/seed_mut.log 2>&1; rc_mut=$?
PYTHONPATH=$WT timeout 1200 /venv/bin/python -m pytest -q -p no:cacheprovider --timeout=900 > /tmp/seed_tests.log 2>&1; rc_tests=$?
tests=$(tail -1 /tmp/seed_tests.log)
echo "clean demo rc=$rc_clean; mutated demo rc=$rc_mut; tests rc=$rc_tests ($tests)"
if [ $rc_clean -eq 0 ] && [ $rc_mut -ne 0 ] && [ $rc_tests -eq 0 ]; then
  mkdir -p $V
  cp _seed/patch.diff _seed/demo.py $V/
  [ -f _seed/notes.md ] && cp _seed/notes.md $V/
  python3 - "$V" "$ID" "$PROP" "$tests" "$(tail -3 /tmp/seed_mut.log | tr '\n' ' ' | cut -c1-600)" <<'PY'
import json,sys
v,i,p,tests,mut=sys.argv[1:6]
json.dump({"id":i,"property":p,"needs_to_manifest":"see notes.md","confirmed":{"baseline_tests_with_change":tests,"demo_without_change":"exit 0 (PASS)","demo_with_change":"non-zero: "+mut},"detected_by":"(filled in after running the checks)"},open(v+"/meta.json","w"),indent=1)
PY
  echo "stored in $V"
else
  echo "NOT CONFIRMED"; for f in /tmp/seed_clean.log /tmp/seed_mut.log /tmp/seed_tests.log; do tail -n 5 $f; done
fi
