import numpy as np, warnings
warnings.filterwarnings("ignore")
from pyhms.core.individual import Individual
from pyhms.core.problem import FunctionProblem
from pyhms.utils.clusterization import NearestBetterClustering
def ref(pop, df, tf, maximize):
    s=sorted(pop,key=lambda i:(-i.fitness if maximize else i.fitness))  # stable
    s=s[:int(len(s)*tf)]
    d=[np.inf]
    for k in range(1,len(s)):
        better=[j for j in range(k) if (s[j].fitness<s[k].fitness if not maximize else s[j].fitness>s[k].fitness)]
        if not better: better=[0]
        d.append(min(np.linalg.norm(s[k].genome-s[j].genome) for j in better))
    m=np.mean(d[1:]) if len(d)>1 else np.nan
    return [s[k] for k in range(len(s)) if d[k]>m*df], d
rng=np.random.default_rng(5); bad=0; tot=0; kinds={}
for it in range(3000):
    n=int(rng.integers(2,40)); dim=int(rng.integers(1,6)); maximize=bool(rng.random()<.5)
    p=FunctionProblem(lambda x:0.0,bounds=np.array([(-5.,5.)]*dim),maximize=maximize)
    kind=rng.integers(0,4)
    if kind==0: G=rng.uniform(-5,5,(n,dim))
    elif kind==1: c=rng.uniform(-5,5,(3,dim)); G=c[rng.integers(0,3,n)]+rng.normal(0,0.2,(n,dim))
    elif kind==2: G=np.outer(np.arange(n),np.ones(dim))*0.5+rng.uniform(-5,0,dim)   # collinear equal spacing
    else: G=rng.uniform(-5,5,(n,dim))
    F=np.sum(G**2,axis=1) if kind!=3 else np.floor(rng.uniform(0,4,n))   # ties
    if maximize: F=-F
    pop=[Individual(g,p,fitness=float(f)) for g,f in zip(G,F)]
    df=float(rng.choice([0.5,1.0,2.0,3.0])); tf=float(rng.choice([1.0,0.7,0.5,0.35]))
    if int(n*tf)<1: continue
    nbc=NearestBetterClustering(pop,df,tf); r=nbc.cluster()
    rr,d=ref(pop,df,tf,maximize)
    a=sorted(tuple(i.genome) for i in r); b=sorted(tuple(i.genome) for i in rr)
    tot+=1
    if a!=b:
        bad+=1; kinds[int(kind)]=kinds.get(int(kind),0)+1
        if bad<4: print("DIFF kind",kind,"n",n,"df",df,"tf",tf,"max",maximize,len(a),len(b))
print(bad,tot,kinds)
