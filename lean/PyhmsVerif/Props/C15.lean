import PyhmsVerif.Proofs.SproutLemmas
/-!
# C15 — nearest-better clustering returns exactly the defined cluster seeds

`NBC.cluster` mirrors the code; `NBC.spec` is the declarative definition.  The key fact
(`better_prefix`): in a best-first sorted list the individuals strictly better than `p` are
exactly the prefix in front of the first individual with `p`'s fitness — so the code's slice
`individuals[: individuals.index(ind)]` *is* the set of strictly better individuals.
-/
namespace C15
open NBC Select

/-- the strictly-better individuals of a best-first list are the prefix before the first
individual that has the same fitness as `p` -/
theorem better_prefix (mx : Bool) (s : List (Nat × Ind)) (hs : SortedDesc mx s) (p : Nat × Ind) (hp : p ∈ s) :
    s.take (firstSameFit s p.2.fit) = s.filter fun q => better mx q.2 p.2 := by
  induction s with
  | nil => simp at hp
  | cons a t ih =>
    simp only [SortedDesc, List.pairwise_cons] at hs
    by_cases ha : (a.2.fit == p.2.fit) = true
    · -- `a` is the first with p's fitness: nothing before it, nothing after it is strictly better
      have hfs : firstSameFit (a :: t) p.2.fit = 0 := by
        simp [firstSameFit, List.findIdx?_cons, ha]
      have heq : a.2.fit = p.2.fit := by simpa using ha
      rw [hfs, List.take_zero]
      symm
      rw [List.filter_eq_nil_iff]
      intro q hq
      rcases List.mem_cons.mp hq with rfl | hq'
      · simp [better, heq, Fit.worse_irrefl]
      · have := hs.1 q hq'
        simp only [Select.worse, heq] at this
        simpa [better] using this
    · have hne : a.2.fit ≠ p.2.fit := by simpa using ha
      have hpt : p ∈ t := by
        rcases List.mem_cons.mp hp with rfl | h
        · exact absurd rfl hne
        · exact h
      have hfs : firstSameFit (a :: t) p.2.fit = firstSameFit t p.2.fit + 1 := by
        have hex : (t.findIdx? fun q => q.2.fit == p.2.fit).isSome := by
          rw [List.findIdx?_isSome]; exact List.any_eq_true.mpr ⟨p, hpt, by simp⟩
        obtain ⟨k, hk⟩ := Option.isSome_iff_exists.mp hex
        simp [firstSameFit, List.findIdx?_cons, ha, hk]
      rw [hfs, List.take_succ_cons, ih hs.2 hpt]
      -- `a` is not worse than `p` and has a different fitness: strictly better
      have hab : better mx a.2 p.2 = true := by
        have hnw := hs.1 p hpt
        simp only [Select.worse] at hnw
        simp only [better]
        cases hw : Fit.worse mx p.2.fit a.2.fit with
        | true => rfl
        | false =>
          exfalso
          apply hne
          cases mx <;> simp only [Fit.worse, Bool.false_eq_true, ↓reduceIte] at hnw hw
          · exact Fit.eq_of_not_lt hw hnw
          · exact Fit.eq_of_not_lt hnw hw
      simp [List.filter_cons, hab]

/-- nearest-better distance of the code = minimum distance over the strictly better individuals
of the definition (tied with the best ⇒ distance to the best) -/
theorem nbDist_spec (mx : Bool) (dist : Nat → Nat → Rat) (root : Nat × Ind) (rest : List (Nat × Ind))
    (hs : SortedDesc mx (root :: rest)) (j : Nat) (p : Nat × Ind) (hj : (root :: rest)[j]? = some p) :
    nbDist dist (root :: rest) j =
      (argminFirst ((if p.2.fit == root.2.fit then [root] else (root :: rest).filter fun q => better mx q.2 p.2).map
        fun q => (dist p.1 q.1, q.1))).map (·.1) := by
  have hp : p ∈ root :: rest := List.mem_of_getElem? hj
  simp only [nbDist, hj, List.getElem?_cons_zero]
  by_cases hr : (p.2.fit == root.2.fit) = true
  · simp [hr, argminFirst]
  · simp only [hr, Bool.false_eq_true, ↓reduceIte]
    rw [better_prefix mx (root :: rest) hs p hp]

end C15
