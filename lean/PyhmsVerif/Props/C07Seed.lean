import PyhmsVerif.Props.C07
import PyhmsVerif.Props.C08
/-!
# C07 — population-based children contain their seed in their initial population

`SeedIn`: every deme of an SEA / DE / SHADE level that was sprouted from a seed has, in the
first generation of its history (its initial population — never changed afterwards, C06), an
individual with the seed's genome.
-/
namespace C07
open Tree

def popEngine (lc : LevelCfg) : Prop := lc.engine = .ea ∨ lc.engine = .de ∨ lc.engine = .shade

def SeedIn (t : T) : Prop :=
  ∀ d ∈ t.demes, ∀ s, d.seed = some s → ∀ lc, t.cfg.levels[d.level]? = some lc → popEngine lc →
    ∃ g rest, d.gens = g :: rest ∧ ∃ i ∈ g.inds, i.genome = s.genome

theorem initPopShape_seed {lc : LevelCfg} {s : Ind} {env : NewEnv} {ev : List Ind} {u : Unit}
    (h : initPopShape lc (some s) env ev = .ok u) (hp : popEngine lc) : ∃ i ∈ env.pop, i.genome = s.genome := by
  unfold initPopShape at h
  have h1 : (lc.engine == Engine.localOpt) = false := by rcases hp with h | h | h <;> simp [h]
  have h2 : (lc.engine == Engine.cma) = false := by rcases hp with h | h | h <;> simp [h]
  have h3 : (lc.engine == Engine.lhs || lc.engine == Engine.sobol) = false := by rcases hp with h | h | h <;> simp [h]
  simp only [h1, h2, h3, Bool.false_eq_true, ↓reduceIte] at h
  split at h
  · simp at h
  · split at h
    · simp at h
    · split at h
      · simp at h
      · rename_i hany
        simp only [Bool.not_eq_true', Bool.not_eq_false, List.any_eq_true, beq_iff_eq] at hany
        exact hany

theorem createDeme_seedIn {t t' : T} {parent : Option Deme} {s : Ind} {env : NewEnv}
    (h : createDeme t parent (some s) env = .ok t') :
    ∀ d g, t'.demes.getLast? = some d → d.hist = [[g]] → ∀ lc, t.cfg.levels[d.level]? = some lc → popEngine lc →
      ∃ i ∈ g.inds, i.genome = s.genome := by
  unfold createDeme at h
  simp only [] at h
  split at h
  · simp at h
  · rename_i lc0 hlc0
    split at h
    · simp at h
    · rename_i t1 ev0 hev
      split at h
      · simp at h
      · rename_i u hok
        simp only [Except.ok.injEq] at h
        subst h
        intro d g hlast hhist lc hlc hp
        simp only [List.getLast?_append, List.getLast?_singleton, Option.some_or, Option.some.injEq] at hlast
        subst hlast
        simp only [List.cons.injEq, and_true] at hhist
        subst hhist
        simp only [] at hlc
        rw [hlc0] at hlc
        cases hlc
        exact initPopShape_seed (initPopOk_shape hok) hp

theorem seedIn_of_demeStep {cfg : Cfg} {d d' : Deme} (h : DemeStep d d')
    (hf : ∀ s, d.seed = some s → ∀ lc, cfg.levels[d.level]? = some lc → popEngine lc →
      ∃ g rest, d.gens = g :: rest ∧ ∃ i ∈ g.inds, i.genome = s.genome) :
    ∀ s, d'.seed = some s → ∀ lc, cfg.levels[d'.level]? = some lc → popEngine lc →
      ∃ g rest, d'.gens = g :: rest ∧ ∃ i ∈ g.inds, i.genome = s.genome := by
  intro s hs lc hlc hp
  obtain ⟨g, rest, hg, hi⟩ := hf s (by rw [← h.seed]; exact hs) lc (by rw [← h.level]; exact hlc) hp
  obtain ⟨ext, he⟩ := h.histGrows
  refine ⟨g, rest ++ ext.flatten, ?_, hi⟩
  simp [Deme.gens, he, List.flatten_append] at hg ⊢
  rw [hg]; simp

theorem create_seedIn {t t' : T} {parent : Option Deme} {seed : Option Ind} {env : NewEnv}
    (hinv : SeedIn t) (h : createDeme t parent seed env = .ok t') : SeedIn t' := by
  have ce := createDeme_effect h
  obtain ⟨o, dn, hdn, hfn, _, _, ⟨g, hg, _⟩, _, _, _, _, _, hseed, _⟩ := ce.demes
  intro x hx s hs lc hlc hp
  rw [ce.cfg] at hlc
  rw [hdn] at hx
  rcases List.mem_append.mp hx with hx | hx
  · obtain ⟨a, ha, cs, rfl⟩ := forall2_mem_right hfn x hx
    exact hinv a ha s hs lc hlc hp
  · simp only [List.mem_singleton] at hx; subst hx
    rw [hseed] at hs
    subst hs
    have hlast : t'.demes.getLast? = some x := by rw [hdn]; simp
    obtain ⟨i, hi, hgi⟩ := createDeme_seedIn h x g hlast hg lc hlc hp
    exact ⟨g, [], by simp [Deme.gens, hg], i, hi, hgi⟩

theorem sprout_seedIn {t t' : T} {flat : List (Id × Ind)} {news : List NewEnv}
    (hinv : SeedIn t) (h : doSprout t flat news = .ok t') : SeedIn t' := by
  induction flat generalizing t news with
  | nil =>
    cases news with
    | nil => simp only [doSprout, Except.ok.injEq] at h; subst h; exact hinv
    | cons e es => simp [doSprout] at h
  | cons ps rest ih =>
    obtain ⟨pid, s⟩ := ps
    cases news with
    | nil => simp [doSprout] at h
    | cons e es =>
      simp only [doSprout] at h
      split at h
      · simp at h
      · split at h
        · simp at h
        · rename_i t1 hc
          exact ih (create_seedIn hinv hc) h

theorem seedIn_of_forall2 {t t' : T} (hc : t'.cfg = t.cfg) (hinv : SeedIn t)
    (hf : List.Forall₂ DemeStep t.demes t'.demes) : SeedIn t' := by
  intro d hd s hs lc hlc hp
  obtain ⟨a, ha, hr⟩ := forall2_mem_right hf d hd
  rw [hc] at hlc
  exact seedIn_of_demeStep (cfg := t.cfg) hr (hinv a ha) s hs lc hlc hp

theorem step_seedIn {t t' : T} {ev : Ev} (hinv : SeedIn t) (h : step t ev = .ok t') : SeedIn t' := by
  cases ev with
  | loop ge =>
    obtain ⟨hc, hdm, _⟩ := stepLoop_effect h
    intro d hd; rw [hdm] at hd; rw [hc]; exact hinv d hd
  | gen id g l => exact seedIn_of_forall2 (stepGen_effect h).cfg hinv (stepGen_effect h).demes
  | localRun id reqs its nfev => exact seedIn_of_forall2 (stepLocal_effect h).cfg hinv (stepLocal_effect h).demes
  | round ge renv news =>
    obtain ⟨hc, _, _, _, _, _, hcase⟩ := stepRound_effect h
    rcases hcase with ⟨hdm, _⟩ | ⟨_, _, _, seeds, t1, _, se, hds, rfl⟩
    · intro d hd; rw [hdm] at hd; rw [hc]; exact hinv d hd
    · have h1 := sprout_seedIn hinv hds
      obtain ⟨f1, _⟩ := updateHibernation_frame t1 (seeds.map (·.deme))
      intro d hd s hs lc hlc hp
      obtain ⟨a, ha, x, rfl⟩ := forall2_mem_right (updateHibernation_forall2 t1 (seeds.map (·.deme))) d hd
      exact h1 a ha s hs lc (by simpa [f1] using hlc) hp

/-- **C07 — seeds.**  In every state reachable from a freshly constructed tree, every deme of an
SEA / DE / SHADE level that was sprouted from a seed contains, in its initial population, an
individual with exactly the seed's genome. -/
theorem C07_seed_in_initial_population {cfg : Cfg} {stks : List (List Problem.Wrapper)} {rootEnv : NewEnv} {t0 t : T}
    {evs : List Ev} (hi : init cfg stks rootEnv = .ok t0) (h : exec t0 evs = .ok t) : SeedIn t := by
  have h0 : SeedIn t0 := by
    unfold init at hi
    exact create_seedIn (by intro d hd; simp at hd) hi
  clear hi
  induction evs generalizing t0 with
  | nil => simp only [exec, Except.ok.injEq] at h; subst h; exact h0
  | cons e es ih =>
    simp only [exec, bind, Except.bind] at h
    split at h
    · simp at h
    · rename_i t1 h1
      exact ih h (step_seedIn h0 h1)

end C07
