"""C07 — The demes always form a well-formed tree; sprout seeds come from the parent

Theorems: lean/PyhmsVerif/Props/C07.lean (about the tree model lean/PyhmsVerif/Model/Tree.lean).
Tie to /repo: trace refinement — real runs are re-executed by `Tree.step`, state dumps and
sprout-stage outputs are diffed (harness/refine.py); only disagreements that bear on this
property count.  Direct monitor of the property on the same kind of runs (harness/monitors.py).
"""
from .. import refine, runs

MODULE = 'PyhmsVerif.Props.C07Ran'
THEOREMS = ['C07.C07_wf', 'C07.step_wf', 'C07.create_wf', 'C07.init_wf', 'C07.find_unique', 'C07.root_facts', 'C07.C07_children', 'C07.step_childOk', 'C07.C07_seed_in_initial_population', 'C07.C07_parents_ran', 'C07.C07_ancestors_ran', 'C07.step_ranInv', 'C07.step_parentRan', 'C07.all_ran_at_post']
LEVEL = 'proof'
LEVEL_TEXT = 'Theorem C07_wf: every state reachable from a fresh tree is well formed — level = id length, ids pairwise distinct (fresh-id argument: suffix = current size of the target level), levels registration has one entry per configured level, nothing below the last level, start metaepochs not in the future, every non-root deme records the deme one level up with id = own id minus the last component as its parent and that deme exists and did not start later, the root has no parent; lookup by id is unambiguous. Inductive (step_wf) for every configuration and event sequence. Tie: trace refinement (ids, levels, parents, children, start metaepochs, seeds, class names in every dump) + structural monitor + seed provenance monitor. NEW: C07_children — in every reachable state every non-root deme is listed exactly once among the children of the deme one level above whose id is its own id without the last component, every entry of a children list is the id of an existing deme of that shape, no children list has repetitions (inductive ChildOk); C07_seed_in_initial_population — every SEA / DE / SHADE deme sprouted from a seed has an individual with exactly the seed genome in its initial population. NEW: C07_parents_ran / C07_ancestors_ran — in every reachable state a deme that lists a child (hence every proper ancestor of every deme) has run at least one metaepoch, and when a sprouting round begins every deme of the tree has (inductive RanInv: ran, or still scheduled in the metaepoch in progress, or created by the last round and waiting awake for the next one).'
LEVEL_NOTE = 'Trusted: Lean kernel + standard axioms; the hand-written tree model is tied to the code by trace refinement on sampled runs; numerical engines, objective values and user-defined stop-condition verdicts are environment; monitors trusted as failing-input search. Ids are modelled as paths of per-level creation indices (root = empty path); their rendering as strings (root, 3/4) is part of the dump compared with the real ids. Seed provenance (seed is an individual of the parent population at sprouting time; population children contain it) is enforced by the model per event (initPopOk, generators) and checked by refinement and the monitor rather than stated as a separate theorem; the children-list half of the parent link is checked by refinement.'
TECHNIQUE = "trace refinement against the Lean tree model (Tree.step re-executes real runs) + direct monitors"
RULE = "case = one traced run of a random configuration (1-3 levels, engine per level from the full list, every shipped GSC/LSC kind plus user-defined ones, both stock sprout mechanisms and user-composed chains, hibernation on/off, both directions, decimal boxes, optional cutoff/precision/stats wrappers, shared or per-level problems); non-trivial = run with >= 2 demes and >= 2 metaepochs; distinct by configuration hash"
ASSUMPTIONS = ["objective is deterministic and never returns NaN", "runs are capped at 12 metaepochs by a user-level composite stop condition"]
FORCE = None
PID = "C07"


def run(ctx):
    return [
        refine.refine_batch(ctx, ctx.size(120, 1500), force=FORCE, pid=PID, name="trace-refinement(Tree.step vs DemeTree.run)"),
        runs.monitor_batch(ctx, PID, ctx.size(250, 3000), force=FORCE),
        _shared_mechanism(ctx),
    ]


def _shared_mechanism(ctx):
    """two trees that share one sprout mechanism object, stepped side by side: every seed the chain hands
    out is an individual of its parent's current population"""
    from . import c15

    sl = c15.shared_generator(ctx, 16 if not ctx.thorough else 300, 9, only="C07/")
    sl.name = "one sprout mechanism object serving two trees (every seed comes from its parent's current population)"
    return sl


def search(ctx, broken):
    return runs.monitor_batch(ctx, PID, 500, salt=97, force=FORCE).violations


def replay(data):
    spec = data["violation"]["replay"]["spec"]
    _, res = runs.monitored_run(spec, {PID})
    for v in res.get(PID, []):
        print(v["signature"], v["detail"])
    return not res.get(PID)
