"""C06 — Deme lifecycle: one metaepoch per step while active; stopping is final

Theorems: lean/PyhmsVerif/Props/C06.lean (about the tree model lean/PyhmsVerif/Model/Tree.lean).
Tie to /repo: trace refinement — real runs are re-executed by `Tree.step`, state dumps and
sprout-stage outputs are diffed (harness/refine.py); only disagreements that bear on this
property count.  Direct monitor of the property on the same kind of runs (harness/monitors.py).
"""
from .. import refine, runs

MODULE = 'PyhmsVerif.Props.C06Stop'
THEOREMS = ['C06.C06_absorbing', 'C06.C06_running_frame', 'C06.C06_only_active_runs', 'C06.C06_new_runs_next', 'C06.C06_one_metaepoch', 'C06.C06_one_metaepoch_reachable', 'C06.run_phase', 'C06.schedule_nodup', 'C06.C06_deactivation_gen', 'C06.finishGen_active', 'C06.C06_local_one_shot']
LEVEL = 'proof'
LEVEL_TEXT = 'Theorems for every later state of every accepted run (positional, independent of ids): an inactive deme is never reactivated and its history and counter never change; histories are append-only; only an active deme can run; generations never create demes or touch the metaepoch counter; demes created by a round are active, start at the current metaepoch and cannot run before the next step. Tie: trace refinement (schedule, generation counts, LSC/GSC/CMA-stop consequences are computed by the model and diffed) + direct monitor. C06_one_metaepoch: from any boundary state with pairwise distinct ids (every reachable state, C07_wf), after the loop-head consult came out false, ANY accepted sequence of generation / local-search events that reaches the end of run_metaepoch leaves every scheduled deme (active and awake when the step began) with exactly one more recorded metaepoch and every other deme unchanged (run_phase, schedule_nodup). NEW: C06_deactivation_gen — an accepted generation is run by an active deme and leaves it inactive IFF the outcome of the consults was: the global stop condition held (then and only then it is marked as seen), or CMA-ES reported its own termination, or the metaepoch was complete and the local stop condition gave a true verdict (never for DontStop); while the metaepoch goes on the history is untouched, otherwise exactly one metaepoch is recorded. C06_local_one_shot: a local search always deactivates its deme.'
LEVEL_NOTE = 'Trusted: Lean kernel + standard axioms; the hand-written tree model (Tree.step) is tied to DemeTree.run by trace refinement on sampled runs (every run is re-executed by the model, dumps and sprout stages diffed); numerical engines (NumPy RNG, cma, scipy), objective values and user-defined stop-condition verdicts are environment; monitors trusted as failing-input search. What the verdicts are (the shipped conditions evaluated on the tree) is the model gscEval / lscEval, tied by refinement; the monitor re-evaluates the shipped pure local stop conditions on the state each deme run leaves behind.'
TECHNIQUE = "Lean 4 theorems (inductive invariants of the tree machine Tree.step, proved for all configurations and event sequences) tied to the code by trace refinement (Tree.step re-executes real runs; engine generations replayed bit-exactly by the engine model) + direct monitors as failing-input search"
RULE = "case = one traced run of a random configuration (1-3 levels, engine per level from the full list, every shipped GSC/LSC kind plus user-defined ones, both stock sprout mechanisms and user-composed chains, hibernation on/off, both directions, decimal boxes, optional cutoff/precision/stats wrappers, shared or per-level problems); non-trivial = run with >= 2 demes and >= 2 metaepochs; distinct by configuration hash"
ASSUMPTIONS = ['objective is deterministic (NaN values allowed in a separate monitored slice; the model-refinement runs use NaN-free objectives because two NaNs are ordered by a coin flip)', 'runs are capped at 12 metaepochs by a user-level composite stop condition']
FORCE = None
PID = "C06"


def run(ctx):
    return [
        refine.refine_batch(ctx, ctx.size(120, 1500), force=FORCE, pid=PID, name="trace-refinement(Tree.step vs DemeTree.run)"),
        runs.monitor_batch(ctx, PID, ctx.size(250, 3000), force=FORCE),
        # NaN is a legal fitness (ordered as worst): a stopped deme must stay frozen there too
        runs.nan_monitor_batch(ctx, PID, ctx.size(60, 600)),
        # demes above the leaves stopped by their LSC, local searches sprouted from them one metaepoch later,
        # a different objective on every level: nothing a child does may reach back into its stopped parent
        runs.monitor_batch(ctx, PID, ctx.size(40, 400), salt=83, name="traced-runs-monitor-C06(local children of stopped demes, one objective per level)", force=_stopped_parents),
    ]


def _stopped_parents(rng):
    from . import c10

    f = c10._just_finished(rng)
    f.update({"shared_problem": False, "level_shift": True, "cutoff": None})
    return f


def search(ctx, broken):
    return runs.monitor_batch(ctx, PID, 500, salt=97, force=FORCE).violations


def replay(data):
    spec = data["violation"]["replay"]["spec"]
    _, res = runs.monitored_run(spec, {PID})
    for v in res.get(PID, []):
        print(v["signature"], v["detail"])
    return not res.get(PID)
