"""C09 — Sprouts keep their distance from existing demes; centroids are current

Theorems: lean/PyhmsVerif/Props/C09.lean (about the tree model lean/PyhmsVerif/Model/Tree.lean).
Tie to /repo: trace refinement — real runs are re-executed by `Tree.step`, state dumps and
sprout-stage outputs are diffed (harness/refine.py); only disagreements that bear on this
property count.  Direct monitor of the property on the same kind of runs (harness/monitors.py).
"""
from .. import refine, runs

MODULE = 'PyhmsVerif.Props.SproutRun'
THEOREMS = ['C09.C09_far', 'C09.C09_nbc_far', 'C09.farOk_iff', 'C09.shrinks_preserves', 'SproutRun.C09_created_far', 'SproutRun.C09_created_nbc_far', 'SproutRun.round_creates']
LEVEL = 'proof'
LEVEL_TEXT = 'Theorems for all views, candidate sets and filter compositions: every individual surviving a chain that contains FarEnough(delta) is strictly farther than delta from every active deme of its target level; every individual surviving a chain containing NBC_FarEnough(phi) is strictly farther than fl(phi * mean nearest-better distance of its parent) from every considered deme (all / active only); later filters only remove. Tie: every FarEnough / NBC_FarEnough stage of every real round is recomputed by the model from NumPy distances and diffed; centroids and distances are checked against exact rational geometry of the current populations; direct monitors (centroid currency at every boundary, recomputed distances of accepted seeds). NEW (run level): round_creates — the demes created by an accepted sprouting round are, one for one and in order, the (parent, individual) pairs of the seeds the mechanism selected on the view of the tree before the round; hence C09_created_far / C09_created_nbc_far: every created deme of every run has a seed strictly farther than the threshold from the centroid of every considered deme of its level.'
LEVEL_NOTE = 'Trusted: Lean kernel + standard axioms. Euclidean / p-norm distances and centroids are environment: NumPy values are taken from the real run and tied to exact geometry by the correspondence check (reported centroid vs exact mean of the deme current population, reported distance vs exact distance to that mean, both within 2^-30 relative) — a stale centroid (finding D3) or a different norm is a disagreement; the threshold comparison itself is done on the binary64 value exactly as the code does, so no boundary cases are skipped. In the model a centroid is a function of the state (no cache), so centroid currency is carried by the correspondence, not by a theorem.'
TECHNIQUE = "Lean 4 theorems (inductive invariants of the tree machine Tree.step, proved for all configurations and event sequences) tied to the code by trace refinement (Tree.step re-executes real runs; engine generations replayed bit-exactly by the engine model) + direct monitors as failing-input search"
RULE = "case = one traced run of a random configuration (1-3 levels, engine per level from the full list, every shipped GSC/LSC kind plus user-defined ones, both stock sprout mechanisms and user-composed chains, hibernation on/off, both directions, decimal boxes, optional cutoff/precision/stats wrappers, shared or per-level problems); non-trivial = run with >= 2 demes and >= 2 metaepochs; distinct by configuration hash"
ASSUMPTIONS = ["objective is deterministic and never returns NaN", "runs are capped at 12 metaepochs by a user-level composite stop condition"]
FORCE = None
PID = "C09"


def _reader(rng):
    return {"gsc": {"kind": "User", "evals": int(rng.integers(200, 700)), "metaepochs": int(rng.integers(4, 9)), "look": True}, "min_generations": 2,
            "nlev": int(rng.choice([2, 2, 3])), "engines": {0: ["sea", "de", "shade", "ded", "seax"], 1: ["sea", "de", "shade", "cma"], 2: ["sea", "de", "cma"]}}


def run(ctx):
    return [
        refine.refine_batch(ctx, ctx.size(120, 1500), force=FORCE, pid=PID, name="trace-refinement(Tree.step vs DemeTree.run)"),
        runs.monitor_batch(ctx, PID, ctx.size(250, 3000), force=FORCE),
        # FarEnough behind a generator that offers SEVERAL candidates per parent, with several active siblings to
        # keep away from: a verdict must stick to the candidate it was computed for
        refine.refine_batch(ctx, ctx.size(30, 300), salt=41, force=_multi_far, pid=PID, name="trace-refinement(FarEnough over several candidates per parent)"),
        runs.monitor_batch(ctx, PID, ctx.size(50, 500), salt=43, name="traced-runs-monitor-C09(FarEnough over several candidates per parent)", force=_multi_far),
        # a box of its own per level: a deme is sprouted at the very point the filters accepted
        runs.level_boxes_batch(ctx, PID, ctx.size(30, 300), 51),
        # a user-defined stop condition that reads populations, histories and centroids at EVERY consult — also
        # between two generations of a running metaepoch: reading changes nothing
        refine.refine_batch(ctx, ctx.size(30, 300), salt=53, force=_reader, pid=PID, name="trace-refinement(a stop condition that reads the demes between generations)"),
        runs.monitor_batch(ctx, PID, ctx.size(50, 500), salt=55, name="traced-runs-monitor-C09(a stop condition that reads the demes between generations)", force=_reader),
    ]


def _multi_far(rng):
    sprout = {"kind": "custom", "generator": "nbc", "gen_dist_factor": float(rng.uniform(1, 2)), "trunc_factor": float(rng.choice([0.7, 1.0])),
              "deme_filters": ["far"] + (["nbcfar"] if rng.random() < 0.3 else []), "far_enough": float(rng.uniform(0.3, 1.5)), "fil_dist_factor": float(rng.uniform(0.3, 1.0)),
              "norm_ord": int(rng.choice([1, 2])), "check_only_active": bool(rng.random() < 0.5), "deme_limit": 3, "tree_filters": ["levellimit"], "level_limit": int(rng.integers(3, 6))}
    pop = ["sea", "de", "shade", "ga"]
    return {"nlev": int(rng.choice([2, 2, 3])), "engines": {0: pop, 1: pop + ["cma"], 2: ["sea", "de", "cma"]}, "sprout": sprout, "objective": "four",
            "gsc": {"kind": "MetaepochLimit", "limit": int(rng.integers(5, 9))}}


def search(ctx, broken):
    return runs.monitor_batch(ctx, PID, 500, salt=97, force=FORCE).violations


def replay(data):
    spec = data["violation"]["replay"]["spec"]
    _, res = runs.monitored_run(spec, {PID})
    for v in res.get(PID, []):
        print(v["signature"], v["detail"])
    return not res.get(PID)
