"""Engine-level correspondence: one generation of `DE.run` / `SHADE.run` of /repo against the model's
`Engine.deGen` / `Engine.shadeGen` (lean/PyhmsVerif/Model/Engine.lean).

The real engine runs under a recorder of NumPy's global generator functions: which individuals every
row was built from, scaling factors, the uniform matrix and row offset of the crossover, SHADE's p-best
picks and parameters.  The model gets exactly those draws and the objective values of the rows the
real code evaluated, and must reproduce — as exact rationals, i.e. bit for bit — the trial population
(genomes and carried / evaluated fitness), the evaluation requests in order, the new population and
SHADE's archive.  Independently of the model the property is stated directly on the real output
(monitors): every trial inside the box (C01), a carried fitness only on a row equal to its parent and
every evaluated row carrying the objective's value (C02), one objective call per changed row (C03),
every new individual is the row's parent or the row's trial (C11), sizes and index-wise dominance (C12).
"""
import numpy as np

from .common import Slice, fit, fr, inds_pairs, inds_tok, run_driver

BOXES = [
    [(-0.1, 0.2), (-0.3, 0.6), (0.1, 0.7)],
    [(-5.0, 5.0), (-5.0, 5.0), (-5.0, 5.0), (-5.0, 5.0)],
    [(-1.0, 3.0), (0.0, 1.0), (2.0, 2.5)],
    [(-20.0, 20.0), (1e-3, 1.5e-3)],
]


class Rec:
    """records the calls of NumPy's global generator functions while an engine runs"""

    def __init__(self):
        self.choice, self.rand, self.randint, self.uniform, self.normal = [], [], [], [], []

    def __enter__(self):
        import numpy.random as nr

        self._o = {k: getattr(nr, k) for k in ("choice", "rand", "randint", "uniform", "normal")}
        rec = self

        def choice(a, size=None, replace=True, p=None):
            out = rec._o["choice"](a, size=size, replace=replace, p=p)
            rec.choice.append((np.array(a).tolist() if size is None else None, size, np.array(out).tolist(), bool(replace)))
            return out

        def rand(*shape):
            out = rec._o["rand"](*shape)
            rec.rand.append(np.array(out).tolist())
            return out

        def randint(*a, **k):
            out = rec._o["randint"](*a, **k)
            rec.randint.append(int(out) if np.ndim(out) == 0 else np.array(out).tolist())
            return out

        def uniform(*a, **k):
            out = rec._o["uniform"](*a, **k)
            rec.uniform.append(np.array(out).tolist())
            return out

        def normal(*a, **k):
            out = rec._o["normal"](*a, **k)
            rec.normal.append(np.array(out).tolist())
            return out

        nr.choice, nr.rand, nr.randint, nr.uniform, nr.normal = choice, rand, randint, uniform, normal
        return self

    def __exit__(self, *exc):
        import numpy.random as nr

        for k, v in self._o.items():
            setattr(nr, k, v)
        return False


def _objective(shape, calls, maximize):
    def f(x):
        x = np.asarray(x, dtype=float)
        v = float(np.sum(x * x))
        if shape == 0:
            v = float(np.floor(v * 4.0))  # plateaus: ties between trial and parent
        elif shape == 1:
            v = 1.0e6 + v * 1.0e-3
        elif shape == 2 and x[0] > 0.15:
            v = float("-inf") if maximize else float("inf")  # death penalty
        calls.append((tuple(float(t) for t in x), v))
        return v

    return f


def _box_tok(box):
    return f"{len(box)} " + " ".join(f"{fr(a)} {fr(b)}" for a, b in box)


def _rows_tok(rows):
    return f"{len(rows)} " + " ".join(f"{len(r)} " + " ".join(fr(x) for x in r) for r in rows)


def _case(rng):
    """one real generation; returns (driver line, expected answer, meta, violations)"""
    from pyhms.core.individual import Individual
    from pyhms.core.problem import FunctionProblem
    from pyhms.demes.single_pop_eas.de import DE, SHADE

    mx = bool(rng.random() < 0.4)
    box = BOXES[int(rng.integers(len(BOXES)))]
    d = len(box)
    bounds = np.array(box, dtype=float)
    which = int(rng.integers(0, 3))  # 0 DE, 1 DE with dither, 2 SHADE
    n = int(rng.integers(4, 11)) if which < 2 else int(rng.integers(3, 11))
    shape = int(rng.integers(0, 4))
    calls = []
    prob = FunctionProblem(_objective(shape, calls, mx), bounds=bounds, maximize=mx)
    layout = int(rng.integers(0, 6))
    pts = rng.uniform(bounds[:, 0], bounds[:, 1], size=(n, d))
    if layout == 0:
        pts[:] = pts[0]  # population collapsed to one point (finding D19)
    elif layout == 1:
        pts[n // 2 :] = pts[0]  # partly collapsed
    elif layout == 2:
        pts[:, 0] = bounds[0, 1]  # on a face
        pts[0] = bounds[:, 0]
    elif layout == 3:
        pts = pts[0] + (pts - pts[0]) * 1e-9  # contracted
        pts = np.clip(pts, bounds[:, 0], bounds[:, 1])
    parents = [Individual(p.copy(), problem=prob) for p in pts]
    for p in parents:
        p.evaluate()
    if rng.random() < 0.1:
        parents[int(rng.integers(n))].fitness = -np.inf if mx else np.inf  # sentinel of an exhausted budget
    np.random.seed(int(rng.integers(1 << 30)))
    if which == 0:
        F = float(rng.choice([0.8, 0.5, 1.7, 2.0, 2.5]))
        CR = float(rng.choice([0.9, 0.5, 1.0, 0.1]))
        eng = DE(use_dither=False, crossover_probability=CR, f=F)
    elif which == 1:
        CR = float(rng.choice([0.9, 0.5, 1.0]))
        eng = DE(use_dither=True, crossover_probability=CR)
    else:
        eng = SHADE(memory_size=int(rng.integers(2, 5)), population_size=n)
    name = ["DE", "DE-dither", "SHADE"][which]
    gens = int(rng.integers(1, 4))
    out = []
    cur = parents
    f0 = _objective(shape, [], mx)
    for _g in range(gens):
        calls.clear()
        new, line, expect, extra, info = traced_de_generation(eng, which, cur, box, mx, calls=calls, F=F if which == 0 else None)
        P, T, Q, N, n_ = info["P"], info["T"], info["Q"], info["N"], info["n"]
        # ---- the properties, stated on the real output
        viol = []
        for i, ((tg, tf), (pg, pf)) in enumerate(zip(T, P)):
            if any(not (lo <= x <= hi) for x, (lo, hi) in zip(tg, box)):
                viol.append(("C01/trial-outside-box", f"{name}: trial row {i} = {list(tg)} lies outside the box {box}"))
            if tg != pg:
                v = f0(np.array(tg))
                if not (tf == v or (tf != tf and v != v)):
                    viol.append(("C02/stored-fitness-wrong/engine-trial", f"{name}: trial row {i} differs from its parent and carries fitness {tf!r}, the objective gives {v!r} at {list(tg)}"))
        changed = info["changed"]
        if len(Q) != changed:
            viol.append(("C03/engine-calls-vs-changed-rows", f"{name}: {changed} trial rows differ from their parents but the objective was invoked {len(Q)} times"))
        if len(N) != n_:
            viol.append(("C12/size", f"{name}.run returned {len(N)} individuals for {n_} parents"))
        else:
            pool = sorted(P + T)
            for x in N:
                if x not in pool:
                    viol.append(("C11/individual-neither-parent-nor-trial", f"{name}: new individual {x} is neither a parent nor a trial of this generation"))
                    break
        nontrivial = changed < n_ or any(tf == pf for (_, tf), (_, pf) in zip(T, P)) or layout in (0, 1, 2, 3)
        out.append((line, expect, {"engine": name, "layout": layout, "nontrivial": nontrivial, "extra": extra, "changed": changed, "n": n_}, viol))
        cur = new
    return out


def traced_de_generation(eng, which, cur, box, mx, calls=None, F=None, kw=None):
    """run ONE real generation `eng.run(cur)` of a DE (which = 0 plain, 1 dither) or SHADE (2) engine under the
    recorder; returns (new individuals, driver line, expected answer, SHADE archive after the run or None, info).
    calls: the list the objective appends (genome, value) to — None inside whole traced runs, where the values
    of the evaluated rows are read from the trial population (what the deme's problem returned)"""
    captured = {}
    cross = eng._crossover
    orig_cross = type(cross).__call__

    def cc(population, mutated, probability, _c=cross, _o=orig_cross):
        res = _o(_c, population, mutated, probability)
        captured["trial"] = res
        captured["prob"] = [float(probability)] * population.size if np.ndim(probability) == 0 else [float(t) for t in np.asarray(probability).reshape(-1)]
        return res

    eng._crossover = cc
    params = {}
    arch0, had_archive, og = [], False, None
    if which == 2:
        og = eng._get_params

        def gp(_og=og):
            cr, f, p = _og()
            params["cr"], params["f"], params["p"] = cr.tolist(), f.tolist(), p.tolist()
            return cr, f, p

        eng._get_params = gp
        arch0 = [] if eng._archive is None else [tuple(float(t) for t in g) for g in eng._archive.genomes]
        had_archive = eng._archive is not None
    try:
        with Rec() as rec:
            new = eng.run(cur, **(kw or {}))
    finally:
        eng._crossover = cross
        if which == 2:
            eng._get_params = og
    P = inds_pairs(cur)
    N = inds_pairs(new)
    tp = captured["trial"]
    T = [(tuple(float(t) for t in g), float(f)) for g, f in zip(tp.genomes, tp.fitnesses)]
    Q = list(calls) if calls is not None else [t for t, p_ in zip(T, P) if t[0] != p_[0]]
    n_ = len(P)
    if which < 2:
        triples = [c[2] for c in rec.choice if c[1] == 3 and not c[3]][:n_]
        if F is None and which == 0:
            F = float(eng._mutation.f)
        fs = [F] * n_ if which == 0 else [float(t) for t in rec.uniform[0]]
        picks = f"{n_} " + " ".join(f"{t[0]} {t[1]} {t[2]} {fr(f)}" for t, f in zip(triples, fs))
    else:
        singles = [c for c in rec.choice if c[1] is None]
        triples = [c[2] for c in rec.choice if c[1] == 3 and not c[3]]
        if n_ < 4:
            # no mutation for populations below four: the picks are not used, any admissible filler does
            pbs = [int(np.argmin([(-f if mx else f) for _, f in P]))] * n_
            t1 = [[(i + 1) % n_] * 3 for i in range(n_)]
            t2 = t1
        else:
            pbs = [int(c[2]) for c in singles[:n_]]
            t1 = triples[:n_]
            t2 = triples[n_ : 2 * n_ + len(arch0)][:n_] if had_archive else t1
        picks = f"{n_} " + " ".join(f"{pb} {fr(p)} {a[0]} {b[1]} {fr(f)}" for pb, p, a, b, f in zip(pbs, params["p"], t1, t2, params["f"]))
    chosen = rec.rand[-1]
    jrand = rec.randint[-1]
    crs = captured["prob"]
    m = 1 if mx else 0
    vals = f"{len(Q)} " + " ".join(fit(v) for _, v in Q)
    expect = f"{inds_tok(T)} | {inds_tok(Q)} | {inds_tok(N)}"
    if which < 2:
        line = f"degen {m} f64 {_box_tok(box)} {inds_tok(P)} {picks} {_rows_tok(chosen)} {jrand} {len(crs)} {' '.join(fr(c) for c in crs)} {vals}"
        extra = None
    else:
        line = f"shadegen {m} f64 {_box_tok(box)} {inds_tok(P)} {_rows_tok(arch0)} {picks} {_rows_tok(chosen)} {jrand} {len(crs)} {' '.join(fr(c) for c in crs)} {vals}"
        extra = [tuple(float(t) for t in g) for g in eng._archive.genomes] if eng._archive is not None else []
    changed = sum(1 for (tg, _), (pg, _) in zip(T, P) if tg != pg)
    return new, line, expect, extra, {"P": P, "T": T, "Q": Q, "N": N, "n": n_, "changed": changed}


def shade_archive_ok(model_answer, real_archive):
    """the model's archive (before trimming) must contain the real one as a sub-multiset; equal when not trimmed"""
    parts = model_answer.split(" | ")
    toks = parts[3].split() if len(parts) > 3 else ["0"]
    rows, k = [], 1
    for _ in range(int(toks[0])):
        ln = int(toks[k])
        rows.append(tuple(toks[k + 1 : k + 1 + ln]))
        k += 1 + ln
    real = [tuple(fr(x) for x in r) for r in real_archive]
    pool = list(rows)
    ok = True
    for r in real:
        if r in pool:
            pool.remove(r)
        else:
            ok = False
    return ok and not (len(real) != len(rows) and len(real) >= len(rows)), rows, real


def slice_engine(ctx, rng, n_cases, only=None):
    sl = Slice("DE.run / SHADE.run one generation vs Engine.deGen / Engine.shadeGen (draws recorded, bit-exact)")
    lines, expects, metas = [], [], []
    for _ in range(n_cases):
        try:
            for line, expect, meta, viol in _case(rng):
                lines.append(line)
                expects.append(expect)
                metas.append(meta)
                for sig, det in viol:
                    sl.violations.append({"signature": sig, "detail": det, "replay": {"op": line[:6000]}})
        except Exception as e:  # noqa: BLE001
            from .common import is_env_crash

            if is_env_crash(e):
                sl.skipped += 1
                sl.count("skipped:third-party-library-raised")
                continue
            sl.disagreements.append({"op": "engine generation", "impl": f"raised {type(e).__name__}: {e}", "model": "-"})
    got = run_driver(lines)
    for line, g, e, meta in zip(lines, got, expects, metas):
        sl.cases += 1
        sl.count(meta["engine"])
        sl.count(f"layout:{meta['layout']}")
        sl.count("rows-unchanged" if meta["changed"] < meta["n"] else "rows-all-changed")
        if meta["nontrivial"]:
            sl.nontrivial.add(hash(line))
        if meta["engine"] == "SHADE":
            parts = g.split(" | ")
            head = " | ".join(parts[:3])
            if head != e:
                sl.disagreements.append({"op": line[:6000], "impl": e[:3000], "model": g[:3000]})
                continue
            ok, rows, real = shade_archive_ok(g, meta["extra"])
            if not ok:
                sl.disagreements.append({"op": line[:6000], "impl": f"archive {real[:4]}", "model": f"archive {rows[:4]}"})
        elif g != e:
            sl.disagreements.append({"op": line[:6000], "impl": e[:3000], "model": g[:3000]})
    if lines:
        sl.sample({"op": lines[0][:500], "model": got[0][:300]})
    if only:
        sl.violations = [v for v in sl.violations if v["signature"].startswith(only)]
    return sl


# ------------------------------------------------------------------------------------------ SEA family
def _sea_case(rng):
    """one real pass of BaseSEA.run; returns (driver lines, expected answers, meta, violations)"""
    from pyhms.core.individual import Individual
    from pyhms.core.problem import FunctionProblem
    from pyhms.demes.single_pop_eas import sea as S

    mx = bool(rng.random() < 0.4)
    box = BOXES[int(rng.integers(len(BOXES)))]
    d = len(box)
    bounds = np.array(box, dtype=float)
    which = int(rng.integers(0, 5))
    pipe = ["sea", "seax", "ga", "sea", "sea"][which]

    class MuPlusKES(S.BaseSEA):
        """a user-defined (mu + k) strategy handed over through `EALevelConfig(ea_class=...)`: no tournament, the
        mutation works on the parents directly"""

        @classmethod
        def create(cls, **kw):
            problem = kw.get("problem")
            return cls(variational_operators_pipeline=[S.GaussianMutation(std=kw.get("mutation_std", 1.0), bounds=problem.bounds, probability=kw.get("p_mutation", 1.0))], k_elites=kw.get("k_elites", 1))

    cls = [S.SEA, S.SEAWithCrossover, S.GAStyleSEA, S.SEAWithAdaptiveMutation, MuPlusKES][which]
    n = int(rng.integers(3, 11))
    shape = int(rng.integers(0, 4))
    calls = []
    prob = FunctionProblem(_objective(shape, calls, mx), bounds=bounds, maximize=mx)
    pts = rng.uniform(bounds[:, 0], bounds[:, 1], size=(n, d))
    layout = int(rng.integers(0, 4))
    if layout == 0:
        pts[:, 0] = bounds[0, 1]
        pts[0] = bounds[:, 0]
    elif layout == 1:
        pts[n // 2 :] = pts[0]
    parents = [Individual(p.copy(), problem=prob) for p in pts]
    for p in parents:
        p.evaluate()
    if rng.random() < 0.1:
        parents[int(rng.integers(n))].fitness = -np.inf if mx else np.inf
    pM = float(rng.choice([1.0, 0.6, 0.3, 0.0]))
    pX = float(rng.choice([0.7, 1.0, 0.3]))
    width = float(np.mean(bounds[:, 1] - bounds[:, 0]))
    std = float(rng.choice([0.15, 1.0, 4.0])) * width
    k_el = int(rng.integers(1, 3))
    eng = cls.create(problem=prob, mutation_std=std, p_mutation=pM, p_crossover=pX, k_elites=k_el)
    np.random.seed(int(rng.integers(1 << 30)))
    captured = {}
    calls.clear()
    kw = {"mutation_std": std * 0.5} if which == 3 else {}
    new, line, expect, info = traced_sea_generation(eng, parents, box, mx, kw, calls=calls)
    P, O, N, Q = info["P"], info["O"], info["N"], info["Q"]
    viol = []
    name = cls.__name__
    f0 = _objective(shape, [], mx)
    inbox = lambda g: all(lo <= x <= hi for x, (lo, hi) in zip(g, box))  # noqa: E731
    pool = {p for p in P}
    if k_el >= 1 and len(N) == n and all(f == f for _, f in P + N):
        key = (lambda v: -v) if mx else (lambda v: v)
        if min(key(f) for _, f in N) > min(key(f) for _, f in P):
            viol.append(("C12/elitism-lost", f"{name} (k_elites={k_el}): best parent fitness {min(key(f) for _, f in P)} (sign-normalised), best of the new generation {min(key(f) for _, f in N)}"))
    for i, (g, f) in enumerate(O):
        if not inbox(g):
            viol.append(("C01/offspring-outside-box", f"{name}: offspring row {i} = {list(g)} lies outside the box {box}"))
        if (g, f) in Q:
            continue
        if (g, f) not in pool:
            v = f0(np.array(g))
            viol.append(("C02/stored-fitness-wrong/engine-offspring", f"{name}: offspring row {i} = {list(g)} carries fitness {f!r} without having been evaluated in this generation and is not an individual of the parents (objective gives {v!r})"))
    if len(N) != n:
        viol.append(("C12/size", f"{name}.run returned {len(N)} individuals for {n} parents"))
    for x in N:
        if x not in pool and x not in O:
            viol.append(("C11/individual-neither-parent-nor-offspring", f"{name}: new individual {x} is neither a parent nor an offspring of this generation"))
            break
    return line, expect, {"engine": name, "nontrivial": pM < 1.0 or layout < 2, "n": n}, viol


def traced_sea_generation(eng, parents, box, mx, kw=None, calls=None):
    """run ONE real `eng.run(parents)` of a SEA-family engine under the recorder; returns (new individuals,
    driver line, expected answer, info).  calls: what the objective logged — None inside whole traced runs,
    where the evaluated rows are read from `Population.evaluate` (rows without a fitness before, their values after)"""
    from pyhms.core.population import Population

    pipe = {"SEA": "sea", "SEAWithAdaptiveMutation": "sea", "SEAWithCrossover": "seax", "GAStyleSEA": "ga"}.get(type(eng).__name__, "sea")
    has_tournament = any(type(op).__name__ == "TournamentSelection" for op in eng.variational_operators_pipeline)
    pX, pM = 0.0, 1.0
    for op in eng.variational_operators_pipeline:
        nm = type(op).__name__
        if nm == "ArithmeticCrossover":
            pX = float(op.probability)
        elif nm in ("GaussianMutation", "UniformMutation"):
            pM = float(op.probability)
    captured = {}
    osel = eng.select_new_population

    def sel(par, off, _o=osel):
        captured["off"] = [(tuple(float(t) for t in g), float(f)) for g, f in zip(off.genomes, off.fitnesses)]
        return _o(par, off)

    evaluated = []
    orig_eval = Population.evaluate

    def ev(self, *a, **k):
        mask = np.isnan(self.fitnesses).copy()
        orig_eval(self, *a, **k)
        evaluated.extend((tuple(float(t) for t in g), float(f)) for g, f in zip(self.genomes[mask], self.fitnesses[mask]))

    eng.select_new_population = sel
    Population.evaluate = ev
    try:
        with Rec() as rec:
            new = eng.run(parents, **(kw or {}))
    finally:
        Population.evaluate = orig_eval
        del eng.select_new_population
    n = len(parents)
    P = inds_pairs(parents)
    O = captured["off"]
    N = inds_pairs(new)
    Q = list(calls) if calls is not None else evaluated
    cont = rec.randint[0] if has_tournament else [[i] for i in range(n)]  # no tournament: every row is itself
    scal = [x for x in rec.rand if np.ndim(x) == 0]
    mats = [x for x in rec.rand if np.ndim(x) == 2]
    pairs = []
    if pipe in ("seax", "ga"):
        it = iter(scal)
        for _ in range(n // 2):
            u = next(it)
            al = next(it) if u < pX else 0.0
            pairs.append((u, al))
    mask = mats[-1]
    noise = rec.normal[-1] if pipe != "ga" else rec.uniform[-1]
    m = 1 if mx else 0
    line = (f"seagen {m} f64 {pipe} {_box_tok(box)} {fr(pX)} {fr(pM)} {inds_tok(P)} {len(cont)} " + " ".join(f"{len(c)} " + " ".join(str(int(t)) for t in c) for c in cont)
            + f" {len(pairs)} " + " ".join(f"{fr(u)} {fr(a)}" for u, a in pairs) + f" {_rows_tok(mask)} {_rows_tok(noise)} {len(Q)} " + " ".join(fit(v) for _, v in Q))
    expect = f"{inds_tok(O)} | {inds_tok(Q)}"
    return new, line, expect, {"P": P, "O": O, "N": N, "Q": Q, "pipe": pipe}


def slice_sea(ctx, rng, n_cases, only=None):
    sl = Slice("BaseSEA.run variational pipeline vs Engine.seaOffspring (draws recorded, bit-exact)")
    lines, expects, metas = [], [], []
    for _ in range(n_cases):
        try:
            line, expect, meta, viol = _sea_case(rng)
        except Exception as e:  # noqa: BLE001
            from .common import is_env_crash

            if is_env_crash(e):
                sl.skipped += 1
                continue
            sl.disagreements.append({"op": "sea generation", "impl": f"raised {type(e).__name__}: {e}", "model": "-"})
            continue
        lines.append(line)
        expects.append(expect)
        metas.append(meta)
        for sig, det in viol:
            sl.violations.append({"signature": sig, "detail": det, "replay": {"op": line[:6000]}})
    got = run_driver(lines)
    for line, g, e, meta in zip(lines, got, expects, metas):
        sl.cases += 1
        sl.count(meta["engine"])
        if meta["nontrivial"]:
            sl.nontrivial.add(hash(line))
        if g != e:
            sl.disagreements.append({"op": line[:6000], "impl": e[:3000], "model": g[:3000]})
    if lines:
        sl.sample({"op": lines[0][:500], "model": got[0][:300]})
    if only:
        sl.violations = [v for v in sl.violations if v["signature"].startswith(only)]
    return sl


# ------------------------------------------------------------------------------------------ MWEA selection
def _mw_case(rng):
    """one real call of MWEA's MultiwinnerRepeatedSelection; returns (driver line, expected, check line or None, meta, violations)"""
    from pyhms.core.population import Population
    from pyhms.core.problem import FunctionProblem
    from pyhms.demes.single_pop_eas import sea as S

    mx = bool(rng.random() < 0.4)
    d = int(rng.integers(2, 4))
    bounds = np.array([(-5.0, 5.0)] * d)
    n = int(rng.integers(6, 15))
    k = int(rng.integers(1, 5))
    g = int(rng.integers(max(k, 3), min(n, 8) + 1))
    prob = FunctionProblem(lambda x: 0.0, bounds=bounds, maximize=mx)
    genomes = rng.uniform(-5, 5, size=(n, d))
    kind = int(rng.integers(0, 4))
    fits = rng.uniform(0, 10, n)
    if kind == 1:
        fits = np.floor(fits / 3.0)  # ties
    elif kind == 2:
        fits[int(rng.integers(n))] = np.inf if not mx else -np.inf  # a sentinel / death penalty
    pop = Population(genomes.copy(), fits.copy(), prob)
    eng = S.MWEA.create(problem=prob, mutation_std=1.0, p_mutation=1.0, k_elites=k, election_group_size=g)
    op = eng.variational_operators_pipeline[0]
    prefs_log = []
    og = op.utility_function.get_preferences

    def gp(population, _og=og):
        out = _og(population)
        prefs_log.append(np.array(out).tolist())
        return out

    op.utility_function.get_preferences = gp
    import numpy.random as nr

    shuffles = []
    oshuffle = nr.shuffle

    def sh(a):
        oshuffle(a)
        shuffles.append(np.array(a).tolist())

    np.random.seed(int(rng.integers(1 << 30)))
    nr.shuffle = sh
    try:
        with Rec() as rec:
            out = op(pop)
    finally:
        nr.shuffle = oshuffle
        del op.utility_function.get_preferences
    groups = [c[2] for c in rec.choice if c[1] == g and not c[3]]
    P = [(tuple(float(t) for t in a), float(f)) for a, f in zip(genomes, fits)]
    R = [(tuple(float(t) for t in a), float(f)) for a, f in zip(out.genomes, out.fitnesses)]
    rounds = n // k + 1
    es = []
    for r in range(rounds):
        orders = shuffles[r * (k + 1) + 1 : (r + 1) * (k + 1)]  # the first shuffle of a call precedes the loop
        es.append((groups[r], prefs_log[r], orders))

    def rows(ll):
        return f"{len(ll)} " + " ".join(f"{len(x)} " + " ".join(str(int(t)) for t in x) for x in ll)

    line = f"mwsel {inds_tok(P)} {g} {k} {len(es)} " + " ".join(f"{len(gr)} " + " ".join(str(int(t)) for t in gr) + " " + rows(pf) + " " + rows(od) for gr, pf, od in es)
    viol = []
    pool = set(P)
    for x in R:
        if x not in pool:
            viol.append(("C02/stored-fitness-wrong/mwea-selection", f"MultiwinnerRepeatedSelection handed on {x}, which is not an individual (genome and fitness) of the population it was given"))
            break
    if len(R) != n:
        viol.append(("C12/size", f"MultiwinnerRepeatedSelection returned {len(R)} individuals for a population of {n} (k={k}, group size {g})"))
    return line, R, {"mx": mx, "n": n, "k": k, "g": g, "trim": rounds * k > n, "kind": kind}, viol


def slice_mwea(ctx, rng, n_cases, only=None):
    sl = Slice("MWEA MultiwinnerRepeatedSelection vs MW.repeated (groups, preference lists and shuffles recorded)")
    lines, metas = [], []
    for _ in range(n_cases):
        try:
            line, R, meta, viol = _mw_case(rng)
        except Exception as e:  # noqa: BLE001
            from .common import is_env_crash

            if is_env_crash(e):
                sl.skipped += 1
                continue
            sl.disagreements.append({"op": "mwea selection", "impl": f"raised {type(e).__name__}: {e}", "model": "-"})
            continue
        lines.append(line)
        metas.append((R, meta))
        for sig, det in viol:
            sl.violations.append({"signature": sig, "detail": det, "replay": {"op": line[:6000]}})
    got = run_driver(lines)
    # second pass: the cut `topk(n)` of the model's concatenation, as a relation
    lines2, idx2 = [], []
    for j, (line, g, (R, meta)) in enumerate(zip(lines, got, metas)):
        sl.cases += 1
        sl.count(f"k={meta['k']}")
        if meta["kind"] in (1, 2):
            sl.nontrivial.add(hash(line))
        if g in ("none", "bad-op"):
            sl.disagreements.append({"op": line[:4000], "impl": inds_tok(R)[:1500], "model": g})
            continue
        if not meta["trim"]:
            if g != inds_tok(R):
                sl.disagreements.append({"op": line[:4000], "impl": inds_tok(R)[:1500], "model": g[:1500]})
        else:
            lines2.append(f"topkok {1 if meta['mx'] else 0} {meta['n']} {g} {inds_tok(R)}")
            idx2.append(j)
    for j, g2 in zip(idx2, run_driver(lines2)):
        if g2 != "1":
            sl.disagreements.append({"op": lines[j][:4000], "impl": inds_tok(metas[j][0])[:1500], "model": "the returned population is not an admissible topk(n) cut of the model's concatenation: " + got[j][:1200]})
    if lines:
        sl.sample({"op": lines[0][:500], "model": got[0][:300]})
    if only:
        sl.violations = [v for v in sl.violations if v["signature"].startswith(only)]
    return sl
