#!/usr/bin/env python3
"""Regenerate MANIFEST.json from the per-property modules (harness/props/cXX.py)."""
import ast
import json
import os

HERE = os.path.dirname(os.path.dirname(os.path.abspath(__file__)))
ALL = [f"C{i:02d}" for i in range(1, 21)]


def consts(path):
    out = {}
    tree = ast.parse(open(path).read())
    for node in tree.body:
        if isinstance(node, ast.Assign) and len(node.targets) == 1 and isinstance(node.targets[0], ast.Name):
            try:
                out[node.targets[0].id] = ast.literal_eval(node.value)
            except Exception:
                pass
    return out


checks = []
na = []
for pid in ALL:
    p = os.path.join(HERE, "harness", "props", pid.lower() + ".py")
    if not os.path.exists(p):
        na.append({"property_id": pid, "reason": "check not built yet (work in progress; planned per DESIGN.md §4)"})
        continue
    c = consts(p)
    checks.append(
        {
            "property_id": pid,
            "quick_cmd": f"/venv/bin/python check.py {pid} --tier quick",
            "thorough_cmd": f"/venv/bin/python check.py {pid} --tier thorough",
            "evidence_file": f"evidence/{pid}.json",
            "replay_cmd_template": f"/venv/bin/python check.py {pid} --replay {{path}}",
            "engine": "lean4-model+correspondence",
            "level_claimed": {"category": c.get("LEVEL", "proof"), "text": c.get("LEVEL_TEXT", ""), "design_ref": f"DESIGN.md §4 {pid}"},
            "level_note": c.get("LEVEL_NOTE", "; ".join(c.get("ASSUMPTIONS", []))),
            "technique": c.get("TECHNIQUE", "Lean 4 theorems about a hand-written model + differential correspondence with /repo"),
        }
    )
man = {
    "version": 1,
    "setup_cmd": "cd lean && lake build PyhmsVerif PyhmsVerif.Props",
    "hooks": {
        "guard": "PYHMS_VERIF",
        "enable": "no source hooks are needed: the tracer wraps public configuration objects and instance methods at run time; the guard name is reserved",
        "baseline_off_cmd": "cd /repo && /venv/bin/python -m pytest -ra -q -p no:cacheprovider --timeout=900 --continue-on-collection-errors",
        "source_commits": [],
        "add_only": True,
    },
    "engines": [
        {"name": "lean4-model+correspondence", "path": "check.py", "serves_properties": [c["property_id"] for c in checks], "kind_free_text": "Lean 4 (core + single Mathlib modules) theorems over a hand-written executable model in lean/PyhmsVerif; harness/ drives /repo's working tree and the model through a line protocol and diffs; direct monitors are the failing-input search"}
    ],
    "checks": checks,
    "not_applicable": na,
    "notes": "See DESIGN.md. 18 fix: commits in /repo repair genuine defects D1-D12, D14-D17, D20, D21 (known_findings.json, status=fixed); D13 and D19 (C18) and D18 (C01) stay known findings. No hooks in /repo (the tracer works through public configuration objects); the guard name PYHMS_VERIF is reserved.",
}
json.dump(man, open(os.path.join(HERE, "MANIFEST.json"), "w"), indent=1)
print(len(checks), "checks;", len(na), "not yet claimed")
