"""C12 — elitist engines never lose ground; population size is constant.

Component correspondence: Population.topk, BaseSEA.select_new_population (relation seaOk:
every admissible argsort tie-break), DE.run / SHADE.run (exact: winners first, survivors
after, trial wins ties).  Whole-run part (consecutive generations of real demes): monitors
over traced runs (harness/runs.py).
"""
import numpy as np

from ..common import Slice, inds_pairs, inds_tok, pop_pairs, run_driver

MODULE = 'PyhmsVerif.Props.C12Run'
THEOREMS = ['C12.sea_never_loses', 'C12.sea_size', 'C12.de_pointwise', 'C12.deSelect_perm', 'C12.de_count_dominates', 'C12.de_size', 'C12.C12_run', 'C12.C12_best_never_worse', 'PairChain.reachable_pairs', 'PairChain.step_inv', 'C12.elitePair_spec', 'EngineDE.deGen_size', 'MWProps.ccGreedy_nodup', 'MWProps.repeated_length', 'MWProps.mwea_size']
EXTRA_MODULES = ['PyhmsVerif.Props.EngineDE', 'PyhmsVerif.Props.Multiwinner']
LEVEL = "proof"
LEVEL_TEXT = 'Theorems for all populations, tie patterns and both directions: SEA selection with >=1 elite never loses the best (for every admissible argsort tie-break), DE/SHADE replacement dominates index-wise and in every order statistic (counting form), sizes preserved; kernels tied to Population.topk / select_new_population / DE.run / SHADE.run by differential runs; consecutive generations of real demes are monitored on traced runs. NEW (run level): C12_run — in every reachable state, for every deme of a population engine and every consecutive pair of generations (a, b) of its history (inside a metaepoch and across metaepoch boundaries): on an elitist level no individual of a is strictly better than every individual of b, on a DE/SHADE level no order statistic gets worse, and b has the configured size (CMA: the size of a); C12_best_never_worse: the best fitness never gets worse from one generation to the next. Proved through a generic inductive invariant over consecutive generation pairs (PairChain) whose step obligation is discharged by the model acceptance test genOk with the parents the model threaded. ENGINE LEVEL (Model/Engine.lean, Props/EngineDE.lean): one whole generation of DE.run / SHADE.run is in the model, deterministic given the generator draws (donor arithmetic in binary64, reflect repair, crossover mask incl. the row-zeroing quirk, fitness carry-over, which rows are evaluated, replacement), and is diffed bit-exactly against the real engines with recorded draws: deGen_size — one trial per parent, the new population has the parents size; the replacement is Select.deSelect, so de_pointwise / de_count_dominates apply to every whole generation. MWEA SELECTION (Model/Multiwinner.lean, Props/Multiwinner.lean): MultiwinnerRepeatedSelection with the CCGreedy voting scheme is in the model (Borda scores from the positions in the preference lists, greedy rounds with the strict-improvement rule, n//k+1 elections, concatenation; groups, preference lists and shuffles are environment) and is diffed against the real operator with recorded draws: repeated_length / mwea_size — n//k+1 elections of k distinct winners give at least n individuals, after any admissible topk(n) cut exactly n: the population size is constant for every committee size (dividing n or not).'
LEVEL_NOTE = "Trusted: Lean kernel + standard axioms; objective values not NaN; np.argsort returns some ascending order (ties arbitrary). The lift from one selection step to every consecutive generation pair of a run relies on C11 (generations chain) which is checked by trace refinement."
TECHNIQUE = "Lean 4 proof (relational spec covering all tie-breaks) + differential correspondence + run monitors"
RULE = "component cases: random populations (size 2-14, dim 1-4) with plateaus/ties/+-inf sentinels, both directions; non-trivial = fitness tie at the selection cut or a trial tying its parent or a sentinel present; distinct by the driver line. run cases: consecutive generation pairs of real elitist demes"
ASSUMPTIONS = ["objective values are not NaN", "np.argsort sorts ascending (order of ties unspecified)"]


def rand_fit(rng, n, ties):
    if ties:
        f = rng.integers(0, max(2, n // 2), n).astype(float)
    else:
        f = rng.permutation(n * 3)[:n].astype(float) + rng.random(n) * 0.5
    if rng.random() < 0.15:
        f[rng.integers(n)] = np.inf if rng.random() < 0.5 else -np.inf
    return f


def mk_problem(maximize, fn=None, d=4):
    from pyhms.core.problem import FunctionProblem

    b = np.array([[-5.0, 5.0]] * d)
    return FunctionProblem(fn or (lambda x: 0.0), bounds=b, maximize=maximize)


def slice_topk(ctx, rng, n_cases):
    from pyhms.core.population import Population
    from pyhms.demes.single_pop_eas.sea import SEA

    sl = Slice("topk+select_new_population-vs-topkOk/seaOk")
    lines, metas = [], []
    for _ in range(n_cases):
        mx = bool(rng.random() < 0.5)
        n = int(rng.integers(2, 15))
        d = int(rng.integers(1, 5))
        ties = bool(rng.random() < 0.6)
        prob = mk_problem(mx, None, d)
        par = Population(rng.normal(size=(n, d)), rand_fit(rng, n, ties), prob)
        off = Population(rng.normal(size=(n, d)), rand_fit(rng, n, ties), prob)
        k = int(rng.integers(1, n + 1))
        if rng.random() < 0.35:
            # a converged deme: every offspring is a tiny step away from an elite parent (far from the origin, so
            # that the step is also tiny relative to the coordinates) and none of them is better than the elites
            shift = float(rng.choice([0.0, 150.0, -3000.0]))
            par.genomes = par.genomes + shift
            order = np.argsort(par.fitnesses)
            best = order[-1] if mx else order[0]
            worst_ok = float(np.max(par.fitnesses[np.isfinite(par.fitnesses)], initial=0.0)) if not mx else float(np.min(par.fitnesses[np.isfinite(par.fitnesses)], initial=0.0))
            step = float(rng.choice([1e-12, 1e-9, 1e-7]))
            off.genomes = par.genomes[rng.integers(0, n, n)] + step * rng.normal(size=(n, d))
            off.genomes[0] = par.genomes[best] + step * np.ones(d)
            off.fitnesses = np.full(n, worst_ok) + (-1.0 if mx else 1.0) * (1.0 + rng.integers(0, 3, n).astype(float))
        top = par.topk(k)
        sea = SEA.create(problem=prob, k_elites=k)
        out = sea.select_new_population(par, off)
        elites = par.topk(k)
        P, O, T, E, R = pop_pairs(par), pop_pairs(off), pop_pairs(top), pop_pairs(elites), pop_pairs(out)
        m = 1 if mx else 0
        lines.append(f"topkok {m} {k} {inds_tok(P)} {inds_tok(T)}")
        ties = len(set(f for _, f in P + O)) < 2 * n
        metas.append(("topk", ties, None))
        lines.append(f"seaok {m} {k} {inds_tok(P)} {inds_tok(O)} {inds_tok(E)} {inds_tok(R)}")
        # direct monitor: size and elitism
        viol = None
        bp = max(f for _, f in P) if mx else min(f for _, f in P)
        bo = (max(f for _, f in R) if mx else min(f for _, f in R)) if R else None
        if len(T) != k:
            viol = ("C12/topk-size", f"topk({k}) of {n} individuals returned {len(T)} (fitness {sorted(f for _, f in P)}, maximize={mx})")
        elif len(R) != n:
            viol = ("C12/size", f"select_new_population returned {len(R)} individuals for population size {n}")
        elif (bo < bp) if mx else (bo > bp):
            viol = ("C12/elitism-lost", f"best parent {bp} but best of new population {bo} (k_elites={k}, maximize={mx})")
        metas.append(("sea", ties, viol))
        allf = [f for _, f in P] + [f for _, f in O]
        if len(set(allf)) == len(allf):
            lines.append(f"topk {m} {k} {inds_tok(P)}")
            metas.append(("topk-exact", ties, inds_tok(T)))
            lines.append(f"seasel {m} {k} {inds_tok(P)} {inds_tok(O)}")
            metas.append(("sea-exact", ties, inds_tok(R)))
    got = run_driver(lines)
    for line, g, (kind, ties, extra) in zip(lines, got, metas):
        sl.cases += 1
        sl.count(kind)
        if ties:
            sl.nontrivial.add(hash(line))
        if kind in ("topk", "sea"):
            if g != "1":
                sl.disagreements.append({"op": line[:3000], "impl": "output of the real code", "model": f"relation says {g}"})
            if extra:
                sl.violations.append({"signature": extra[0], "detail": extra[1], "replay": {"op": line[:3000]}})
        else:
            if g != extra:
                sl.disagreements.append({"op": line[:3000], "impl": extra, "model": g})
    sl.sample({"op": lines[1][:400], "model": got[1]})
    return sl


def slice_de(ctx, rng, n_cases):
    from pyhms.core.individual import Individual
    from pyhms.demes.single_pop_eas.de import DE, SHADE

    sl = Slice("DE.run/SHADE.run-vs-deSelect")
    lines, metas = [], []
    for _ in range(n_cases):
        mx = bool(rng.random() < 0.5)
        n = int(rng.integers(5, 13))
        d = int(rng.integers(2, 5))
        shape = int(rng.integers(0, 5))  # 0,1,2: plateau; 3: smooth; 4: large values with tiny gaps
        plateau = shape <= 2
        calls = []

        def f(x, plateau=plateau, shape=shape):
            v = float(np.sum(np.asarray(x) ** 2))
            if plateau:
                v = float(np.floor(v / 4.0))
            elif shape == 4:
                v = 1.0e6 + v * 1.0e-3  # a relative tolerance in the replacement test would show here
            calls.append((tuple(float(t) for t in x), v))
            return v

        prob = mk_problem(mx, f, d)
        parents = [Individual(rng.uniform(-5, 5, d), problem=prob) for _ in range(n)]
        for p in parents:
            p.evaluate()
        if rng.random() < 0.1:
            parents[int(rng.integers(n))].fitness = -np.inf if mx else np.inf
        calls.clear()
        np.random.seed(int(rng.integers(1 << 30)))
        which = rng.integers(0, 3)
        if which == 0:
            eng = DE(use_dither=False, crossover_probability=0.9, f=0.8)
        elif which == 1:
            eng = DE(use_dither=True, crossover_probability=0.5)
        else:
            eng = SHADE(memory_size=4, population_size=n)
        gens = [parents]
        for _g in range(int(rng.integers(1, 4))):
            calls.clear()
            new = eng.run(gens[-1])
            P, R = inds_pairs(gens[-1]), inds_pairs(new)
            viol = None
            if len(R) != len(P):
                viol = ("C12/size", f"{type(eng).__name__}.run returned {len(R)} individuals for {len(P)} parents")
            else:
                key = (lambda v: -v) if mx else (lambda v: v)
                sp, sr = sorted(key(v) for _, v in P), sorted(key(v) for _, v in R)
                bad = [i for i in range(len(sp)) if sr[i] > sp[i]]
                if bad:
                    viol = ("C12/kth-best-worse", f"{type(eng).__name__}: {bad[0]+1}-th best went from {sp[bad[0]]} to {sr[bad[0]]} (sign-normalised)")
            if len(calls) == len(P):
                T = list(calls)
                lines.append(f"desel {1 if mx else 0} {inds_tok(P)} {inds_tok(T)}")
                ties = any(tv == pv for (_, tv), (_, pv) in zip(T, P))
                metas.append((inds_tok(R), ties or plateau, viol, type(eng).__name__))
            else:
                sl.skipped += 1
                sl.count("skipped:unchanged-trial-rows")
                if viol:
                    sl.violations.append({"signature": viol[0], "detail": viol[1], "replay": {}})
            gens.append(new)
    got = run_driver(lines)
    for line, g, (e, nt, viol, name) in zip(lines, got, metas):
        sl.cases += 1
        sl.count(name)
        if nt:
            sl.nontrivial.add(hash(line))
        if g != e:
            sl.disagreements.append({"op": line[:3000], "impl": e, "model": g})
        if viol:
            sl.violations.append({"signature": viol[0], "detail": viol[1], "replay": {"op": line[:3000]}})
    if lines:
        sl.sample({"op": lines[0][:400], "model": got[0][:300]})
    return sl


def run(ctx):
    out = [slice_topk(ctx, ctx.rng(1), ctx.size(1500, 20000)), slice_de(ctx, ctx.rng(2), ctx.size(400, 5000))]
    from .. import refine, runs

    out.append(refine.refine_batch(ctx, ctx.size(100, 1200), pid="C12", name="trace-refinement(Tree.step vs DemeTree.run)"))
    out.append(runs.monitor_batch(ctx, "C12", ctx.size(150, 2000), force=lambda rng: {"engines": {0: ["sea", "seax", "ga", "adapt", "de", "ded", "shade"]}}))
    from .. import engine

    out.append(engine.slice_engine(ctx, ctx.rng(81), ctx.size(250, 3000), only="C12/"))
    out.append(engine.slice_mwea(ctx, ctx.rng(87), ctx.size(150, 2000), only="C12/"))
    out.append(engine.slice_sea(ctx, ctx.rng(83), ctx.size(400, 5000), only="C12/"))
    return out


def search(ctx, broken):
    v = []
    v += slice_topk(ctx, ctx.rng(71), 8000).violations
    v += slice_de(ctx, ctx.rng(72), 2000).violations
    from .. import runs

    v += runs.monitor_batch(ctx, "C12", 300, salt=73).violations
    return v
