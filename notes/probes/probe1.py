import numpy as np, random
from pyhms.demes.single_pop_eas.common import apply_bounds
# C17: toroidal / reflect on (-0.1,0.2)
b = np.array([(-0.1,0.2),(-0.1,0.2)])
lo,hi=b[:,0],b[:,1]
r = hi-lo
print("range", repr(r[0]), "lo+range", repr(lo[0]+r[0]), "hi", hi[0])
xs = np.array([[np.nextafter(-0.1,-1), 0.2],[ -0.1-1e-18, 0.5],[0.2, np.nextafter(0.2,1)],[lo[0]+r[0], 0.2+r[0]]])
for m in ["clip","reflect","toroidal"]:
    out = apply_bounds(xs,b,m)
    print(m, out.tolist(), "inbox:", ((out>=lo)&(out<=hi)).tolist())
# random search
rng=np.random.default_rng(0)
for m in ["reflect","toroidal"]:
    bad=0
    for _ in range(2000):
        l=rng.uniform(-10,10,size=1); u=l+rng.uniform(1e-3,10,size=1)
        bb=np.array([[l[0],u[0]]])
        x=rng.normal(0,30,size=(200,1))
        # include exact multiples
        x=np.concatenate([x, l+np.arange(-5,6).reshape(-1,1)*(u-l)])
        o=apply_bounds(x,bb,m)
        bad+=int(np.sum((o<l)|(o>u)))
    print(m,"random bad",bad)
