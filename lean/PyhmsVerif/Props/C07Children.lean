import PyhmsVerif.Props.C07
import PyhmsVerif.Props.C04Obs
import PyhmsVerif.Props.C07Seed
/-!
# C07 — every deme is listed, exactly once, by its parent — and parents list only their children

`ChildOk`: (1) every non-root deme is in the `children` list of the deme whose id is its id
without the last component; (2) every entry of a `children` list is the id of an existing
deme and extends the lister's id by one component; (3) no `children` list has repetitions.
Inductive on well-formed trees, hence true of every reachable state (`C07_children`).
-/
namespace C07
open Tree

structure ChildOk (t : T) : Prop where
  listed : ∀ d ∈ t.demes, d.id ≠ [] → ∃ p ∈ t.demes, p.id = d.id.dropLast ∧ d.id ∈ p.children
  real : ∀ p ∈ t.demes, ∀ c ∈ p.children, c.dropLast = p.id ∧ c ≠ [] ∧ ∃ d ∈ t.demes, d.id = c
  once : ∀ p ∈ t.demes, p.children.Nodup

/-- relations that keep ids and children keep `ChildOk` -/
theorem childOk_of_rel {R : Deme → Deme → Prop} (hR : ∀ a b, R a b → b.id = a.id ∧ b.children = a.children)
    {t : T} {ds' : List Deme} (hc : ChildOk t) (hf : List.Forall₂ R t.demes ds') :
    (∀ d ∈ ds', d.id ≠ [] → ∃ p ∈ ds', p.id = d.id.dropLast ∧ d.id ∈ p.children) ∧
    (∀ p ∈ ds', ∀ c ∈ p.children, c.dropLast = p.id ∧ c ≠ [] ∧ ∃ d ∈ ds', d.id = c) ∧
    (∀ p ∈ ds', p.children.Nodup) := by
  refine ⟨?_, ?_, ?_⟩
  · intro d hd hne
    obtain ⟨a, ha, hr⟩ := forall2_mem_right hf d hd
    obtain ⟨hi, _⟩ := hR a d hr
    obtain ⟨p, hp, hpid, hin⟩ := hc.listed a ha (by rw [← hi]; exact hne)
    obtain ⟨p', hp', hr'⟩ := forall2_mem_left hf p hp
    obtain ⟨hi', hc'⟩ := hR p p' hr'
    exact ⟨p', hp', by rw [hi', hi, hpid], by rw [hc', hi]; exact hin⟩
  · intro p hp c hcm
    obtain ⟨a, ha, hr⟩ := forall2_mem_right hf p hp
    obtain ⟨hi, hch⟩ := hR a p hr
    rw [hch] at hcm
    obtain ⟨h1, h2, d, hd, hdid⟩ := hc.real a ha c hcm
    obtain ⟨d', hd', hr'⟩ := forall2_mem_left hf d hd
    exact ⟨by rw [hi]; exact h1, h2, d', hd', by rw [(hR d d' hr').1]; exact hdid⟩
  · intro p hp
    obtain ⟨a, ha, hr⟩ := forall2_mem_right hf p hp
    rw [(hR a p hr).2]
    exact hc.once a ha

theorem updFirst_rel {R : Deme → Deme → Prop} (hrefl : ∀ d, R d d) (id : Id) (f : Deme → Deme) (hf : ∀ d, R d (f d)) :
    ∀ ds : List Deme, List.Forall₂ R ds (updFirst id f ds) := by
  intro ds
  have hall : ∀ l : List Deme, List.Forall₂ R l l := by
    intro l
    induction l with
    | nil => exact .nil
    | cons a l ih => exact .cons (hrefl a) ih
  induction ds with
  | nil => exact .nil
  | cons a l ih =>
    simp only [updFirst]
    split
    · exact .cons (hf a) (hall l)
    · exact .cons (hrefl a) ih

/-- creating a deme keeps `ChildOk` -/
theorem create_childOk {t t' : T} {p : Deme} {seed : Option Ind} {env : NewEnv} (hw : WF t) (hc : ChildOk t)
    (hp : p ∈ t.demes) (h : createDeme t (some p) seed env = .ok t') : ChildOk t' := by
  have hw' := create_wf hw hp h
  have ce := createDeme_effect h
  obtain ⟨old, dn, hd, hf, hold, hdnc, _, _, hid, _⟩ := ce.demes
  simp only [] at hold hid
  have hpfind' : t.find p.id = some p := find_unique hw hp
  have hpfind : t.demes.find? (·.id == p.id) = some p := hpfind'
  -- the new id is not the id of an old deme
  have hfresh : ∀ a ∈ t.demes, a.id ≠ dn.id := by
    intro a ha heq
    have hnd := hw'.nodup
    rw [hd, List.map_append, List.nodup_append] at hnd
    obtain ⟨x, hx, hr⟩ := forall2_mem_left hf a ha
    obtain ⟨cs, rfl⟩ := hr
    exact hnd.2.2 a.id (List.mem_map.mpr ⟨_, hx, rfl⟩) dn.id (by simp) heq
  -- membership in `old`
  have old_of : ∀ a ∈ t.demes, a.id ≠ p.id → a ∈ old := by
    intro a ha hne; rw [hold]; exact C04.mem_updFirst_of_ne ha hne
  have old_p : ({ p with children := p.children ++ [dn.id] } : Deme) ∈ old := by
    rw [hold, ← hid]
    exact C04.mem_updFirst_first (f := fun x => { x with children := x.children ++ [dn.id] }) hpfind
  have of_old : ∀ x ∈ old, (x ∈ t.demes ∧ x.id ≠ p.id) ∨ x = { p with children := p.children ++ [dn.id] } := by
    intro x hx
    rw [hold, ← hid] at hx
    rcases C04.mem_updFirst hx with hx | ⟨d0, hf0, rfl⟩
    · by_cases hxi : x.id = p.id
      · -- an unchanged deme with the parent's id would be a second deme with that id
        exfalso
        have hx' : x = p := by
          have := find_unique hw hx
          rw [hxi, hpfind'] at this
          exact (Option.some.inj this).symm
        subst hx'
        -- then `x` was the first with its id and was replaced; it can only still be in the list if it occurs twice
        have hnd := hw.nodup
        have : (updFirst x.id (fun y => { y with children := y.children ++ [dn.id] }) t.demes).map (·.id) = t.demes.map (·.id) :=
          forall2_map_id (fun a b hab => hab) (updFirst_rel (R := fun a b => b.id = a.id) (fun _ => rfl) x.id
            (fun y => { y with children := y.children ++ [dn.id] }) (fun _ => rfl) t.demes)
        -- x and its updated copy both have id x.id in a list with distinct ids: they are equal, so children ++ [new] = children
        have hupd : ({ x with children := x.children ++ [dn.id] } : Deme) ∈
            updFirst x.id (fun y => { y with children := y.children ++ [dn.id] }) t.demes := C04.mem_updFirst_first hpfind
        have heq := List.inj_on_of_nodup_map (this ▸ hnd) hx hupd rfl
        have : x.children = x.children ++ [dn.id] := by
          have := congrArg Deme.children heq
          simpa using this
        have hl := congrArg List.length this
        simp at hl
      · exact Or.inl ⟨hx, hxi⟩
    · rw [hpfind] at hf0
      cases hf0
      exact Or.inr rfl
  have hdnid : dn.id = p.id ++ [(t.levels.getD (p.level + 1) []).length] := by rw [hid, nextChildId]
  refine ⟨?_, ?_, ?_⟩
  · -- listed
    intro d hdm hne
    rw [hd] at hdm ⊢
    rcases List.mem_append.mp hdm with hdm | hdm
    · rcases of_old d hdm with ⟨hdt, _⟩ | rfl
      · obtain ⟨q, hq, hqid, hin⟩ := hc.listed d hdt hne
        by_cases hqp : q.id = p.id
        · have : q = p := by
            have := find_unique hw hq
            rw [hqp, hpfind'] at this
            exact (Option.some.inj this).symm
          subst this
          exact ⟨_, List.mem_append_left _ old_p, hqid, List.mem_append_left _ hin⟩
        · exact ⟨q, List.mem_append_left _ (old_of q hq hqp), hqid, hin⟩
      · -- the parent itself (it keeps its id)
        obtain ⟨q, hq, hqid, hin⟩ := hc.listed p hp hne
        by_cases hqp : q.id = p.id
        · have : q = p := by
            have := find_unique hw hq
            rw [hqp, hpfind'] at this
            exact (Option.some.inj this).symm
          subst this
          exact ⟨_, List.mem_append_left _ old_p, hqid, List.mem_append_left _ hin⟩
        · exact ⟨q, List.mem_append_left _ (old_of q hq hqp), hqid, hin⟩
    · simp only [List.mem_singleton] at hdm
      subst hdm
      refine ⟨_, List.mem_append_left _ old_p, ?_, by simp⟩
      simp [hdnid]
  · -- real
    intro q hq c hcm
    rw [hd] at hq ⊢
    have lift : ∀ a ∈ t.demes, ∃ x ∈ old ++ [dn], x.id = a.id := by
      intro a ha
      by_cases hap : a.id = p.id
      · exact ⟨_, List.mem_append_left _ old_p, hap.symm⟩
      · exact ⟨a, List.mem_append_left _ (old_of a ha hap), rfl⟩
    rcases List.mem_append.mp hq with hq | hq
    · rcases of_old q hq with ⟨hqt, _⟩ | rfl
      · obtain ⟨h1, h2, d, hdt, hdid⟩ := hc.real q hqt c hcm
        obtain ⟨x, hx, hxi⟩ := lift d hdt
        exact ⟨h1, h2, x, hx, hxi.trans hdid⟩
      · simp only [List.mem_append, List.mem_singleton] at hcm
        rcases hcm with hcm | rfl
        · obtain ⟨h1, h2, d, hdt, hdid⟩ := hc.real p hp c hcm
          obtain ⟨x, hx, hxi⟩ := lift d hdt
          exact ⟨h1, h2, x, hx, hxi.trans hdid⟩
        · exact ⟨by simp [hdnid], by simp [hdnid], dn, by simp, rfl⟩
    · simp only [List.mem_singleton] at hq
      subst hq
      rw [hdnc] at hcm
      simp at hcm
  · -- once
    intro q hq
    rw [hd] at hq
    rcases List.mem_append.mp hq with hq | hq
    · rcases of_old q hq with ⟨hqt, _⟩ | rfl
      · exact hc.once q hqt
      · simp only
        rw [List.nodup_append]
        refine ⟨hc.once p hp, by simp, ?_⟩
        intro a ha b hb
        simp only [List.mem_singleton] at hb
        subst hb
        obtain ⟨_, _, d, hdt, hdid⟩ := hc.real p hp a ha
        intro heq
        exact hfresh d hdt (hdid.trans heq)
    · simp only [List.mem_singleton] at hq
      subst hq
      rw [hdnc]; simp


theorem sprout_childOk {t t' : T} {flat : List (Id × Ind)} {news : List NewEnv} (hw : WF t) (hc : ChildOk t)
    (h : doSprout t flat news = .ok t') : ChildOk t' := by
  induction flat generalizing t news with
  | nil =>
    cases news with
    | nil => simp only [doSprout, Except.ok.injEq] at h; subst h; exact hc
    | cons e es => simp [doSprout] at h
  | cons ps rest ih =>
    obtain ⟨pid, s⟩ := ps
    cases news with
    | nil => simp [doSprout] at h
    | cons e es =>
      simp only [doSprout] at h
      split at h
      · simp at h
      · rename_i p hp
        split at h
        · simp at h
        · rename_i t1 hcr
          have hpm : p ∈ t.demes := (find_some_mem hp).1
          exact ih (create_wf hw hpm hcr) (create_childOk hw hc hpm hcr) h

theorem childOk_mk {t : T} (h : (∀ d ∈ t.demes, d.id ≠ [] → ∃ p ∈ t.demes, p.id = d.id.dropLast ∧ d.id ∈ p.children) ∧
    (∀ p ∈ t.demes, ∀ c ∈ p.children, c.dropLast = p.id ∧ c ≠ [] ∧ ∃ d ∈ t.demes, d.id = c) ∧
    (∀ p ∈ t.demes, p.children.Nodup)) : ChildOk t := ⟨h.1, h.2.1, h.2.2⟩

/-- **the children invariant is inductive** (on well-formed trees) -/
theorem step_childOk {t t' : T} {ev : Ev} (hw : WF t) (hc : ChildOk t) (h : step t ev = .ok t') : ChildOk t' := by
  cases ev with
  | loop ge =>
    obtain ⟨_, hd, _⟩ := stepLoop_effect h
    exact ⟨by rw [hd]; exact hc.listed, by rw [hd]; exact hc.real, by rw [hd]; exact hc.once⟩
  | gen id g l =>
    obtain ⟨f, hd, hf⟩ := (stepGen_effect h).onlyChildren
    apply childOk_mk
    rw [hd]
    exact childOk_of_rel (R := fun a b => b.id = a.id ∧ b.children = a.children) (fun _ _ hab => hab) hc
      (updFirst_rel (fun _ => ⟨rfl, rfl⟩) id f (fun d => ⟨(hf d).2, (hf d).1⟩) t.demes)
  | localRun id reqs its nfev =>
    obtain ⟨f, hd, hf⟩ := (stepLocal_effect h).onlyChildren
    apply childOk_mk
    rw [hd]
    exact childOk_of_rel (R := fun a b => b.id = a.id ∧ b.children = a.children) (fun _ _ hab => hab) hc
      (updFirst_rel (fun _ => ⟨rfl, rfl⟩) id f (fun d => ⟨(hf d).2, (hf d).1⟩) t.demes)
  | round ge renv news =>
    obtain ⟨_, _, _, _, _, _, hcase⟩ := stepRound_effect h
    rcases hcase with ⟨hd, _⟩ | ⟨_, _, _, seeds, t1, _, _, hds, rfl⟩
    · exact ⟨by rw [hd]; exact hc.listed, by rw [hd]; exact hc.real, by rw [hd]; exact hc.once⟩
    · have h1 := sprout_childOk hw hc hds
      apply childOk_mk
      exact childOk_of_rel (R := fun d d' => ∃ hb, d' = { d with hib := hb })
        (fun a b hab => by obtain ⟨hb, rfl⟩ := hab; exact ⟨rfl, rfl⟩) h1
        (updateHibernation_forall2 t1 (seeds.map (·.deme)))

theorem init_childOk {cfg : Cfg} {stks : List (List Problem.Wrapper)} {rootEnv : NewEnv} {t0 : T}
    (hi : init cfg stks rootEnv = .ok t0) : ChildOk t0 := by
  have ce := createDeme_effect hi
  obtain ⟨old, d, hd, hf, hold, hdc, _, _, hid, _⟩ := ce.demes
  simp only [] at hold hid
  have hold' : old = [] := by rw [hold]
  rw [hold', List.nil_append] at hd
  refine ⟨?_, ?_, ?_⟩
  · intro x hx hne
    rw [hd] at hx
    simp only [List.mem_singleton] at hx
    subst hx
    exact absurd hid hne
  · intro p hp c hcm
    rw [hd] at hp
    simp only [List.mem_singleton] at hp
    subst hp
    rw [hdc] at hcm
    simp at hcm
  · intro p hp
    rw [hd] at hp
    simp only [List.mem_singleton] at hp
    subst hp
    rw [hdc]; simp

/-- **C07 — children.**  In every state reachable from a freshly constructed tree: every
non-root deme is listed, exactly once, among the children of the deme one level above whose id
is its own id without the last component; every entry of a children list is the id of an
existing deme of that shape; no children list has repetitions. -/
theorem C07_children {cfg : Cfg} {stks : List (List Problem.Wrapper)} {rootEnv : NewEnv} {t0 t : T}
    {evs : List Ev} (hi : init cfg stks rootEnv = .ok t0) (h : exec t0 evs = .ok t) : ChildOk t := by
  have hw0 := init_wf hi
  have hc0 := init_childOk hi
  clear hi
  induction evs generalizing t0 with
  | nil => simp only [exec, Except.ok.injEq] at h; subst h; exact hc0
  | cons e es ih =>
    simp only [exec, bind, Except.bind] at h
    split at h
    · simp at h
    · rename_i t1 h1
      exact ih h (step_wf hw0 h1) (step_childOk hw0 hc0 h1)

end C07
