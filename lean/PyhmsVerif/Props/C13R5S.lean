import PyhmsVerif.Model.R5S
import PyhmsVerif.Props.C13Sprout
import PyhmsVerif.Props.C13Run
import PyhmsVerif.Proofs.SproutLemmas
/-!
# R5S selection: direction symmetry, soundness (C13, C20)
-/
namespace R5S
open Select NBC

/-- the selected positions do not depend on the individuals at all -/
theorem select_map (f : Ind → Ind) (topK : Nat) (l : List Ind) (env : Env) :
    select topK (l.map f) env = (select topK l env).map f := by
  unfold select
  rw [List.length_map]
  generalize selectIdx topK l.length env = idx
  induction idx with
  | nil => rfl
  | cons i is ih =>
    simp only [List.getElem?_map] at ih
    simp only [List.filterMap_cons, List.getElem?_map]
    cases l[i]? with
    | none => simpa using ih
    | some a => simp [ih]

/-- **C13 — R5S.**  On `(−f, minimise)` the selection returns the mirror images of what it
returns on `(f, maximise)`, in the same order (same distances, same weighted sums). -/
theorem r5s_mirror (topK n : Nat) (inds : List Ind) (env : Env) :
    r5s false topK n (inds.map negInd) env = (r5s true topK n inds env).map negInd := by
  unfold r5s
  rw [List.length_map]
  split
  · rfl
  · rw [C13.sortDesc0_mirror, select_map]

/-- every selected individual is one of the given ones -/
theorem select_mem (topK : Nat) (l : List Ind) (env : Env) : ∀ x ∈ select topK l env, x ∈ l := by
  intro x hx
  simp only [select, List.mem_filterMap] at hx
  obtain ⟨i, _, hi⟩ := hx
  exact List.mem_of_getElem? hi

/-- **C20 — `r5s_solutions` returns individuals it was given** (never a new or re-evaluated one) -/
theorem r5s_mem (mx : Bool) (topK n : Nat) (inds : List Ind) (env : Env) :
    ∀ x ∈ r5s mx topK n inds env, x ∈ inds := by
  intro x hx
  unfold r5s at hx
  split at hx
  · exact hx
  · have := select_mem _ _ _ x hx
    simp only [List.mem_map] at this
    obtain ⟨p, hp, rfl⟩ := this
    have hp' := (sortDesc_perm mx _).mem_iff.mp hp
    simp only [List.mem_map] at hp'
    obtain ⟨i, hi, rfl⟩ := hp'
    exact hi

/-- at most `n` individuals are returned untouched -/
theorem r5s_small (mx : Bool) (topK n : Nat) (inds : List Ind) (env : Env) (h : inds.length ≤ n) :
    r5s mx topK n inds env = inds := by
  simp [r5s, h]

-- ------------------------------------------------------------------ tags do not matter

/-- best-first insertion on bare individuals -/
def insI (mx : Bool) (a : Ind) : List Ind → List Ind
  | [] => [a]
  | b :: l => if worse mx a b then b :: insI mx a l else a :: b :: l

def sortI (mx : Bool) : List Ind → List Ind
  | [] => []
  | a :: l => insI mx a (sortI mx l)

theorem insertDesc_snd (mx : Bool) (a : Nat × Ind) (l : List (Nat × Ind)) :
    (insertDesc mx a l).map (·.2) = insI mx a.2 (l.map (·.2)) := by
  induction l with
  | nil => rfl
  | cons b l ih =>
    simp only [insertDesc, List.map_cons, insI]
    split
    · simp [ih]
    · rfl

/-- the order produced by the stable best-first sort does not depend on the tags carried along -/
theorem sortDesc_snd (mx : Bool) (l : List (Nat × Ind)) :
    (sortDesc mx l).map (·.2) = sortI mx (l.map (·.2)) := by
  induction l with
  | nil => rfl
  | cons a l ih => simp only [sortDesc, List.map_cons, sortI, insertDesc_snd, ih]

/-- the driver's entry point (distances over the input order) is `r5s` with the distance
matrix permuted by the sort -/
theorem r5sD_eq (mx : Bool) (topK n : Nat) (inds : List Ind) (distIn : Nat → Nat → Rat) (wwd : List Rat) :
    r5sD mx topK n inds distIn wwd =
      r5s mx topK n inds
        { dist := fun i j =>
            distIn (((sortDesc mx (inds.zipIdx.map fun p => (p.2, p.1))).map (·.1)).getD i 0)
                   (((sortDesc mx (inds.zipIdx.map fun p => (p.2, p.1))).map (·.1)).getD j 0),
          wwd := wwd } := by
  unfold r5sD r5s
  split
  · rfl
  · simp only [sortDesc_snd]
    congr 2
    have h1 : List.map ((fun x : Nat × Ind => x.2) ∘ fun p : Ind × Nat => (p.2, p.1)) inds.zipIdx = inds := by
      rw [show ((fun x : Nat × Ind => x.2) ∘ fun p : Ind × Nat => (p.2, p.1)) = Prod.fst from rfl]
      exact List.zipIdx_map_fst 0 inds
    have h2 : List.map (fun x : Nat × Ind => x.2) (List.map (fun i => (0, i)) inds) = inds := by
      simp [List.map_map, Function.comp]
    rw [List.map_map, h1, h2]

end R5S
