"""C18 — Hibernation suspends exactly the demes that did not sprout, and never stalls

Theorems: lean/PyhmsVerif/Props/C18.lean (about the tree model lean/PyhmsVerif/Model/Tree.lean).
Tie to /repo: trace refinement — real runs are re-executed by `Tree.step`, state dumps and
sprout-stage outputs are diffed (harness/refine.py); only disagreements that bear on this
property count.  Direct monitor of the property on the same kind of runs (harness/monitors.py).
"""
import numpy as np
from .. import refine, runs

MODULE = 'PyhmsVerif.Props.C18Awake'
THEOREMS = ['C18.hib_rule', 'C18.C18_flags', 'C18.C18_off', 'C18.step_off', 'C18.C18_frozen', 'C18.schedule_awake', 'C18.C18_stall_schedule', 'C18.C18_sleeping_frozen', 'C18.C18_flags_only_in_rounds', 'C18.C18_only_awake_run', 'C18.step_queueAwake', 'EngineDE.deGen_collapsed']
EXTRA_MODULES = ['PyhmsVerif.Props.EngineDE']
LEVEL = 'proof'
LEVEL_TEXT = 'Theorems: closed formula of the hibernation pass; after a round every active non-leaf deme that existed before it hibernates iff the round took no seed from it, demes created by the round are untouched (awake); with hibernation disabled no deme ever hibernates in any reachable state; a generation changes only the deme that runs and no hibernation flag; only active, awake demes are scheduled; when every active deme hibernates the schedule is empty (mechanism of D13). Tie: trace refinement (flags in every dump; schedule computed by the model) + monitors (flags vs rounds, frozen demes, progress). NEW (run level): C18_sleeping_frozen — through a whole run_metaepoch (any accepted generation / local-search events) every deme that was hibernating (or inactive) when the step began is unchanged: same history, same evaluation counter, same flags; C18_flags_only_in_rounds — only sprouting rounds touch hibernation flags. C18_only_awake_run — in every reachable state with hibernation enabled a generation is only accepted from a deme that is active and not hibernating (inductive invariant QueueAwake: every deme still scheduled in the metaepoch in progress is awake): a hibernating deme performs no objective evaluations. Mechanism of known finding D19 proved: EngineDE.deGen_collapsed — a DE population collapsed to one point of the box makes no objective call and reproduces itself, whatever the draws (Model/Engine.lean, tied bit-exactly to DE.run by the engine-level differential in the C11 / C12 checks).'
LEVEL_NOTE = 'Trusted: Lean kernel + standard axioms; the hand-written tree model is tied to the code by trace refinement on sampled runs; numerical engines, objective values and user-defined stop-condition verdicts are environment; monitors trusted as failing-input search. The never-stalls clause is false of model and code in the reachable state where every active deme hibernates (known finding D13: C18_stall_schedule shows the schedule is then empty); a stall is accepted as D13 only when the model reproduces the whole run (the deme really had no admissible sprout), any other stall is a violation. Progress of an awake engine (EngineProgress: every generation evaluates at least one point) is an assumption about the engines, monitored. EngineProgress fails for a DE / SHADE deme whose population has collapsed to one point (known finding D19: unchanged trial vectors are not re-evaluated): a metaepoch in which every awake active deme is such a deme performs 0 evaluations; it is reported under its own signature and only when every awake active deme is a collapsed DE/SHADE deme.'
TECHNIQUE = "Lean 4 theorems (inductive invariants of the tree machine Tree.step, proved for all configurations and event sequences) tied to the code by trace refinement (Tree.step re-executes real runs; engine generations replayed bit-exactly by the engine model) + direct monitors as failing-input search"
RULE = "case = one traced run of a random configuration (1-3 levels, engine per level from the full list, every shipped GSC/LSC kind plus user-defined ones, both stock sprout mechanisms and user-composed chains, hibernation on/off, both directions, decimal boxes, optional cutoff/precision/stats wrappers, shared or per-level problems); non-trivial = run with >= 2 demes and >= 2 metaepochs; distinct by configuration hash"
ASSUMPTIONS = ["objective is deterministic and never returns NaN", "runs are capped at 12 metaepochs by a user-level composite stop condition"]
FORCE = {'hibernation': True}
PID = "C18"


D13 = "C18/no-progress/all-active-demes-hibernating"


def explain_stalls(sl):
    """A stall with every active deme asleep is the known finding D13 only when the model — which
    implements the sprouting and hibernation rules as specified — reproduces the whole run, i.e.
    the deme really had no admissible sprout.  Otherwise it is a different violation."""
    idx = [i for i, v in enumerate(sl.violations) if v["signature"] == D13]
    if not idx:
        return
    res = refine.refine_specs([sl.violations[i]["replay"]["spec"] for i in idx])
    for k, i in enumerate(idx):
        if res.get(k):
            d = res[k][0]
            sl.violations[i]["signature"] = "C18/no-progress/stall-not-explained-by-the-sprouting-rules"
            sl.violations[i]["detail"] += f" — and the model disagrees with the run ({d.get('cat')}: {str(d.get('model'))[:200]})"


def _sleepers_worker(spec):
    """an UNTRACED tree (the configured stop-condition objects themselves, not the tracer's pass-throughs) stepped by
    hand with hibernation on: a deme that is asleep when a step begins is the same afterwards — recorded metaepochs,
    evaluations, generations, activity"""
    import pyhms.tree as T
    from pyhms.config import TreeConfig

    from ..common import RunTimeout, is_env_crash, run_limit

    found = []
    slept = 0
    try:
        with run_limit():
            o = runs.build(spec, None, plain="callable")
            opts = {"random_seed": spec["seed"], "hibernation": True}
            tree = T.DemeTree(TreeConfig(o["levels"], o["gsc"], o["sm"], options=opts, config_class_to_deme_class=o["custom"]))
            steps = 0
            while not tree._gsc(tree) and steps < spec["max_steps"]:
                before = {}
                for _, d in tree.all_demes:
                    if d._hibernating and d.is_active:
                        before[d.id] = (d, len(d._history), int(d.metaepoch_count), int(d.n_evaluations), len(d.history))
                tree.run_step()
                steps += 1
                if steps == 3 and not found:
                    import copy

                    twin = copy.deepcopy(tree)
                    a = {d.id: bool(d._hibernating) for _, d in tree.all_demes}
                    b = {d.id: bool(d._hibernating) for _, d in twin.all_demes}
                    if a != b:
                        found.append(f"metaepoch {steps}: a deep copy of the tree has other hibernation flags than the tree ({[k for k in a if a[k] != b.get(k)]} differ): a copy of a sleeping deme is awake")
                for did, (d, nh, mc, ne, ng) in before.items():
                    slept += 1
                    now = (len(d._history), int(d.metaepoch_count), int(d.n_evaluations), len(d.history))
                    if now != (nh, mc, ne, ng) or not d.is_active:
                        if not found:
                            found.append(f"metaepoch {steps}: deme {did} ({type(d).__name__}, local stop condition {type(d._lsc).__name__}) was asleep when the step began; recorded metaepochs / metaepoch count / evaluations / generations went from {(nh, mc, ne, ng)} to {now}, active: {d.is_active}")
    except RunTimeout as e:
        return {"status": "env", "detail": str(e)}
    except Exception as e:  # noqa: BLE001
        return {"status": "env" if is_env_crash(e) else "crash", "detail": f"{type(e).__name__}: {e}"}
    return {"status": "ok", "found": found, "slept": slept}


def plain_sleepers(ctx, n, salt):
    from ..common import Slice, pmap

    sl = Slice("untraced trees stepped by hand, hibernation on (a deme asleep at the start of a step is unchanged after it)")
    n = ctx.boost(n) if hasattr(ctx, "boost") else n
    rng = ctx.rng(salt)
    specs = []
    lscs = [{"kind": "MetaepochLimit", "limit": 3}, {"kind": "MetaepochLimit", "limit": 6}, {"kind": "DontStop"}, {"kind": "AllChildrenStopped"}, {"kind": "FitnessSteadiness", "max_deviation": 0.5, "n_metaepochs": 2}]
    for _ in range(n):
        nlev = int(rng.choice([2, 3, 3]))
        spec = runs.rand_spec(rng, nlev=nlev, hibernation=True, engines={0: ["sea", "de", "shade", "ga"], 1: ["sea", "de", "cma", "shade"], 2: ["sea", "cma", "local"]},
                              lsc={l: lscs[int(rng.integers(len(lscs)))] for l in range(nlev - 1)}, gsc={"kind": "MetaepochLimit", "limit": 9}, max_steps=9, cutoff=None)
        if spec["gsc"]["kind"] == "User":
            spec["gsc"] = {"kind": "MetaepochLimit", "limit": 9}
        specs.append(spec)
    for spec, r in zip(specs, pmap(_sleepers_worker, specs, chunksize=2)):
        if r["status"] == "env":
            sl.skipped += 1
            continue
        if r["status"] == "crash":
            sl.violations.append({"signature": "C18/run-crashed", "detail": r["detail"], "replay": {"spec": spec}})
            continue
        sl.cases += 1
        sl.count("deme-steps-asleep", r["slept"])
        if r["slept"]:
            sl.nontrivial.add(runs.spec_id(spec))
        for m in r["found"]:
            sl.violations.append({"signature": "C18/hibernating-deme-changed", "detail": m, "replay": {"spec": spec}})
    if specs:
        sl.sample(runs.describe(specs[0]))
    return sl


def run(ctx):
    mon = runs.monitor_batch(ctx, PID, ctx.size(250, 3000), force=FORCE)
    explain_stalls(mon)
    deep = runs.monitor_batch(ctx, PID, ctx.size(40, 500), salt=59, name="traced-runs-monitor-C18(four levels: two intermediate levels that can sleep)", force=_four_levels)
    explain_stalls(deep)
    return [
        refine.refine_batch(ctx, ctx.size(120, 1500), force=FORCE, pid=PID, name="trace-refinement(Tree.step vs DemeTree.run)"),
        mon,
        # the flag update walks the demes of all non-leaf levels: with four levels a round can create a
        # non-leaf deme on one level while a deeper non-leaf deme needs its flag changed
        refine.refine_batch(ctx, ctx.size(40, 500), salt=57, force=_four_levels, pid=PID, name="trace-refinement(four levels, hibernation)"),
        deep,
        # NaN is a legal fitness: a sleeping deme must not evaluate (nor change) there either
        runs.nan_monitor_batch(ctx, PID, ctx.size(60, 600), salt=67, name="traced-runs-monitor-C18(objective with NaN holes, hibernation, NBC generators)", force=_nan_hib),
        interleaved_options(ctx, ctx.size(16, 200), 69),
        plain_sleepers(ctx, ctx.size(40, 500), 71),
    ]


def _interleaved_worker(seed):
    """two trees in one process, stepped side by side: A with hibernation on, B with it off (explicitly) or
    with an options dict that does not mention it.  B must never show a hibernating deme; in A every active
    non-leaf deme that existed when a round began must sleep afterwards iff the round took no seed from it."""
    import pyhms.tree as T
    from pyhms.config import TreeConfig

    from ..common import RunTimeout, is_env_crash, run_limit

    rng = np.random.default_rng([seed, 99])
    eng = {0: ["sea", "de", "shade", "ga"], 1: ["sea", "de", "cma", "shade"], 2: ["sea", "de", "cma", "local"]}
    specs = [runs.rand_spec(rng, nlev=int(rng.choice([2, 3, 3])), engines=eng, gsc={"kind": "MetaepochLimit", "limit": 8}, cutoff=None) for _ in range(2)]
    how_b = int(rng.integers(0, 3))  # 0: hibernation False, 1: key omitted, 2: no random_seed either
    found = []
    try:
        with run_limit():
            trees, seeds_log = [], [[], []]
            for k, spec in enumerate(specs):
                o = runs.build(spec, None, plain="callable")
                sm = o["sm"]
                orig = sm.get_seeds

                def get_seeds(tree, orig=orig, log=seeds_log[k]):
                    out = orig(tree)
                    log.append({d.id for d in out})
                    return out

                sm.get_seeds = get_seeds
                if k == 0:
                    opts = {"random_seed": spec["seed"], "hibernation": True}
                else:
                    opts = [{"random_seed": spec["seed"], "hibernation": False}, {"random_seed": spec["seed"]}, {}][how_b]
                trees.append(T.DemeTree(TreeConfig(o["levels"], o["gsc"], sm, options=opts, config_class_to_deme_class=o["custom"])))
            a, b = trees
            for _ in range(8):
                for k, t in enumerate(trees):
                    if t._gsc(t):
                        continue
                    before = {d.id for _, d in t.active_non_leaves}
                    n_rounds = len(seeds_log[k])
                    t.run_step()
                    if k == 1:
                        bad = [d.id for _, d in t.all_demes if getattr(d, "_hibernating", False)]
                        if bad and not found:
                            found.append(f"tree B was built with options {['hibernation=False', 'no hibernation key', 'an empty options dict'][how_b]} while another tree of the process has hibernation on: its demes {bad} hibernate at metaepoch {t.metaepoch_count}")
                    elif len(seeds_log[0]) > n_rounds:
                        took = seeds_log[0][-1]
                        for _, d in t.active_non_leaves:
                            if d.id in before and d.is_active:
                                want = d.id not in took
                                if bool(d._hibernating) != want and not found:
                                    found.append(f"tree A (hibernation on) metaepoch {t.metaepoch_count}: deme {d.id} took part in the round, the round {'took no seed' if want else 'took a seed'} from it, but its hibernation flag is {bool(d._hibernating)} (another tree with different options lives in the same process)")
    except RunTimeout as e:
        return {"status": "crash", "detail": f"run did not terminate: {e}"}
    except Exception as e:  # noqa: BLE001
        return {"status": "env" if is_env_crash(e) else "crash", "detail": f"{type(e).__name__}: {e}"}
    return {"status": "ok", "found": found, "rounds": len(seeds_log[0])}


def interleaved_options(ctx, n, salt):
    from ..common import Slice, pmap

    sl = Slice("two trees with different hibernation options stepped side by side in one process")
    n = ctx.boost(n) if hasattr(ctx, "boost") else n
    base = int(ctx.rng(salt).integers(1 << 30))
    seeds = [base + i for i in range(n)]
    for sd, r in zip(seeds, pmap(_interleaved_worker, seeds, chunksize=2)):
        if r["status"] == "env":
            sl.skipped += 1
            continue
        if r["status"] == "crash":
            sl.violations.append({"signature": "C18/run-crashed", "detail": r["detail"], "replay": {"seed": sd}})
            continue
        sl.cases += 1
        if r["rounds"] >= 2:
            sl.nontrivial.add(sd)
        for m in r["found"]:
            sl.violations.append({"signature": "C18/flags-depend-on-another-tree", "detail": m, "replay": {"seed": sd}})
    if seeds:
        sl.sample({"seed": seeds[0]})
    return sl


def _nan_hib(rng):
    kind = str(rng.choice(["nbc", "custom"]))
    if kind == "nbc":
        sprout = {"kind": "nbc", "gen_dist_factor": float(rng.uniform(1, 3)), "trunc_factor": float(rng.choice([0.7, 1.0])), "fil_dist_factor": float(rng.uniform(0.3, 2)), "level_limit": int(rng.integers(2, 5))}
    else:
        sprout = {"kind": "custom", "generator": "nbc", "gen_dist_factor": float(rng.uniform(1, 2.5)), "trunc_factor": 1.0, "deme_filters": ["demelimit"], "far_enough": 0.1,
                  "fil_dist_factor": 1.0, "norm_ord": 2, "check_only_active": False, "deme_limit": 1, "tree_filters": ["levellimit"], "level_limit": int(rng.integers(1, 4))}
    return {"hibernation": True, "nlev": int(rng.choice([2, 3])), "sprout": sprout}


def _four_levels(rng):
    eng = {0: ["sea", "de", "shade", "ga"], 1: ["sea", "de", "shade", "cma"], 2: ["sea", "de", "cma", "shade"], 3: ["sea", "de", "cma", "local"]}
    return {"nlev": 4, "hibernation": True, "engines": eng, "max_steps": 12}


def search(ctx, broken):
    sl = runs.monitor_batch(ctx, PID, 500, salt=97, force=FORCE)
    explain_stalls(sl)
    return sl.violations


def replay(data):
    spec = data["violation"]["replay"]["spec"]
    _, res = runs.monitored_run(spec, {PID})
    for v in res.get(PID, []):
        print(v["signature"], v["detail"])
    return not res.get(PID)
