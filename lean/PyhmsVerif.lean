import PyhmsVerif.Model.Proto
import PyhmsVerif.Model.F64
import PyhmsVerif.Model.Repair
import PyhmsVerif.Model.Fit
import PyhmsVerif.Model.Problem
import PyhmsVerif.Model.Select
