#!/bin/bash
# usage: tools/allchecks.sh <tier> <seed> [<seed> ...]   — runs every registered check, prints one line each
cd "$(dirname "$0")/.."
TIER=$1; shift
(cd lean && lake build PyhmsVerif PyhmsVerif.Props > /dev/null 2>&1)
for seed in "$@"; do
  for p in C01 C02 C03 C04 C05 C06 C07 C08 C09 C10 C11 C12 C13 C14 C15 C16 C17 C18 C19 C20; do
    out=$(VERIF_SEED=$seed timeout 3600 /venv/bin/python check.py $p --tier $TIER 2>&1 | grep -v "^KNOWN-FINDING" | tail -2 | tr '\n' ' ')
    echo "seed=$seed $out"
  done
done
