"""R5S selection: `pyhms.utils.r5s.R5SSelection` vs the Lean model `R5S.r5sD` (Model/R5S.lean).

The model receives the individuals in input order, the pairwise distance matrix NumPy / sklearn
computed for them (exact rationals) and the weighted sums of the real code (`np.sum` of binary64
products is environment; a monitor compares them with the exact rational sums).  It sorts,
takes minima, applies the binary64 `isclose` filter and the top-k / dominated scan itself.
"""
from fractions import Fraction

import numpy as np

from .common import Slice, fr, inds_tok, run_driver


def gen(rng):
    n = int(rng.integers(3, 16))
    d = int(rng.integers(1, 4))
    kind = int(rng.integers(0, 5))
    if kind == 0:
        X = rng.uniform(-5, 5, (n, d))
    elif kind == 1:  # clusters: several individuals whose nearest neighbour is their nearest better one
        k = int(rng.integers(2, 5))
        cen = rng.uniform(-5, 5, (k, d))
        X = cen[rng.integers(0, k, n)] + rng.normal(0, 0.05, (n, d))
    elif kind == 2:  # lattice: equal distances
        X = np.round(rng.uniform(-3, 3, (n, d)))
    elif kind == 3:  # near-duplicates (isclose boundary)
        X = rng.uniform(-1, 1, (n, d))
        for i in range(1, n, 2):
            X[i] = X[i - 1] + rng.choice([0.0, 1e-9, 1e-8, 2e-8, 1e-6]) * rng.normal(size=d)
    else:
        X = np.outer(rng.uniform(-5, 5, n), np.ones(d))
    fk = int(rng.integers(0, 4))
    if fk == 0:
        f = np.sum(X**2, axis=1)
    elif fk == 1:
        f = np.floor(np.sum(np.abs(X), axis=1))
    elif fk == 2:
        f = rng.integers(0, max(2, n // 3), n).astype(float)
    else:
        f = rng.normal(size=n)
    return X, f


def batch(ctx, rng, n_cases, name="R5SSelection-vs-R5S.r5sD"):
    from pyhms.core.individual import Individual
    from pyhms.core.problem import FunctionProblem
    from pyhms.utils.r5s import R5SSelection
    from sklearn.metrics import pairwise_distances

    sl = Slice(name)
    lines, metas = [], []
    for _ in range(n_cases):
        X, f = gen(rng)
        n = len(X)
        mx = bool(rng.random() < 0.5)
        topk = int(rng.choice([3, 3, 1, 2, 5]))
        nmax = int(rng.choice([5, 5, 2, 8]))
        prob = FunctionProblem(lambda x: 0.0, bounds=np.array([[-10.0, 10.0]] * X.shape[1]), maximize=mx)
        inds = [Individual(X[i].copy(), prob, float(f[i])) for i in range(n)]
        ids = {id(ind): i for i, ind in enumerate(inds)}
        sel = R5SSelection(top_k=topk)
        desc = {"n": n, "d": int(X.shape[1]), "mx": mx, "top_k": topk, "n_max": nmax, "X": X.tolist(), "f": f.tolist()}
        before = [(tuple(i.genome.tolist()), i.fitness) for i in inds]
        try:
            got = sel(list(inds), nmax)
        except Exception as e:  # noqa: BLE001
            sl.violations.append({"signature": "C13/r5s-crash", "detail": f"R5SSelection raised {type(e).__name__}: {e}", "replay": desc})
            continue
        if [(tuple(i.genome.tolist()), i.fitness) for i in inds] != before:
            sl.violations.append({"signature": "C20/r5s-mutates", "detail": "R5SSelection changed the individuals it was given", "replay": desc})
        if any(id(g) not in ids for g in got):
            sl.violations.append({"signature": "C20/r5s-foreign", "detail": "R5SSelection returned an individual that it was not given", "replay": desc})
            continue
        got_idx = [ids[id(g)] for g in got]
        # environment: distances in input order; weighted sums by position of the real best-first order
        D = pairwise_distances(X)
        if n > nmax:
            order = [ids[id(i)] for i in sorted(inds, reverse=True)]
            Ds = sel._get_distances([inds[i] for i in order])
            wwd = [float(x) for x in sel._get_total_weighted_worse_distances(Ds)]
            # monitor: the weighted sums against exact rational arithmetic
            for p in range(n):
                exact = sum((Fraction(float(D[order[p], order[q]])) / (2 ** (q - p)) for q in range(p + 1, n)), Fraction(0))
                if abs(Fraction(wwd[p]) - exact) > Fraction(1, 10**9) * max(abs(exact), Fraction(1, 10**6)):
                    sl.violations.append({"signature": "C13/r5s-weighted-sum", "detail": f"weighted worse-distance sum of position {p}: {wwd[p]} but exactly {float(exact)}", "replay": desc})
                    break
        else:
            wwd = []
        pop = inds_tok([(tuple(float(v) for v in X[i]), float(f[i])) for i in range(n)])
        flat = " ".join(fr(x) for row in D for x in row)
        lines.append(f"r5s {1 if mx else 0} {topk} {nmax} {pop} {flat} {len(wwd)}" + "".join(" " + fr(w) for w in wwd))
        exp = inds_tok([(tuple(float(v) for v in X[i]), float(f[i])) for i in got_idx])
        # mirror twin on the real code
        probm = FunctionProblem(lambda x: 0.0, bounds=prob.bounds, maximize=not mx)
        indsm = [Individual(X[i].copy(), probm, -float(f[i])) for i in range(n)]
        idm = {id(ind): i for i, ind in enumerate(indsm)}
        gotm = [idm[id(g)] for g in R5SSelection(top_k=topk)(list(indsm), nmax)]
        if gotm != got_idx:
            sl.violations.append({"signature": "C13/r5s", "detail": f"R5S selects {got_idx} on (f,{'max' if mx else 'min'}) but {gotm} on the mirrored problem", "replay": desc})
        metas.append((exp, desc, n > nmax, len(got_idx), len(set(f.tolist())) < n))
    out = run_driver(lines)
    for k, (exp, desc, big, ng, ties) in enumerate(metas):
        sl.cases += 1
        sl.count("selected" if big else "returned-untouched")
        if big:
            sl.count(f"kept={min(ng, 6)}{'+' if ng > 6 else ''}")
        if ties:
            sl.count("ties")
        if big:
            sl.nontrivial.add(hash(lines[k]))
        if out[k] != exp:
            sl.disagreements.append({"op": lines[k][:1500], "impl": exp[:800], "model": out[k][:800], "desc": {x: desc[x] for x in ("n", "d", "mx", "top_k", "n_max")}, "replay": desc})
        if k < 2:
            sl.sample({x: desc[x] for x in ("n", "d", "mx", "top_k", "n_max")})
    return sl
