"""C04 — The reported best is the true best of everything kept, and never gets worse

Theorems: lean/PyhmsVerif/Props/C04.lean (about the tree model lean/PyhmsVerif/Model/Tree.lean).
Tie to /repo: trace refinement — real runs are re-executed by `Tree.step`, state dumps and
sprout-stage outputs are diffed (harness/refine.py); only disagreements that bear on this
property count.  Direct monitor of the property on the same kind of runs (harness/monitors.py).
"""
from .. import refine, runs

MODULE = 'PyhmsVerif.Props.C04Obs'
THEOREMS = ['C04.tree_best_mem', 'C04.tree_best_ge_all', 'C04.deme_best', 'C04.best_never_worse', 'Select.best_not_worse', 'Select.best_mem', 'C04.C04_best_is_best_observed', 'C04.C04_observed_deme', 'C04.C04_observed_tree', 'C04.step_obs', 'C04.step_logcov', 'C04.genOk_observed', 'C04Prefix.cutoff_closed', 'C04Prefix.budget_prefix']
EXTRA_MODULES = ['PyhmsVerif.Props.C04Prefix']
LEVEL = 'proof'
LEVEL_TEXT = 'Theorems, both directions, all reachable states: the tree best (and each deme best) is a member of the histories and at least as good as every stored individual; along every accepted event sequence the best never gets worse (histories are append-only). Tie: trace refinement (tree and deme bests are in every dump) + monitors incl. best-ever-observed and minimize() budget prefix sweeps. NEW (run level): C04_best_is_best_observed — in every reachable state in which no deme is half-way through a metaepoch (every boundary), for every invocation (x, v) of the objective ever made on behalf of a deme of a population engine, the tree reports a best individual and (x, v) is not strictly better than it; proved from two inductive invariants: Obs (no recorded or pending generation forgot an evaluated individual — the model demands observedOk of every generation and initial population, so a real run that drops its best evaluated offspring is rejected by the trace refinement, category observed) and LogCov (every logged invocation is an evaluated individual of a generation of the deme that issued it). BUDGET PREFIX (Props/C04Prefix.lean): cutoff_closed — the single cutoff layer minimize(maxfun=N) builds answers the first N requests of ANY request stream with the objective own values (invoking it) and every later one with the sentinel; budget_prefix — for N1 <= N2 the answers to the first N1 requests are identical and the invocations under N1 are a prefix of those under N2 (that the seeded engines issue the same requests when given the same answers is environment, checked by the twin minimize runs).'
LEVEL_NOTE = 'Trusted: Lean kernel + standard axioms; the hand-written tree / sprout model is tied to the code by trace refinement on sampled runs (every run is re-executed by the model; dumps and the output of every stage of the sprout mechanism are diffed); numerical engines, objective values, NumPy distances and user-defined stop-condition verdicts are environment; monitors trusted as failing-input search. The clause -reported best equals the best objective value ever observed (all engines but the local optimiser)- and the budget-prefix clause are checked by monitors (recorder minimum at every boundary; twin minimize() runs with N1<N2), not stated as theorems.'
TECHNIQUE = "Lean 4 theorems (inductive invariants of the tree machine Tree.step, proved for all configurations and event sequences) tied to the code by trace refinement (Tree.step re-executes real runs; engine generations replayed bit-exactly by the engine model) + direct monitors as failing-input search"
RULE = "case = one traced run of a random configuration (1-3 levels, engine per level from the full list, every shipped GSC/LSC kind plus user-defined ones, both stock sprout mechanisms and user-composed chains, hibernation on/off, both directions, decimal boxes, optional cutoff/precision/stats wrappers, shared or per-level problems); non-trivial = run with >= 2 demes and >= 2 metaepochs; distinct by configuration hash"
ASSUMPTIONS = ["objective is deterministic and never returns NaN", "runs are capped at 12 metaepochs by a user-level composite stop condition"]
FORCE = None
PID = "C04"


def _nan_best(ctx):
    """an objective with NaN holes: NaN is a legal value, ordered as worst — the reported best is the best of what is
    kept (what the engines keep under NaN values is their business: NumPy sorts NaN last, whatever the direction)"""
    sl = runs.nan_monitor_batch(ctx, PID, ctx.size(30, 300), salt=71)
    sl.violations = [v for v in sl.violations if v["signature"] in ("C04/tree-best-not-best", "C04/deme-best-not-best", "C04/tree-best-not-member", "C04/run-did-not-terminate")]
    return sl


def run(ctx):
    return [
        refine.refine_batch(ctx, ctx.size(120, 1500), force=FORCE, pid=PID, name="trace-refinement(Tree.step vs DemeTree.run)"),
        runs.minimize_slice(ctx, PID, ctx.size(12, 150)),
        runs.monitor_batch(ctx, PID, ctx.size(250, 3000), force=FORCE),
        # an objective that returns the best possible value (-inf when minimising, +inf when maximising) on a
        # small part of the box: the reported best must be that value from the moment it is observed
        refine.refine_batch(ctx, ctx.size(30, 300), salt=61, force=_jackpot, pid=PID, name="trace-refinement(objective with an infinitely good region)"),
        runs.monitor_batch(ctx, PID, ctx.size(40, 400), salt=63, name="traced-runs-monitor-C04(objective with an infinitely good region)", force=_jackpot),
        # cached problems (FunctionProblem(use_cache=True)), one objective per level, many trees per process: the
        # reported best must be a value the level's own objective returned
        runs.monitor_batch(ctx, PID, ctx.size(40, 400), salt=65, name="traced-runs-monitor-C04(cached problems, one objective per level)", force=_cached),
        _nan_best(ctx),
    ]


def _cached(rng):
    from . import c02

    return c02._cached(rng)


def _jackpot(rng):
    pop = ["sea", "seax", "ga", "adapt", "de", "ded", "shade", "mwea"]
    return {"objective": "jackpot", "nlev": int(rng.choice([1, 2, 2])), "engines": {0: pop + ["lhs", "sobol"], 1: pop, 2: pop},
            "gsc": {"kind": "MetaepochLimit", "limit": int(rng.integers(3, 8))}}


def search(ctx, broken):
    return runs.monitor_batch(ctx, PID, 500, salt=97, force=FORCE).violations


def replay(data):
    spec = data["violation"]["replay"]["spec"]
    _, res = runs.monitored_run(spec, {PID})
    for v in res.get(PID, []):
        print(v["signature"], v["detail"])
    return not res.get(PID)
