import PyhmsVerif.Model.Repair
import Mathlib.Algebra.Order.Ring.Rat
import Mathlib.Tactic.Linarith
/-!
# C01 — the affine map of LHS / Sobol demes: `lower + u · (upper − lower)` stays in the box

`pyhms/demes/lhs_deme.py`, `sobol_deme.py` scale unit samples `u ∈ [0, 1)` with binary64
arithmetic: `fl(lo + fl(u · fl(hi − lo)))` (`Repair.affine`).  In exact arithmetic the result is
in `[lo, hi]` trivially; in floating point `fl(hi − lo)` may be rounded *up*, so the claim needs
an argument.  The theorem below isolates what it needs from the rounding function:

* `mono`, `zero`, `idem` — rounding is monotone, exact on 0 and on its own results (true of
  round-to-nearest in any format);
* `lo`, `hi` are representable (they are doubles: the box is a NumPy float array);
* `noBack` — when the range was rounded up, `fl(u · R)` is not `R` again.  For binary64 and
  `u ≤ 1 − 2⁻⁵³` (every sample of `scipy.stats.qmc`) this holds because `u·R ≤ R − R·2⁻⁵³` lies at
  least half an ulp below `R` and the tie case `R = 2ᵏ` is exactly representable one binade lower;
  it is *not* proved here for `F64.rnd` but validated on every run by the bit-exact differential
  of `LHSDeme.run` / `SobolDeme.run` with adversarial samples (`1 − 2⁻⁵³`, `1 − 2⁻⁵²`, …).
-/
namespace C01Affine
open Repair F64

structure RoundingLaws (r : Rounding) : Prop where
  mono : ∀ a b x y, a ≤ b → r a = some x → r b = some y → x ≤ y
  zero : r 0 = some 0
  idem : ∀ a x, r a = some x → r x = some x

/-- **LHS / Sobol scaling stays in the box** for every rounding function with the three laws,
every representable box `lo ≤ hi`, every unit sample `0 ≤ u ≤ 1` whose product with a rounded-up
range does not round back up to the range. -/
theorem affine_inBox (r : Rounding) (L : RoundingLaws r) (lo hi u y : Rat)
    (hbox : lo ≤ hi) (hlo : r lo = some lo) (hhi : r hi = some hi) (hu0 : 0 ≤ u) (hu1 : u ≤ 1)
    (noBack : ∀ R, r (hi - lo) = some R → hi - lo < R → r (u * R) ≠ some R)
    (h : affine r lo hi u = some y) : lo ≤ y ∧ y ≤ hi := by
  unfold affine at h
  simp only [Option.bind_eq_some_iff] at h
  obtain ⟨R, hR, p, hp, hy⟩ := h
  -- the rounded range is non-negative and a fixed point
  have hR0 : 0 ≤ R := L.mono 0 (hi - lo) 0 R (by linarith) L.zero hR
  have hRR : r R = some R := L.idem _ _ hR
  -- 0 ≤ p ≤ R
  have hp0 : 0 ≤ p := L.mono 0 (u * R) 0 p (mul_nonneg hu0 hR0) L.zero hp
  have hpR : p ≤ R := L.mono (u * R) R p R (by nlinarith) hp hRR
  have hpp : r p = some p := L.idem _ _ hp
  -- p ≤ hi − lo
  have hple : p ≤ hi - lo := by
    by_cases hup : hi - lo < R
    · -- rounded up: p ≠ R, so p < R; a representable p above hi − lo would round hi − lo to at most p
      have hne : p ≠ R := by
        intro e; subst e; exact noBack _ hR hup hp
      have hlt : p < R := lt_of_le_of_ne hpR hne
      by_contra hcon
      have : hi - lo ≤ p := le_of_lt (not_le.mp hcon)
      have := L.mono (hi - lo) p R p this hR hpp
      linarith
    · linarith [not_lt.mp hup]
  constructor
  · exact L.mono lo (lo + p) lo y (by linarith) hlo hy
  · exact L.mono (lo + p) hi y hi (by linarith) hy hhi

/-- ideal arithmetic satisfies the laws, and `noBack` is vacuous there -/
theorem ideal_laws : RoundingLaws ideal :=
  ⟨fun a b x y h ha hb => by simp only [ideal, Option.some.injEq] at ha hb; subst ha; subst hb; exact h,
   rfl, fun a x h => by simp only [ideal, Option.some.injEq] at h; subst h; rfl⟩

/-- the case that motivates the hypothesis: box `(-0.1, 0.2)` as doubles, `u = 1 − 2⁻⁵³`: the
range is rounded up to `0.30000000000000004`, the product rounds to `0.3`, the result is the
double just below `0.2` — inside. -/
example : (affine F64.rnd (-3602879701896397/36028797018963968) (3602879701896397/18014398509481984)
    (9007199254740991/9007199254740992)).map (fun y => decide (y ≤ 3602879701896397/18014398509481984)) = some true := by
  decide +kernel

end C01Affine
