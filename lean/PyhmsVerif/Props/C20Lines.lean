import PyhmsVerif.Props.C20
import PyhmsVerif.Props.C07Children
/-!
# C20 — every deme that has run gets its line

`lines_complete`: in a well-formed tree with consistent children lists (every reachable state:
`C07_wf`, `C07_children`), every deme that has run at least one metaepoch and whose ancestors
have all run at least one metaepoch has its line in the rendered tree.  (`childLines_sound` is
the converse: every line is the line of such a deme.)
-/
namespace C20
open Tree Report

theorem childLines_child (t : T) (fuel : Nat) (d dc : Deme) (hc : dc.id ∈ d.children)
    (hf : t.find dc.id = some dc) (hr : dc.metaepochs ≥ 1) : lineOf t dc ∈ childLines t (fuel + 1) d := by
  simp only [childLines, List.mem_flatMap]
  exact ⟨dc.id, hc, by simp [hf, hr]⟩

theorem childLines_nest (t : T) (fuel : Nat) (d dc : Deme) (hc : dc.id ∈ d.children)
    (hf : t.find dc.id = some dc) (hr : dc.metaepochs ≥ 1) (l : Line) (hl : l ∈ childLines t fuel dc) :
    l ∈ childLines t (fuel + 1) d := by
  simp only [childLines, List.mem_flatMap]
  exact ⟨dc.id, hc, by simp [hf, hr, hl]⟩

theorem childLines_mono (t : T) : ∀ (fuel : Nat) (d : Deme) (l : Line), l ∈ childLines t fuel d →
    l ∈ childLines t (fuel + 1) d := by
  intro fuel
  induction fuel with
  | zero => intro d l h; simp [childLines] at h
  | succ n ih =>
    intro d l h
    simp only [childLines, List.mem_flatMap] at h ⊢
    obtain ⟨cid, hcid, hl⟩ := h
    refine ⟨cid, hcid, ?_⟩
    split at hl
    · rename_i c hc
      split at hl
      · rename_i hm
        simp only [hm, ↓reduceIte, List.mem_cons] at hl ⊢
        rcases hl with rfl | hl
        · exact Or.inl rfl
        · exact Or.inr (ih c l hl)
      · simp at hl
    · simp at hl

theorem childLines_mono_le (t : T) (d : Deme) (l : Line) {a b : Nat} (hab : a ≤ b) (h : l ∈ childLines t a d) :
    l ∈ childLines t b d := by
  induction hab with
  | refl => exact h
  | step _ ih => exact childLines_mono t _ d l ih

/-- every prefix of a deme's id is the id of a deme of the tree (its ancestors exist) -/
theorem prefix_exists (t : T) (hw : C07.WF t) : ∀ (n : Nat) (d : Deme), d ∈ t.demes → d.id.length = n →
    ∀ pre, pre <+: d.id → ∃ a ∈ t.demes, a.id = pre := by
  intro n
  induction n with
  | zero =>
    intro d hd hlen pre hpre
    have : d.id = [] := List.length_eq_zero_iff.mp hlen
    rw [this] at hpre
    have : pre = [] := List.prefix_nil.mp hpre
    exact ⟨d, hd, by rw [this]; assumption⟩
  | succ m ih =>
    intro d hd hlen pre hpre
    by_cases heq : pre = d.id
    · exact ⟨d, hd, heq.symm⟩
    · have hne : d.id ≠ [] := by intro h; simp [h] at hlen
      obtain ⟨_, p, hp, hpid, _⟩ := hw.parent d hd hne
      have hpl : p.id.length = m := by rw [hpid]; simp [hlen]
      apply ih p hp hpl pre
      rw [hpid]
      -- a proper prefix of d.id is a prefix of d.id.dropLast
      obtain ⟨suf, hsuf⟩ := hpre
      have hsne : suf ≠ [] := by intro h; apply heq; rw [← hsuf, h]; simp
      refine ⟨suf.dropLast, ?_⟩
      rw [← hsuf, List.dropLast_append_of_ne_nil hsne]

/-- a deme `k + 1` levels below `anc` whose chain of ancestors below `anc` (itself included) has
run is displayed among `anc`'s descendants with fuel `k + 1` -/
theorem chain_displayed (t : T) (hw : C07.WF t) (hc : C07.ChildOk t) :
    ∀ (k : Nat) (anc d : Deme) (path : List Nat), anc ∈ t.demes → d ∈ t.demes → d.id = anc.id ++ path →
      path.length = k + 1 →
      (∀ a ∈ t.demes, a.id <+: d.id → anc.id.length < a.id.length → a.metaepochs ≥ 1) →
      lineOf t d ∈ childLines t (k + 1) anc := by
  intro k
  induction k with
  | zero =>
    intro anc d path hanc hd hid hlen hran
    obtain ⟨x, rfl⟩ : ∃ x, path = [x] := by
      cases path with
      | nil => simp at hlen
      | cons x l => cases l with
        | nil => exact ⟨x, rfl⟩
        | cons y l' => simp at hlen
    have hne : d.id ≠ [] := by rw [hid]; simp
    obtain ⟨p, hp, hpid, hin⟩ := hc.listed d hd hne
    have hpa : p.id = anc.id := by rw [hpid, hid]; simp
    have : p = anc := List.inj_on_of_nodup_map hw.nodup hp hanc hpa
    subst this
    exact childLines_child t 0 p d hin (C07.find_unique hw hd)
      (hran d hd (List.prefix_refl _) (by rw [hid]; simp))
  | succ n ih =>
    intro anc d path hanc hd hid hlen hran
    obtain ⟨x, rest, rfl⟩ : ∃ x rest, path = x :: rest := by
      cases path with
      | nil => simp at hlen
      | cons x l => exact ⟨x, l, rfl⟩
    have hrl : rest.length = n + 1 := by simpa using hlen
    -- the child of `anc` on the way to `d`
    obtain ⟨c, hcm, hcid⟩ := prefix_exists t hw _ d hd rfl (anc.id ++ [x])
      ⟨rest, by rw [hid]; simp⟩
    have hcne : c.id ≠ [] := by rw [hcid]; simp
    obtain ⟨p, hp, hpid, hin⟩ := hc.listed c hcm hcne
    have hpa : p.id = anc.id := by rw [hpid, hcid]; simp
    have : p = anc := List.inj_on_of_nodup_map hw.nodup hp hanc hpa
    subst this
    have hcpre : c.id <+: d.id := ⟨rest, by rw [hcid, hid]; simp⟩
    have hcran : c.metaepochs ≥ 1 := hran c hcm hcpre (by rw [hcid]; simp)
    have hd_c := ih c d rest hcm hd (by rw [hcid, hid]; simp) hrl
      (fun a ha hapre hlt => hran a ha hapre (by rw [hcid] at hlt; simp at hlt; omega))
    exact childLines_nest t (n + 1) p c hin (C07.find_unique hw hcm) hcran _ hd_c

/-- **C20 — one line for every deme that has run.**  In a well-formed tree with consistent
children lists (every reachable state), the root's line comes first, and every non-root deme
that has run at least one metaepoch, and whose ancestors below the root have too, has its line
in the rendered tree. -/
theorem lines_complete (t : T) (hw : C07.WF t) (hc : C07.ChildOk t) (root : Deme) (hroot : root ∈ t.demes)
    (hrid : root.id = []) (d : Deme) (hd : d ∈ t.demes) (hne : d.id ≠ [])
    (hran : ∀ a ∈ t.demes, a.id <+: d.id → a.id ≠ [] → a.metaepochs ≥ 1) :
    lineOf t d ∈ lines t := by
  have hfr : t.find [] = some root := by
    have := C07.find_unique hw hroot
    rwa [hrid] at this
  simp only [lines, hfr, List.mem_cons]
  right
  obtain ⟨k, hk⟩ : ∃ k, d.id.length = k + 1 := by
    cases h : d.id.length with
    | zero => exact absurd (List.length_eq_zero_iff.mp h) hne
    | succ k => exact ⟨k, rfl⟩
  have h1 := chain_displayed t hw hc k root d d.id hroot hd (by rw [hrid]; simp) hk
    (fun a ha hapre hlt => hran a ha hapre (by intro h; rw [h, hrid] at hlt; simp at hlt))
  -- the fuel `height` suffices: depth = level < height
  have hlev : d.id.length < t.height := by rw [← hw.lvlId d hd]; exact hw.below d hd
  exact childLines_mono_le t root _ (by omega) h1

end C20
