import PyhmsVerif.Props.C11
import PyhmsVerif.Props.C04Obs
import PyhmsVerif.Props.C12
/-!
# C12, run level — every consecutive pair of generations of every deme

`PairChain`: a generic inductive invariant "every consecutive pair of generations of every
deme's flattened history — including the generations of the metaepoch in progress — satisfies
`R`", for any relation `R` (depending on the configuration and the deme's level) that the
model's acceptance test `genOk` guarantees between the generation a new one was bred from and
the new one, and that holds for local searches.

Instance (`elitePair`): on elitist levels no parent is strictly better than every member of
the next generation; on DE / SHADE levels no order statistic gets worse; on every population
level the next generation has the expected size.  `C12_run` states it for every reachable
state.
-/
namespace PairChain
open Tree

def pairsOk (r : Gen → Gen → Bool) : List Gen → Bool
  | [] => true
  | [_] => true
  | a :: b :: l => r a b && pairsOk r (b :: l)

theorem pairsOk_snoc (r : Gen → Gen → Bool) (gs : List Gen) (g : Gen) (h : pairsOk r gs = true)
    (hg : ∀ last, gs.getLast? = some last → r last g = true) : pairsOk r (gs ++ [g]) = true := by
  induction gs with
  | nil => simp [pairsOk]
  | cons a l ih =>
    cases l with
    | nil =>
      simp only [List.cons_append, List.nil_append, pairsOk, Bool.and_true]
      exact hg a (by simp)
    | cons b l' =>
      simp only [pairsOk, Bool.and_eq_true] at h
      simp only [List.cons_append, pairsOk, Bool.and_eq_true]
      refine ⟨h.1, ?_⟩
      apply ih h.2
      intro last hl
      exact hg last (by simpa using hl)

theorem pairsOk_pair (r : Gen → Gen → Bool) (pre : List Gen) (a b : Gen) (post : List Gen)
    (h : pairsOk r (pre ++ a :: b :: post) = true) : r a b = true := by
  induction pre with
  | nil =>
    simp only [List.nil_append, pairsOk, Bool.and_eq_true] at h
    exact h.1
  | cons p pre ih =>
    cases pre with
    | nil =>
      simp only [List.cons_append, List.nil_append, pairsOk, Bool.and_eq_true] at h
      exact ih (by simpa [pairsOk] using h.2)
    | cons p2 pre2 =>
      simp only [List.cons_append, pairsOk, Bool.and_eq_true] at h
      exact ih (by simpa using h.2)

/-- what a pair relation must satisfy to be an invariant of the tree machine -/
structure Spec (R : Cfg → Nat → Gen → Gen → Bool) : Prop where
  /-- an accepted generation is related to the generation it was bred from -/
  gen : ∀ (cfg : Cfg) (lvl : Nat) (lc : LevelCfg) (last : Gen) (ev pop : List Ind) (u : Unit),
    cfg.levels[lvl]? = some lc → lc.engine ≠ .localOpt →
    genOk cfg.maximize lc last.inds ev pop (if lc.engine == .cma then last.inds.length else lc.popSize) = .ok u →
    R cfg lvl last ⟨pop, ev⟩ = true
  /-- the iterates of a local search are related to whatever came before -/
  loc : ∀ (cfg : Cfg) (lvl : Nat) (lc : LevelCfg) (last g : Gen),
    cfg.levels[lvl]? = some lc → lc.engine = .localOpt → R cfg lvl last g = true

def Inv (R : Cfg → Nat → Gen → Gen → Bool) (t : T) : Prop :=
  (∀ d ∈ t.demes, pairsOk (R t.cfg d.level) d.gens = true) ∧
  (∀ q id done pending, t.pc = .running q (some (id, done, pending)) →
    ∀ d, t.find id = some d → pairsOk (R t.cfg d.level) (d.gens ++ pending) = true)

variable {R : Cfg → Nat → Gen → Gen → Bool}

theorem inv_updFirst (cfg : Cfg) (id : Id) (f : Deme → Deme) (ds : List Deme)
    (hall : ∀ d ∈ ds, pairsOk (R cfg d.level) d.gens = true)
    (hf : ∀ d, ds.find? (·.id == id) = some d → pairsOk (R cfg (f d).level) (f d).gens = true) :
    ∀ d ∈ updFirst id f ds, pairsOk (R cfg d.level) d.gens = true := by
  intro d hd
  rcases C04.mem_updFirst hd with hold | ⟨d0, hf0, rfl⟩
  · exact hall d hold
  · exact hf d0 hf0

theorem gen_inv (hs : Spec R) {t t' : T} {id : Id} {g : GenEnv} {l : Option Bool} (hinv : Inv R t)
    (h : stepGen t id g l = .ok t') : Inv R t' := by
  unfold stepGen at h
  split at h
  · simp at h
  · rename_i q done pending d lc hprep
    obtain ⟨hfind, _, hlc, hnl, _⟩ := prepareGen_ok hprep
    have hdmem := (find_some_mem (show t.demes.find? (·.id == id) = some d from hfind)).1
    have hpend : pairsOk (R t.cfg d.level) (d.gens ++ pending) = true := by
      rcases C11.prepareGen_pc hprep with hpc | ⟨_, rfl⟩
      · exact hinv.2 q id done pending hpc d hfind
      · simpa using hinv.1 d hdmem
    simp only [] at h
    split at h
    · simp at h
    · rename_i t1 ev hev
      split at h
      · simp at h
      · rename_i u hgen
        have e := evalReqs_effect hev
        have hnew : pairsOk (R t.cfg d.level) (d.gens ++ pending ++ [⟨g.pop, ev⟩]) = true := by
          apply pairsOk_snoc _ _ _ hpend
          intro last hl
          rw [C11.getLast_append_gens] at hl
          apply hs.gen t.cfg d.level lc last ev g.pop u hlc hnl
          cases hp : pending.getLast? with
          | some p =>
            simp only [hp, Option.some.injEq] at hl
            subst hl
            simpa [hp] using hgen
          | none =>
            simp only [hp] at hl
            simpa [hp, Deme.curPop, hl] using hgen
        obtain ⟨f, hd, hfid, hlev, ⟨hcfg, _⟩, hcase⟩ := C06.finishGen_hist h
        have hcfg' : t'.cfg = t.cfg := hcfg.trans e.cfg
        obtain ⟨k, hdem⟩ : ∃ k, t'.demes = updFirst id (f ∘ bump k) t.demes :=
          ⟨_, by rw [hd, e.demes, updFirst_comp id f (bump _) t.demes (fun _ => rfl)]⟩
        have hlevF : ((f ∘ bump k) d).level = d.level := by simp [hlev, bump]
        have hfindF : t'.find id = some ((f ∘ bump k) d) := by
          unfold T.find
          rw [hdem, find_updFirst id (f ∘ bump k) t.demes (fun x => by simp [hfid, bump]),
            show t.demes.find? (·.id == id) = some d from hfind]
          rfl
        rcases hcase with ⟨hh, hpc⟩ | ⟨hh, hpc⟩
        · have hgF : ((f ∘ bump k) d).gens = d.gens := by simp [Deme.gens, hh, bump]
          refine ⟨?_, ?_⟩
          · rw [hdem, hcfg']
            exact inv_updFirst _ id _ _ hinv.1 (fun x hx => by
              rw [show t.demes.find? (·.id == id) = some d from hfind] at hx; cases hx
              rw [hlevF, hgF]; exact hinv.1 d hdmem)
          · intro q' id' done' pending' hpc' d' hfind'
            rw [hpc] at hpc'
            simp only [Pc.running.injEq, Option.some.injEq, Prod.mk.injEq] at hpc'
            obtain ⟨_, rfl, _, rfl⟩ := hpc'
            rw [hfindF] at hfind'
            cases hfind'
            rw [hlevF, hgF, hcfg', ← List.append_assoc]
            exact hnew
        · have hgF : ((f ∘ bump k) d).gens = d.gens ++ (pending ++ [⟨g.pop, ev⟩]) := by
            simp [Deme.gens, hh, bump, List.flatten_append]
          refine ⟨?_, fun q' id' done' pending' hpc' => absurd (hpc ▸ hpc') (C11.finish_pc q q' id' done' pending')⟩
          rw [hdem, hcfg']
          exact inv_updFirst _ id _ _ hinv.1 (fun x hx => by
            rw [show t.demes.find? (·.id == id) = some d from hfind] at hx; cases hx
            rw [hlevF, hgF, ← List.append_assoc]; exact hnew)

theorem local_inv (hs : Spec R) {t t' : T} {id : Id} {reqs : List Req} {its : List Ind} {nfev : Nat} (hinv : Inv R t)
    (h : stepLocal t id reqs its nfev = .ok t') : Inv R t' := by
  unfold stepLocal at h
  split at h
  · split at h
    · simp at h
    · split at h
      · simp at h
      · rename_i d hfind
        have hdmem := (find_some_mem (show t.demes.find? (·.id == id) = some d from hfind)).1
        split at h
        · simp at h
        · rename_i lc hlc
          split at h
          · simp at h
          · rename_i hloc
            have hloc' : lc.engine = .localOpt := by simpa using hloc
            split at h
            · simp at h
            · split at h
              · simp at h
              · rename_i t1 ev hev
                split at h
                · simp at h
                · simp only [] at h
                  split at h
                  · simp at h
                  · simp only [Except.ok.injEq] at h
                    subst h
                    have e := evalReqs_effect hev
                    refine ⟨?_, fun q' id' done' pending' hpc' => absurd hpc' (C11.finish_pc _ q' id' done' pending')⟩
                    simp only [T.update]
                    rw [e.demes, updFirst_comp id _ (bump _) t.demes (fun _ => rfl), e.cfg]
                    apply inv_updFirst _ id _ _ hinv.1
                    intro x hx
                    rw [show t.demes.find? (·.id == id) = some d from hfind] at hx; cases hx
                    have hg : ∀ y : Deme, ({ y with counter := y.counter + nfev, hist := y.hist ++ [[⟨its, ev⟩]], active := false } : Deme).gens
                        = y.gens ++ [⟨its, ev⟩] := by intro y; simp [Deme.gens]
                    simp only [Function.comp]
                    rw [hg, C11.bump_gens]
                    apply pairsOk_snoc _ _ _ (hinv.1 d hdmem)
                    intro last _
                    exact hs.loc t.cfg d.level lc last _ (by simpa [bump] using hlc) hloc'
  · simp at h

theorem inv_rel {S : Deme → Deme → Prop} (hS : ∀ a b, S a b → b.hist = a.hist ∧ b.level = a.level) (cfg : Cfg)
    {as bs : List Deme} (h : List.Forall₂ S as bs) (hall : ∀ d ∈ as, pairsOk (R cfg d.level) d.gens = true) :
    ∀ d ∈ bs, pairsOk (R cfg d.level) d.gens = true := by
  intro d hd
  obtain ⟨a, ha, hr⟩ := forall2_mem_right h d hd
  have : d.gens = a.gens := by simp [Deme.gens, (hS _ _ hr).1]
  rw [this, (hS _ _ hr).2]; exact hall a ha

theorem create_inv {t t' : T} {parent : Option Deme} {seed : Option Ind} {env : NewEnv}
    (hall : ∀ d ∈ t.demes, pairsOk (R t.cfg d.level) d.gens = true)
    (h : createDeme t parent seed env = .ok t') : ∀ d ∈ t'.demes, pairsOk (R t'.cfg d.level) d.gens = true := by
  have ce := createDeme_effect h
  obtain ⟨old, d, hd, hf, _, _, ⟨g, hg, _⟩, _⟩ := ce.demes
  rw [ce.cfg, hd]
  intro x hx
  rcases List.mem_append.mp hx with hx | hx
  · exact inv_rel (S := SameBC) (fun a b hab => by obtain ⟨cs, rfl⟩ := hab; exact ⟨rfl, rfl⟩) _ hf hall x hx
  · simp only [List.mem_singleton] at hx; subst hx
    simp [Deme.gens, hg, pairsOk]

theorem sprout_inv {t t' : T} {flat : List (Id × Ind)} {news : List NewEnv}
    (hall : ∀ d ∈ t.demes, pairsOk (R t.cfg d.level) d.gens = true)
    (h : doSprout t flat news = .ok t') : ∀ d ∈ t'.demes, pairsOk (R t'.cfg d.level) d.gens = true := by
  induction flat generalizing t news with
  | nil =>
    cases news with
    | nil => simp only [doSprout, Except.ok.injEq] at h; subst h; exact hall
    | cons e es => simp [doSprout] at h
  | cons ps rest ih =>
    obtain ⟨pid, s⟩ := ps
    cases news with
    | nil => simp [doSprout] at h
    | cons e es =>
      simp only [doSprout] at h
      split at h
      · simp at h
      · split at h
        · simp at h
        · rename_i t1 hc
          exact ih (create_inv hall hc) h

/-- **the pair invariant is inductive** -/
theorem step_inv (hs : Spec R) {t t' : T} {ev : Ev} (hinv : Inv R t) (h : step t ev = .ok t') : Inv R t' := by
  cases ev with
  | loop ge =>
    obtain ⟨hc, hd, _, _, _, _, _, hcase⟩ := stepLoop_effect h
    refine ⟨by rw [hd, hc]; exact hinv.1, ?_⟩
    intro q' id' done' pending' hpc'
    exfalso
    rcases hcase with ⟨_, hpc, _⟩ | ⟨_, _, _, _⟩
    · rw [hpc] at hpc'; cases hpc'
    · simp only [step, stepLoop] at h
      split at h
      · split at h
        · simp at h
        · simp only [Except.ok.injEq] at h; subst h; cases hpc'
        · split at h
          · simp at h
          · simp only [Except.ok.injEq] at h; subst h
            exact C11.finish_pc _ q' id' done' pending' hpc'
      · simp at h
  | gen id g l => exact gen_inv hs hinv h
  | localRun id reqs its nfev => exact local_inv hs hinv h
  | round ge renv news =>
    obtain ⟨hc, _, _, hpc, _, _, hcase⟩ := stepRound_effect h
    refine ⟨?_, fun q' id' done' pending' hpc' => by rw [hpc] at hpc'; cases hpc'⟩
    rcases hcase with ⟨hd, _⟩ | ⟨_, _, _, seeds, t1, _, se, hds, rfl⟩
    · rw [hd, hc]; exact hinv.1
    · have h1 := sprout_inv hinv.1 hds
      obtain ⟨f1, _, _, _, _, _⟩ := updateHibernation_frame t1 (seeds.map (·.deme))
      simp only [f1]
      exact inv_rel (S := fun d d' => ∃ h, d' = { d with hib := h })
        (fun a b hab => by obtain ⟨x, rfl⟩ := hab; exact ⟨rfl, rfl⟩) _ (updateHibernation_forall2 t1 _) h1

theorem exec_inv (hs : Spec R) {t0 t : T} {evs : List Ev} (h0 : Inv R t0) (h : exec t0 evs = .ok t) : Inv R t := by
  induction evs generalizing t0 with
  | nil => simp only [exec, Except.ok.injEq] at h; subst h; exact h0
  | cons e es ih =>
    simp only [exec, bind, Except.bind] at h
    split at h
    · simp at h
    · rename_i t1 h1
      exact ih (step_inv hs h0 h1) h

theorem init_inv {cfg : Cfg} {stks : List (List Problem.Wrapper)} {rootEnv : NewEnv} {t0 : T}
    (hi : init cfg stks rootEnv = .ok t0) : Inv R t0 := by
  refine ⟨create_inv (by intro d hd; simp at hd) hi, ?_⟩
  intro q id done pending hpc
  have := (createDeme_effect hi).pc
  rw [this] at hpc; cases hpc

/-- every consecutive pair of generations of every deme of every reachable state satisfies `R` -/
theorem reachable_pairs (hs : Spec R) {cfg : Cfg} {stks : List (List Problem.Wrapper)} {rootEnv : NewEnv} {t0 t : T}
    {evs : List Ev} (hi : init cfg stks rootEnv = .ok t0) (h : exec t0 evs = .ok t) :
    ∀ d ∈ t.demes, ∀ pre a b post, d.gens = pre ++ a :: b :: post → R t.cfg d.level a b = true := by
  have hc := exec_inv hs (init_inv hi) h
  intro d hd pre a b post hg
  exact pairsOk_pair _ pre a b post (hg ▸ hc.1 d hd)

end PairChain

namespace C12
open Tree Select PairChain

/-- what C12 demands of a generation `b` bred from `a`, on the level's terms -/
def elitePair (cfg : Cfg) (lvl : Nat) (a b : Gen) : Bool :=
  match cfg.levels[lvl]? with
  | none => true
  | some lc =>
    lc.engine == .localOpt ||
    ((!lc.elitist || a.inds.all fun p => b.inds.any fun o => !(better cfg.maximize p o)) &&
     (!(lc.engine == .de || lc.engine == .shade) ||
        a.inds.all fun p => decide (countAtLeast cfg.maximize p.fit a.inds ≤ countAtLeast cfg.maximize p.fit b.inds)) &&
     (b.inds.length == (if lc.engine == .cma then a.inds.length else lc.popSize)))

theorem genOk_size {mx : Bool} {lc : LevelCfg} {parents ev pop : List Ind} {n : Nat} {u : Unit}
    (h : genOk mx lc parents ev pop n = .ok u) : pop.length = n := by
  by_cases hs : pop.length = n
  · exact hs
  · exfalso
    have : (pop.length != n) = true := by simpa using hs
    simp [genOk, this] at h

theorem genOk_elite {mx : Bool} {lc : LevelCfg} {parents ev pop : List Ind} {n : Nat} {u : Unit}
    (h : genOk mx lc parents ev pop n = .ok u) (he : lc.elitist = true) :
    (parents.all fun p => pop.any fun o => !(better mx p o)) = true := by
  cases hc : (parents.all fun p => pop.any fun o => !(better mx p o)) with
  | true => rfl
  | false =>
    exfalso
    unfold genOk at h
    simp only [he, hc, Bool.not_false, Bool.and_self, Bool.true_and, ↓reduceIte] at h
    repeat' split at h
    all_goals simp at h

theorem genOk_order {mx : Bool} {lc : LevelCfg} {parents ev pop : List Ind} {n : Nat} {u : Unit}
    (h : genOk mx lc parents ev pop n = .ok u) (hd : (lc.engine == .de || lc.engine == .shade) = true) :
    (parents.all fun p => decide (countAtLeast mx p.fit parents ≤ countAtLeast mx p.fit pop)) = true := by
  cases hc : (parents.all fun p => decide (countAtLeast mx p.fit parents ≤ countAtLeast mx p.fit pop)) with
  | true => rfl
  | false =>
    exfalso
    unfold genOk at h
    simp only [hd, hc, Bool.not_false, Bool.and_self, Bool.true_and, ↓reduceIte] at h
    repeat' split at h
    all_goals simp at h

theorem elitePair_spec : Spec elitePair where
  gen := by
    intro cfg lvl lc last ev pop u hlc hnl hgen
    have hnl' : (lc.engine == Engine.localOpt) = false := by simpa using hnl
    simp only [elitePair, hlc, hnl', Bool.false_or, Bool.and_eq_true, Bool.or_eq_true, Bool.not_eq_true',
      beq_iff_eq]
    refine ⟨⟨?_, ?_⟩, by simpa using genOk_size hgen⟩
    · cases he : lc.elitist with
      | false => exact Or.inl rfl
      | true => exact Or.inr (genOk_elite hgen he)
    · by_cases hd : (lc.engine == .de || lc.engine == .shade) = true
      · exact Or.inr (genOk_order hgen hd)
      · left; simpa using hd
  loc := by
    intro cfg lvl lc last g hlc hloc
    simp [elitePair, hlc, hloc]

/-- **C12 at run level.**  In every state reachable from a freshly constructed tree, for every
deme of a population engine and every consecutive pair of generations `(a, b)` of its history
— inside a metaepoch of several generations as well as across metaepoch boundaries —:
on an elitist level no individual of `a` is strictly better than every individual of `b`;
on a DE / SHADE level no order statistic gets worse (for every fitness value of `a`, `b` has
at least as many individuals at least that good); and `b` has the configured size (CMA-ES:
the size of `a`). -/
theorem C12_run {cfg : Cfg} {stks : List (List Problem.Wrapper)} {rootEnv : NewEnv} {t0 t : T}
    {evs : List Ev} (hi : init cfg stks rootEnv = .ok t0) (h : exec t0 evs = .ok t) :
    ∀ d ∈ t.demes, ∀ lc, t.cfg.levels[d.level]? = some lc → lc.engine ≠ .localOpt →
    ∀ pre a b post, d.gens = pre ++ a :: b :: post →
      (lc.elitist = true → ∀ p ∈ a.inds, ∃ o ∈ b.inds, better t.cfg.maximize p o = false) ∧
      (lc.engine = .de ∨ lc.engine = .shade → ∀ p ∈ a.inds,
        countAtLeast t.cfg.maximize p.fit a.inds ≤ countAtLeast t.cfg.maximize p.fit b.inds) ∧
      b.inds.length = (if lc.engine == .cma then a.inds.length else lc.popSize) := by
  intro d hd lc hlc hnl pre a b post hg
  have hp := reachable_pairs elitePair_spec hi h d hd pre a b post hg
  have hnl' : (lc.engine == Engine.localOpt) = false := by simpa using hnl
  simp only [elitePair, hlc, hnl', Bool.false_or, Bool.and_eq_true, Bool.or_eq_true, Bool.not_eq_true',
    beq_iff_eq, List.all_eq_true, List.any_eq_true, decide_eq_true_eq] at hp
  obtain ⟨⟨h1, h2⟩, h3⟩ := hp
  refine ⟨?_, ?_, by simpa using h3⟩
  · intro he p hp'
    rcases h1 with h1 | h1
    · simp [he] at h1
    · exact h1 p hp'
  · intro hde p hp'
    rcases h2 with h2 | h2
    · rcases hde with hde | hde <;> simp [hde] at h2
    · exact h2 p hp'

/-- corollary: on an elitist level the best fitness of the population never gets worse from
one generation to the next -/
theorem C12_best_never_worse {cfg : Cfg} {stks : List (List Problem.Wrapper)} {rootEnv : NewEnv} {t0 t : T}
    {evs : List Ev} (hi : init cfg stks rootEnv = .ok t0) (h : exec t0 evs = .ok t) :
    ∀ d ∈ t.demes, ∀ lc, t.cfg.levels[d.level]? = some lc → lc.engine ≠ .localOpt → lc.elitist = true →
    ∀ pre a b post, d.gens = pre ++ a :: b :: post →
    ∀ ba bb, best t.cfg.maximize a.inds = some ba → best t.cfg.maximize b.inds = some bb →
      better t.cfg.maximize ba bb = false := by
  intro d hd lc hlc hnl he pre a b post hg ba bb hba hbb
  obtain ⟨h1, _, _⟩ := C12_run hi h d hd lc hlc hnl pre a b post hg
  obtain ⟨o, ho, hbo⟩ := h1 he ba (best_mem hba)
  exact better_trans_weak hbo (best_not_worse hbb o ho)

end C12
