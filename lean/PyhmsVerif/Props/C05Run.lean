import PyhmsVerif.Props.C05
import PyhmsVerif.Props.C06Step
import PyhmsVerif.Props.C11
/-!
# C05, run level — after the global stop condition was observed true

* `C05_after_true`: from any state in which the condition has been observed true, no accepted
  continuation — of any length — starts another metaepoch or sprouts a deme, and the
  observation is never forgotten.
* `C05_winddown_bound`: bounded wind-down — inside `run_metaepoch`, once the condition has been
  observed true, at most one more generation / local search per deme still scheduled is
  accepted: the number of further run events is at most the length of the pending schedule.
-/
namespace C05
open Tree

theorem step_after_true {t t' : T} {ev : Ev} (hs : t.gscSeen = true) (h : step t ev = .ok t') :
    t'.metaepoch = t.metaepoch ∧ t'.demes.length = t.demes.length ∧ t'.gscSeen = true := by
  obtain ⟨hl, hg⟩ := C05_no_sprout_after_true hs h
  refine ⟨?_, hl, hg⟩
  rw [C05_metaepoch_count h]
  cases ev with
  | loop ge =>
    obtain ⟨_, _, _, _, _, _, _, hc⟩ := stepLoop_effect h
    rcases hc with ⟨_, _, _, hv⟩ | ⟨_, hf, _⟩
    · simp [startsMetaepoch, hv]
    · simp [hs] at hf
  | gen id g l => simp [startsMetaepoch]
  | localRun id reqs its nfev => simp [startsMetaepoch]
  | round ge renv news => simp [startsMetaepoch]

/-- **after the condition was observed true nothing new starts** -/
theorem C05_after_true {t t' : T} {evs : List Ev} (hs : t.gscSeen = true) (h : exec t evs = .ok t') :
    t'.metaepoch = t.metaepoch ∧ t'.demes.length = t.demes.length ∧ t'.gscSeen = true := by
  induction evs generalizing t with
  | nil => simp only [exec, Except.ok.injEq] at h; subst h; exact ⟨rfl, rfl, hs⟩
  | cons e es ih =>
    simp only [exec, bind, Except.bind] at h
    split at h
    · simp at h
    · rename_i t1 h1
      obtain ⟨a, b, c⟩ := step_after_true hs h1
      obtain ⟨a', b', c'⟩ := ih c h
      exact ⟨a'.trans a, b'.trans b, c'⟩

/-- a deme that is past its first generation cannot continue once the condition was observed -/
theorem stuck_after_true {t t' : T} {ev : Ev} {q : List Id} {cid : Id} {done : Nat} {p : List Gen}
    (hs : t.gscSeen = true) (hpc : t.pc = .running q (some (cid, done, p))) (hd : 0 < done)
    (hrun : C06.isRun ev = true) : step t ev ≠ .ok t' := by
  intro h
  cases ev with
  | loop _ => simp [C06.isRun] at hrun
  | round _ _ _ => simp [C06.isRun] at hrun
  | localRun id reqs its nfev => simp [step, stepLocal, hpc] at h
  | gen id g l =>
    simp only [step, stepGen] at h
    split at h
    · simp at h
    · rename_i q' done' pending' d lc hprep
      have h0 := C05_winddown hs hprep
      rcases C11.prepareGen_pc hprep with hpc' | ⟨hpc', _⟩
      · rw [hpc] at hpc'
        simp only [Pc.running.injEq, Option.some.injEq, Prod.mk.injEq] at hpc'
        omega
      · rw [hpc] at hpc'
        simp at hpc'

theorem stepLocal_pc {t t' : T} {id : Id} {reqs : List Req} {its : List Ind} {nfev : Nat}
    (h : stepLocal t id reqs its nfev = .ok t') : ∃ q, t'.pc = finish q := by
  unfold stepLocal at h
  split at h
  · rename_i qid q hpc
    split at h
    · simp at h
    · split at h
      · simp at h
      · split at h
        · simp at h
        · split at h
          · simp at h
          · split at h
            · simp at h
            · split at h
              · simp at h
              · split at h
                · simp at h
                · simp only [] at h
                  split at h
                  · simp at h
                  · simp only [Except.ok.injEq] at h
                    subst h
                    exact ⟨q, rfl⟩
  · simp at h

/-- **bounded wind-down** -/
theorem C05_winddown_bound : ∀ (evs : List Ev) (t t' : T), t.gscSeen = true →
    (∀ e ∈ evs, C06.isRun e = true) → exec t evs = .ok t' →
    (∀ q cid done p, t.pc = .running q (some (cid, done, p)) → done = 0) →
    evs.length ≤ (C06.remaining t).length := by
  intro evs
  induction evs with
  | nil => intro t t' _ _ _ _; simp
  | cons ev evs ih =>
    intro t t' hs hrun h hfresh
    simp only [exec, bind, Except.bind] at h
    split at h
    · simp at h
    rename_i t1 hstep
    have hrun' : ∀ e ∈ evs, C06.isRun e = true := fun e he => hrun e (List.mem_cons_of_mem _ he)
    have hev := hrun ev (by simp)
    have hs1 : t1.gscSeen = true := (step_after_true hs hstep).2.2
    cases ev with
    | loop _ => simp [C06.isRun] at hev
    | round _ _ _ => simp [C06.isRun] at hev
    | localRun id reqs its nfev =>
      obtain ⟨f, q, _, hr, _, _, hr'⟩ := C06.stepLocal_advance hstep
      have hpc1 : ∀ q' cid done p, t1.pc = .running q' (some (cid, done, p)) → done = 0 := by
        intro q' cid done p hpc'
        obtain ⟨q0, hq0⟩ := stepLocal_pc hstep
        rw [hq0] at hpc'
        exact absurd hpc' (C11.finish_pc _ q' cid done p)
      have := ih t1 t' hs1 hrun' h hpc1
      simp only [hr, List.length_cons]
      rw [hr'] at this
      omega
    | gen id g l =>
      simp only [step] at hstep
      -- shape of the step
      have hshape : ∃ q, C06.remaining t = id :: q ∧
          ((∃ done p, t1.pc = .running q (some (id, done + 1, p))) ∨ (C06.remaining t1 = q ∧
            ∀ q' cid done p, t1.pc = .running q' (some (cid, done, p)) → done = 0)) := by
        unfold stepGen at hstep
        split at hstep
        · simp at hstep
        · rename_i q done pending d lc hprep
          simp only [] at hstep
          split at hstep
          · simp at hstep
          · split at hstep
            · simp at hstep
            · obtain ⟨f, _, _, _, _, hcase⟩ := C06.finishGen_hist hstep
              refine ⟨q, C06.prepareGen_remaining hprep, ?_⟩
              rcases hcase with ⟨_, hpc⟩ | ⟨_, hpc⟩
              · exact Or.inl ⟨done, _, hpc⟩
              · refine Or.inr ⟨C06.remaining_finish _ q hpc, ?_⟩
                intro q' cid done' p hpc'
                rw [hpc] at hpc'
                exact absurd hpc' (C11.finish_pc q q' cid done' p)
      obtain ⟨q, hr, hcase⟩ := hshape
      simp only [hr, List.length_cons]
      rcases hcase with ⟨done, p, hpc1⟩ | ⟨hr', hfresh1⟩
      · -- the deme is past its first generation: no further run event is accepted
        cases evs with
        | nil => simp
        | cons e2 es2 =>
          exfalso
          simp only [exec, bind, Except.bind] at h
          split at h
          · simp at h
          · rename_i t2 h2
            exact stuck_after_true hs1 hpc1 (Nat.succ_pos _) (hrun' e2 (by simp)) h2
      · have := ih t1 t' hs1 hrun' h hfresh1
        rw [hr'] at this
        omega

end C05
