import numpy as np, random, sys, warnings, os, itertools, traceback
warnings.filterwarnings("ignore")
from pyhms import *
from pyhms.config import *
from pyhms.demes.single_pop_eas.sea import *
from pyhms.tree import DemeTree
from pyhms.sprout import *
from pyhms.sprout.sprout_mechanisms import SproutMechanism
from pyhms.sprout.sprout_filters import *
from pyhms.sprout.sprout_generators import *
from pyhms.demes.local_deme import LocalDeme

def four(x, c=np.array([[-1,-1],[3,3],[-1,5],[4,0]],float)):
    x=np.asarray(x)
    return float(np.min(np.sum((x-c[:, :len(x)])**2,axis=1)))

class Rec:
    def __init__(self, fn): self.fn=fn; self.calls=[]
    def __call__(self,x):
        v=self.fn(x); self.calls.append((np.array(x,copy=True),v)); return v

def rand_cfg(rng):
    nlev=rng.integers(1,4)
    lo=rng.uniform(-5,0,2); hi=lo+rng.uniform(2,9,2)
    if rng.random()<0.3: lo=np.array([-0.1,-0.3]); hi=np.array([0.2,0.6])
    bounds=np.stack([lo,hi],axis=1)
    maximize=bool(rng.random()<0.3)
    scale=float(np.mean(hi-lo))
    def obj(x,lo=lo,hi=hi,s=(-1 if maximize else 1)):
        z=(np.asarray(x)-lo)/(hi-lo)*8-3
        return s*four(z)
    recs=[Rec(obj) for _ in range(nlev)]
    probs=[FunctionProblem(r,bounds=bounds,maximize=maximize) for r in recs]
    levels=[]; names=[]
    def lsc():
        c=rng.integers(0,4)
        return [DontStop(),MetaepochLimit(int(rng.integers(1,5))),FitnessSteadiness(0.01,2),AllChildrenStopped()][c]
    for l in range(nlev):
        last=(l==nlev-1)
        kinds=["sea","seax","ga","adapt","mwea","de","ded","shade"]
        if l==0: kinds+=["lhs","sobol"]
        if l>0: kinds+=["cma","cmaw","cmas"]
        if l>0 and last: kinds+=["local"]
        k=kinds[rng.integers(len(kinds))]; names.append(k)
        g=int(rng.integers(1,4)); ps=int(rng.integers(5,14))
        if k in("sea","seax","ga","adapt","mwea"):
            cls={"sea":SEA,"seax":SEAWithCrossover,"ga":GAStyleSEA,"adapt":SEAWithAdaptiveMutation,"mwea":MWEA}[k]
            kw=dict(mutation_std=0.15*scale, sample_std_dev=0.1*scale, k_elites=int(rng.integers(1,3)))
            if k=="adapt": kw["mutation_std_step"]=0.01
            if k=="mwea": ps=max(ps,10); kw["election_group_size"]=5
            levels.append(EALevelConfig(ea_class=cls,generations=g,problem=probs[l],pop_size=ps,lsc=lsc(),**kw))
        elif k in("de","ded"):
            levels.append(DELevelConfig(generations=g,problem=probs[l],pop_size=ps,lsc=lsc(),dither=(k=="ded"),sample_std_dev=0.1*scale))
        elif k=="shade":
            levels.append(SHADELevelConfig(generations=g,problem=probs[l],pop_size=ps,memory_size=4,lsc=lsc(),sample_std_dev=0.1*scale))
        elif k=="lhs": levels.append(LHSLevelConfig(problem=probs[l],pop_size=ps,lsc=lsc()))
        elif k=="sobol": levels.append(SobolLevelConfig(problem=probs[l],pop_size=8,lsc=lsc()))
        elif k=="cma": levels.append(CMALevelConfig(generations=g,problem=probs[l],sigma0=0.1*scale,lsc=lsc()))
        elif k=="cmaw": levels.append(CMALevelConfig(generations=g,problem=probs[l],sigma0=None,lsc=lsc()))
        elif k=="cmas": levels.append(CMALevelConfig(generations=g,problem=probs[l],sigma0=None,set_stds=True,lsc=lsc()))
        elif k=="local": levels.append(LocalOptimizationConfig(problem=probs[l],lsc=DontStop(),maxiter=int(rng.integers(2,8))))
    L=int(rng.integers(1,4))
    if rng.random()<0.5: sm=get_NBC_sprout(gen_dist_factor=float(rng.uniform(1,3)),trunc_factor=0.8,fil_dist_factor=float(rng.uniform(0.5,3)),level_limit=L)
    else: sm=get_simple_sprout(float(rng.uniform(0.02,0.3))*scale,level_limit=L)
    gk=rng.integers(0,4)
    gsc=[MetaepochLimit(int(rng.integers(2,9))),SingularProblemEvalLimitReached(int(rng.integers(50,600))),
         FitnessEvalLimitReached(int(rng.integers(50,600)),weights=WeightingStrategy.ROOT if rng.random()<.5 else WeightingStrategy.EQUAL),
         NoActiveNonrootDemes(1)][gk]
    hib=bool(rng.random()<0.3)
    seed=int(rng.integers(1,10**6))
    return dict(levels=levels,names=names,gsc=gsc,sm=sm,hib=hib,seed=seed,recs=recs,bounds=bounds,maximize=maximize,L=L,obj=obj)

def inbox(x,b): return bool(np.all(x>=b[:,0]) and np.all(x<=b[:,1]))

def check(cfg, maxsteps=12):
    viol=[]
    class GSCW:
        def __init__(s,inner): s.inner=inner; s.first=None; s.n=0
        def __call__(s,tree):
            v=s.inner(tree); s.n+=1
            # C03 at every consult
            tot=tree.n_evaluations
            for l,lev in enumerate(tree.levels):
                cnt=sum(d.n_evaluations for d in lev)
                # local deme counts only at end of its run - skip if any local running... 
                if cnt!=len(cfg['recs'][l].calls): viol.append(("C03",f"level {l} count {cnt} calls {len(cfg['recs'][l].calls)} at consult {s.n}"))
            # C08
            for l in range(1,len(tree.levels)):
                a=sum(1 for d in tree.levels[l] if d.is_active)
                if a>cfg['L']: viol.append(("C08",f"level {l} active {a} > {cfg['L']}"))
            if v and s.first is None: s.first=(s.n, tot, len(tree.all_demes))
            return v
    g=GSCW(cfg['gsc'])
    t=DemeTree(TreeConfig(cfg['levels'],g,cfg['sm'],options={"random_seed":cfg['seed'],"hibernation":cfg['hib']}))
    steps=0; prev_best=None
    while not g(t) and steps<maxsteps:
        before={d.id:(d.is_active,d.n_evaluations,len(d._history),d._hibernating) for _,d in t.all_demes}
        tot=t.n_evaluations
        t.run_step(); steps+=1
        for lvl,d in t.all_demes:
            b=before.get(d.id)
            if b is None: 
                if d.started_at!=t.metaepoch_count: viol.append(("C07",f"started_at {d.started_at} vs {t.metaepoch_count}"))
                continue
            ran=len(d._history)-b[2]
            if b[0] and not (cfg['hib'] and b[3]):
                if ran!=1: viol.append(("C06",f"active deme {d.id} advanced {ran}"))
            else:
                if ran!=0 or d.n_evaluations!=b[1]: viol.append(("C06/18",f"inactive/hibernating deme {d.id} changed"))
            if not b[0] and d.is_active: viol.append(("C06","reactivated"))
        # C01/C02
        for l,r in enumerate(cfg['recs']):
            for x,v in r.calls:
                if not inbox(x,cfg['bounds']): viol.append(("C01",f"eval outside box level {l}: {x.tolist()}")); break
        for lvl,d in t.all_demes:
            for ind in d.all_individuals:
                if not inbox(ind.genome,cfg['bounds']): viol.append(("C01",f"stored genome outside {d.id}")); break
                tv=cfg['obj'](ind.genome)
                if tv!=ind.fitness and np.isfinite(ind.fitness): viol.append(("C02",f"{d.id} {type(d).__name__} fitness {ind.fitness} true {tv}")); break
        # C04
        allinds=[i for _,d in t.all_demes for i in d.all_individuals]
        bf=t.best_individual.fitness
        ref=max(i.fitness for i in allinds) if cfg['maximize'] else min(i.fitness for i in allinds)
        if bf!=ref: viol.append(("C04",f"best {bf} ref {ref}"))
        if prev_best is not None and ((bf<prev_best) if cfg['maximize'] else (bf>prev_best)): viol.append(("C04","best got worse"))
        prev_best=bf
        if t.n_evaluations==tot and any(d.is_active for _,d in t.all_demes) and not cfg['gsc'](t): viol.append(("C18","stall"))
        # C07 structure
        ids=[d.id for _,d in t.all_demes]
        if len(set(ids))!=len(ids): viol.append(("C07","dup ids "+str(ids)))
    return t,viol,steps

if __name__=="__main__":
    import collections
    N=int(sys.argv[1]); base=int(sys.argv[2]) if len(sys.argv)>2 else 0
    agg=collections.Counter(); ex={}
    for s in range(base,base+N):
        rng=np.random.default_rng(s)
        cfg=rand_cfg(rng)
        try:
            t,viol,steps=check(cfg)
        except Exception as e:
            agg["EXC "+type(e).__name__+": "+str(e)[:80]]+=1; ex.setdefault("EXC "+type(e).__name__,(s,cfg['names'],traceback.format_exc()[-600:])); continue
        for k in set(v[0] for v in viol): agg[k]+=1
        for v in viol: ex.setdefault(v[0],(s,cfg['names'],cfg['maximize'],cfg['hib'],str(cfg['gsc']),v[1]))
    print(agg)
    for k,v in ex.items(): print(k,v)
