import numpy as np, random, sys, warnings
warnings.filterwarnings("ignore")
from pyhms import *
from pyhms.config import *
from pyhms.demes.single_pop_eas.sea import *
from pyhms.tree import DemeTree
from pyhms.sprout import *
from pyhms.sprout.sprout_generators import NBCGeneratorWithLocalMethod
from pyhms.sprout.sprout_mechanisms import SproutMechanism
from pyhms.sprout.sprout_filters import *

calls={0:[],1:[],2:[]}
def mk(level, sign=1.0):
    def f(x):
        calls[level].append(np.array(x,copy=True)); return sign*float(np.sum((np.asarray(x)-1.0)**2))
    return f
bounds=np.array([(-3.0,5.0),(-2.0,7.0)])
for maximize in [False, True]:
    for k in calls: calls[k].clear()
    sign=-1.0 if maximize else 1.0
    probs=[FunctionProblem(mk(i,sign),bounds=bounds,maximize=maximize) for i in range(3)]
    levels=[EALevelConfig(ea_class=SEA,generations=1,problem=probs[0],pop_size=10,mutation_std=1.0,lsc=DontStop()),
            CMALevelConfig(generations=3,problem=probs[1],sigma0=0.5,lsc=MetaepochLimit(3)),
            LocalOptimizationConfig(problem=probs[2],lsc=DontStop())]
    sm=SproutMechanism(NBCGeneratorWithLocalMethod(3.0,0.7),[NBC_FarEnough(3.0,2),DemeLimit(1)],[LevelLimit(3)])
    t=DemeTree(TreeConfig(levels,MetaepochLimit(8),sm,options={"random_seed":5}))
    t.run()
    print("maximize",maximize)
    for lvl,d in t.all_demes:
        hist=d.history
        print(" ",d.id,type(d).__name__,"active",d.is_active,"nev",d.n_evaluations,"gens",len(hist),"best",d.best_individual.fitness, "seed fit", None if d._sprout_seed is None else d._sprout_seed.fitness, "started", d.started_at)
        if type(d).__name__=="LocalDeme":
            gs=[tuple(i.genome) for i in d._run_history]
            print("     local genomes distinct:",len(set(gs)),"of",len(gs), "fits", [round(i.fitness,6) for i in d._run_history][:6])
            # fitness true?
            for i in d._run_history:
                tf=sign*float(np.sum((i.genome-1.0)**2))
                if tf!=i.fitness: print("     MISMATCH", i.genome, i.fitness, tf); break
    print(" per-level counts", [sum(d.n_evaluations for d in l) for l in t.levels], "calls",[len(calls[k]) for k in calls], "tree", t.n_evaluations)
