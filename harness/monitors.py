"""Direct monitors: each states one property on a traced real run (harness/runs.py),
independently of the Lean model.  A hit is always a violation; hits are also the
failing-input search when a proof or the correspondence no longer checks.

Every monitor returns a list of dicts {signature, detail}.
"""
import numpy as np

from . import runs as R


def V(sig, detail):
    return {"signature": sig, "detail": detail}


def level_of(who):
    if who is None:
        return None
    if who.startswith("init:"):
        who = who[5:]
    return 0 if who == "root" else who.count("/") + 1


def deme_of(who):
    if who is None:
        return None
    return who[5:] if who.startswith("init:") else who


def better(mx, a, b):
    return a > b if mx else a < b


def best_of(mx, fs):
    return max(fs) if mx else min(fs)


def inbox(x, b):
    return all(lo <= t <= hi for t, (lo, hi) in zip(x, b))


def segments(run):
    """split the event list: per step -> list of deme runs (with per-generation windows) and rounds"""
    steps = []
    cur = None
    drun = None
    for ei, e in enumerate(run.ev):
        k = e[0]
        if k == "STEP":
            cur = {"n": e[1], "gsc_before": e[2], "runs": [], "news": [], "round": None, "post_gsc": None}
            steps.append(cur)
        elif k == "RUN_BEGIN":
            drun = {"id": e[1], "evals0": e[2], "windows": [[]], "gsc": [], "lsc": None}
            cur["runs"].append(drun)
        elif k == "EVAL":
            if drun is not None and e[2] == drun["id"]:
                drun["windows"][-1].append((e[3], e[4]))
        elif k == "GSC":
            if drun is not None and e[1] == drun["id"]:
                drun["gsc"].append(e[2])
                drun["windows"].append([])
            elif cur is not None and e[1] is None and cur.get("in_step"):
                cur["post_gsc"] = e[2]
        elif k == "LSC":
            if drun is not None and e[1] == drun["id"]:
                drun["lsc"] = e[2]
                drun["lsc_cls"] = e[3]
        elif k == "RUN_END":
            drun.update(active=e[2], gens=e[3], evals1=e[4], cma_stop=e[5], lsc_after=getattr(run, "lsc_after", {}).get(ei))
            drun = None
        elif k == "NEW" and cur is not None:
            cur["news"].append(e)
        elif k == "ROUND_BEGIN":
            cur["round"] = True
    return steps


# ------------------------------------------------------------------------------------- C01
def c01(run):
    out = []
    b = run.spec["bounds"]
    seen_nonfinite = set()
    for e in run.ev:
        if e[0] == "EVAL" and e[4] in (float("inf"), float("-inf")):
            seen_nonfinite.add(e[2])
        if e[0] == "EVAL" and not inbox(e[3], b):
            d = run.deme_objs.get(deme_of(e[2]))
            if d is not None and type(d).__name__ == "LocalDeme" and any(t != t for t in e[3]) and e[2] in seen_nonfinite:
                out.append(V("C01/eval-outside-box/local-search-nan-after-infinite-value", f"L-BFGS-B (local deme {e[2]}) probed the NaN point {e[3]} after the objective had returned an infinite value"))
            else:
                out.append(V("C01/eval-outside-box", f"objective invoked at {e[3]} outside box {b} by {e[2]} (level {e[1]})"))
            break
    for d in run.snaps[-1]["demes"]:
        for g in d["hist"]:
            for x, _ in g:
                if not inbox(x, b):
                    out.append(V("C01/stored-genome-outside-box", f"deme {d['id']} ({d['cls']}) stores genome {x} outside box {b}"))
                    return out
        if d["seed"] is not None and not inbox(d["seed"][0], b):
            out.append(V("C01/seed-outside-box", f"deme {d['id']} sprout seed {d['seed'][0]} outside box"))
    return out


# ------------------------------------------------------------------------------------- C02
def c02(run):
    out = []
    objs = [R.make_objective(run.spec, l) for l in range(len(run.spec["levels"]))]
    mx = run.spec["maximize"]
    sentinel = -np.inf if mx else np.inf
    cutoff = run.spec.get("cutoff")
    exhausted = cutoff is not None and any(len(r.calls) >= cutoff for r in run.objs["recs"])
    last = run.snaps[-1]
    for d in last["demes"]:
        # a local deme's generation 0 is the seed object itself (the parent's individual)
        items = [(x, f, "sprout seed" if (d["cls"] == "LocalDeme" and gi == 0) else "history") for gi, g in enumerate(d["hist"]) for x, f in g]
        if d["seed"] is not None:
            items.append((d["seed"][0], d["seed"][1], "sprout seed"))
        for x, f, what in items:
            # a sprout seed was evaluated by its parent's level, everything else by the deme's own
            lvl = d["level"] - 1 if what == "sprout seed" else d["level"]
            tv = objs[lvl](np.array(x))
            if f == tv or (f != f and tv != tv):  # (both NaN: the stored value is the objective's value)
                continue
            if f == sentinel and exhausted:
                continue
            out.append(V("C02/stored-fitness-wrong", f"deme {d['id']} ({d['cls']}) {what}: genome {x} stored fitness {f!r}, objective gives {tv!r}"))
            break
    # immutability: a recorded generation never changes
    seen = {}
    for k, s in enumerate(run.snaps):
        for d in s["demes"]:
            for j, dg in enumerate(d["digest"]):
                key = (d["id"], j)
                if key in seen and seen[key][0] != dg:
                    out.append(V("C02/history-mutated", f"deme {d['id']} generation {j} recorded at boundary {seen[key][1]} differs at boundary {k}"))
                    return out
                seen.setdefault(key, (dg, k))
    t = run.tree
    bi = t.best_individual
    if bi is not None and np.isfinite(bi.fitness) and not any(o(np.array(bi.genome)) == bi.fitness for o in objs):
        out.append(V("C02/best-individual-fitness-wrong", f"tree.best_individual genome {list(bi.genome)} fitness {bi.fitness}, objective gives {objs[0](np.array(bi.genome))}"))
    return out


# ------------------------------------------------------------------------------------- C03
def make_c03_consult(run_holder):
    """callback evaluated at every GSC consult (run_holder['run'] is set before execution)"""

    def on_gsc(tree, verdict):
        run = run_holder["run"]
        cutoff = run.spec.get("cutoff")
        recs = list({id(r): r for r in run.objs["recs"]}.values())
        if cutoff is not None and any(len(r.calls) >= cutoff for r in recs):
            if any(len(r.calls) > cutoff for r in recs):
                run_holder["viol"].append(V("C03/cutoff-exceeded", f"objective invoked {max(len(r.calls) for r in recs)} times through an evaluation cutoff of {cutoff}"))
            return
        per_level = {}
        for r in recs:
            for who, _, _ in r.calls:
                per_level[level_of(who)] = per_level.get(level_of(who), 0) + 1
        running = deme_of(run.who)
        tot = 0
        for lvl, lev in enumerate(tree.levels):
            cnt = sum(d.n_evaluations for d in lev)
            tot += cnt
            # a local deme books its evaluations when its search returns; no consult happens inside it
            if cnt != per_level.get(lvl, 0):
                run_holder["viol"].append(V("C03/level-count-mismatch", f"consult #{len(run.gsc_log)} (metaepoch {tree.metaepoch_count}, running {running}): level {lvl} reports {cnt} evaluations, objective was invoked {per_level.get(lvl, 0)} times there"))
        if tree.n_evaluations != tot:
            run_holder["viol"].append(V("C03/total-not-sum", f"tree.n_evaluations={tree.n_evaluations} but sum over demes={tot}"))

    return on_gsc


# ------------------------------------------------------------------------------------- C04
def c04_boundary(state):
    def on_boundary(run, tree):
        mx = run.spec["maximize"]
        allf = [i.fitness for _, d in tree.all_demes for i in d.all_individuals]
        allf = [f for f in allf if f == f]  # NaN is a legal value, ordered as worst: it never is the best of anything else
        if not allf:
            return
        ref = best_of(mx, allf)
        bi = tree.best_individual
        if bi.fitness != ref:
            state["viol"].append(V("C04/tree-best-not-best", f"boundary {tree.metaepoch_count}: tree.best_individual.fitness={bi.fitness} but best stored individual has {ref}"))
        if not any(i is bi or (tuple(i.genome) == tuple(bi.genome) and i.fitness == bi.fitness) for _, d in tree.all_demes for i in d.all_individuals):
            state["viol"].append(V("C04/tree-best-not-member", "tree.best_individual is not one of the stored individuals"))
        for _, d in tree.all_demes:
            fs = [i.fitness for i in d.all_individuals if i.fitness == i.fitness]
            if fs and d.best_individual.fitness != best_of(mx, fs):
                state["viol"].append(V("C04/deme-best-not-best", f"deme {d.id}: best_individual.fitness={d.best_individual.fitness}, best in its history {best_of(mx, fs)}"))
        if state.get("prev") is not None and better(mx, state["prev"], bi.fitness):
            state["viol"].append(V("C04/best-got-worse", f"boundary {tree.metaepoch_count}: best fitness went from {state['prev']} to {bi.fitness}"))
        state["prev"] = bi.fitness
        # the reported best value is a value of the objective: of its level's objective, at its genome
        try:
            owner = next(d for _, d in tree.all_demes if any(i is bi for i in d.all_individuals))
            want = R.make_objective(run.spec, owner.level)(np.array(bi.genome, dtype=float))
            got = float(bi.fitness)
            if want == want and got == got and abs(got) != float("inf") and abs(want) != float("inf") and got != want:
                state["viol"].append(V("C04/reported-best-is-not-an-objective-value", f"boundary {tree.metaepoch_count}: tree.best_individual (deme {owner.id}, level {owner.level}) reports fitness {got!r}, the objective of that level gives {want!r} at its genome"))
        except StopIteration:
            pass
        for _, d in tree.all_demes:
            if not d.all_individuals:
                continue
            b = d.best_individual
            want = R.make_objective(run.spec, d.level)(np.array(b.genome, dtype=float))
            got = float(b.fitness)
            if want == want and got == got and abs(got) != float("inf") and abs(want) != float("inf") and got != want and not any(i is b for _, p in tree.all_demes if p is not d for i in p.all_individuals):
                state["viol"].append(V("C04/reported-best-is-not-an-objective-value", f"boundary {tree.metaepoch_count}: deme {d.id} (level {d.level}) reports a best individual with fitness {got!r}, the objective of that level gives {want!r} at its genome"))
                break
        # best ever observed by non-local engines
        obs = [v for r in {id(r): r for r in run.objs["recs"]}.values() for who, _, v in r.calls if v == v and (run.deme_objs.get(deme_of(who)) is None or type(run.deme_objs[deme_of(who)]).__name__ != "LocalDeme")]
        if obs and better(mx, best_of(mx, obs), bi.fitness):
            state["viol"].append(V("C04/observed-better-than-reported", f"boundary {tree.metaepoch_count}: objective returned {best_of(mx, obs)} (non-local engine) but reported best is {bi.fitness}"))

    return on_boundary


def c05_boundary(state):
    """at every boundary the shipped stop condition, asked about this tree, answers what its definition says on
    this tree's state (it may be one object serving several trees of the process)"""

    def on_boundary(run, tree):
        from .props.c19 import gsc_oracle

        want = gsc_oracle(run.spec, tree)
        if want is None and run.spec["gsc"]["kind"] == "SingularProblemPrecisionReached":
            # the precision condition holds from the first answer within the precision of the optimum (0) on —
            # a NaN answer is never within it
            eps = run.spec["gsc"]["precision"]
            want = any(v == v and abs(v) <= eps for r in {id(r): r for r in run.objs["recs"]}.values() for _, _, v in r.calls)
        if want is None:
            return
        cond = getattr(getattr(run, "inner_gsc", None), "inner", None)
        if cond is None:
            return
        got = bool(cond(tree))
        if got != bool(want) and not state["viol"]:
            state["viol"].append(V("C05/stop-condition-not-its-definition", f"boundary {tree.metaepoch_count}: {run.spec['gsc']['kind']} answers {got} about this tree, its definition on the tree's state gives {bool(want)} ({tree.n_evaluations} evaluations, {sum(1 for _ in tree.all_demes)} demes)"))

    return on_boundary


# ------------------------------------------------------------------------------------- C05
def c05(run):
    out = []
    spec = run.spec
    steps = segments(run)
    ret = [e for e in run.ev if e[0] == "RETURN"]
    if run.error:
        return [V("C05/ran-past-true-boundary", run.error)]
    if not ret:
        return [V("C05/no-return", "run() did not return")]
    _, mc, final = ret[0]
    if not final:
        out.append(V("C05/returned-while-gsc-false", f"run() returned at metaepoch {mc} although the global stop condition is false"))
    if mc != run.steps:
        out.append(V("C05/metaepoch-count", f"metaepoch_count={mc} but {run.steps} metaepochs were performed"))
    for s in steps:
        if s["gsc_before"]:
            out.append(V("C05/ran-past-true-boundary", f"metaepoch {s['n']} was started although the global stop condition held at the preceding boundary"))
            break
    # the condition is consulted after every generation of every (non-local) deme
    for s in steps:
        for r in s["runs"]:
            d = run.deme_objs.get(r["id"])
            if d is None or type(d).__name__ == "LocalDeme":
                continue
            if len(r["gsc"]) != len(r.get("gens", [])):
                out.append(V("C05/generation-without-consult", f"metaepoch {s['n']}: deme {r['id']} ({type(d).__name__}) recorded {len(r.get('gens', []))} generations but consulted the global stop condition {len(r['gsc'])} times"))
                break
    g = spec["gsc"]
    if g["kind"] == "MetaepochLimit" and mc != min(g["limit"], spec["max_steps"]):
        out.append(V("C05/metaepoch-limit", f"MetaepochLimit({g['limit']}) ended with metaepoch_count={mc}"))
    # wind-down after the first true verdict
    first = next((i for i, (idx, who, v) in enumerate(run.gsc_log) if v), None)
    if first is not None:
        idx0 = run.gsc_log[first][0]
        per = {}
        for e in run.ev[idx0 + 1 :]:
            if e[0] == "NEW":
                out.append(V("C05/sprout-after-gsc-true", f"deme {e[1]} was created after the global stop condition was first observed true"))
            if e[0] == "EVAL":
                per[deme_of(e[2])] = per.get(deme_of(e[2]), 0) + 1
        # the deme that was being created / was mid-generation when it flipped may finish that iteration
        for did, n in per.items():
            d = run.deme_objs.get(did)
            if d is None:
                continue
            cls = type(d).__name__
            if cls == "LocalDeme":
                continue
            cap = len(d.history[0]) if d.history else 0
            if n > cap:
                out.append(V("C05/wind-down-too-long", f"deme {did} ({cls}) performed {n} evaluations (> one generation of {cap}) after the global stop condition was first observed true"))
    return out


# ------------------------------------------------------------------------------------- C06
def c06(run):
    out = []
    steps = segments(run)
    hib_on = run.spec["hibernation"]
    fresh = set()  # demes created by the sprouting round of the previous step
    for k, s in enumerate(steps):
        pre = {d["id"]: d for d in run.snaps[k]["demes"]}
        post = {d["id"]: d for d in run.snaps[k + 1]["demes"]} if k + 1 < len(run.snaps) else None
        if post is None:
            break
        ran = {r["id"]: r for r in s["runs"]}
        for did, a in pre.items():
            b = post[did]
            should = a["active"] and not (hib_on and a["hib"])
            adv = b["metaepochs"] - a["metaepochs"]
            if did in fresh and a["active"] and adv != 1:
                # "a freshly sprouted deme first runs in the following metaepoch" — whatever its flags say
                out.append(V("C06/fresh-deme-did-not-run-in-the-following-metaepoch", f"metaepoch {s['n']}: deme {did}, sprouted in the previous metaepoch, advanced by {adv} metaepochs (hibernating flag at birth: {a['hib']})"))
                continue
            if should and adv != 1:
                out.append(V("C06/active-deme-did-not-advance-by-one", f"metaepoch {s['n']}: active deme {did} advanced by {adv} metaepochs"))
            if not should and (adv != 0 or b["n_evals"] != a["n_evals"] or b["ngens"] != a["ngens"] or (a.get("hist") is not None and b.get("hist") is not None and repr(a["hist"]) != repr(b["hist"]))):  # repr: NaN-safe
                what = "inactive" if not a["active"] else "hibernating"
                sig = "C06/inactive-deme-changed" if not a["active"] else "C18/hibernating-deme-changed"
                out.append(V(sig, f"metaepoch {s['n']}: {what} deme {did} changed (metaepochs +{adv}, evals {a['n_evals']}->{b['n_evals']})"))
            if not a["active"] and b["active"]:
                out.append(V("C06/reactivated", f"metaepoch {s['n']}: deme {did} became active again"))
            if a["active"] and not b["active"] and did not in ran:
                # a deme becomes inactive only at the end of a metaepoch it ran (its LSC, the GSC, its engine)
                out.append(V("C06/deactivated-without-running", f"metaepoch {s['n']}: deme {did} became inactive in a metaepoch it did not run (hibernating: {a['hib']}; its metaepoch count stayed {a['metaepochs']})"))
            if did in ran:
                r = ran[did]
                gsc_true = any(r["gsc"])
                cls = a["cls"]
                reasons = []
                if gsc_true:
                    reasons.append("gsc")
                if r["lsc"]:
                    reasons.append("lsc")
                if cls == "CMADeme" and r.get("cma_stop"):
                    reasons.append("cma-stop")
                if cls == "LocalDeme":
                    reasons.append("one-shot")
                if r["active"] and reasons and not (cls == "CMADeme" and reasons == ["cma-stop"] and r.get("cma_stop") is None):
                    out.append(V("C06/still-active-although-stop-reason", f"metaepoch {s['n']}: deme {did} ({cls}) is still active although {reasons} held at the end of its metaepoch"))
                if r["active"] and not gsc_true and r.get("lsc_after") is True:
                    out.append(V("C06/still-active-although-lsc-holds-at-end-of-metaepoch", f"metaepoch {s['n']}: deme {did} ({cls}) is still active although its local stop condition ({r.get('lsc_cls')}) holds on the state its metaepoch left behind (it was consulted too early, or its verdict was ignored)"))
                if (not r["active"]) and r["lsc"] and not gsc_true and r.get("lsc_cls") == "AllChildrenStopped":
                    # the definition, independently of the condition object (which every deme of the level shares):
                    # children run before their parent, so their flags after the step are their flags at that time
                    alive = [c for c in a["children"] if c in post and post[c]["active"]]
                    if alive or not a["children"]:
                        out.append(V("C06/stopped-although-its-local-stop-condition-does-not-hold", f"metaepoch {s['n']}: deme {did} was stopped by AllChildrenStopped although its children {alive or '(none)'} are still active"))
                if not r["active"] and not reasons and cls in ("EADeme", "DEDeme", "SHADEDeme", "LHSDeme", "SobolDeme", "CMADeme", "UserEADeme", "UserDEDeme"):
                    if not (cls == "CMADeme" and r.get("cma_stop") is None):
                        out.append(V("C06/stopped-without-reason", f"metaepoch {s['n']}: deme {did} ({cls}) became inactive although neither its local nor the global stop condition held nor its engine stopped"))
        fresh = {did for did in post if did not in pre}
        for did, b in post.items():
            if did not in pre:
                if b["started_at"] != s["n"] or b["metaepochs"] != 0:
                    out.append(V("C06/new-deme-start", f"deme {did} created in metaepoch {s['n']} has started_at={b['started_at']}, metaepochs={b['metaepochs']}"))
        # no evaluation attributed to a deme that should not run
        for e in run.ev:
            pass
    # objective invocations by inactive / sleeping demes
    active = {}
    for e in run.ev:
        if e[0] == "NEW":
            active[e[1]] = True
        elif e[0] == "RUN_END":
            active[e[1]] = e[2]
        elif e[0] == "EVAL":
            did = deme_of(e[2])
            if e[2] is not None and not e[2].startswith("init:") and active.get(did) is False:
                out.append(V("C06/inactive-deme-evaluated", f"inactive deme {did} invoked the objective"))
                break
    return out


def make_c06_consult(holder):
    """at every consult of the global stop condition made by a running CMA-ES deme: does its engine report its own
    termination?  (the library call the deme itself makes after every generation)"""

    def consult(tree, verdict):
        run = holder["run"]
        who = run.who
        if not who or who.startswith("init:"):
            return
        d = run.deme_objs.get(who)
        es = getattr(d, "_cma_es", None)
        if es is None:
            return
        try:
            st = bool(es.stop())
        except Exception:  # noqa: BLE001
            return
        holder["stops"].append((len(run.ev), who, st))

    return consult


def c06_cma_stops(run, stops):
    """a CMA-ES deme whose engine reported termination after a generation makes no further generation"""
    out = []
    for at, who, st in stops:
        if not st:
            continue
        for e in run.ev[at:]:
            if e[0] == "RUN_END" and e[1] == who:
                break
            if e[0] == "EVAL" and e[2] == who:
                out.append(V("C06/cma-deme-kept-running-after-its-engine-stopped", f"CMA-ES deme {who}: its engine reported termination after a generation, yet the deme evaluated further individuals in the same metaepoch"))
                break
        if out:
            break
    return out


# ------------------------------------------------------------------------------------- C07
def c07(run):
    out = []
    spec = run.spec
    nlev = len(spec["levels"])
    cls_of = R.CLASS_OF
    for s in run.snaps:
        demes = {d["id"]: d for d in s["demes"]}
        ids = [d["id"] for d in s["demes"]]
        if len(set(ids)) != len(ids):
            out.append(V("C07/duplicate-ids", f"boundary {s['metaepoch']}: duplicate deme ids {sorted(ids)}"))
            break
        if len(s["levels"]) != nlev or s["levels"][0] != ["root"]:
            out.append(V("C07/root", f"boundary {s['metaepoch']}: levels {s['levels']}"))
            break
        parent_count = {i: 0 for i in ids}
        for d in s["demes"]:
            if d["id"] not in s["levels"][d["level"]] or sum(lv.count(d["id"]) for lv in s["levels"]) != 1:
                out.append(V("C07/level-registration", f"deme {d['id']} level={d['level']} not registered exactly once at its level"))
            if d["cls"] != cls_of[spec["levels"][d["level"]]["engine"]]:
                out.append(V("C07/wrong-engine", f"deme {d['id']} at level {d['level']} is a {d['cls']}, configured {spec['levels'][d['level']]['engine']}"))
            if not (0 <= d["started_at"] <= s["metaepoch"]):
                out.append(V("C07/started-at", f"deme {d['id']} started_at={d['started_at']} at boundary {s['metaepoch']}"))
            for c in d["children"]:
                if c not in demes:
                    out.append(V("C07/child-unknown", f"deme {d['id']} lists child {c} that is not in the tree"))
                    continue
                parent_count[c] += 1
                if demes[c]["level"] != d["level"] + 1:
                    out.append(V("C07/child-level", f"child {c} of {d['id']} is at level {demes[c]['level']}"))
                if demes[c]["started_at"] < d["started_at"]:
                    out.append(V("C07/started-before-parent", f"child {c} started at {demes[c]['started_at']} before its parent {d['id']} ({d['started_at']})"))
        for i in ids:
            if i != "root" and parent_count[i] != 1:
                out.append(V("C07/parent-count", f"boundary {s['metaepoch']}: deme {i} is listed as a child by {parent_count[i]} demes"))
        if out:
            break
    # seed provenance
    news = [e for e in run.ev if e[0] == "NEW" and e[3] is not None]
    for e in news:
        _, did, lvl, par, started, cls, seed, pop, nev = e[:9]
        rnd = next((r for r in run.rounds if r["metaepoch"] == started), None)
        if rnd is None:
            out.append(V("C07/no-round", f"deme {did} created outside a sprouting round"))
            continue
        ok = seed in rnd["pre_pops"].get(par, [])
        if not ok and spec["sprout"].get("generator") == "nbc_local":
            pd = next(d for d in run.snaps[-1]["demes"] if d["id"] == par)
            ok = any(seed in g for g in pd["hist"])
        if not ok:
            out.append(V("C07/seed-not-from-parent", f"deme {did}: seed {seed} is not an individual of parent {par}'s population at the moment of sprouting"))
        eng = spec["levels"][lvl]["engine"]
        if eng in R.POP_ENGINES:
            if len(pop) != spec["levels"][lvl]["pop_size"]:
                out.append(V("C07/child-pop-size", f"deme {did}: initial population has {len(pop)} members, configured {spec['levels'][lvl]['pop_size']}"))
            if seed[0] not in [x for x, _ in pop]:
                out.append(V("C07/seed-not-in-child-pop", f"deme {did}: initial population does not contain the seed genome"))
    return out


# ------------------------------------------------------------------------------------- C08
def level_limit_of(spec):
    s = spec["sprout"]
    if s["kind"] in ("nbc", "simple"):
        return s["level_limit"]
    return s["level_limit"] if "levellimit" in s["tree_filters"] else None


def make_c08_consult(holder):
    def on_gsc(tree, verdict):
        run = holder["run"]
        L = level_limit_of(run.spec)
        if L is None:
            return
        for lvl in range(1, len(tree.levels)):
            a = sum(1 for d in tree.levels[lvl] if d.is_active)
            if a > L:
                holder["viol"].append(V("C08/level-limit-exceeded", f"metaepoch {tree.metaepoch_count} (consult while {run.who} runs): level {lvl} has {a} active demes > limit {L}"))

    return on_gsc


def c08(run):
    out = []
    L = level_limit_of(run.spec)
    if L is None:
        return out
    for s in run.snaps:
        for lvl in range(1, len(s["levels"])):
            a = [d["id"] for d in s["demes"] if d["level"] == lvl and d["active"]]
            if len(a) > L:
                out.append(V("C08/level-limit-exceeded", f"boundary {s['metaepoch']}: level {lvl} has {len(a)} active demes {a} > limit {L}"))
    for r in run.rounds:
        pre = r["pre"]
        created = [e for e in run.ev if e[0] == "NEW" and e[3] is not None and e[4] == r["metaepoch"]]
        for lvl in range(1, len(pre["levels"])):
            a = sum(1 for d in pre["demes"] if d["level"] == lvl and d["active"])
            c = sum(1 for e in created if e[2] == lvl)
            if c > max(0, L - a):
                out.append(V("C08/round-created-too-many", f"round of metaepoch {r['metaepoch']}: {c} demes created on level {lvl} with {a} active and limit {L}"))
    return out


# ------------------------------------------------------------------------------------- C09
def c09_boundary(state):
    def on_boundary(run, tree):
        for _, d in tree.all_demes:
            pop = d.current_population
            if not pop:
                continue
            want = np.mean([i.genome for i in pop], axis=0)
            got = d.centroid
            if got is None or not np.allclose(got, want, rtol=1e-12, atol=1e-300):
                state["viol"].append(V("C09/stale-centroid", f"boundary {tree.metaepoch_count}: deme {d.id} ({type(d).__name__}) centroid {None if got is None else list(got)} but mean of its current population is {list(want)}"))

    return on_boundary


def nb_mean(pop, maximize, t):
    """mean nearest-better distance of a population [(genome, fitness)] after keeping the best
    int(n*t); None when the definition is ambiguous here (duplicate genomes, a fitness tie across
    the cut, non-finite values) or there is no distance at all"""
    n = len(pop)
    X = np.array([g for g, _ in pop], dtype=float)
    f = np.array([v for _, v in pop], dtype=float)
    if not np.all(np.isfinite(f)) or len({tuple(x) for x in X.tolist()}) < n:
        return None
    key = -f if maximize else f
    order = sorted(range(n), key=lambda i: key[i])
    m = int(n * t)
    if m < 2:
        return None
    if m < n and key[order[m - 1]] == key[order[m]]:
        return None
    kept = order[:m]
    root_key = key[kept[0]]
    if sum(1 for j in kept if key[j] == root_key) > 1:
        return None  # which of the tied best is the root depends on the sort
    ds = []
    for i in kept[1:]:
        better = [j for j in kept if key[j] < key[i]]
        ds.append(float(np.min(np.linalg.norm(X[i] - X[better], axis=1))))
    return float(np.mean(ds)) if ds else None


def c09(run):
    out = []
    s = run.spec["sprout"]
    for r in run.rounds:
        pre = {d["id"]: d for d in r["pre"]["demes"]}
        cents = {}
        for did, pop in r["pre_pops"].items():
            cents[did] = np.mean([np.array(x) for x, _ in pop], axis=0) if pop else None
        for did, c in r["pre_centroids"].items():
            if cents[did] is not None and (c is None or not np.allclose(c, cents[did], rtol=1e-12, atol=1e-300)):
                out.append(V("C09/stale-centroid", f"round of metaepoch {r['metaepoch']}: deme {did} reports centroid {c}, mean of its population is {list(cents[did])}"))
        far = None
        if s["kind"] == "simple":
            far = ("far", s["far_enough"], 2, True)
        elif s["kind"] == "nbc":
            far = ("nbc", s["fil_dist_factor"], 2, False)
        checks = []
        if far:
            checks.append(far)
        if s["kind"] == "custom":
            if "far" in s["deme_filters"]:
                checks.append(("far", s["far_enough"], s["norm_ord"], True))
            if "nbcfar" in s["deme_filters"] and s["generator"] != "best":
                checks.append(("nbc", s["fil_dist_factor"], s["norm_ord"], s["check_only_active"]))
        gen = next((st for st in r["stages"] if st["stage"] == "generator"), None)
        # the "mean nearest-better distance of the parent's population" a candidate carries must be that
        # of its own parent's current population (NBC_FarEnough multiplies it by the factor)
        tf = s.get("trunc_factor")
        if gen and tf is not None:
            for did, c in gen["out"].items():
                pop = r["pre_pops"].get(did)
                if c.get("nbc_mean") is None or not pop or not pre[did]["active"]:
                    continue
                m = nb_mean(pop, run.spec["maximize"], tf)
                if m is None:
                    continue
                if abs(c["nbc_mean"] - m) > 1e-9 * max(abs(m), 1e-300):
                    out.append(V("C09/nbc-mean-not-of-the-parents-population", f"round of metaepoch {r['metaepoch']}: candidates of deme {did} carry nbc_mean_distance {c['nbc_mean']}, the mean nearest-better distance of its current population is {m}"))
        # the demes created by this round stand exactly where the accepted seeds are
        accepted = {par: [tuple(x) for x, _ in seeds] for par, seeds in r["seeds"].items()}
        for e in run.ev:
            if e[0] == "NEW" and e[3] is not None and e[4] == r["metaepoch"] and e[6] is not None:
                at = e[9] if len(e) > 9 and e[9] is not None else e[6]  # the seed the new deme actually holds
                if tuple(at[0]) not in accepted.get(e[3], []):
                    out.append(V("C09/sprouted-at-a-different-point-than-accepted", f"round of metaepoch {r['metaepoch']}: deme {e[1]} was sprouted from {list(at[0])}, which is none of the seeds the mechanism accepted for its parent {e[3]} ({accepted.get(e[3], [])[:3]})"))
        for par, seeds in r["seeds"].items():
            tl = pre[par]["level"] + 1
            for kind, thr, ordn, only_active in checks:
                sibs = [d for d in r["pre"]["demes"] if d["level"] == tl and (d["active"] or not only_active)]
                for x, _ in seeds:
                    for sb in sibs:
                        c = cents.get(sb["id"])
                        if c is None:
                            continue
                        dist = np.linalg.norm(np.array(x) - c, ord=ordn)
                        t = thr if kind == "far" else thr * (gen["out"][par]["nbc_mean"] if gen and par in gen["out"] and gen["out"][par]["nbc_mean"] is not None else 0.0)
                        if not dist > t:
                            out.append(V("C09/sprout-too-close", f"round of metaepoch {r['metaepoch']}: seed {x} from {par} accepted at distance {dist} <= threshold {t} from the current centroid of {sb['id']}"))
    return out


# ------------------------------------------------------------------------------------- C10
def c10(run):
    out = []
    mx = run.spec["maximize"]
    s = run.spec["sprout"]
    nlev = len(run.spec["levels"])
    for r in run.rounds:
        pre = {d["id"]: d for d in r["pre"]["demes"]}
        st = r["stages"]
        if not st:
            continue
        gen = st[0]
        gname = gen["cls"]
        for did, c in gen["out"].items():
            d = pre[did]
            ok_src = d["active"] and d["level"] < nlev - 1
            if gname == "NBCGeneratorWithLocalMethod" and not d["active"]:
                ok_src = d["level"] == nlev - 2
            if not ok_src:
                out.append(V("C10/candidate-from-wrong-deme", f"{gname} proposed candidates from deme {did} (active={d['active']}, level={d['level']})"))
            pop = r["pre_pops"][did]
            for ind in c["inds"]:
                if ind not in pop and not (gname == "NBCGeneratorWithLocalMethod" and not d["active"]):
                    out.append(V("C10/candidate-not-in-population", f"{gname}: candidate {ind} of deme {did} is not in its current population"))
            # (an inactive deme's history is final: read it from the snapshot taken after this step)
            hist_after = None
            if gname == "NBCGeneratorWithLocalMethod" and not d["active"] and isinstance(r.get("metaepoch"), int) and r["metaepoch"] < len(run.snaps):
                hist_after = next((x.get("hist") for x in run.snaps[r["metaepoch"]]["demes"] if x["id"] == did), None)
            if hist_after:
                hb = best_of(mx, [f for g in hist_after for _, f in g])
                if len(c["inds"]) != 1 or c["inds"][0][1] != hb:
                    out.append(V("C10/just-finished-deme-not-its-best", f"NBCGeneratorWithLocalMethod proposed {c['inds']} for the just-finished deme {did}, whose best individual has fitness {hb}"))
            if gname == "BestPerDeme":
                b = best_of(mx, [f for _, f in pop])
                if len(c["inds"]) != 1 or c["inds"][0][1] != b:
                    out.append(V("C10/bestperdeme-not-best", f"BestPerDeme proposed {c['inds']} for deme {did}, current best fitness {b}"))
        prev = gen["out"]
        for f in st[1:]:
            if f.get("in") != prev:
                out.append(V("C10/chain-broken", f"filter {f['cls']} did not receive the previous stage's output"))
            for did, c in f["out"].items():
                a = list(f["in"].get(did, {"inds": []})["inds"])
                kept = list(c["inds"])
                rest = list(a)
                for k in kept:
                    if k in rest:
                        rest.remove(k)
                    else:
                        out.append(V("C10/filter-added-candidate", f"{f['cls']} output contains {k} for deme {did} that was not in its input"))
                dropped = rest
                if f["cls"] == "DemeLimit":
                    lim = s["deme_limit"] if s["kind"] == "custom" else 1
                    if len(kept) != min(lim, len(a)):
                        out.append(V("C10/demelimit-count", f"DemeLimit({lim}) kept {len(kept)} of {len(a)} candidates of deme {did}"))
                    if any(better(mx, dr[1], kp[1]) for dr in dropped for kp in kept):
                        out.append(V("C10/demelimit-dropped-better", f"DemeLimit dropped a candidate strictly better than a kept one for deme {did}"))
            if f["cls"] == "LevelLimit":
                L = s["level_limit"]
                for lvl in range(nlev - 1):
                    dem = [did for did in f["in"] if pre[did]["level"] == lvl]
                    a = [i for did in dem for i in f["in"][did]["inds"]]
                    kept = [i for did in dem for i in f["out"].get(did, {"inds": []})["inds"]]
                    rest = list(a)
                    for k in kept:
                        if k in rest:
                            rest.remove(k)
                    act = sum(1 for d in r["pre"]["demes"] if d["level"] == lvl + 1 and d["active"])
                    free = max(0, L - act)
                    if len(kept) > free:
                        out.append(V("C10/levellimit-too-many", f"LevelLimit({L}) kept {len(kept)} candidates for level {lvl+1} with {act} active"))
                    if any(better(mx, dr[1], kp[1]) for dr in rest for kp in kept):
                        out.append(V("C10/levellimit-dropped-better", f"LevelLimit dropped a candidate strictly better than a kept one (level {lvl})"))
                    fs = [i[1] for i in a]
                    if len(set(fs)) == len(fs) and len(kept) != min(free, len(a)):
                        out.append(V("C10/levellimit-not-filled", f"LevelLimit({L}) kept {len(kept)} of {len(a)} distinct-fitness candidates with {free} free slots on level {lvl+1}"))
            if f["cls"] == "SkipSameSprout":
                for did, c in f["out"].items():
                    own = [d["seed"][0] for d in r["pre"]["demes"] if d["id"] in pre[did]["children"]]
                    lvl_seeds = [d["seed"][0] for d in r["pre"]["demes"] if d["level"] == pre[did]["level"] + 1 and d["seed"] is not None]
                    for k in c["inds"]:
                        if any(np.all(np.isclose(np.array(sd), np.array(k[0]))) for sd in own):
                            out.append(V("C10/skipsame-let-through", f"SkipSameSprout let through {k[0]} equal to a seed already sprouted from {did}"))
                    for k in f["in"].get(did, {"inds": []})["inds"]:
                        if k not in c["inds"] and not any(np.all(np.isclose(np.array(sd), np.array(k[0]))) for sd in lvl_seeds):
                            out.append(V("C10/skipsame-rejected-new", f"SkipSameSprout rejected {k[0]} that differs from every seed of the target level"))
            prev = f["out"]
        final = {did: c["inds"] for did, c in prev.items() if c["inds"]}
        if final != r["seeds"]:
            out.append(V("C10/seeds-not-chain-output", f"round of metaepoch {r['metaepoch']}: get_seeds returned something else than the filter chain's non-empty output"))
    return out


# ------------------------------------------------------------------------------------- C11 / C12
class cma_protocol:
    """records, per CMA-ES strategy object, the sequence of `ask` / `tell` calls of a run (library-level
    patch of `cma.CMAEvolutionStrategy`, undone on exit).  CMA-ES breeds a generation from the one it was
    last *told*: "bred from the generation immediately before" is a statement about this sequence."""

    def __enter__(self):
        import cma

        self.cls = cma.CMAEvolutionStrategy
        self.ask0, self.tell0 = self.cls.ask, self.cls.tell
        log = self.log = {}
        ask0, tell0 = self.ask0, self.tell0
        alive = self.alive = []  # every strategy object seen stays alive: `id(es)` is never reused inside the context

        def ask(es, *a, **k):
            if id(es) not in log:
                alive.append(es)
            out = ask0(es, *a, **k)
            log.setdefault(id(es), []).append(("ask", [tuple(float(t) for t in x) for x in out]))
            return out

        def tell(es, solutions, function_values, *a, **k):
            log.setdefault(id(es), []).append(("tell", [tuple(float(t) for t in x) for x in solutions]))
            return tell0(es, solutions, function_values, *a, **k)

        self.cls.ask, self.cls.tell = ask, tell
        return log

    def __exit__(self, *exc):
        self.cls.ask, self.cls.tell = self.ask0, self.tell0
        return False


def c11_cma(run, log):
    """every CMA-ES generation after the first is asked right after the strategy was told exactly the
    generation asked before it"""
    out = []
    by_es = {id(getattr(d, "_cma_es", None)): did for did, d in run.deme_objs.items() if getattr(d, "_cma_es", None) is not None}
    for key, seq in log.items():
        if key not in by_es:
            continue  # a strategy of another tree of the process (a mechanism's earlier user), not of this run
        did = by_es[key]
        last_ask = None
        told = True  # nothing to tell before the first ask
        for k, (op, xs) in enumerate(seq):
            if op == "ask":
                if last_ask is not None and not told:
                    out.append(V("C11/cma-generation-not-bred-from-the-previous-one", f"CMA deme {did}: generation asked at call {k + 1} although the strategy was never told the generation asked before it (it is a second draw from the same distribution)"))
                    break
                last_ask, told = xs, False
            else:
                if last_ask is not None and sorted(xs) != sorted(last_ask):
                    out.append(V("C11/cma-told-something-else", f"CMA deme {did}: call {k + 1} tells the strategy {len(xs)} points that are not the generation it asked last"))
                    break
                told = True
    return out


def c11_c12(run):
    o11, o12 = [], []
    mx = run.spec["maximize"]
    steps = segments(run)
    last = {}
    for e in run.ev:
        if e[0] == "NEW":
            last[e[1]] = list(e[7])
    init_size = {e[1]: len(e[7]) for e in run.ev if e[0] == "NEW"}
    for s in steps:
        for r in s["runs"]:
            did = r["id"]
            d = run.deme_objs[did]
            cls = type(d).__name__
            eng = run.spec["levels"][d.level]["engine"]
            if cls == "LocalDeme":
                continue
            prev = last[did]
            for j, g in enumerate(r["gens"]):
                win = r["windows"][j] if j < len(r["windows"]) else []
                winset = set(win)
                for ind in g:
                    if ind not in prev and ind not in winset:
                        sent = ind[1] in (np.inf, -np.inf)
                        if not sent:
                            o11.append(V("C11/not-from-previous-generation", f"deme {did} ({cls}/{eng}) metaepoch {s['n']} generation {j+1}: individual {ind} is neither in the preceding generation nor evaluated during this generation"))
                            break
                # C12
                if eng in R.POP_ENGINES or cls == "CMADeme":
                    want = run.spec["levels"][d.level]["pop_size"] if eng in R.POP_ENGINES else init_size[did]
                    if len(g) != want:
                        o12.append(V("C12/size", f"deme {did} ({eng}) metaepoch {s['n']} generation {j+1} has {len(g)} individuals, expected {want}"))
                if eng in R.ELITIST and prev and g:
                    bp, bn = best_of(mx, [f for _, f in prev]), best_of(mx, [f for _, f in g])
                    if better(mx, bp, bn):
                        o12.append(V("C12/best-got-worse", f"deme {did} ({eng}) metaepoch {s['n']} generation {j+1}: best fitness went from {bp} to {bn}"))
                    if eng in ("de", "ded", "shade") and len(prev) == len(g):
                        key = (lambda v: -v) if mx else (lambda v: v)
                        sp, sn = sorted(key(f) for _, f in prev), sorted(key(f) for _, f in g)
                        bad = [i for i in range(len(sp)) if sn[i] > sp[i]]
                        if bad:
                            o12.append(V("C12/kth-best-worse", f"deme {did} ({eng}) metaepoch {s['n']} generation {j+1}: {bad[0]+1}-th best got worse"))
                prev = g
            if r["gens"]:
                last[did] = r["gens"][-1]
    return o11, o12


# ------------------------------------------------------------------------------------- C18
def c18(run):
    out = []
    spec = run.spec
    hib_on = spec["hibernation"]
    steps = segments(run)
    nlev = len(spec["levels"])
    for s in run.snaps:
        if not hib_on and any(d["hib"] for d in s["demes"]):
            out.append(V("C18/hibernating-while-disabled", f"boundary {s['metaepoch']}: a deme hibernates although hibernation is disabled"))
    for k, s in enumerate(steps):
        if k + 1 >= len(run.snaps):
            break
        pre = {d["id"]: d for d in run.snaps[k]["demes"]}
        post = {d["id"]: d for d in run.snaps[k + 1]["demes"]}
        rnd = next((r for r in run.rounds if r["metaepoch"] == s["n"]), None)
        if hib_on and rnd is not None:
            took = set(rnd["seeds"].keys())
            pr = {d["id"]: d for d in rnd["pre"]["demes"]}
            for did, b in post.items():
                if did not in pr:
                    if b["hib"]:
                        out.append(V("C18/new-deme-asleep", f"deme {did} created by the round of metaepoch {s['n']} starts hibernating"))
                    continue
                a = pr[did]
                if a["active"] and a["level"] < nlev - 1:
                    if b["hib"] != (did not in took):
                        out.append(V("C18/flag-wrong", f"round of metaepoch {s['n']}: deme {did} hibernating={b['hib']} but the round {'took' if did in took else 'took no'} sprout from it"))
        # progress
        evs = sum(r["evals1"] - r["evals0"] for r in s["runs"]) + sum(e[8] for e in s["news"])
        n_calls = sum(len(w) for r in s["runs"] for w in r["windows"])
        any_active = any(d["active"] for d in pre.values())
        if any_active and not s["gsc_before"] and n_calls == 0 and evs == 0 and not any(s["news"]):
            act = [d for d in pre.values() if d["active"]]
            awake = [d for d in act if not (hib_on and d["hib"])]
            collapsed = [d for d in awake if d["cls"] in ("DEDeme", "SHADEDeme", "UserDEDeme") and d.get("hist") and len({tuple(g) for g, _ in d["hist"][-1]}) == 1]
            if hib_on and all(d["hib"] for d in act):
                out.append(V("C18/no-progress/all-active-demes-hibernating", f"metaepoch {s['n']}: 0 evaluations; every active deme {[d['id'] for d in act]} is hibernating"))
            elif awake and len(collapsed) == len(awake):
                # DE / SHADE keep the parent's fitness for a trial vector that equals its parent; once the
                # whole population has collapsed to one point every donor a + F (b - c) is that point:
                # no trial differs, nothing is evaluated, the deme stays active (finding D19)
                out.append(V("C18/no-progress/de-population-collapsed-to-one-point", f"metaepoch {s['n']}: 0 evaluations; every awake active deme {[d['id'] for d in awake]} is a DE/SHADE deme whose population consists of one distinct genome"))
            else:
                out.append(V("C18/no-progress", f"metaepoch {s['n']}: 0 evaluations although demes {[d['id'] for d in act if not d['hib']]} are active and awake"))
    return out


# ------------------------------------------------------------------------------------- C20
import random as _random
import re as _re

DEME_LINE = _re.compile(r"^(?P<prefix>[\s|└├-]*)(?P<cls>\w+) (?P<id>\S+?)(?P<mark> \*\*\* | )f\((?P<best>.*?)\) ~= (?P<fit>\S+)(?: sprout: \((?P<sprout>.*?)\);)? evals: (?P<evals>\d+) (?P<new>\(new_deme\))?$")


def parse_tree(text):
    out = []
    for line in text.split("\n"):
        if not line.strip():
            continue
        m = DEME_LINE.match(line)
        out.append(m.groupdict() if m else {"raw": line})
    return out


def parse_summary(text):
    d = {"levels": []}
    head = text.split("\n\nLevel 1.", 1)[0]
    for k, pat in (("metaepoch", r"Metaepoch count: (\d+)"), ("evals", r"Number of evaluations: (\d+)"), ("demes", r"Number of demes: (\d+)"), ("best", r"Best fitness: (\S+)")):
        m = _re.search(pat, head)
        d[k] = m.group(1) if m else None
    for m in _re.finditer(r"\nLevel (\d+)\.\n(.*?)(?=\n\nLevel \d+\.|\n\n|\Z)", text, _re.S):
        sec = m.group(2)
        lv = {}
        for k, pat in (("evals", r"Number of evaluations: (\d+)"), ("demes", r"Number of demes: (\d+)"), ("best", r"Best fitness: (\S+)")):
            mm = _re.search(pat, sec)
            lv[k] = mm.group(1) if mm else None
        lv["none"] = "No demes available." in sec
        d["levels"].append(lv)
    return d


def _state_digest(run, tree):
    return (R.snap_tree(tree, run.order), sum(len(r.calls) for r in {id(r): r for r in run.objs["recs"]}.values()), np.random.get_state()[1].tobytes(), _random.getstate())


def _ancestors(did):
    """ids of the proper ancestors of a deme id ('root', '0', '0/1', ...) below the root"""
    parts = did.split("/")
    return ["/".join(parts[:k]) for k in range(1, len(parts))]


def c20_boundary(state):
    def on_boundary(run, tree):
        mx = run.spec["maximize"]
        viol = state["viol"]
        before = _state_digest(run, tree)
        s1 = tree.summary()
        s2 = tree.summary()
        t1 = tree.tree()
        t2 = tree.tree()
        if s1 != s2 or t1 != t2:
            viol.append(V("C20/report-not-repeatable", f"boundary {tree.metaepoch_count}: summary()/tree() called twice give different text"))
        def safe(f):
            # an accessor that raises is compared by the exception it raises (same outcome twice)
            try:
                return f()
            except Exception as e:  # noqa
                state["accessor_exceptions"] = state.get("accessor_exceptions", 0) + 1
                return ("raised", type(e).__name__)

        def acc():
            return (
                safe(lambda: ind_key(tree.best_individual)),
                safe(lambda: [ind_key(i) for i in tree.all_individuals]),
                safe(lambda: [ind_key(i) for i in tree.r5s_solutions]),
                [(d.id, safe(lambda: ind_key(d.best_individual)), safe(lambda: ind_key(d.best_current_individual)), safe(lambda: None if d.centroid is None else tuple(float(t) for t in d.centroid)), safe(lambda: tuple(sorted(d.best_fitness_by_metaepoch.items())))) for _, d in tree.all_demes],
            )

        acc1 = acc()
        acc2 = acc()
        if acc1 != acc2:
            viol.append(V("C20/accessor-not-repeatable", f"boundary {tree.metaepoch_count}: a query accessor gives different answers when called twice"))
        after = _state_digest(run, tree)
        if after[1] != before[1]:
            viol.append(V("C20/report-evaluated-objective", f"boundary {tree.metaepoch_count}: reporting/accessors invoked the objective {after[1]-before[1]} times"))
        if after[0] != before[0] or before[0].get("report_side_effect") or after[0].get("report_side_effect"):
            viol.append(V("C20/report-changed-state", f"boundary {tree.metaepoch_count}: reporting/accessors changed the observable state of the tree"))
        if after[2] != before[2] or after[3] != before[3]:
            viol.append(V("C20/report-consumed-randomness", f"boundary {tree.metaepoch_count}: reporting/accessors changed a global random generator state"))
        # ---- agreement with the tree
        snap = before[0]
        demes = {d["id"]: d for d in snap["demes"]}
        allf = [f for d in snap["demes"] for g in d["hist"] for _, f in g]
        gbest = best_of(mx, allf) if allf else None
        ps = parse_summary(s1)
        want = {"metaepoch": str(snap["metaepoch"]), "evals": str(snap["n_evals"]), "demes": str(len(snap["demes"])), "best": f"{gbest:.4e}"}
        for k, v in want.items():
            if ps.get(k) != v:
                viol.append(V("C20/summary-header", f"boundary {snap['metaepoch']}: summary reports {k}={ps.get(k)}, tree state says {v}"))
        nlev = len(snap["levels"])
        for l in range(nlev):
            ds = [d for d in snap["demes"] if d["level"] == l]
            if l >= len(ps["levels"]):
                viol.append(V("C20/summary-level-missing", f"summary has no section for level {l+1}"))
                continue
            lv = ps["levels"][l]
            if not ds:
                if not lv["none"]:
                    viol.append(V("C20/summary-level", f"level {l+1} has no demes but summary does not say so"))
                continue
            lf = [f for d in ds for g in d["hist"] for _, f in g]
            w = {"evals": str(sum(d["n_evals"] for d in ds)), "demes": str(len(ds)), "best": f"{best_of(mx, lf):.4e}"}
            for k, v in w.items():
                if lv.get(k) != v:
                    viol.append(V("C20/summary-level", f"boundary {snap['metaepoch']}: level {l+1} summary reports {k}={lv.get(k)}, tree state says {v}"))
        lines = parse_tree(t1)
        bad = [x for x in lines if "raw" in x]
        if bad:
            viol.append(V("C20/tree-line-format", f"unparseable tree() line: {bad[0]['raw'][:120]}"))
        shown = [x for x in lines if "raw" not in x]
        # expected lines: root, then depth-first every deme that has run >= 1 metaepoch (under displayed parents)
        exp = []

        def walk(did):
            for c in demes[did]["children"]:
                if c in demes and demes[c]["metaepochs"] >= 1:
                    exp.append(c)
                    walk(c)

        exp.append("root")
        walk("root")
        got_ids = [x["id"] for x in shown]
        if got_ids != exp:
            viol.append(V("C20/tree-lines", f"boundary {snap['metaepoch']}: tree() shows demes {got_ids}, expected root + every deme that has run: {exp}"))
        must = {d["id"] for d in snap["demes"] if d["id"] == "root" or d["metaepochs"] >= 1}
        # "has run" as the tracer saw it (a completed run_metaepoch call), independent of the deme's own counter
        ran = {e[1] for e in run.ev if e[0] == "RUN_END"}
        missing = sorted(i for i in ran if i not in set(got_ids) and i in demes and all(a in ran or a == "root" for a in _ancestors(i)))
        if missing:
            viol.append(V("C20/ran-but-no-line", f"boundary {snap['metaepoch']}: demes {missing} have run a metaepoch (and so have their ancestors) but tree() has no line for them"))
        if set(got_ids) != must:
            viol.append(V("C20/tree-lines", f"boundary {snap['metaepoch']}: displayed {sorted(got_ids)} but the demes that have run are {sorted(must)}"))
        for x in shown:
            d = demes.get(x["id"])
            if d is None:
                continue
            if int(x["evals"]) != d["n_evals"]:
                viol.append(V("C20/tree-evals", f"deme {x['id']}: line says evals: {x['evals']}, deme counter {d['n_evals']}"))
            if x["cls"] != d["cls"]:
                viol.append(V("C20/tree-class", f"deme {x['id']}: line says {x['cls']}, deme is a {d['cls']}"))
            df = [f for g in d["hist"] for _, f in g]
            is_best = bool(df) and best_of(mx, df) == gbest
            if (x["mark"].strip() == "***") != is_best:
                viol.append(V("C20/marker", f"boundary {snap['metaepoch']}: deme {x['id']} marker={x['mark'].strip()!r} but its best fitness {best_of(mx, df) if df else None} vs global best {gbest}"))
            if df and x["fit"] != f"{best_of(mx, df):.2e}":
                viol.append(V("C20/tree-fitness", f"deme {x['id']}: line shows {x['fit']}, deme best {best_of(mx, df):.2e}"))

    return on_boundary


def ind_key(i):
    return None if i is None else (tuple(float(t) for t in i.genome), float(i.fitness))
