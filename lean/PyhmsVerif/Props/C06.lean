import PyhmsVerif.Proofs.TreeSteps
/-!
# C06 — deme life-cycle: stopping is final, histories are append-only

Statements are about *every* state reachable by *any* event sequence the model accepts
(`exec t evs = .ok t'`): all configurations, engines, stop conditions, sprouting patterns.
Demes are tracked positionally (creation order), so the theorems do not depend on ids.
-/
namespace C06
open Tree

/-- how an old deme relates to itself in any later state -/
structure Later (d d' : Deme) : Prop where
  id : d'.id = d.id
  level : d'.level = d.level
  startedAt : d'.startedAt = d.startedAt
  seed : d'.seed = d.seed
  /-- once inactive, never reactivated -/
  neverReactivated : d.active = false → d'.active = false
  /-- an inactive deme's history and evaluation counter never change again -/
  frozen : d.active = false → d'.hist = d.hist ∧ d'.counter = d.counter
  /-- recorded metaepochs are never altered or dropped: the history only grows at the end -/
  appendOnly : ∃ ext, d'.hist = d.hist ++ ext
  counterMono : d.counter ≤ d'.counter

theorem later_of_demeStep {d d' : Deme} (h : DemeStep d d') : Later d d' :=
  ⟨h.id, h.level, h.startedAt, h.seed,
    fun ha => by cases hb : d'.active with
      | false => rfl
      | true => have := h.activeMono hb; simp [ha] at this,
    h.frozen, h.histGrows, h.counterMono⟩

/-- **Stopping is final; history is append-only.**  In every later state of every run the
demes that already existed are still there, in the same positions, each related to its
earlier self by `Later`; demes created in between are appended after them. -/
theorem C06_absorbing {t t' : T} {evs : List Ev} (h : exec t evs = .ok t') :
    ∃ old new, t'.demes = old ++ new ∧ List.Forall₂ Later t.demes old := by
  obtain ⟨old, new, hd, hf⟩ := exec_ext h
  exact ⟨old, new, hd, forall2_imp (fun _ _ hab => later_of_demeStep hab) hf⟩

/-- a generation or a local search never creates or removes a deme and never touches the
metaepoch counter or the level registration -/
theorem C06_running_frame {t t' : T} {id : Id} {g : GenEnv} {l : Option Bool}
    (h : step t (.gen id g l) = .ok t') :
    t'.demes.length = t.demes.length ∧ t'.metaepoch = t.metaepoch ∧ t'.levels = t.levels := by
  have e := stepGen_effect h
  exact ⟨(forall2_length e.demes).symm, e.metaepoch, e.levels⟩

/-- only an active deme can perform a generation; a local deme is inactive after its search -/
theorem C06_only_active_runs {t t' : T} {id : Id} {g : GenEnv} {l : Option Bool}
    (h : step t (.gen id g l) = .ok t') : ∃ d, t.find id = some d ∧ d.active = true := by
  simp only [step, stepGen] at h
  split at h
  · simp at h
  · rename_i q done pending d lc hp
    exact ⟨d, (prepareGen_ok hp).1, (prepareGen_ok hp).2.1⟩

/-- a deme created by a sprouting round starts awake, active, with the current metaepoch as
its start, and the run is back at the loop head: it cannot run before the next step -/
theorem C06_new_runs_next {t t' : T} {ge : Option Bool} {renv : Sprout.Env} {news : List NewEnv}
    (h : step t (.round ge renv news) = .ok t') :
    t'.pc = .head ∧ ∃ old new, t'.demes = old ++ new ∧ old.length = t.demes.length ∧
      ∀ d ∈ new, d.active = true ∧ d.startedAt = t.metaepoch := by
  obtain ⟨_, _, _, hpc, _, _, hcase⟩ := stepRound_effect h
  refine ⟨hpc, ?_⟩
  rcases hcase with ⟨hd, _, _, _, _⟩ | ⟨_, _, _, seeds, t1, _, se, _, rfl⟩
  · exact ⟨t'.demes, [], by simp, by rw [hd], by simp⟩
  · obtain ⟨old, nd, hd, hf, hnew⟩ := se.demes
    have hu := updateHibernation_forall2 t1 (seeds.map (·.deme))
    rw [hd] at hu
    -- hibernation only rewrites `hib`
    have hlen := forall2_length hu
    refine ⟨(updateHibernation t1 (seeds.map (·.deme))).demes.take old.length,
      (updateHibernation t1 (seeds.map (·.deme))).demes.drop old.length, by simp, ?_, ?_⟩
    · simp only [List.length_take]
      have := forall2_length hf
      simp only [List.length_append] at hlen
      omega
    · intro d hd'
      -- d is the image of some new deme under a `hib`-only rewrite
      have hsplit : List.Forall₂ (fun d d' => ∃ h, d' = { d with hib := h }) nd
          ((updateHibernation t1 (seeds.map (·.deme))).demes.drop old.length) := by
        generalize (updateHibernation t1 (seeds.map (·.deme))).demes = res at hu
        clear hlen hd' hf hd
        induction old generalizing res with
        | nil => simpa using hu
        | cons a as ih =>
          cases hu with
          | cons _ htl => simpa using ih _ htl
      obtain ⟨a, ha, b, rfl⟩ := forall2_mem_right hsplit d hd'
      obtain ⟨p, _, hp⟩ := forall2_mem_right' hnew a ha
      exact ⟨hp.1, hp.2.2.1⟩
where
  forall2_mem_right' {l1 : List (Id × Ind)} {l2 : List Deme} {R : Id × Ind → Deme → Prop}
      (h : List.Forall₂ R l1 l2) : ∀ b ∈ l2, ∃ a ∈ l1, R a b := by
    induction h with
    | nil => intro b hb; simp at hb
    | cons hab _ ih =>
      intro b hb
      rcases List.mem_cons.mp hb with rfl | hb
      · exact ⟨_, by simp, hab⟩
      · obtain ⟨a, ha, hr⟩ := ih b hb
        exact ⟨a, List.mem_cons_of_mem _ ha, hr⟩

end C06
