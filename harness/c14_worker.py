"""Worker of the C14 check: runs the given specs (JSON list on stdin) untraced in this
process — after polluting both global random generators in a process-specific way — and
prints one digest per spec.  Started with different PYTHONHASHSEED values by c14.py."""
import hashlib
import json
import os
import random
import sys

HERE = os.path.dirname(os.path.dirname(os.path.abspath(__file__)))
sys.path.insert(0, HERE)
from harness import common  # noqa: E402

common.use_repo()
import numpy as np  # noqa: E402

from harness import runs as R  # noqa: E402


def digest_of(spec, pollute, holder=None):
    """holder: a dict shared by consecutive calls — the sprout mechanism object built by the first call serves
    the later ones too (a user running one configured mechanism more than once in a process)"""
    import pyhms.tree as T
    from pyhms.config import TreeConfig

    random.seed(pollute)
    np.random.seed(pollute % (2**32))
    for _ in range(pollute % 7):
        random.random()
        np.random.rand()
    o = R.build(spec, None, plain="callable", reuse_sm=None if holder is None else holder.get("sm"))
    if holder is not None:
        holder["sm"] = o["sm"]
    opts = {"random_seed": spec["seed"], "hibernation": spec["hibernation"]}
    if not spec["hibernation"] and spec["seed"] % 2 == 0:
        del opts["hibernation"]  # an omitted option is its default (off), whatever other configurations of the process said
    tree = T.DemeTree(TreeConfig(o["levels"], o["gsc"], o["sm"], options=opts, config_class_to_deme_class=o["custom"]))
    after_init = hashlib.sha1(np.random.get_state()[1].tobytes() + repr(random.getstate()).encode()).hexdigest()[:12]
    steps = 0
    while not tree._gsc(tree) and steps < spec["max_steps"]:
        tree.run_step()
        steps += 1
    snap = R.snap_tree(tree, [])
    return {"rng_after_init": after_init, "tree": hashlib.sha1(repr(snap).encode()).hexdigest()[:16], "demes": len(snap["demes"]), "evals": snap["n_evals"], "steps": steps}


if __name__ == "__main__":
    specs = json.load(sys.stdin)
    pollute = int(sys.argv[1])
    out = []
    for s in specs:
        try:
            from harness.common import run_limit

            with run_limit(60):
                out.append(digest_of(s, pollute))
        except Exception as e:
            out.append({"error": f"{type(e).__name__}: {e}"})
    print(json.dumps(out))
