import PyhmsVerif.Props.C02
import PyhmsVerif.Props.C04Obs
/-!
# C02 — stored fitness is what the objective returned

`EvLog`: every individual recorded as *evaluated* in any generation (recorded or in progress)
of any deme is either a logged invocation of the objective by that deme — same point, same
value — or carries the sentinel of a request refused by an exhausted budget.  Together with
`C02_stored_evaluated` (every stored individual was evaluated, or is a sentinel carrier, or
the deme's seed): **every stored fitness value is a value the objective returned at that very
point** (`C02_stored_is_objective_value`).
-/
namespace C02
open Tree

/-- an evaluated individual is backed by an objective invocation of deme `id`, or is a sentinel -/
def Backed (t : T) (id : Id) (lvl : Nat) (e : Ind) : Prop :=
  (∃ inv ∈ t.log, inv.deme = id ∧ inv.level = lvl ∧ inv.x = e.genome ∧ inv.v = e.fit) ∨
    e.fit = Fit.sentinel t.cfg.maximize

def EvLog (t : T) : Prop :=
  ∀ d ∈ t.demes, ∀ g ∈ d.gens ++ C04.pendOf t d.id, ∀ e ∈ g.evald, Backed t d.id d.level e

theorem Backed.mono {t t' : T} {id : Id} {lvl : Nat} {e : Ind} (hc : t'.cfg = t.cfg) (hl : ∃ ext, t'.log = t.log ++ ext)
    (h : Backed t id lvl e) : Backed t' id lvl e := by
  obtain ⟨ext, hext⟩ := hl
  rcases h with ⟨inv, hi, h1⟩ | hs
  · exact Or.inl ⟨inv, by rw [hext]; exact List.mem_append_left _ hi, h1⟩
  · exact Or.inr (by rw [hc]; exact hs)

/-- every individual returned by a list of requests is a logged invocation or a sentinel -/
theorem evalReqs_backed {t t' : T} {id : Id} {lvl : Nat} {counts : Bool} {rs : List Req} {is : List Ind}
    (h : evalReqs t id lvl counts rs = .ok (t', is)) : ∀ e ∈ is, Backed t' id lvl e := by
  induction rs generalizing t is with
  | nil =>
    simp only [evalReqs, Except.ok.injEq, Prod.mk.injEq] at h
    obtain ⟨rfl, rfl⟩ := h
    intro e he; simp at he
  | cons r rs ih =>
    simp only [evalReqs, bind, Except.bind] at h
    split at h
    · simp at h
    · rename_i p hp
      obtain ⟨t1, i1⟩ := p
      split at h
      · simp at h
      · rename_i q hq
        obtain ⟨t2, is2⟩ := q
        simp only [pure, Except.pure, Except.ok.injEq, Prod.mk.injEq] at h
        obtain ⟨rfl, rfl⟩ := h
        have e2 := evalReqs_effect hq
        have e1 := evalReq_effect hp
        intro e he
        rcases List.mem_cons.mp he with rfl | he
        · -- the first request
          obtain ⟨hg, hsome, hnone⟩ := eval_value hp
          have hmono : Backed t1 id lvl e → Backed t2 id lvl e := by
            intro hb
            obtain ⟨invs, hl, _⟩ := e2.log
            exact Backed.mono e2.cfg ⟨invs, hl⟩ hb
          apply hmono
          cases hv : r.v with
          | some v =>
            obtain ⟨hf, hlog⟩ := hsome v hv
            exact Or.inl ⟨⟨lvl, id, r.x, v⟩, by rw [hlog]; simp, rfl, rfl, hg.symm, hf.symm⟩
          | none =>
            right
            rw [(hnone hv).1, e1.cfg]
        · exact ih hq e he

theorem evlog_of_rel {R : Deme → Deme → Prop} (hR : ∀ a b, R a b → b.id = a.id ∧ b.hist = a.hist ∧ b.level = a.level)
    {t t' : T} {ds' : List Deme} (hc : t'.cfg = t.cfg) (hl : ∃ ext, t'.log = t.log ++ ext)
    (hp : ∀ id, C04.pendOf t' id = C04.pendOf t id) (hinv : EvLog t) (hf : List.Forall₂ R t.demes ds') :
    ∀ d ∈ ds', ∀ g ∈ d.gens ++ C04.pendOf t' d.id, ∀ e ∈ g.evald, Backed t' d.id d.level e := by
  intro d hd g hg e he
  obtain ⟨a, ha, hr⟩ := forall2_mem_right hf d hd
  obtain ⟨hi, hh, hlv⟩ := hR a d hr
  have : d.gens = a.gens := by simp [Deme.gens, hh]
  rw [this, hp, hi] at hg
  rw [hi, hlv]
  exact Backed.mono hc hl (hinv a ha g hg e he)

theorem stepGen_evlog {t t' : T} {id : Id} {g : GenEnv} {l : Option Bool} (hw : C07.WF t) (hinv : EvLog t)
    (h : stepGen t id g l = .ok t') : EvLog t' := by
  unfold stepGen at h
  split at h
  · simp at h
  · rename_i q done pending d0 lc hprep
    obtain ⟨hfind, _, _, _, _⟩ := prepareGen_ok hprep
    obtain ⟨hpend, hpother⟩ := C04.prepareGen_pendOf hprep
    obtain ⟨hd0mem, hd0id⟩ := find_some_mem hfind
    simp only [] at h
    split at h
    · simp at h
    · rename_i t1 ev hev
      split at h
      · simp at h
      · have e := evalReqs_effect hev
        have hback := evalReqs_backed hev
        obtain ⟨f, hd, hfid, hflev, ⟨hcfgf, hlogf⟩, hcase⟩ := C06.finishGen_hist h
        obtain ⟨k, hdem⟩ : ∃ k, t'.demes = updFirst id (f ∘ bump k) t.demes :=
          ⟨_, by rw [hd, e.demes, updFirst_comp id f (bump _) t.demes (fun _ => rfl)]⟩
        have hcfg' : t'.cfg = t.cfg := hcfgf.trans e.cfg
        have hlog' : ∃ ext, t'.log = t.log ++ ext := by
          obtain ⟨invs, hl, _⟩ := e.log
          exact ⟨invs, by rw [hlogf, hl]⟩
        have hmono1 : ∀ {id' : Id} {lv : Nat} {x : Ind}, Backed t1 id' lv x → Backed t' id' lv x := by
          intro id' lv x hb
          exact Backed.mono hcfgf ⟨[], by rw [hlogf]; simp⟩ hb
        have hmono : ∀ {id' : Id} {lv : Nat} {x : Ind}, Backed t id' lv x → Backed t' id' lv x := fun hb => Backed.mono hcfg' hlog' hb
        intro d' hd' g' hg' x hx
        rw [hdem] at hd'
        rcases C04.mem_updFirst hd' with hold | ⟨d0', hf0, rfl⟩
        · -- an untouched deme
          by_cases hdi : d'.id = id
          · -- same id as the running deme: by uniqueness it *is* the running deme — but that one was replaced
            have hu := C07.find_unique hw hold
            rw [hdi, hfind] at hu
            have hdd : d0 = d' := Option.some.inj hu
            subst hdd
            -- d0 itself is still in the list only if it equals its own update; use its old facts
            have hpend' : ∀ g0, g0 ∈ C04.pendOf t' id → g0 ∈ pending ++ [⟨g.pop, ev⟩] := by
              intro g0 hg0
              rcases hcase with ⟨_, hpc⟩ | ⟨_, hpc⟩
              · simpa [C04.pendOf, hpc] using hg0
              · rw [C04.pendOf_finish t' q hpc] at hg0; simp at hg0
            rw [hdi] at hg'
            rcases List.mem_append.mp hg' with hg' | hg'
            · rw [hdi]
              exact hmono (by rw [← hdi]; exact hinv d0 hold g' (List.mem_append_left _ hg') x hx)
            · rcases List.mem_append.mp (hpend' g' hg') with hgp | hgn
              · rw [hdi]
                exact hmono (by rw [← hdi]; exact hinv d0 hold g' (List.mem_append_right _ (by rw [hdi, hpend]; exact hgp)) x hx)
              · simp only [List.mem_singleton] at hgn
                subst hgn
                rw [hdi]
                exact hmono1 (hback x hx)
          · have hp' : C04.pendOf t' d'.id = [] := by
              rcases hcase with ⟨_, hpc⟩ | ⟨_, hpc⟩
              · have : (id == d'.id) = false := by simpa using fun h => hdi h.symm
                simp [C04.pendOf, hpc, this]
              · exact C04.pendOf_finish t' q hpc _
            rw [hp', List.append_nil] at hg'
            exact hmono (hinv d' hold g' (List.mem_append_left _ hg') x hx)
        · -- the running deme after the step
          have hd0' : d0' = d0 := by
            have : t.find id = some d0' := hf0
            rw [hfind] at this
            exact (Option.some.inj this).symm
          subst hd0'
          have hFid : ((f ∘ bump k) d0').id = id := by simp [hfid, bump, hd0id]
          have hFlev : ((f ∘ bump k) d0').level = d0'.level := by simp [hflev, bump]
          rw [hFid] at hg'
          rw [hFid, hFlev]
          have hall : g' ∈ d0'.gens ++ pending ++ [⟨g.pop, ev⟩] := by
            rcases hcase with ⟨hh, hpc⟩ | ⟨hh, hpc⟩
            · have h1 : ((f ∘ bump k) d0').gens = d0'.gens := by simp [Deme.gens, hh, bump]
              have h2 : C04.pendOf t' id = pending ++ [⟨g.pop, ev⟩] := by simp [C04.pendOf, hpc]
              rw [h1, h2, ← List.append_assoc] at hg'
              exact hg'
            · have h1 : ((f ∘ bump k) d0').gens = d0'.gens ++ (pending ++ [⟨g.pop, ev⟩]) := by
                simp [Deme.gens, hh, bump, List.flatten_append]
              rw [h1, C04.pendOf_finish t' q hpc, List.append_nil, ← List.append_assoc] at hg'
              exact hg'
          rcases List.mem_append.mp hall with hgo | hgn
          · have := hinv d0' hd0mem g' (by rw [hd0id, hpend]; exact hgo) x hx
            rw [hd0id] at this
            exact hmono this
          · simp only [List.mem_singleton] at hgn
            subst hgn
            exact hmono1 (hback x hx)


theorem stepLocal_evlog {t t' : T} {id : Id} {reqs : List Req} {its : List Ind} {nfev : Nat} (hw : C07.WF t)
    (hinv : EvLog t) (h : stepLocal t id reqs its nfev = .ok t') : EvLog t' := by
  unfold stepLocal at h
  split at h
  · rename_i qid q hpc
    have hp0 : ∀ id', C04.pendOf t id' = [] := by intro id'; simp [C04.pendOf, hpc]
    split at h
    · simp at h
    · split at h
      · simp at h
      · rename_i d0 hfind
        obtain ⟨hd0mem, hd0id⟩ := find_some_mem hfind
        split at h
        · simp at h
        · split at h
          · simp at h
          · split at h
            · simp at h
            · split at h
              · simp at h
              · rename_i t1 ev hev
                split at h
                · simp at h
                · simp only [] at h
                  split at h
                  · simp at h
                  · simp only [Except.ok.injEq] at h
                    subst h
                    have e := evalReqs_effect hev
                    have hback := evalReqs_backed hev
                    have hlog' : ∃ ext, t1.log = t.log ++ ext := by
                      obtain ⟨invs, hl, _⟩ := e.log
                      exact ⟨invs, hl⟩
                    have hmono : ∀ {id' : Id} {lv : Nat} {x : Ind}, Backed t id' lv x → Backed t1 id' lv x :=
                      fun hb => Backed.mono e.cfg hlog' hb
                    intro d' hd' g' hg' x hx
                    have hp1 : C04.pendOf
                        ({ t1.update id fun d => { d with counter := d.counter + nfev, hist := d.hist ++ [[⟨its, ev⟩]], active := false } with
                            pc := finish q } : T) d'.id = [] := C04.pendOf_finish _ q rfl _
                    rw [hp1, List.append_nil] at hg'
                    simp only [T.update] at hd'
                    rw [e.demes, updFirst_comp id _ (bump _) t.demes (fun _ => rfl)] at hd'
                    show Backed t1 d'.id d'.level x
                    rcases C04.mem_updFirst hd' with hold | ⟨d0', hf0, rfl⟩
                    · exact hmono (hinv d' hold g' (List.mem_append_left _ hg') x hx)
                    · have hd0' : d0' = d0 := by
                        have : t.find id = some d0' := hf0
                        rw [hfind] at this
                        exact (Option.some.inj this).symm
                      subst hd0'
                      simp only [Function.comp, Deme.gens, bump, List.flatten_append, List.flatten_cons,
                        List.flatten_nil, List.append_nil] at hg' ⊢
                      rcases List.mem_append.mp hg' with hgo | hgn
                      · exact hmono (hinv d0' hd0mem g' (List.mem_append_left _ hgo) x hx)
                      · simp only [List.mem_singleton] at hgn
                        subst hgn
                        rw [hd0id]
                        exact hback x hx
  · simp at h

/-- the only generation of a freshly created deme holds individuals backed by the log (or sentinels) -/
theorem createDeme_backed {t t' : T} {parent : Option Deme} {seed : Option Ind} {env : NewEnv}
    (h : createDeme t parent seed env = .ok t') :
    ∀ d g, t'.demes.getLast? = some d → d.hist = [[g]] → ∀ e ∈ g.evald, Backed t' d.id d.level e := by
  unfold createDeme at h
  simp only [] at h
  split at h
  · simp at h
  · rename_i lc hlc
    split at h
    · simp at h
    · rename_i t1 ev0 hev
      split at h
      · simp at h
      · simp only [Except.ok.injEq] at h
        subst h
        have e1 := evalReqs_effect hev
        have hback := evalReqs_backed hev
        intro d g hlast hhist e he
        simp only [List.getLast?_append, List.getLast?_singleton, Option.some_or, Option.some.injEq] at hlast
        subst hlast
        simp only [List.cons.injEq, and_true] at hhist
        subst hhist
        simp only [List.mem_append] at he
        rcases he with he | he
        · rcases hback e he with ⟨inv, hi, h1⟩ | hs
          · exact Or.inl ⟨inv, hi, h1⟩
          · exact Or.inr hs
        · right
          split at he
          · simp only [List.mem_filter, beq_iff_eq] at he
            show e.fit = Fit.sentinel t1.cfg.maximize
            rw [e1.cfg]; exact he.2
          · simp at he

theorem create_evlog {t t' : T} {parent : Option Deme} {seed : Option Ind} {env : NewEnv}
    (hp0 : ∀ id, C04.pendOf t id = [])
    (hinv : EvLog t) (h : createDeme t parent seed env = .ok t') : EvLog t' := by
  have ce := createDeme_effect h
  obtain ⟨old, dn, hd, hf, _, _, ⟨g0, hg0, _⟩, _⟩ := ce.demes
  obtain ⟨invs, hlog, _⟩ := ce.logged
  have hpend : ∀ id, C04.pendOf t' id = C04.pendOf t id := by intro id; simp [C04.pendOf, ce.pc]
  intro d hdm g hg e he
  rw [hd] at hdm
  rcases List.mem_append.mp hdm with hdm | hdm
  · exact evlog_of_rel (R := SameBC) (fun a b hab => by obtain ⟨cs, rfl⟩ := hab; exact ⟨rfl, rfl, rfl⟩)
      ce.cfg ⟨invs, hlog⟩ hpend hinv hf d hdm g hg e he
  · simp only [List.mem_singleton] at hdm
    subst hdm
    rw [hpend, hp0, List.append_nil] at hg
    have hlast : t'.demes.getLast? = some d := by rw [hd]; simp
    have : d.gens = [g0] := by simp [Deme.gens, hg0]
    rw [this] at hg
    simp only [List.mem_singleton] at hg
    subst hg
    exact createDeme_backed h d g hlast hg0 e he

theorem sprout_evlog {t t' : T} {flat : List (Id × Ind)} {news : List NewEnv}
    (hp0 : ∀ id, C04.pendOf t id = []) (hinv : EvLog t) (h : doSprout t flat news = .ok t') : EvLog t' := by
  induction flat generalizing t news with
  | nil =>
    cases news with
    | nil => simp only [doSprout, Except.ok.injEq] at h; subst h; exact hinv
    | cons e es => simp [doSprout] at h
  | cons ps rest ih =>
    obtain ⟨pid, s⟩ := ps
    cases news with
    | nil => simp [doSprout] at h
    | cons e es =>
      simp only [doSprout] at h
      split at h
      · simp at h
      · split at h
        · simp at h
        · rename_i t1 hc
          have hp1 : ∀ id, C04.pendOf t1 id = [] := by
            intro id; simp only [C04.pendOf, (createDeme_effect hc).pc]; exact hp0 id
          exact ih hp1 (create_evlog hp0 hinv hc) h

/-- **the invariant is inductive** (on well-formed trees) -/
theorem step_evlog {t t' : T} {ev : Ev} (hw : C07.WF t) (hinv : EvLog t) (h : step t ev = .ok t') : EvLog t' := by
  cases ev with
  | gen id g l => exact stepGen_evlog hw hinv h
  | localRun id reqs its nfev => exact stepLocal_evlog hw hinv h
  | loop ge =>
    have hhead : t.pc = .head := by
      simp only [step, stepLoop] at h
      split at h
      · assumption
      · simp at h
    obtain ⟨hc, hd, _, hlog, _, _, _, _⟩ := stepLoop_effect h
    have hp1 : ∀ id, C04.pendOf t' id = [] := by
      intro id
      simp only [step, stepLoop, hhead] at h
      split at h
      · simp at h
      · simp only [Except.ok.injEq] at h; subst h; rfl
      · split at h
        · simp at h
        · simp only [Except.ok.injEq] at h; subst h
          exact C04.pendOf_finish _ _ rfl id
    intro d hdm g hg e he
    rw [hd] at hdm
    rw [hp1, List.append_nil] at hg
    exact Backed.mono hc ⟨[], by rw [hlog]; simp⟩ (hinv d hdm g (List.mem_append_left _ hg) e he)
  | round ge renv news =>
    obtain ⟨hcfg, _, hpost, hpc, _, _, hcase⟩ := stepRound_effect h
    have hp0 : ∀ id, C04.pendOf t id = [] := by intro id; simp [C04.pendOf, hpost]
    have hp1 : ∀ id, C04.pendOf t' id = [] := by intro id; simp [C04.pendOf, hpc]
    rcases hcase with ⟨hd, _, hlog, _⟩ | ⟨_, _, _, seeds, t1, _, se, hds, rfl⟩
    · intro d hdm g hg e he
      rw [hd] at hdm
      rw [hp1, List.append_nil] at hg
      exact Backed.mono hcfg ⟨[], by rw [hlog]; simp⟩ (hinv d hdm g (List.mem_append_left _ hg) e he)
    · have h1 := sprout_evlog hp0 hinv hds
      have hu := updateHibernation_forall2 t1 (seeds.map (·.deme))
      obtain ⟨f1, _, f3, _⟩ := updateHibernation_frame t1 (seeds.map (·.deme))
      have hp2 : ∀ id, C04.pendOf t1 id = [] := by
        intro id
        have : t1.pc = .post := by rw [se.pc]; exact hpost
        simp [C04.pendOf, this]
      intro d hdm g hg e he
      have := evlog_of_rel (R := fun d d' => ∃ h, d' = { d with hib := h })
        (fun a b hab => by obtain ⟨hb, rfl⟩ := hab; exact ⟨rfl, rfl, rfl⟩)
        (t := t1) (t' := { updateHibernation t1 (seeds.map (·.deme)) with pc := .head })
        f1 ⟨[], by simp [f3]⟩ (fun id => by rw [hp2]; rfl) h1 hu d hdm g hg e he
      exact this

theorem exec_evlog {t t' : T} {evs : List Ev} (hw : C07.WF t) (hinv : EvLog t) (h : exec t evs = .ok t') :
    EvLog t' := by
  induction evs generalizing t with
  | nil => simp only [exec, Except.ok.injEq] at h; subst h; exact hinv
  | cons e es ih =>
    simp only [exec, bind, Except.bind] at h
    split at h
    · simp at h
    · rename_i t1 h1
      exact ih (C07.step_wf hw h1) (step_evlog hw hinv h1) h

theorem init_evlog {cfg : Cfg} {stks : List (List Problem.Wrapper)} {rootEnv : NewEnv} {t0 : T}
    (hi : init cfg stks rootEnv = .ok t0) : EvLog t0 := by
  unfold init at hi
  exact create_evlog (fun id => rfl) (by intro d hd; simp at hd) hi

/-- **C02 — every stored fitness value is a value the objective returned at that point.**  In
every state reachable from a freshly constructed tree, every individual stored in any
generation of any deme either (a) is backed by a logged invocation of the objective *by that
deme* at exactly its genome that returned exactly its fitness, or (b) carries the sentinel of
a request refused by an exhausted evaluation budget, or (c) is the deme's own sprout seed
(a local deme starts from its seed without evaluating it). -/
theorem C02_stored_is_objective_value {cfg : Cfg} {stks : List (List Problem.Wrapper)} {rootEnv : NewEnv} {t0 t : T}
    {evs : List Ev} (hi : init cfg stks rootEnv = .ok t0) (h : exec t0 evs = .ok t) :
    ∀ d ∈ t.demes, ∀ G ∈ d.gens, ∀ i ∈ G.inds,
      (∃ inv ∈ t.log, inv.deme = d.id ∧ inv.level = d.level ∧ inv.x = i.genome ∧ inv.v = i.fit) ∨
      i.fit = Fit.sentinel t.cfg.maximize ∨ d.seed = some i := by
  have hev := exec_evlog (C07.init_wf hi) (init_evlog hi) h
  intro d hd G hG i hi'
  rcases C02_stored_evaluated hi h d hd G hG i hi' with ⟨G', hG', hmem⟩ | hs | hseed
  · rcases hev d hd G' (List.mem_append_left _ hG') i hmem with hb | hs
    · exact Or.inl hb
    · exact Or.inr (Or.inl hs)
  · exact Or.inr (Or.inl hs)
  · exact Or.inr (Or.inr hseed)

end C02
