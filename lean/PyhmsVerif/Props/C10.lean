import PyhmsVerif.Proofs.SproutLemmas
import PyhmsVerif.Proofs.SelectLemmas
import PyhmsVerif.Props.C08
/-!
# C10 — sprout candidates come from the right populations; filters keep the best

Mechanism level (`Model/Sprout.lean`), for all views, candidate sets, limits, directions
and compositions of filters.
-/
namespace C10
open Sprout Select

/-- **Candidates come only from non-leaf demes of the tree**, and name their parent's level
(all three generators). -/
theorem gen_sources {v : View} {env : Env} {g : Generator} {cs : List Cand}
    (h : generate v env g = some cs) :
    ∀ c ∈ cs, ∃ d ∈ v.demes, c.deme = d.id ∧ c.level = d.level ∧ d.level + 1 < v.height :=
  C08.generate_ok h

/-- **BestPerDeme proposes exactly the current best of an active non-leaf deme**: one
individual, a member of the current population, at least as good as every member. -/
theorem bestPerDeme_is_best {v : View} {env : Env} {cs : List Cand}
    (h : generate v env .bestPerDeme = some cs) :
    ∀ c ∈ cs, ∃ d ∈ v.demes, d.active = true ∧ d.level + 1 < v.height ∧ c.deme = d.id ∧
      ∃ b, c.inds = [b] ∧ b ∈ d.pop ∧ ∀ x ∈ d.pop, better v.maximize x b = false := by
  simp only [generate, Option.some.injEq] at h
  subst h
  intro c hc
  simp only [List.mem_filterMap, List.mem_filter, Bool.and_eq_true, decide_eq_true_eq] at hc
  obtain ⟨d, ⟨hd, hlv, hact⟩, hb⟩ := hc
  simp only [Option.map_eq_some_iff] at hb
  obtain ⟨b, hbest, rfl⟩ := hb
  exact ⟨d, hd, hact, hlv, rfl, b, rfl, best_mem hbest, best_not_worse hbest⟩

/-- **Filters only ever remove candidates** — each filter, and any chain in any order. -/
theorem filter_shrinks {v : View} {env : Env} {fs : List Filter} {cs out : List Cand}
    (h : applyFilters v env fs cs = some out) : Shrinks cs out :=
  applyFilters_shrinks h

/-- **DemeLimit keeps exactly `min(limit, available)`.** -/
theorem demeLimit_count (mx : Bool) (limit : Nat) (inds : List Ind) :
    (demeLimit mx limit inds).length = min limit inds.length :=
  demeLimit_length mx limit inds

theorem sortDesc_map_sorted (mx : Bool) (inds : List Ind) :
    ((NBC.sortDesc mx (inds.map fun i => (0, i))).map (·.2)).Pairwise fun a b => worse mx a b = false :=
  List.Pairwise.map _ (fun _ _ h => h) (NBC.sortDesc_sorted mx _)

/-- **DemeLimit keeps the best**: no dropped candidate is strictly better than a kept one
(every kept candidate is at least as good as every candidate in the dropped tail). -/
theorem demeLimit_best (mx : Bool) (limit : Nat) (inds : List Ind) (h : inds.length > limit) :
    ∀ k ∈ demeLimit mx limit inds,
      ∀ d ∈ ((NBC.sortDesc mx (inds.map fun i => (0, i))).map (·.2)).drop limit, better mx d k = false := by
  intro k hk d hd
  simp only [demeLimit, h, ↓reduceIte] at hk
  have hs := sortDesc_map_sorted mx inds
  rw [← List.take_append_drop limit ((NBC.sortDesc mx (inds.map fun i => (0, i))).map (·.2))] at hs
  have := (List.pairwise_append.mp hs).2.2 k hk d hd
  simpa [better, worse] using this

/-- **LevelLimit keeps the best**: a candidate removed by the cut is not strictly better
than the cut-off candidate, every kept one is. -/
theorem levelLimit_best (mx : Bool) (l : Nat) (cut : Ind) (c : Cand) (i : Ind) (hi : i ∈ c.inds) :
    (i ∈ c.inds.filter fun j => better mx j cut) ↔ better mx i cut = true := by
  simp [List.mem_filter, hi]

/-- **A chain containing `LevelLimit L` leaves at most the free slots per level** (C08). -/
theorem levelLimit_free_slots {v : View} {env : Env} {m : Mechanism} {seeds : List Cand} {L : Nat}
    (h : getSeeds v env m = some seeds) (hmem : Filter.levelLimit L ∈ m.demeFilters ++ m.treeFilters)
    (hact : ∀ l, l < v.height - 1 → v.activeAt (l + 1) ≤ L) :
    ∀ l, l < v.height - 1 → total l seeds ≤ L - v.activeAt (l + 1) :=
  getSeeds_levelLimit h hmem hact

/-- **LevelLimit does not cut when there is room**: if the candidates fit into the free
slots nothing is removed. -/
theorem levelLimit_no_cut (mx : Bool) (limit active l : Nat) (cs : List Cand)
    (h : active + (levelCands mx l cs).length ≤ limit) : levelLimitLevel mx limit active l cs = some cs := by
  simp only [levelLimitLevel, levelCut]
  have : ¬ (active + (levelCands mx l cs).length > limit) := by omega
  simp [this]

/-- the seeds already sprouted on the target level of a candidate, as SkipSameSprout sees them
(seeds of all children of all demes on the candidate's parent level) -/
def existingSeeds (v : View) (c : Cand) : List Ind :=
  (v.demes.filter fun k => ((v.level c.level).flatMap (·.children)).contains k.id).filterMap (·.seed)

/-- **SkipSameSprout is sound and complete** for every candidate whose parent already has
children: a candidate individual survives iff it is not numerically equal (`np.isclose` on
every coordinate) to any existing seed of the target level. -/
theorem skipSame_iff {v : View} {env : Env} {cs out : List Cand}
    (h : applyFilter v env .skipSame cs = some out) :
    List.Forall₂ (fun c c' => ∀ d, v.demes.find? (·.id == c.deme) = some d → d.children ≠ [] →
      ∀ i, i ∈ c'.inds ↔ (i ∈ c.inds ∧ ∀ s ∈ existingSeeds v c, sameGenome s.genome i.genome = false)) cs out := by
  simp only [applyFilter, Option.some.injEq] at h
  subst h
  induction cs with
  | nil => exact .nil
  | cons c cs ih =>
    refine .cons ?_ ih
    intro d hfind hch i
    have hne : d.children.isEmpty = false := by
      cases hcc : d.children with
      | nil => exact absurd hcc hch
      | cons a as => rfl
    simp only [hfind, hne, Bool.false_eq_true, ↓reduceIte, List.mem_filter, existingSeeds,
      Bool.not_eq_eq_eq_not, Bool.not_true, List.any_eq_false, Bool.not_eq_true]

/-- **MahalanobisFarEnough drops exactly the candidates inside an extension**: an individual
survives iff it was a candidate and no deme of the target level reports it inside its
extension (the in-extension verdicts are the environment's; non-CMA-ES demes report nothing). -/
theorem mahalanobis_iff {v : View} {env : Env} {cs out : List Cand}
    (h : applyFilter v env .mahalanobis cs = some out) :
    List.Forall₂ (fun c c' => c'.deme = c.deme ∧ c'.level = c.level ∧
      ∀ i, i ∈ c'.inds ↔ (i ∈ c.inds ∧ ∀ s ∈ v.level (c.level + 1), env.maha i.genome s.id ≠ some true)) cs out := by
  simp only [applyFilter, Option.some.injEq] at h
  subst h
  induction cs with
  | nil => exact .nil
  | cons c cs ih =>
    refine .cons ⟨rfl, rfl, fun i => ?_⟩ ih
    simp only [List.mem_filter, List.all_eq_true, bne_iff_ne, ne_eq]

end C10
