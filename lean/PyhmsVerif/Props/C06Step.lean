import PyhmsVerif.Props.C07
import PyhmsVerif.Props.C04
import PyhmsVerif.Props.C06
import Mathlib.Data.List.Nodup
/-!
# C06 — during a metaepoch every scheduled deme advances by exactly one metaepoch

`C06_one_metaepoch`: from a boundary state, after the loop-head consult came out false, *any*
accepted sequence of generation / local-search events that brings the run to the end of
`run_metaepoch` leaves every deme's recorded history exactly one metaepoch longer if the deme
was scheduled (active and not hibernating when the step began), and unchanged otherwise —
however many generations each deme performed, wherever the global stop condition fired.
-/
namespace C06
open Tree

/-- the demes that still have to finish their metaepoch: the running one and the queue -/
def remaining (t : T) : List Id :=
  match t.pc with
  | .running q (some (cid, _, _)) => cid :: q
  | .running q none => q
  | _ => []

/-- events of `run_metaepoch` -/
def isRun : Ev → Bool
  | .gen .. => true
  | .localRun .. => true
  | _ => false

theorem remaining_finish (t : T) (q : List Id) (h : t.pc = finish q) : remaining t = q := by
  unfold remaining finish at *
  split at h
  · rename_i he
    rw [h]; simpa using he.symm
  · rw [h]

theorem prepareGen_remaining {t : T} {id : Id} {q : List Id} {done : Nat} {pending : List Gen} {d : Deme} {lc : LevelCfg}
    (h : prepareGen t id = .ok (q, done, pending, d, lc)) : remaining t = id :: q := by
  unfold prepareGen at h
  split at h
  · rename_i queue cur hpc
    split at h
    · simp at h
    · rename_i q' done' pending' hm
      have hq : q' = q := by
        split at h
        · simp at h
        · split at h
          · simp at h
          · split at h
            · simp at h
            · split at h
              · simp at h
              · split at h
                · simp at h
                · simp only [Except.ok.injEq, Prod.mk.injEq] at h
                  exact h.1
      subst hq
      -- which branch produced `(q, done, pending)`
      simp only [remaining, hpc]
      rcases cur with _ | ⟨cid, done0, pending0⟩
      · cases queue with
        | nil => simp at hm
        | cons qid q0 =>
          simp only [] at hm
          split at hm
          · rename_i hc
            simp only [Except.ok.injEq, Prod.mk.injEq] at hm
            have : qid = id := by simpa using hc
            rw [this, hm.1]
          · simp at hm
      · simp only [] at hm
        split at hm
        · rename_i hc
          simp only [Except.ok.injEq, Prod.mk.injEq] at hm
          have : cid = id := by simpa using hc
          rw [this, hm.1]
        · simp at hm
  · simp at h

/-- what the consults after a generation do to the running deme's history and to the schedule -/
theorem finishGen_hist {t1 t' : T} {id : Id} {lc : LevelCfg} {q : List Id} {done : Nat}
    {pending : List Gen} {gen : Gen} {g : GenEnv} {lscEnv : Option Bool}
    (h : finishGen t1 id lc q done pending gen g lscEnv = .ok t') :
    ∃ f, t'.demes = updFirst id f t1.demes ∧ (∀ d, (f d).id = d.id) ∧ (∀ d, (f d).level = d.level) ∧
      (t'.cfg = t1.cfg ∧ t'.log = t1.log) ∧
      (((∀ d, (f d).hist = d.hist) ∧ t'.pc = .running q (some (id, done + 1, pending ++ [gen]))) ∨
       ((∀ d, (f d).hist = d.hist ++ [pending ++ [gen]]) ∧ t'.pc = finish q)) := by
  unfold finishGen at h
  split at h
  · simp only [] at h
    split at h
    · simp at h
    · rename_i gv hgv
      split at h
      · simp at h
      · rename_i d2 hd2
        split at h
        · simp at h
        · rename_i lv hlv
          simp only [Except.ok.injEq] at h
          subst h
          refine ⟨(fun d => { d with active := d.active && !(gv || lv) }) ∘
              (fun d => { d with hist := d.hist ++ [pending ++ [gen]], active := d.active && true }), ?_, fun _ => rfl,
              fun _ => rfl, ⟨rfl, rfl⟩, Or.inr ⟨fun _ => rfl, rfl⟩⟩
          simp only [T.update, appendHist]
          exact updFirst_comp _ _ _ _ (fun _ => rfl)
  · split at h
    · simp at h
    · rename_i gv hgv
      simp only [] at h
      split at h
      · simp only [Except.ok.injEq] at h
        subst h
        exact ⟨_, rfl, fun _ => rfl, fun _ => rfl, ⟨rfl, rfl⟩, Or.inr ⟨fun _ => rfl, rfl⟩⟩
      · split at h
        · simp only [Except.ok.injEq] at h
          subst h
          exact ⟨bump 0, by simp [updFirst_bump_zero], fun _ => rfl, fun _ => rfl, ⟨rfl, rfl⟩, Or.inl ⟨fun _ => rfl, rfl⟩⟩
        · split at h
          · simp at h
          · rename_i d2 hd2
            split at h
            · simp at h
            · rename_i lv hlv
              simp only [Except.ok.injEq] at h
              subst h
              refine ⟨(fun d => { d with active := d.active && !lv }) ∘
                  (fun d => { d with hist := d.hist ++ [pending ++ [gen]], active := d.active && true }), ?_, fun _ => rfl,
                  fun _ => rfl, ⟨rfl, rfl⟩, Or.inr ⟨fun _ => rfl, rfl⟩⟩
              simp only [T.update, appendHist]
              exact updFirst_comp _ _ _ _ (fun _ => rfl)

/-- a generation either leaves all histories alone and the schedule unchanged, or appends
exactly one metaepoch to the running deme and removes it from the schedule -/
theorem stepGen_advance {t t' : T} {id : Id} {g : GenEnv} {l : Option Bool}
    (h : stepGen t id g l = .ok t') :
    ∃ f q, t'.demes = updFirst id f t.demes ∧ remaining t = id :: q ∧ (∀ d, (f d).id = d.id) ∧
      (((∀ d, (f d).hist.length = d.hist.length + 0) ∧ remaining t' = id :: q) ∨
       ((∀ d, (f d).hist.length = d.hist.length + 1) ∧ remaining t' = q)) := by
  unfold stepGen at h
  split at h
  · simp at h
  · rename_i q done pending d lc hprep
    simp only [] at h
    split at h
    · simp at h
    · rename_i t1 ev hev
      split at h
      · simp at h
      · have e := evalReqs_effect hev
        obtain ⟨f, hd, hfid, _, _, hcase⟩ := finishGen_hist h
        refine ⟨f ∘ bump _, q, by rw [hd, e.demes, updFirst_comp id f (bump _) t.demes (fun _ => rfl)],
          prepareGen_remaining hprep, fun d => by simp [hfid, bump], ?_⟩
        rcases hcase with ⟨hh, hr⟩ | ⟨hh, hr⟩
        · exact Or.inl ⟨fun d => by simp [hh, bump], by simp [remaining, hr]⟩
        · exact Or.inr ⟨fun d => by simp [hh, bump], remaining_finish _ q hr⟩

theorem stepLocal_advance {t t' : T} {id : Id} {reqs : List Req} {its : List Ind} {nfev : Nat}
    (h : stepLocal t id reqs its nfev = .ok t') :
    ∃ f q, t'.demes = updFirst id f t.demes ∧ remaining t = id :: q ∧ (∀ d, (f d).id = d.id) ∧
      (∀ d, (f d).hist.length = d.hist.length + 1) ∧ remaining t' = q := by
  unfold stepLocal at h
  split at h
  · rename_i qid q hpc
    split at h
    · simp at h
    · rename_i hq
      have hqid : qid = id := by simpa using hq
      split at h
      · simp at h
      · split at h
        · simp at h
        · split at h
          · simp at h
          · split at h
            · simp at h
            · split at h
              · simp at h
              · rename_i t1 ev hev
                split at h
                · simp at h
                · simp only [] at h
                  split at h
                  · simp at h
                  · simp only [Except.ok.injEq] at h
                    subst h
                    have e := evalReqs_effect hev
                    refine ⟨_, q, by simp only [T.update]; rw [e.demes, updFirst_comp id _ (bump _) t.demes (fun _ => rfl)],
                      by simp [remaining, hpc, hqid], fun d => by simp [bump], fun d => by simp [bump], remaining_finish _ q rfl⟩
  · simp at h

/-- positional effect of `updFirst` on history lengths when ids are pairwise distinct -/
theorem updFirst_hist (id : Id) (f : Deme → Deme) (k : Nat) (hf : ∀ d, (f d).hist.length = d.hist.length + k)
    (hid : ∀ d, (f d).id = d.id) :
    ∀ (ds : List Deme), (ds.map (·.id)).Nodup →
      List.Forall₂ (fun d d' => d'.id = d.id ∧ d'.hist.length = d.hist.length + (if d.id = id then k else 0) ∧
          (d.id ≠ id → d' = d))
        ds (updFirst id f ds) := by
  intro ds
  induction ds with
  | nil => intro _; simp [updFirst]
  | cons a l ih =>
    intro hnd
    simp only [List.map_cons, List.nodup_cons] at hnd
    simp only [updFirst]
    by_cases ha : a.id = id
    · simp only [ha, beq_self_eq_true, ↓reduceIte]
      refine List.Forall₂.cons ⟨by rw [hid, ha], by rw [hf]; simp [ha], fun hne => absurd ha hne⟩ ?_
      -- no later deme has this id
      have : ∀ d ∈ l, d.id ≠ id := by
        intro d hd he
        exact hnd.1 (List.mem_map.mpr ⟨d, hd, by rw [he, ha]⟩)
      clear ih hnd
      induction l with
      | nil => exact List.Forall₂.nil
      | cons b l ihl =>
        refine List.Forall₂.cons ⟨rfl, ?_, fun _ => rfl⟩ (ihl (fun d hd => this d (List.mem_cons_of_mem _ hd)))
        simp [this b (by simp)]
    · have hb : (a.id == id) = false := by simpa using ha
      simp only [hb, Bool.false_eq_true, ↓reduceIte]
      exact List.Forall₂.cons ⟨rfl, by simp [ha], fun _ => rfl⟩ (ih hnd.2)

/-- counting relation between a state inside `run_metaepoch` and the state at its end -/
def Advanced (rem : List Id) (d d' : Deme) : Prop :=
  d'.id = d.id ∧ d'.hist.length = d.hist.length + (if d.id ∈ rem then 1 else 0) ∧ (d.id ∉ rem → d' = d)

theorem forall2_advanced_trans {rem : List Id} {id : Id} {k : Nat} {as bs cs : List Deme}
    (h1 : List.Forall₂ (fun d d' => d'.id = d.id ∧ d'.hist.length = d.hist.length + (if d.id = id then k else 0) ∧
      (d.id ≠ id → d' = d)) as bs)
    (h2 : List.Forall₂ (Advanced rem) bs cs) :
    List.Forall₂ (fun d d' => d'.id = d.id ∧
      d'.hist.length = d.hist.length + (if d.id = id then k else 0) + (if d.id ∈ rem then 1 else 0) ∧
      (d.id ≠ id → d.id ∉ rem → d' = d)) as cs := by
  induction h1 generalizing cs with
  | nil => cases h2; exact List.Forall₂.nil
  | cons hab _ ih =>
    cases h2 with
    | cons hbc htl =>
      refine List.Forall₂.cons ⟨hbc.1.trans hab.1, ?_, ?_⟩ (ih htl)
      · rw [hbc.2.1, hab.2.1, hab.1]
      · intro hne hnr
        have e1 := hab.2.2 hne
        have e2 := hbc.2.2 (by rw [e1]; exact hnr)
        rw [e2, e1]

/-- **the run phase**: from any state inside `run_metaepoch` whose pending schedule has no
repeated id, any accepted sequence of generation / local-search events that reaches the end
of `run_metaepoch` advances exactly the demes of the pending schedule, by exactly one -/
theorem run_phase : ∀ (evs : List Ev) (t t' : T), (t.demes.map (·.id)).Nodup → (remaining t).Nodup →
    (∀ e ∈ evs, isRun e = true) → exec t evs = .ok t' → t'.pc = .post →
    List.Forall₂ (Advanced (remaining t)) t.demes t'.demes := by
  intro evs
  induction evs with
  | nil =>
    intro t t' _ _ _ h hpost
    simp only [exec, Except.ok.injEq] at h
    subst h
    have : remaining t = [] := by simp [remaining, hpost]
    rw [this]
    have : ∀ ds : List Deme, List.Forall₂ (Advanced []) ds ds := by
      intro ds
      induction ds with
      | nil => exact List.Forall₂.nil
      | cons a l ih => exact List.Forall₂.cons ⟨rfl, by simp, fun _ => rfl⟩ ih
    exact this _
  | cons ev evs ih =>
    intro t t' hnd hrem hrun h hpost
    simp only [exec, bind, Except.bind] at h
    split at h
    · simp at h
    rename_i t1 hstep
    have hrun' : ∀ e ∈ evs, isRun e = true := fun e he => hrun e (List.mem_cons_of_mem _ he)
    have hev := hrun ev (by simp)
    -- one accepted run event
    have key : ∃ f q id k, t1.demes = updFirst id f t.demes ∧ remaining t = id :: q ∧
        (∀ d, (f d).hist.length = d.hist.length + k) ∧ (∀ d, (f d).id = d.id) ∧
        ((k = 0 ∧ remaining t1 = id :: q) ∨ (k = 1 ∧ remaining t1 = q)) := by
      cases ev with
      | loop _ => simp [isRun] at hev
      | round _ _ _ => simp [isRun] at hev
      | gen id g l =>
        obtain ⟨f, q, hd, hr, hid, hcase⟩ := stepGen_advance hstep
        rcases hcase with ⟨hh, hr'⟩ | ⟨hh, hr'⟩
        · exact ⟨f, q, id, 0, hd, hr, hh, hid, Or.inl ⟨rfl, hr'⟩⟩
        · exact ⟨f, q, id, 1, hd, hr, hh, hid, Or.inr ⟨rfl, hr'⟩⟩
      | localRun id reqs its nfev =>
        obtain ⟨f, q, hd, hr, hid, hh, hr'⟩ := stepLocal_advance hstep
        exact ⟨f, q, id, 1, hd, hr, hh, hid, Or.inr ⟨rfl, hr'⟩⟩
    obtain ⟨f, q, id, k, hd, hr, hh, hid, hcase⟩ := key
    have h1 := updFirst_hist id f k hh hid t.demes hnd
    rw [← hd] at h1
    have hids : t1.demes.map (·.id) = t.demes.map (·.id) := C07.forall2_map_id (fun a b hab => hab.1) h1
    rw [hr] at hrem
    have hrem1 : (remaining t1).Nodup := by
      rcases hcase with ⟨_, e⟩ | ⟨_, e⟩
      · rw [e]; exact hrem
      · rw [e]; exact (List.nodup_cons.mp hrem).2
    have h2 := ih t1 t' (by rw [hids]; exact hnd) hrem1 hrun' h hpost
    have h3 := forall2_advanced_trans h1 h2
    refine forall2_imp (fun d d' hdd => ⟨hdd.1, ?_, ?_⟩) h3
    · rw [hdd.2.1, hr]
      rcases hcase with ⟨rfl, e⟩ | ⟨rfl, e⟩
      · rw [e]; simp
      · rw [e]
        have hnq : id ∉ q := (List.nodup_cons.mp hrem).1
        by_cases hdi : d.id = id
        · simp [hdi, hnq]
        · simp [hdi]
    · intro hnr
      rw [hr] at hnr
      simp only [List.mem_cons, not_or] at hnr
      apply hdd.2.2 hnr.1
      rcases hcase with ⟨_, e⟩ | ⟨_, e⟩
      · rw [e]; simp [hnr.1, hnr.2]
      · rw [e]; exact hnr.2

/-- the schedule of a well-formed tree has no repeated id -/
theorem schedule_nodup {t : T} (hnd : (t.demes.map (·.id)).Nodup) : (schedule t).Nodup := by
  unfold schedule
  refine (List.reverse_perm _).nodup_iff.mpr ?_
  have hdn : t.demes.Nodup := List.Nodup.of_map _ hnd
  have hlm : t.levelMajor.Nodup := by
    unfold T.levelMajor
    rw [List.nodup_flatMap]
    refine ⟨fun l _ => List.Nodup.filter _ hdn, ?_⟩
    refine List.Pairwise.imp_of_mem ?_ (List.nodup_range (n := t.height))
    intro a b _ _ hab
    simp only [Function.onFun]
    intro d h1 h2
    simp only [List.mem_filter, beq_iff_eq] at h1 h2
    exact hab (h1.2.symm.trans h2.2)
  refine List.Nodup.map_on ?_ (List.Nodup.filter _ hlm)
  intro a ha b hb hab
  have ha' := (C04.mem_levelMajor.mp (List.mem_filter.mp ha).1).1
  have hb' := (C04.mem_levelMajor.mp (List.mem_filter.mp hb).1).1
  exact List.inj_on_of_nodup_map hnd ha' hb' hab

theorem forall2_imp_mem {R S : Deme → Deme → Prop} {l1 l2 : List Deme} (h : List.Forall₂ R l1 l2)
    (hi : ∀ a ∈ l1, ∀ b, R a b → S a b) : List.Forall₂ S l1 l2 := by
  induction h with
  | nil => exact List.Forall₂.nil
  | cons hab _ ih =>
    exact List.Forall₂.cons (hi _ (by simp) _ hab) (ih fun a ha b hr => hi a (List.mem_cons_of_mem _ ha) b hr)

/-- membership in the schedule, for a deme of a tree with pairwise distinct ids -/
theorem mem_schedule {t : T} (hnd : (t.demes.map (·.id)).Nodup) {d : Deme} (hd : d ∈ t.demes) :
    d.id ∈ schedule t ↔ (decide (d.level < t.height) && d.active && !(t.cfg.hibernation && d.hib)) = true := by
  unfold schedule
  simp only [List.mem_reverse, List.mem_map, List.mem_filter, C04.mem_levelMajor]
  constructor
  · rintro ⟨d', ⟨⟨hd', hl⟩, hc⟩, hid⟩
    have : d' = d := List.inj_on_of_nodup_map hnd hd' hd hid
    subst this
    simp only [Bool.and_eq_true, decide_eq_true_eq]
    simp only [Bool.and_eq_true] at hc
    exact ⟨⟨hl, hc.1⟩, hc.2⟩
  · intro h
    simp only [Bool.and_eq_true, decide_eq_true_eq] at h
    exact ⟨d, ⟨⟨hd, h.1.1⟩, by simp [h.1.2, h.2]⟩, rfl⟩

/-- **C06 — one metaepoch per step.**  Let `t` be a state at a metaepoch boundary with
pairwise distinct ids (`C07_wf`: every reachable state).  If the loop-head consult comes out
false (`t1`, counter + 1) and any accepted sequence of generation / local-search events `evs`
brings the run to the end of `run_metaepoch` (`t2`), then the demes are the same, in the same
positions, and each one's recorded history is exactly one metaepoch longer if the deme was
scheduled — active and not hibernating when the step began — and unchanged otherwise. -/
theorem C06_one_metaepoch {t t1 t2 : T} {ge : Option Bool} {evs : List Ev}
    (hnd : (t.demes.map (·.id)).Nodup)
    (hloop : step t (.loop ge) = .ok t1) (hgo : t1.pc ≠ .done)
    (hrun : ∀ e ∈ evs, isRun e = true) (hexec : exec t1 evs = .ok t2) (hpost : t2.pc = .post) :
    t1.metaepoch = t.metaepoch + 1 ∧
    List.Forall₂ (fun d d' => d'.id = d.id ∧ d'.hist.length = d.hist.length +
      (if (decide (d.level < t.height) && d.active && !(t.cfg.hibernation && d.hib)) = true then 1 else 0) ∧
      ((decide (d.level < t.height) && d.active && !(t.cfg.hibernation && d.hib)) = false → d' = d))
      t.demes t2.demes := by
  have facts : t1.metaepoch = t.metaepoch + 1 ∧ t1.demes = t.demes ∧ t1.pc = finish (schedule t) := by
    simp only [step, stepLoop] at hloop
    split at hloop
    · split at hloop
      · simp at hloop
      · simp only [Except.ok.injEq] at hloop
        subst hloop
        exact absurd rfl hgo
      · split at hloop
        · simp at hloop
        · simp only [Except.ok.injEq] at hloop
          subst hloop
          exact ⟨rfl, rfl, rfl⟩
    · simp at hloop
  obtain ⟨hm1, hd1, hpc1⟩ := facts
  refine ⟨hm1, ?_⟩
  have hrem := remaining_finish t1 (schedule t) hpc1
  have hph := run_phase evs t1 t2 (by rw [hd1]; exact hnd) (by rw [hrem]; exact schedule_nodup hnd) hrun hexec hpost
  rw [hrem, hd1] at hph
  refine forall2_imp_mem hph ?_
  intro d hd d' hdd
  refine ⟨hdd.1, ?_, ?_⟩
  · rw [hdd.2.1]
    by_cases hm : d.id ∈ schedule t
    · simp only [hm, ↓reduceIte, (mem_schedule hnd hd).mp hm]
    · have : ¬ (decide (d.level < t.height) && d.active && !(t.cfg.hibernation && d.hib)) = true :=
        fun h => hm ((mem_schedule hnd hd).mpr h)
      simp only [hm, ↓reduceIte, this, Bool.false_eq_true]
  · intro hc
    apply hdd.2.2
    intro hm
    rw [(mem_schedule hnd hd).mp hm] at hc
    exact absurd hc (by simp)

end C06

namespace C06
open Tree
/-- `C06_one_metaepoch` for every state reachable from a freshly constructed tree -/
theorem C06_one_metaepoch_reachable {cfg : Cfg} {stks : List (List Problem.Wrapper)} {rootEnv : NewEnv}
    {t0 t t1 t2 : T} {pre evs : List Ev} {ge : Option Bool}
    (hi : init cfg stks rootEnv = .ok t0) (hpre : exec t0 pre = .ok t)
    (hloop : step t (.loop ge) = .ok t1) (hgo : t1.pc ≠ .done)
    (hrun : ∀ e ∈ evs, isRun e = true) (hexec : exec t1 evs = .ok t2) (hpost : t2.pc = .post) :
    t1.metaepoch = t.metaepoch + 1 ∧
    List.Forall₂ (fun d d' => d'.id = d.id ∧ d'.hist.length = d.hist.length +
      (if (decide (d.level < t.height) && d.active && !(t.cfg.hibernation && d.hib)) = true then 1 else 0) ∧
      ((decide (d.level < t.height) && d.active && !(t.cfg.hibernation && d.hib)) = false → d' = d))
      t.demes t2.demes :=
  C06_one_metaepoch (C07.C07_wf hi hpre).nodup hloop hgo hrun hexec hpost
end C06

namespace C06
open Tree
/-- a generation event is an event of `run_metaepoch` (non-vacuity of `isRun`) -/
example (id : Id) (g : GenEnv) : isRun (.gen id g none) = true := rfl
end C06
