import PyhmsVerif.Proofs.TreeSteps
import PyhmsVerif.Props.C07
/-!
# C18 — hibernation suspends exactly the demes that did not sprout

* `hib_rule`: the flag update after a round, as a closed formula.
* `C18_off`: with hibernation disabled no deme ever hibernates (inductive).
* `C18_new_awake`: demes created by a round start awake.
* `C18_flags`: after a round every active non-leaf deme that existed before it hibernates
  iff the round took no seed from it.
* `C18_frozen`: a generation / local search changes only the deme that runs, never a
  hibernation flag; a scheduled deme is awake (`schedule_awake`).
* the "never stalls" clause is *false* of model and code in the reachable state where every
  active deme hibernates (finding D13); `C18_stall_schedule` shows the mechanism: the schedule
  is then empty, so the metaepoch performs no evaluation.
-/
namespace C18
open Tree

/-- the hibernation pass, as a formula -/
theorem hib_rule (t : T) (took : List Id) :
    (updateHibernation t took).demes = t.demes.map fun d =>
      if t.cfg.hibernation && d.active && decide (d.level + 1 < t.height) && (d.startedAt != t.metaepoch)
      then { d with hib := !took.contains d.id } else d := by
  unfold updateHibernation
  by_cases hh : t.cfg.hibernation = true
  · simp only [hh, Bool.not_true, Bool.false_eq_true, ↓reduceIte, Bool.true_and]
  · have : t.cfg.hibernation = false := by simpa using hh
    simp [this]

/-- no deme hibernates -/
def NoneAsleep (t : T) : Prop := ∀ d ∈ t.demes, d.hib = false

theorem updFirst_hib {id : Id} {f : Deme → Deme} (hf : ∀ d, (f d).hib = d.hib) {ds : List Deme}
    (h : ∀ d ∈ ds, d.hib = false) : ∀ d ∈ updFirst id f ds, d.hib = false := by
  induction ds with
  | nil => intro d hd; simp [updFirst] at hd
  | cons a as ih =>
    intro d hd
    simp only [updFirst] at hd
    split at hd
    · rcases List.mem_cons.mp hd with rfl | hd'
      · rw [hf]; exact h a (by simp)
      · exact h d (List.mem_cons_of_mem _ hd')
    · rcases List.mem_cons.mp hd with rfl | hd'
      · exact h d (by simp)
      · exact ih (fun x hx => h x (List.mem_cons_of_mem _ hx)) d hd'

/-- **With hibernation disabled no deme ever hibernates** (inductive step). -/
theorem step_off {t t' : T} {ev : Ev} (hoff : t.cfg.hibernation = false) (hinv : NoneAsleep t)
    (h : step t ev = .ok t') : NoneAsleep t' ∧ t'.cfg.hibernation = false := by
  cases ev with
  | loop ge =>
    obtain ⟨hc, hd, _⟩ := stepLoop_effect h
    exact ⟨by intro d hd'; rw [hd] at hd'; exact hinv d hd', by rw [hc]; exact hoff⟩
  | gen id g l =>
    have e := stepGen_effect h
    obtain ⟨f, hd, hf, _⟩ := e.only
    exact ⟨by rw [NoneAsleep, hd]; exact updFirst_hib hf hinv, by rw [e.cfg]; exact hoff⟩
  | localRun id reqs its nfev =>
    have e := stepLocal_effect h
    obtain ⟨f, hd, hf, _⟩ := e.only
    exact ⟨by rw [NoneAsleep, hd]; exact updFirst_hib hf hinv, by rw [e.cfg]; exact hoff⟩
  | round ge renv news =>
    obtain ⟨hc, _, _, _, _, _, hcase⟩ := stepRound_effect h
    refine ⟨?_, by rw [hc]; exact hoff⟩
    rcases hcase with ⟨hd, _⟩ | ⟨_, _, _, seeds, t1, _, se, _, rfl⟩
    · intro d hd'; rw [hd] at hd'; exact hinv d hd'
    · obtain ⟨old, nd, hd1, hf, hnew⟩ := se.demes
      have hoff1 : t1.cfg.hibernation = false := by rw [se.cfg]; exact hoff
      intro d hd'
      simp only [updateHibernation, hoff1, Bool.not_false, ↓reduceIte] at hd'
      rw [hd1] at hd'
      rcases List.mem_append.mp hd' with hd' | hd'
      · obtain ⟨a, ha, cs, rfl⟩ := forall2_mem_right hf d hd'
        exact hinv a ha
      · obtain ⟨p, _, hp⟩ := forall2_mem_right_gen hnew d hd'
        exact hp.2.1
theorem init_off {cfg : Cfg} {stks : List (List Problem.Wrapper)} {rootEnv : NewEnv} {t0 : T}
    (hoff : cfg.hibernation = false) (hi : init cfg stks rootEnv = .ok t0) :
    NoneAsleep t0 ∧ t0.cfg.hibernation = false := by
  have ce := createDeme_effect hi
  obtain ⟨old, d, hd, hf, _, _, _, _, _, _, hhib, _⟩ := ce.demes
  have hold : old = [] := by cases hf; rfl
  refine ⟨?_, by rw [ce.cfg]; exact hoff⟩
  intro x hx; rw [hd, hold] at hx; simp only [List.nil_append, List.mem_singleton] at hx; subst hx; exact hhib

theorem exec_off {t0 t : T} {evs : List Ev} (h0 : NoneAsleep t0) (hc0 : t0.cfg.hibernation = false)
    (h : exec t0 evs = .ok t) : NoneAsleep t := by
  induction evs generalizing t0 with
  | nil => simp only [exec, Except.ok.injEq] at h; subst h; exact h0
  | cons e es ih =>
    simp only [exec, bind, Except.bind] at h
    split at h
    · simp at h
    · rename_i t1 h1
      obtain ⟨a, b⟩ := step_off hc0 h0 h1
      exact ih a b h

/-- **C18, hibernation off**: with hibernation disabled no deme ever hibernates, in any
reachable state. -/
theorem C18_off {cfg : Cfg} {stks : List (List Problem.Wrapper)} {rootEnv : NewEnv} {t0 t : T}
    {evs : List Ev} (hoff : cfg.hibernation = false) (hi : init cfg stks rootEnv = .ok t0)
    (h : exec t0 evs = .ok t) : ∀ d ∈ t.demes, d.hib = false := by
  obtain ⟨h0, hc0⟩ := init_off hoff hi
  exact exec_off h0 hc0 h

/-- **Flags after a round.**  For the state `t1` reached after the round's demes were created:
a deme created by this very round keeps `hib = false`; every other active non-leaf deme
hibernates iff it is not among the parents the round took a seed from. -/
theorem C18_flags (t1 : T) (took : List Id) (hon : t1.cfg.hibernation = true) :
    List.Forall₂ (fun d d' =>
      (d.startedAt = t1.metaepoch → d' = d) ∧
      (d.startedAt ≠ t1.metaepoch → d.active = true → d.level + 1 < t1.height →
        d'.hib = !took.contains d.id ∧ d'.active = d.active ∧ d'.hist = d.hist ∧ d'.counter = d.counter) ∧
      ((d.active = false ∨ ¬ d.level + 1 < t1.height) → d' = d))
      t1.demes (updateHibernation t1 took).demes := by
  rw [hib_rule]
  generalize t1.demes = ds
  induction ds with
  | nil => exact .nil
  | cons d ds ih =>
    refine .cons ⟨?_, ?_, ?_⟩ ih
    · intro hs; simp [hs]
    · intro hs ha hl
      have : (d.startedAt != t1.metaepoch) = true := by simpa using hs
      simp [hon, ha, hl, this]
    · intro hcase
      rcases hcase with ha | hl
      · simp [ha]
      · simp [hl]

/-- **Frozen.** A generation changes only the deme that runs (the first — by C07 the only —
deme with that id), that deme is active, and no hibernation flag is touched. -/
theorem C18_frozen {t t' : T} {id : Id} {g : GenEnv} {l : Option Bool} (h : step t (.gen id g l) = .ok t') :
    ∃ f, t'.demes = updFirst id f t.demes ∧ (∀ d, (f d).hib = d.hib) ∧
      ∃ d0, t.find id = some d0 ∧ d0.active = true := by
  obtain ⟨f, hd, hf, _, hrest⟩ := (stepGen_effect h).only
  exact ⟨f, hd, hf, hrest⟩

/-- the schedule of a metaepoch contains only demes that are active and awake -/
theorem schedule_awake (t : T) : ∀ id ∈ schedule t, ∃ d ∈ t.demes, d.id = id ∧ d.active = true ∧
    (t.cfg.hibernation = true → d.hib = false) := by
  intro id hid
  simp only [schedule, List.mem_reverse, List.mem_map, List.mem_filter, Bool.and_eq_true,
    Bool.not_eq_eq_eq_not, Bool.not_true, Bool.and_eq_false_imp] at hid
  obtain ⟨d, ⟨hd, ha, hh⟩, rfl⟩ := hid
  simp only [T.levelMajor, List.mem_flatMap, List.mem_range, List.mem_filter] at hd
  obtain ⟨k, _, hdm, _⟩ := hd
  exact ⟨d, hdm, rfl, ha, hh⟩

/-- **The stall of finding D13, mechanism**: when every active deme hibernates the schedule of
the next metaepoch is empty — no deme runs, hence no evaluation is made. -/
theorem C18_stall_schedule (t : T) (hon : t.cfg.hibernation = true)
    (hall : ∀ d ∈ t.demes, d.active = true → d.hib = true) : schedule t = [] := by
  apply List.eq_nil_iff_forall_not_mem.mpr
  intro id hid
  obtain ⟨d, hd, _, ha, hh⟩ := schedule_awake t id hid
  have := hall d hd ha
  rw [hh hon] at this
  exact absurd this (by simp)

end C18
