import PyhmsVerif.Model.Sprout
/-!
# M9 — R5S selection (`pyhms/utils/r5s.py`, used by `DemeTree.r5s_solutions`)

`R5SSelection()(individuals, n)`: with more than `n` individuals, sort them best first
(`sorted(individuals, reverse=True)`), drop the "uninteresting" ones — those whose nearest
neighbour is (`np.isclose`) as near as their nearest *better* neighbour — keep the first
`top_k` interesting ones and, scanning the rest from the worst upwards, every one for which
some better interesting individual has a larger total weighted distance to worse individuals.

Distances between the sorted individuals and the weighted sums (`np.sum` of binary64
products) are environment; minima, `isclose` (binary64, `Sprout.isclose`), the filter and the
scan are modelled.  After the sort nothing looks at a fitness value.
-/
namespace R5S
open Select

structure Env where
  /-- distance between the `i`-th and the `j`-th individual of the best-first list -/
  dist : Nat → Nat → Rat
  /-- `_get_total_weighted_worse_distances`, per position of the best-first list -/
  wwd : List Rat

/-- minimum of `f` over a list of indices (`none` for the empty list) -/
def minOver (f : Nat → Rat) : List Nat → Option Rat
  | [] => none
  | j :: js => match minOver f js with
    | none => some (f j)
    | some m => some (if f j ≤ m then f j else m)

/-- `np.min(distances, axis=1)[i]` with an infinite diagonal -/
def nearest (env : Env) (n i : Nat) : Option Rat :=
  minOver (env.dist i) ((List.range n).filter (· != i))

/-- `0` for the best, else the distance to the nearest individual earlier in the list -/
def nearestBetter (env : Env) (i : Nat) : Option Rat :=
  if i = 0 then some 0 else minOver (env.dist i) (List.range i)

def interesting (env : Env) (n i : Nat) : Bool :=
  match nearest env n i, nearestBetter env i with
  | some a, some b => !Sprout.isclose a b
  | _, _ => true

/-- positions (in the best-first list) of the selected individuals -/
def selectIdx (topK : Nat) (n : Nat) (env : Env) : List Nat :=
  let keep := (List.range n).filter (interesting env n)
  let w := keep.map fun i => env.wwd.getD i 0
  let extra := ((List.range keep.length).reverse.filter fun idx =>
    decide (idx ≥ topK) && (w.take idx).any fun x => decide (x > w.getD idx 0))
  keep.take topK ++ extra.filterMap (keep[·]?)

def select (topK : Nat) (sorted : List Ind) (env : Env) : List Ind :=
  (selectIdx topK sorted.length env).filterMap (sorted[·]?)

/-- `R5SSelection(top_k)(individuals, n)` -/
def r5s (mx : Bool) (topK n : Nat) (inds : List Ind) (env : Env) : List Ind :=
  if inds.length ≤ n then inds
  else select topK ((NBC.sortDesc mx (inds.map fun i => (0, i))).map (·.2)) env

/-- the same with the distance matrix given over the *input* order (as the driver receives it):
the sort carries the input positions along -/
def r5sD (mx : Bool) (topK n : Nat) (inds : List Ind) (distIn : Nat → Nat → Rat) (wwd : List Rat) : List Ind :=
  if inds.length ≤ n then inds
  else
    let s := NBC.sortDesc mx (inds.zipIdx.map fun p => (p.2, p.1))
    let pos := fun i => (s.map (·.1)).getD i 0
    select topK (s.map (·.2)) { dist := fun i j => distIn (pos i) (pos j), wwd := wwd }

end R5S
