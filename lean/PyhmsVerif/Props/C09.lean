import PyhmsVerif.Proofs.SproutLemmas
/-!
# C09 — sprouts keep their distance from existing demes

Mechanism level.  Distances are environment (`env.dist i s` is NumPy's
`norm(i.genome − s.centroid, ord)`; the correspondence check ties it to the exact distance to
the exact mean of `s`'s *current* population, so a stale centroid is a disagreement).  The
theorems say that every individual that survives a chain containing `FarEnough δ`
(`NBC_FarEnough φ`) is strictly farther than the threshold from every sibling the filter
considers — whatever other filters come before or after.
-/
namespace C09
open Sprout Select

/-- strictly farther than `thr` from every considered sibling -/
def FarFrom (env : Env) (thr : Rat) (sibs : List DemeView) (i : Ind) : Prop :=
  ∀ s ∈ sibs, ∃ d, env.dist i.genome s.id = some d ∧ d > thr

theorem farOk_iff (env : Env) (thr : Rat) (sibs : List DemeView) (i : Ind) :
    farOk env thr sibs i = true ↔ FarFrom env thr sibs i := by
  simp only [farOk, List.all_eq_true, FarFrom]
  constructor
  · intro h s hs
    have := h s hs
    split at this
    · rename_i d hd; exact ⟨d, hd, by simpa using this⟩
    · simp at this
  · intro h s hs
    obtain ⟨d, hd, hgt⟩ := h s hs
    simp [hd, hgt]

/-- a property of (candidate level, candidate mean, individual) that holds for all candidates
survives any stage that only removes candidates -/
theorem shrinks_preserves {P : Nat → Option (Option Rat) → Ind → Prop} {cs out : List Cand} (h : Shrinks cs out)
    (hp : ∀ c ∈ cs, ∀ i ∈ c.inds, P c.level c.nbcMean i) : ∀ c ∈ out, ∀ i ∈ c.inds, P c.level c.nbcMean i := by
  induction h with
  | nil => intro c hc; simp at hc
  | @cons a b as bs hab _ ih =>
    intro c hc i hi
    rcases List.mem_cons.mp hc with rfl | hc'
    · rw [hab.2.1, hab.2.2.1]
      exact hp a (by simp) i (hab.2.2.2.subset hi)
    · exact ih (fun x hx => hp x (List.mem_cons_of_mem _ hx)) c hc' i hi

/-- **FarEnough**: every survivor of a chain containing `FarEnough δ` is strictly farther than
`δ` from the centroid of every *active* deme of its target level. -/
theorem C09_far {v : View} {env : Env} {fs : List Filter} {cs out : List Cand} {thr : Rat}
    (h : applyFilters v env fs cs = some out) (hmem : Filter.farEnough thr ∈ fs) :
    ∀ c ∈ out, ∀ i ∈ c.inds, FarFrom env thr ((v.level (c.level + 1)).filter (·.active)) i := by
  induction fs generalizing cs with
  | nil => simp at hmem
  | cons f fs ih =>
    simp only [applyFilters, Option.bind_eq_some_iff] at h
    obtain ⟨mid, h1, h2⟩ := h
    rcases List.mem_cons.mp hmem with hf | hf
    · subst hf
      simp only [applyFilter, Option.some.injEq] at h1
      subst h1
      apply shrinks_preserves (P := fun l _ i => FarFrom env thr ((v.level (l + 1)).filter (·.active)) i)
        (applyFilters_shrinks h2)
      intro c hc i hi
      simp only [List.mem_map] at hc
      obtain ⟨c0, _, rfl⟩ := hc
      simp only [List.mem_filter] at hi
      exact (farOk_iff _ _ _ _).mp hi.2
    · exact ih h2 hf

/-- the property `NBC_FarEnough φ` establishes, as a function of the candidate's level and mean -/
def NbcFar (v : View) (env : Env) (phi : Rat) (oa : Bool) (l : Nat) (mean : Option (Option Rat)) (i : Ind) : Prop :=
  ∀ m, mean = some (some m) → ∀ thr, F64.rnd (phi * m) = some thr →
    FarFrom env thr ((v.level (l + 1)).filter fun s => s.active || !oa) i

/-- **NBC_FarEnough**: every survivor of a chain containing `NBC_FarEnough φ` whose parent has a
finite mean nearest-better distance `m` is strictly farther than `fl(φ·m)` from the centroid
of every considered deme (all, or only the active ones) of its target level. -/
theorem C09_nbc_far {v : View} {env : Env} {fs : List Filter} {cs out : List Cand} {phi : Rat} {oa : Bool}
    (h : applyFilters v env fs cs = some out) (hmem : Filter.nbcFarEnough phi oa ∈ fs) :
    ∀ c ∈ out, ∀ i ∈ c.inds, NbcFar v env phi oa c.level c.nbcMean i := by
  induction fs generalizing cs with
  | nil => simp at hmem
  | cons f fs ih =>
    simp only [applyFilters, Option.bind_eq_some_iff] at h
    obtain ⟨mid, h1, h2⟩ := h
    rcases List.mem_cons.mp hmem with hf | hf
    · subst hf
      simp only [applyFilter] at h1
      split at h1
      · simp at h1
      · simp only [Option.some.injEq] at h1
        subst h1
        apply shrinks_preserves (P := NbcFar v env phi oa) (applyFilters_shrinks h2)
        intro c hc i hi m hm thr hthr
        simp only [List.mem_map] at hc
        obtain ⟨c0, _, rfl⟩ := hc
        -- unfold the stage on `c0`
        cases hmean : c0.nbcMean with
        | none => simp [hmean] at hm
        | some mm =>
          cases mm with
          | none => simp [hmean] at hm
          | some m0 =>
            simp only [hmean] at hm hi ⊢
            cases hr : F64.rnd (phi * m0) with
            | none => simp [hr] at hi
            | some thr0 =>
              simp only [hr, Option.some.injEq] at hm hi ⊢
              subst hm
              rw [hr] at hthr
              cases hthr
              simp only [List.mem_filter] at hi
              exact (farOk_iff _ _ _ _).mp hi.2
    · exact ih h2 hf

end C09
