import PyhmsVerif.Model.Report
import PyhmsVerif.Props.C04
/-!
# C20 — reports agree with the tree, and looking at a tree does not change it

In the model a report is a *function* of the state (`Report.summary`, `Report.lines`), so
"looking does not change the tree" and "same answer twice" hold by construction — their
content is the correspondence (the parsed real reports are diffed with these records at every
boundary, and the harness checks purity of the real accessors).  What is proved here pins
*which* quantities a report shows, and that the `***` marker is never lost.
-/
namespace C20
open Tree Report Select

/-- a displayed line carries the deme's own evaluation counter and the configured class -/
theorem line_fields (t : T) (d : Deme) :
    (lineOf t d).id = d.id ∧ (lineOf t d).evals = d.counter ∧ (lineOf t d).marker = marker t d :=
  ⟨rfl, rfl, rfl⟩

/-- the header shows the tree's own counters; a level section shows the sum of the counters
of that level's demes and their number — or "No demes available." exactly when no deme of the
level holds an individual -/
theorem summary_fields (t : T) :
    (summary t).metaepoch = t.metaepoch ∧ (summary t).evals = t.nEvals ∧ (summary t).demes = t.demes.length ∧
    (summary t).perLevel.length = t.height ∧
    ∀ l, l < t.height →
      (summary t).perLevel[l]? = some
        (if (t.demes.filter (·.level == l)).all (fun d => d.allInds.isEmpty) then none
         else some (t.levelEvals l, (t.demes.filter (·.level == l)).length)) := by
  refine ⟨rfl, rfl, rfl, by simp [summary], ?_⟩
  intro l hl
  simp [summary, hl]

theorem sum_ite_range (n k c : Nat) :
    ((List.range n).map fun l => if k = l then c else 0).sum = if k < n then c else 0 := by
  induction n with
  | zero => simp
  | succ n ih =>
    rw [List.range_succ, List.map_append, List.sum_append, ih]
    by_cases h1 : k < n
    · have : k ≠ n := by omega
      simp [h1, this]; omega
    · by_cases h2 : k = n
      · simp [h2]
      · have : ¬ k < n + 1 := by omega
        simp [h1, h2, this]

/-- **per-level evaluation counts add up to the total** whenever every deme sits on a
configured level (`C07_wf`): the numbers in the level sections of a report are a partition of
the number in its header -/
theorem levels_sum_to_total (t : T) (hb : ∀ d ∈ t.demes, d.level < t.height) :
    ((List.range t.height).map fun l => t.levelEvals l).sum = t.nEvals := by
  unfold T.levelEvals T.nEvals
  generalize t.demes = ds at hb
  generalize t.height = n at hb
  induction ds with
  | nil =>
    simp only [List.filter_nil, List.map_nil, List.sum_nil]
    clear hb
    induction n with
    | zero => simp
    | succ m ihm => simp [List.range_succ, ihm]
  | cons d ds ih =>
    have hd := hb d (by simp)
    have ih' := ih fun x hx => hb x (List.mem_cons_of_mem _ hx)
    have hsplit : ∀ l, ((List.filter (fun x => x.level == l) (d :: ds)).map (·.counter)).sum =
        (if d.level = l then d.counter else 0) + ((List.filter (fun x => x.level == l) ds).map (·.counter)).sum := by
      intro l
      by_cases h : d.level = l
      · simp [h]
      · have : (d.level == l) = false := by simpa using h
        simp [this, h]
    simp only [hsplit, List.map_cons, List.sum_cons]
    have hadd : ∀ (f g : Nat → Nat) (m : Nat), ((List.range m).map fun l => f l + g l).sum =
        ((List.range m).map f).sum + ((List.range m).map g).sum := by
      intro f g m
      induction m with
      | zero => simp
      | succ m ihm => simp only [List.range_succ, List.map_append, List.sum_append, ihm]; simp; omega
    rw [hadd, sum_ite_range, ih']
    simp [hd]

/-- every displayed line is the line of a deme of the tree; lines other than the root's are
lines of demes that have run at least one metaepoch -/
theorem childLines_sound (t : T) : ∀ (fuel : Nat) (d : Deme) (l : Line), l ∈ childLines t fuel d →
    ∃ c, t.find c.id = some c ∧ c.metaepochs ≥ 1 ∧ l = lineOf t c := by
  intro fuel
  induction fuel with
  | zero => intro d l h; simp [childLines] at h
  | succ n ih =>
    intro d l h
    simp only [childLines, List.mem_flatMap] at h
    obtain ⟨cid, _, hl⟩ := h
    split at hl
    · rename_i c hc
      split at hl
      · rename_i hm
        rcases List.mem_cons.mp hl with rfl | hl'
        · have hid : c.id = cid := by
            have := List.find?_some hc
            simpa using this
          exact ⟨c, by rw [hid]; exact hc, hm, rfl⟩
        · exact ih c l hl'
      · simp at hl
    · simp at hl

/-- the root's line comes first -/
theorem lines_root (t : T) (root : Deme) (h : t.find [] = some root) :
    (lines t).head? = some (lineOf t root) := by
  simp [lines, h]

/-- **The marker is exact**: it is set iff the deme's best fitness equals the tree's best
fitness — also when that fitness is exactly 0 (finding D10). -/
theorem marker_iff (t : T) (d : Deme) :
    marker t d = true ↔ ∃ b tb, best t.cfg.maximize d.allInds = some b ∧ t.best = some tb ∧ b.fit = tb.fit := by
  unfold marker
  constructor
  · intro h
    split at h
    · rename_i b tb hb htb
      exact ⟨b, tb, hb, htb, by simpa using h⟩
    · simp at h
  · rintro ⟨b, tb, hb, htb, hf⟩
    simp [hb, htb, hf]

/-- **The marker is never lost**: the deme that holds the tree's best individual is marked. -/
theorem marker_on_best_deme (t : T) (tb : Ind) (h : t.best = some tb) :
    ∃ d ∈ t.levelMajor, marker t d = true := by
  obtain ⟨d, hd, hmem⟩ := C04.tree_best_mem h
  refine ⟨d, hd, ?_⟩
  have hne : d.allInds ≠ [] := List.ne_nil_of_mem hmem
  obtain ⟨b, hb⟩ := Option.isSome_iff_exists.mp (best_isSome_of_ne_nil (mx := t.cfg.maximize) hne)
  rw [marker_iff]
  refine ⟨b, tb, hb, h, ?_⟩
  -- b is at least as good as tb (tb is in d's history) and tb at least as good as b (tree best)
  have h1 : better t.cfg.maximize tb b = false := best_not_worse hb tb hmem
  have h2 : better t.cfg.maximize b tb = false := C04.tree_best_ge_all h d hd b (best_mem hb)
  simp only [better] at h1 h2
  cases hm : t.cfg.maximize <;> simp only [hm, Fit.worse, Bool.false_eq_true, ↓reduceIte] at h1 h2
  · exact Fit.eq_of_not_lt h2 h1
  · exact Fit.eq_of_not_lt h1 h2

end C20
