import PyhmsVerif.Proofs.TreeSteps
/-!
# C07 — the demes always form a well-formed tree

`WF t` collects the structural invariants: ids are paths whose length is the level and
whose last component is below the current size of the level registration; ids are pairwise
distinct; `levels` has one entry per configured level; no deme sits below the last
configured level; start metaepochs are not in the future; every non-root deme records as its
parent the deme whose id is its own id without the last component, and that deme exists, one
level up, and did not start later.  `WF` is established by `init` and preserved by every step.
-/
namespace C07
open Tree

structure WF (t : T) : Prop where
  lvlId : ∀ d ∈ t.demes, d.level = d.id.length
  suffix : ∀ d ∈ t.demes, d.id ≠ [] → ∃ k, d.id.getLast? = some k ∧ k < (t.levels.getD d.level []).length
  nodup : (t.demes.map (·.id)).Nodup
  levelsLen : t.levels.length = t.height
  below : ∀ d ∈ t.demes, d.level < t.height
  started : ∀ d ∈ t.demes, d.startedAt ≤ t.metaepoch
  parent : ∀ d ∈ t.demes, d.id ≠ [] →
    d.parent = some d.id.dropLast ∧ ∃ p ∈ t.demes, p.id = d.id.dropLast ∧ p.level + 1 = d.level ∧ p.startedAt ≤ d.startedAt
  rootParent : ∀ d ∈ t.demes, d.id = [] → d.parent = none

theorem forall2_map_id {R : Deme → Deme → Prop} (h : ∀ a b, R a b → b.id = a.id) {as bs : List Deme}
    (hd : List.Forall₂ R as bs) : bs.map (·.id) = as.map (·.id) := by
  induction hd with
  | nil => rfl
  | cons hab _ ih => simp only [List.map_cons, h _ _ hab, ih]

/-- relations that keep identity fields keep `WF` (generations, local searches, hibernation, children lists) -/
theorem wf_of_rel {R : Deme → Deme → Prop}
    (hR : ∀ a b, R a b → b.id = a.id ∧ b.level = a.level ∧ b.startedAt = a.startedAt ∧ b.parent = a.parent)
    {t t' : T} (hw : WF t) (hd : List.Forall₂ R t.demes t'.demes) (hc : t'.cfg = t.cfg)
    (hl : t'.levels = t.levels) (hm : t.metaepoch ≤ t'.metaepoch) : WF t' := by
  have hids : t'.demes.map (·.id) = t.demes.map (·.id) := forall2_map_id (fun a b h => (hR a b h).1) hd
  have hh : t'.height = t.height := by simp [T.height, hc]
  have back : ∀ d ∈ t'.demes, ∃ a ∈ t.demes, R a d := forall2_mem_right hd
  have fwd : ∀ a ∈ t.demes, ∃ d ∈ t'.demes, R a d := forall2_mem_left hd
  refine ⟨?_, ?_, by rw [hids]; exact hw.nodup, by rw [hl, hh]; exact hw.levelsLen, ?_, ?_, ?_, ?_⟩
  · intro d hd'
    obtain ⟨a, ha, hr⟩ := back d hd'
    rw [(hR _ _ hr).2.1, (hR _ _ hr).1]; exact hw.lvlId a ha
  · intro d hd' hne
    obtain ⟨a, ha, hr⟩ := back d hd'
    rw [(hR _ _ hr).1, (hR _ _ hr).2.1, hl]
    exact hw.suffix a ha (by rw [← (hR _ _ hr).1]; exact hne)
  · intro d hd'
    obtain ⟨a, ha, hr⟩ := back d hd'
    rw [(hR _ _ hr).2.1, hh]; exact hw.below a ha
  · intro d hd'
    obtain ⟨a, ha, hr⟩ := back d hd'
    rw [(hR _ _ hr).2.2.1]; exact Nat.le_trans (hw.started a ha) hm
  · intro d hd' hne
    obtain ⟨a, ha, hr⟩ := back d hd'
    obtain ⟨h1, h2, h3, h4⟩ := hR _ _ hr
    obtain ⟨hp, p, hpm, hpid, hplv, hpst⟩ := hw.parent a ha (by rw [← h1]; exact hne)
    obtain ⟨p', hp', hr'⟩ := fwd p hpm
    obtain ⟨g1, g2, g3, _⟩ := hR _ _ hr'
    exact ⟨by rw [h4, h1]; exact hp, p', hp', by rw [g1, h1]; exact hpid, by rw [g2, h2]; exact hplv,
      by rw [g3, h3]; exact hpst⟩
  · intro d hd' hid
    obtain ⟨a, ha, hr⟩ := back d hd'
    obtain ⟨h1, _, _, h4⟩ := hR _ _ hr
    rw [h4]; exact hw.rootParent a ha (by rw [← h1]; exact hid)

theorem demeStep_id (a b : Deme) (h : DemeStep a b) :
    b.id = a.id ∧ b.level = a.level ∧ b.startedAt = a.startedAt ∧ b.parent = a.parent :=
  ⟨h.id, h.level, h.startedAt, h.parent⟩

end C07

namespace C07
open Tree

theorem sameBC_id (a b : Deme) (h : SameBC a b) :
    b.id = a.id ∧ b.level = a.level ∧ b.startedAt = a.startedAt ∧ b.parent = a.parent := by
  obtain ⟨cs, rfl⟩ := h; exact ⟨rfl, rfl, rfl, rfl⟩

theorem getD_set_same {α : Type} (l : List α) (i : Nat) (a d : α) (h : i < l.length) : (l.set i a).getD i d = a := by
  simp [List.getD, h]

theorem getD_set_ne {α : Type} (l : List α) (i j : Nat) (a d : α) (h : i ≠ j) : (l.set i a).getD j d = l.getD j d := by
  simp [List.getD, List.getElem?_set_ne h]

/-- **Creating a child keeps the tree well formed** (fresh id, registered on its level, parent link). -/
theorem create_wf {t t' : T} {p : Deme} {seed : Option Ind} {env : NewEnv} (hw : WF t) (hp : p ∈ t.demes)
    (h : createDeme t (some p) seed env = .ok t') : WF t' := by
  have ce := createDeme_effect h
  obtain ⟨old, d, hd, hf, _, _, _, hlev, hid, _, _, hst, _, hpar, ⟨lc, hlc⟩, _⟩ := ce.demes
  simp only at hlev hid hpar
  have hlevels := ce.levels
  simp only at hlevels
  have hpl := hw.lvlId p hp
  have hlt : p.level + 1 < t.height := by
    rw [hlev] at hlc
    have := (List.getElem?_eq_some_iff.mp hlc).1
    simpa [T.height] using this
  have hlt' : p.level + 1 < t.levels.length := by rw [hw.levelsLen]; exact hlt
  have hh : t'.height = t.height := by simp [T.height, ce.cfg]
  set n := (t.levels.getD (p.level + 1) []).length with hn
  have hidn : d.id = p.id ++ [n] := by rw [hid, nextChildId]
  -- facts about old demes carry over
  have back : ∀ x ∈ old, ∃ a ∈ t.demes, SameBC a x := forall2_mem_right hf
  have fwd : ∀ a ∈ t.demes, ∃ x ∈ old, SameBC a x := forall2_mem_left hf
  have hlen_new : (t'.levels.getD (p.level + 1) []).length = n + 1 := by
    rw [hlevels, getD_set_same _ _ _ _ hlt']; simp [hn]
  have hlen_other : ∀ j, j ≠ p.level + 1 → t'.levels.getD j [] = t.levels.getD j [] := by
    intro j hj; rw [hlevels, getD_set_ne _ _ _ _ _ (Ne.symm hj)]
  refine ⟨?_, ?_, ?_, ?_, ?_, ?_, ?_, ?_⟩
  · -- level = id length
    intro x hx
    rw [hd] at hx
    rcases List.mem_append.mp hx with hx | hx
    · obtain ⟨a, ha, hr⟩ := back x hx
      obtain ⟨h1, h2, _, _⟩ := sameBC_id _ _ hr
      rw [h2, h1]; exact hw.lvlId a ha
    · simp only [List.mem_singleton] at hx; subst hx
      rw [hlev, hidn, hpl]; simp
  · -- suffix bound
    intro x hx hne
    rw [hd] at hx
    rcases List.mem_append.mp hx with hx | hx
    · obtain ⟨a, ha, hr⟩ := back x hx
      obtain ⟨h1, h2, _, _⟩ := sameBC_id _ _ hr
      obtain ⟨k, hk, hkl⟩ := hw.suffix a ha (by rw [← h1]; exact hne)
      refine ⟨k, by rw [h1]; exact hk, ?_⟩
      rw [h2]
      by_cases hj : a.level = p.level + 1
      · rw [hj, hlen_new]; rw [hj] at hkl; omega
      · rw [hlen_other _ hj]; exact hkl
    · simp only [List.mem_singleton] at hx; subst hx
      refine ⟨n, by rw [hidn]; simp, ?_⟩
      rw [hlev, hlen_new]; omega
  · -- ids pairwise distinct
    rw [hd, List.map_append, List.map_cons, List.map_nil]
    have hold : old.map (·.id) = t.demes.map (·.id) := forall2_map_id (fun a b h => (sameBC_id a b h).1) hf
    rw [hold]
    refine List.nodup_append.mpr ⟨hw.nodup, by simp, ?_⟩
    intro a ha b hb heq
    simp only [List.mem_singleton] at hb
    subst hb
    simp only [List.mem_map] at ha
    obtain ⟨x, hx, rfl⟩ := ha
    -- x is an old deme with the new id: its suffix would be n, but suffixes on that level are < n
    have hxne : x.id ≠ [] := by rw [heq, hidn]; simp
    obtain ⟨k, hk, hkl⟩ := hw.suffix x hx hxne
    have hxl : x.level = p.level + 1 := by rw [hw.lvlId x hx, heq, hidn, hpl]; simp
    rw [heq, hidn] at hk
    simp only [List.getLast?_append, List.getLast?_singleton, Option.some_or, Option.some.injEq] at hk
    rw [hxl] at hkl
    omega
  · rw [hlevels, List.length_set, hh]; exact hw.levelsLen
  · intro x hx
    rw [hd] at hx
    rcases List.mem_append.mp hx with hx | hx
    · obtain ⟨a, ha, hr⟩ := back x hx
      rw [(sameBC_id _ _ hr).2.1, hh]; exact hw.below a ha
    · simp only [List.mem_singleton] at hx; subst hx
      rw [hlev, hh]; exact hlt
  · intro x hx
    rw [hd] at hx
    rcases List.mem_append.mp hx with hx | hx
    · obtain ⟨a, ha, hr⟩ := back x hx
      rw [(sameBC_id _ _ hr).2.2.1, ce.metaepoch]; exact hw.started a ha
    · simp only [List.mem_singleton] at hx; subst hx
      rw [hst, ce.metaepoch]
  · intro x hx hne
    rw [hd] at hx
    rcases List.mem_append.mp hx with hx | hx
    · obtain ⟨a, ha, hr⟩ := back x hx
      obtain ⟨h1, h2, h3, h4⟩ := sameBC_id _ _ hr
      obtain ⟨hpp, q, hq, hqid, hqlv, hqst⟩ := hw.parent a ha (by rw [← h1]; exact hne)
      obtain ⟨q', hq', hr'⟩ := fwd q hq
      obtain ⟨g1, g2, g3, _⟩ := sameBC_id _ _ hr'
      exact ⟨by rw [h4, h1]; exact hpp, q', by rw [hd]; exact List.mem_append_left _ hq',
        by rw [g1, h1]; exact hqid, by rw [g2, h2]; exact hqlv, by rw [g3, h3]; exact hqst⟩
    · simp only [List.mem_singleton] at hx; subst hx
      obtain ⟨p', hp', hr'⟩ := fwd p hp
      obtain ⟨g1, g2, g3, _⟩ := sameBC_id _ _ hr'
      refine ⟨by rw [hpar, hidn]; simp, p', by rw [hd]; exact List.mem_append_left _ hp', ?_, ?_, ?_⟩
      · rw [g1, hidn]; simp
      · rw [g2, hlev]
      · rw [g3, hst]; exact hw.started p hp
  · intro x hx hxid
    rw [hd] at hx
    rcases List.mem_append.mp hx with hx | hx
    · obtain ⟨a, ha, hr⟩ := back x hx
      obtain ⟨h1, _, _, h4⟩ := sameBC_id _ _ hr
      rw [h4]; exact hw.rootParent a ha (by rw [← h1]; exact hxid)
    · simp only [List.mem_singleton] at hx; subst hx
      rw [hidn] at hxid; simp at hxid

end C07

namespace C07
open Tree

theorem sprout_wf {t t' : T} {flat : List (Id × Ind)} {news : List NewEnv} (hw : WF t)
    (h : doSprout t flat news = .ok t') : WF t' := by
  induction flat generalizing t news with
  | nil =>
    cases news with
    | nil => simp only [doSprout, Except.ok.injEq] at h; subst h; exact hw
    | cons e es => simp [doSprout] at h
  | cons ps rest ih =>
    obtain ⟨pid, s⟩ := ps
    cases news with
    | nil => simp [doSprout] at h
    | cons e es =>
      simp only [doSprout] at h
      split at h
      · simp at h
      · rename_i p hfind
        split at h
        · simp at h
        · rename_i t1 hc
          exact ih (create_wf hw (find_some_mem (show t.demes.find? (·.id == pid) = some p from hfind)).1 hc) h

theorem hib_wf {t : T} (took : List Id) (hw : WF t) : WF (updateHibernation t took) := by
  obtain ⟨f1, f2, _, _, _, f6⟩ := updateHibernation_frame t took
  exact wf_of_rel (R := fun d d' => ∃ h, d' = { d with hib := h })
    (fun a b hab => by obtain ⟨x, rfl⟩ := hab; exact ⟨rfl, rfl, rfl, rfl⟩) hw
    (updateHibernation_forall2 t took) f1 f6 (by rw [f2])

/-- **Well-formedness is inductive**: every step of the run preserves it. -/
theorem step_wf {t t' : T} {ev : Ev} (hw : WF t) (h : step t ev = .ok t') : WF t' := by
  cases ev with
  | loop ge =>
    obtain ⟨hc, hd, hl, _, _, _, _, hm⟩ := stepLoop_effect h
    refine wf_of_rel demeStep_id hw (hd ▸ forall2_refl _) hc hl ?_
    rcases hm with ⟨h1, _⟩ | ⟨h1, _⟩ <;> omega
  | gen id g l =>
    have e := stepGen_effect h
    exact wf_of_rel demeStep_id hw e.demes e.cfg e.levels (by rw [e.metaepoch])
  | localRun id reqs its nfev =>
    have e := stepLocal_effect h
    exact wf_of_rel demeStep_id hw e.demes e.cfg e.levels (by rw [e.metaepoch])
  | round ge renv news =>
    obtain ⟨hc, hm, _, _, _, _, hcase⟩ := stepRound_effect h
    rcases hcase with ⟨hd, _, _, _, hl⟩ | ⟨_, _, _, seeds, t1, _, _, hds, rfl⟩
    · exact wf_of_rel demeStep_id hw (hd ▸ forall2_refl _) hc hl (by rw [hm])
    · have := hib_wf (seeds.map (·.deme)) (sprout_wf hw hds)
      exact ⟨this.lvlId, this.suffix, this.nodup, this.levelsLen, this.below, this.started,
        this.parent, this.rootParent⟩

theorem init_wf {cfg : Cfg} {stks : List (List Problem.Wrapper)} {rootEnv : NewEnv} {t0 : T}
    (hi : init cfg stks rootEnv = .ok t0) : WF t0 := by
  have ce := createDeme_effect hi
  obtain ⟨old, d, hd, hf, _, _, _, hlev, hid, _, _, hst, _, hpar, ⟨lc, hlc⟩, _⟩ := ce.demes
  simp only at hlev hid hpar
  have hold : old = [] := by cases hf; rfl
  have hlevels := ce.levels
  simp only at hlevels
  have hh : t0.height = cfg.levels.length := by simp [T.height, ce.cfg]
  have hpos : 0 < cfg.levels.length := by
    rw [hlev] at hlc
    exact (List.getElem?_eq_some_iff.mp hlc).1
  have hmem : ∀ x ∈ t0.demes, x = d := by
    intro x hx; rw [hd, hold] at hx; simpa using hx
  refine ⟨?_, ?_, ?_, ?_, ?_, ?_, ?_, ?_⟩
  · intro x hx; rw [hmem x hx, hlev, hid]; rfl
  · intro x hx hne; rw [hmem x hx, hid] at hne; exact absurd rfl hne
  · rw [hd, hold]; simp
  · rw [hlevels, List.length_set, hh]; simp
  · intro x hx; rw [hmem x hx, hlev, hh]; exact hpos
  · intro x hx; rw [hmem x hx, hst, ce.metaepoch]
  · intro x hx hne; rw [hmem x hx, hid] at hne; exact absurd rfl hne
  · intro x hx _; rw [hmem x hx, hpar]; rfl

/-- **C07.** Every state reachable from a freshly constructed tree is well formed. -/
theorem C07_wf {cfg : Cfg} {stks : List (List Problem.Wrapper)} {rootEnv : NewEnv} {t0 t : T}
    {evs : List Ev} (hi : init cfg stks rootEnv = .ok t0) (h : exec t0 evs = .ok t) : WF t := by
  have h0 := init_wf hi
  clear hi
  induction evs generalizing t0 with
  | nil => simp only [exec, Except.ok.injEq] at h; subst h; exact h0
  | cons e es ih =>
    simp only [exec, bind, Except.bind] at h
    split at h
    · simp at h
    · rename_i t1 h1
      exact ih h (step_wf h0 h1)

/-- ids are unique: looking a deme up by id finds exactly that deme -/
theorem find_unique {t : T} (hw : WF t) {d : Deme} (hd : d ∈ t.demes) : t.find d.id = some d := by
  have hnd := hw.nodup
  unfold T.find
  generalize t.demes = ds at hd hnd
  induction ds with
  | nil => simp at hd
  | cons a as ih =>
    simp only [List.map_cons, List.nodup_cons] at hnd
    rcases List.mem_cons.mp hd with rfl | hd'
    · simp [List.find?]
    · have hne : a.id ≠ d.id := by
        intro heq; exact hnd.1 (by rw [heq]; exact List.mem_map_of_mem hd')
      have hb : (a.id == d.id) = false := by simpa using hne
      simp only [List.find?, hb]
      exact ih hd' hnd.2

/-- the root exists, has id `root` (the empty path), sits on level 0 and has no parent -/
theorem root_facts {t : T} (hw : WF t) {d : Deme} (hd : d ∈ t.demes) (hid : d.id = []) :
    d.level = 0 ∧ d.parent = none := by
  refine ⟨by rw [hw.lvlId d hd, hid]; rfl, hw.rootParent d hd hid⟩

end C07
