import PyhmsVerif.Model.Problem
import PyhmsVerif.Model.Sprout
/-!
# M6 — the deme tree as a small-step state machine (`pyhms/tree.py`, `pyhms/demes/*.py`)

State = configuration + metaepoch counter + demes (creation order) + the `levels`
registration + shared problem-wrapper stacks + a program counter + ghost logs.
An event carries only what the *environment* decided (objective values, the populations
the engines produced, `cma.stop()`, scipy's `nfev`, verdicts of user-defined stop
conditions, NumPy's distances); everything pyhms decides is computed by `step`:
the schedule, how many generations a deme performs, verdicts of the shipped stop
conditions, activity / hibernation flags, counters, sprout candidates and every filter,
ids / levels / start metaepochs of new demes.  `step` returns `.error` for an event the
model cannot perform (a generation after the stop condition held, a stored individual
that was never evaluated, a wrong deme running, …).
-/
namespace Tree
open Select

inductive Engine | ea | de | shade | cma | localOpt | lhs | sobol
deriving DecidableEq, Repr

inductive Lsc
  | dontStop | dontRun | metaepochLimit (n : Nat) | allChildrenStopped
  | env   -- FitnessSteadiness (NumPy means) and user-defined conditions: verdict is environment
deriving Repr

inductive Gsc
  | metaepochLimit (n : Nat) | dontRun | dontStop
  | evalLimit (n : Nat)                          -- SingularProblemEvalLimitReached
  | weighted (limit : Rat) (w : List Rat)        -- FitnessEvalLimitReached
  | precision (stack layer : Nat)                -- SingularProblemPrecisionReached
  | rootStopped | allStopped | noActiveNonroot (n : Nat)
  | env                                          -- user-defined: verdict is environment
  | either (a b : Gsc)                           -- user-level `a or b`
deriving Repr

structure LevelCfg where
  engine : Engine
  generations : Nat
  popSize : Nat
  lsc : Lsc
  stack : Nat
  elitist : Bool
  box : List (Rat × Rat)
deriving Repr

structure Cfg where
  levels : List LevelCfg
  gsc : Gsc
  hibernation : Bool
  maximize : Bool
  mech : Sprout.Mechanism
deriving Repr

/-- one recorded generation, with the ghost list of what was evaluated while it was made -/
structure Gen where
  inds : List Ind
  evald : List Ind
deriving Repr

/-- deme ids are paths of per-level creation indices: `root = []`, `"3/4" = [3, 4]` -/
abbrev Id := List Nat

structure Deme where
  id : Id
  level : Nat
  parent : Option Id
  startedAt : Nat
  active : Bool
  hib : Bool
  hist : List (List Gen)       -- metaepochs → generations
  counter : Nat                -- `deme.n_evaluations`
  children : List Id
  seed : Option Ind
deriving Repr

/-- one invocation of the user's objective (ghost log) -/
structure Inv where
  level : Nat
  deme : Id
  x : List Rat
  v : Fit
deriving Repr

inductive Pc
  | head
  | running (queue : List Id) (cur : Option (Id × Nat × List Gen))
  | post
  | done
deriving Repr

structure T where
  cfg : Cfg
  metaepoch : Nat
  demes : List Deme
  levels : List (List Id)
  stacks : List (List Problem.Wrapper)
  pc : Pc
  log : List Inv
  /-- ghost: has some cutoff layer refused a request yet -/
  refused : Bool
  /-- ghost: was the global stop condition observed true yet -/
  gscSeen : Bool
deriving Repr

def T.height (t : T) : Nat := t.cfg.levels.length
def T.find (t : T) (id : Id) : Option Deme := t.demes.find? (·.id == id)

/-- apply `f` to the first deme with this id (the code mutates the object itself) -/
def updFirst (id : Id) (f : Deme → Deme) : List Deme → List Deme
  | [] => []
  | d :: ds => if d.id == id then f d :: ds else d :: updFirst id f ds

def T.update (t : T) (id : Id) (f : Deme → Deme) : T :=
  { t with demes := updFirst id f t.demes }

def showId (id : Id) : String :=
  if id.isEmpty then "root" else "/".intercalate (id.map toString)

def Deme.gens (d : Deme) : List Gen := d.hist.flatten
def Deme.allInds (d : Deme) : List Ind := d.gens.flatMap (·.inds)
def Deme.curPop (d : Deme) : List Ind := (d.gens.getLast?.map (·.inds)).getD []
def Deme.metaepochs (d : Deme) : Nat := d.hist.length - 1

/-- demes in `levels` order (level-major) -/
def T.levelMajor (t : T) : List Deme := t.levels.flatMap fun ids => ids.filterMap t.find
def T.activeAt (t : T) (l : Nat) : Nat := (t.demes.filter fun d => d.level == l && d.active).length
def T.nEvals (t : T) : Nat := (t.demes.map (·.counter)).sum
def T.levelEvals (t : T) (l : Nat) : Nat := ((t.demes.filter (·.level == l)).map (·.counter)).sum

/-- `tree.best_individual`: `max` over the demes' whole-history bests, level-major -/
def T.best (t : T) : Option Ind :=
  Select.best t.cfg.maximize (t.levelMajor.filterMap fun d => Select.best t.cfg.maximize d.allInds)

-- ---------------------------------------------------------------- stop conditions
def gscEval (t : T) (envv : Option Bool) : Gsc → Option Bool
  | .metaepochLimit n => some (decide (t.metaepoch ≥ n))
  | .dontRun => some true
  | .dontStop => some false
  | .evalLimit n => some (decide (t.nEvals ≥ n))
  | .weighted limit w =>
    some (decide ((t.demes.map fun d => (w.getD d.level 0) * (d.counter : Rat)).sum ≥ limit))
  | .precision s l => ((t.stacks.getD s []).getD l (.counting 0)).hitPrecision |> some
  | .rootStopped => (t.find []).map fun d => !d.active
  | .allStopped => some (t.demes.all fun d => !d.active)
  | .noActiveNonroot n =>
    some ((List.range (t.height - 1)).all fun k =>
      let lvl := t.demes.filter (·.level == k + 1)
      !lvl.isEmpty && lvl.all fun d => !d.active && !(decide (t.metaepoch ≤ d.startedAt + d.metaepochs + n)))
  | .env => envv
  | .either a b => match gscEval t envv a, gscEval t envv b with
    | some x, some y => some (x || y)
    | _, _ => none

def lscEval (t : T) (d : Deme) (envv : Option Bool) : Lsc → Option Bool
  | .dontStop => some false
  | .dontRun => some true
  | .metaepochLimit n => some (decide (d.metaepochs ≥ n))
  | .allChildrenStopped =>
    some (!d.children.isEmpty && d.children.all fun c => match t.find c with
      | some k => !k.active
      | none => true)
  | .env => envv

-- ---------------------------------------------------------------- evaluation requests
structure Req where
  x : List Rat
  /-- the value the objective returned, if it was invoked -/
  v : Option Fit
deriving Repr

def inBox (box : List (Rat × Rat)) (x : List Rat) : Bool :=
  x.length == box.length && (box.zip x).all fun p => decide (p.1.1 ≤ p.2) && decide (p.2 ≤ p.1.2)

/-- one `problem.evaluate(x)` issued by deme `id` at level `lvl`: the deme's own counting
wrapper, then the level's (possibly shared) wrapper stack, then — if no cutoff refuses —
the objective.  Returns the fitness the deme stores. -/
def evalReq (t : T) (id : Id) (lvl : Nat) (counts : Bool) (r : Req) : Except String (T × Ind) :=
  match t.cfg.levels[lvl]? with
  | none => .error s!"no level {lvl}"
  | some lc =>
    if !inBox lc.box r.x && r.v.isSome then .error s!"objective invoked outside the box by {showId id}" else
    let st := t.stacks.getD lc.stack []
    let res := Problem.evalStack t.cfg.maximize st (r.v.getD (Fit.sentinel t.cfg.maximize))
    if res.2.2 != r.v.isSome then
      .error (if res.2.2 then s!"request by {showId id} was not forwarded to the objective although no cutoff is exhausted"
              else s!"objective invoked by {showId id} although an evaluation cutoff is exhausted")
    else
      let t1 := { t with stacks := t.stacks.set lc.stack res.1 }
      let t2 := if counts then t1.update id fun d => { d with counter := d.counter + 1 } else t1
      let t3 := if res.2.2 then { t2 with log := t2.log ++ [⟨lvl, id, r.x, res.2.1⟩] }
                else { t2 with refused := true }
      .ok (t3, ⟨r.x, res.2.1⟩)

def evalReqs (t : T) (id : Id) (lvl : Nat) (counts : Bool) : List Req → Except String (T × List Ind)
  | [] => .ok (t, [])
  | r :: rs => do
    let (t1, i) ← evalReq t id lvl counts r
    let (t2, is) ← evalReqs t1 id lvl counts rs
    pure (t2, i :: is)

-- ---------------------------------------------------------------- generations
structure GenEnv where
  reqs : List Req
  pop : List Ind
  gscEnv : Option Bool
  cmaStop : Bool
deriving Repr

/-- what a generation must satisfy relative to the generation it was bred from -/
def genOk (mx : Bool) (lc : LevelCfg) (parents evald pop : List Ind) (expectedSize : Nat) : Except String Unit :=
  if pop.length != expectedSize then .error s!"generation has {pop.length} individuals, expected {expectedSize}" else
  let fresh := lc.engine == .cma || lc.engine == .lhs || lc.engine == .sobol
  -- a request refused by an exhausted cutoff stores the sentinel; its genome is not observable
  let refusedHere := evald.any fun e => e.genome.isEmpty && e.fit == Fit.sentinel mx
  if !(pop.all fun i => (!fresh && parents.contains i) || evald.contains i ||
        (refusedHere && i.fit == Fit.sentinel mx)) then
    .error "generation contains an individual that is neither in the preceding generation nor evaluated during this generation"
  else if lc.elitist && !(parents.all fun p => pop.any fun o => !(better mx p o)) then
    .error "elitist engine lost ground: some parent is strictly better than every member of the new generation"
  else if (lc.engine == .de || lc.engine == .shade) &&
      !(parents.all fun p => decide (countAtLeast mx p.fit parents ≤ countAtLeast mx p.fit pop)) then
    .error "one-to-one replacement violated: some order statistic got worse"
  else .ok ()

def finish (q : List Id) : Pc := if q.isEmpty then .post else .running q none

/-- `reversed(active_demes)` without the hibernating ones -/
def schedule (t : T) : List Id :=
  ((t.levelMajor.filter fun d => d.active && !(t.cfg.hibernation && d.hib)).map (·.id)).reverse

-- ---------------------------------------------------------------- creating demes
structure NewEnv where
  reqs : List Req
  pop : List Ind
deriving Repr

/-- `_next_child_id`: the parent's id extended by the current size of the target level -/
def nextChildId (t : T) (parent : Deme) : Id :=
  parent.id ++ [(t.levels.getD (parent.level + 1) []).length]

/-- `init_from_config` + registration (`add_child`, `levels[target].append`) -/
def createDeme (t : T) (parent : Option Deme) (seed : Option Ind) (env : NewEnv) : Except String T := do
  let lvl := match parent with | some p => p.level + 1 | none => 0
  let id : Id := match parent with | some p => nextChildId t p | none => []
  let lc ← match t.cfg.levels[lvl]? with
    | some lc => pure lc
    | none => throw s!"sprout below the last level ({showId id})"
  let d0 : Deme := { id := id, level := lvl, parent := parent.map (·.id), startedAt := t.metaepoch,
                     active := true, hib := false, hist := [], counter := 0, children := [], seed := seed }
  let t0 := { t with demes := t.demes ++ [d0],
                     levels := t.levels.set lvl ((t.levels.getD lvl []) ++ [id]) }
  let t0 := match parent with
    | some p => t0.update p.id fun d => { d with children := d.children ++ [id] }
    | none => t0
  let (t1, ev0) ← evalReqs t0 id lvl (lc.engine != .localOpt) env.reqs
  -- individuals whose request was refused by an exhausted cutoff carry the sentinel
  let refusedHere := ev0.any fun e => e.genome.isEmpty && e.fit == Fit.sentinel t.cfg.maximize
  let ev := ev0 ++ (if refusedHere then env.pop.filter (fun i => i.fit == Fit.sentinel t.cfg.maximize) else [])
  -- what the initial population must look like
  match lc.engine, seed with
  | .localOpt, some s =>
    if env.pop != [s] || !env.reqs.isEmpty then throw s!"local deme {showId id} must start from its seed without evaluating"
  | .localOpt, none => throw "local deme without seed"
  | .cma, none => throw "CMA deme without seed"
  | .cma, some _ | .lhs, _ | .sobol, _ =>
    if !(env.pop.all ev.contains) then throw s!"initial population of {showId id} contains an unevaluated individual"
  | _, none =>
    if env.pop.length != lc.popSize || !(env.pop.all ev.contains) then
      throw s!"root population of {showId id}: wrong size or unevaluated individual"
  | _, some s =>
    if env.pop.length != lc.popSize then throw s!"initial population of {showId id} has {env.pop.length} members, configured {lc.popSize}"
    if !(env.pop.all ev.contains) then throw s!"initial population of {showId id} contains an unevaluated individual"
    if !(env.pop.any fun i => i.genome == s.genome) then throw s!"initial population of {showId id} does not contain its seed"
  pure (t1.update id fun d => { d with hist := [[⟨env.pop, ev⟩]] })

def init (cfg : Cfg) (stacks : List (List Problem.Wrapper)) (rootEnv : NewEnv) : Except String T :=
  createDeme { cfg := cfg, metaepoch := 0, demes := [], levels := cfg.levels.map fun _ => [],
               stacks := stacks, pc := .head, log := [], refused := false, gscSeen := false }
    none none rootEnv

-- ---------------------------------------------------------------- sprouting
def view (t : T) : Sprout.View :=
  { height := t.height, metaepoch := t.metaepoch, maximize := t.cfg.maximize,
    demes := t.levelMajor.map fun d =>
      { id := showId d.id, level := d.level, active := d.active, children := d.children.map showId, seed := d.seed,
        pop := d.curPop, histBest := best t.cfg.maximize d.allInds, startedAt := d.startedAt,
        histLen := d.hist.length } }

def doSprout (t : T) : List (Id × Ind) → List NewEnv → Except String T
  | [], [] => .ok t
  | (pid, s) :: rest, e :: es => do
    let p ← match t.find pid with
      | some p => pure p
      | none => throw s!"unknown parent {showId pid}"
    let t1 ← createDeme t (some p) (some s) e
    doSprout t1 rest es
  | _, _ => .error "number of created demes differs from the number of seeds"

/-- hibernation flags after a round: every active non-leaf deme that existed before the
round sleeps iff the round took no seed from it -/
def updateHibernation (t : T) (took : List Id) : T :=
  if !t.cfg.hibernation then t else
  { t with demes := t.demes.map fun d =>
      if d.active && d.level + 1 < t.height && d.startedAt != t.metaepoch then
        { d with hib := !took.contains d.id }
      else d }

-- ---------------------------------------------------------------- events
inductive Ev
  /-- `run()`: the consult at the loop head (and, when false, the start of a step) -/
  | loop (gscEnv : Option Bool)
  /-- one generation of the running deme (or of the next scheduled deme) + the consults after it -/
  | gen (id : Id) (g : GenEnv) (lscEnv : Option Bool)
  /-- one complete local search -/
  | localRun (id : Id) (reqs : List Req) (iterates : List Ind) (nfev : Nat)
  /-- consult after `run_metaepoch` and, when false, the sprouting round -/
  | round (gscEnv : Option Bool) (renv : Sprout.Env) (news : List NewEnv)

def appendHist (t : T) (id : Id) (gens : List Gen) (active : Bool) : T :=
  t.update id fun d => { d with hist := d.hist ++ [gens], active := d.active && active }

def step (t : T) : Ev → Except String T
  | .loop ge =>
    match t.pc with
    | .head =>
      match gscEval t ge t.cfg.gsc with
      | none => .error "no verdict for the global stop condition"
      | some true => .ok { t with pc := .done, gscSeen := true }
      | some false =>
        let t1 := { t with metaepoch := t.metaepoch + 1 }
        .ok { t1 with pc := finish (schedule t1) }
    | _ => .error "loop-head consult at the wrong moment"
  | .gen id g lscEnv =>
    match t.pc with
    | .running queue cur => do
      let (q, done, pending) ← match cur, queue with
        | some (cid, done, pending), q =>
          if cid == id then pure (q, done, pending) else throw s!"deme {showId id} produced a generation while {showId cid} is running"
        | none, qid :: q =>
          if qid == id then pure (q, 0, []) else throw s!"deme {showId id} runs, but {showId qid} is next in the schedule"
        | none, [] => throw "generation after the metaepoch ended"
      let d ← match t.find id with | some d => pure d | none => throw s!"unknown deme {showId id}"
      let lc ← match t.cfg.levels[d.level]? with | some lc => pure lc | none => throw "no level"
      if lc.engine == .localOpt then throw "local deme produced a generation"
      if !d.active then throw s!"inactive deme {showId id} runs"
      if t.gscSeen && done > 0 then throw s!"deme {showId id} performs another generation after the global stop condition held"
      let parents := match pending.getLast? with | some p => p.inds | none => d.curPop
      let (t1, ev) ← evalReqs t id d.level true g.reqs
      let expected := if lc.engine == .cma then parents.length else lc.popSize
      match genOk t.cfg.maximize lc parents ev g.pop expected with
      | .error e => throw s!"deme {showId id}: {e}"
      | .ok _ => pure ()
      let gen : Gen := ⟨g.pop, ev⟩
      if lc.engine == .lhs || lc.engine == .sobol then
        -- `run()` appends its population as a metaepoch of its own, then `gsc or lsc`
        let t2 := appendHist t1 id [gen] true
        let gv ← match gscEval t2 g.gscEnv t2.cfg.gsc with | some v => pure v | none => throw "no GSC verdict"
        let d2 ← match t2.find id with | some d => pure d | none => throw "lost deme"
        let lv ← if gv then pure false else match lscEval t2 d2 lscEnv lc.lsc with | some v => pure v | none => throw "no LSC verdict"
        let t3 := t2.update id fun d => { d with active := !(gv || lv) }
        pure { t3 with pc := finish q, gscSeen := t3.gscSeen || gv }
      else
        -- the running metaepoch's generations are appended to the history at its end
        let gv ← match gscEval t1 g.gscEnv t1.cfg.gsc with | some v => pure v | none => throw "no GSC verdict"
        let selfStop := lc.engine == .cma && g.cmaStop
        if gv || selfStop then
          let t2 := appendHist t1 id (pending ++ [gen]) false
          pure { t2 with pc := finish q, gscSeen := t2.gscSeen || gv }
        else if done + 1 < lc.generations then
          pure { t1 with pc := .running q (some (id, done + 1, pending ++ [gen])) }
        else
          let t2 := appendHist t1 id (pending ++ [gen]) true
          let d2 ← match t2.find id with | some d => pure d | none => throw "lost deme"
          let lv ← match lscEval t2 d2 lscEnv lc.lsc with | some v => pure v | none => throw "no LSC verdict"
          let t3 := t2.update id fun d => { d with active := !lv }
          pure { t3 with pc := finish q }
    | _ => .error s!"deme {showId id} runs outside run_metaepoch"
  | .localRun id reqs iterates nfev =>
    match t.pc with
    | .running (qid :: q) none => do
      if qid != id then throw s!"deme {showId id} runs, but {showId qid} is next in the schedule"
      let d ← match t.find id with | some d => pure d | none => throw s!"unknown deme {showId id}"
      let lc ← match t.cfg.levels[d.level]? with | some lc => pure lc | none => throw "no level"
      if lc.engine != .localOpt then throw "localRun of a non-local deme"
      if !d.active then throw s!"inactive deme {showId id} runs"
      let (t1, ev) ← evalReqs t id d.level false reqs
      if nfev != reqs.length then throw s!"scipy reports nfev={nfev} but {reqs.length} evaluations were requested"
      let refusedHere := ev.any fun e => e.genome.isEmpty && e.fit == Fit.sentinel t.cfg.maximize
      if !(iterates.all fun i => ev.contains i || (refusedHere && i.fit == Fit.sentinel t.cfg.maximize)) then throw s!"local deme {showId id} recorded an iterate that was never evaluated with that value"
      let t2 := t1.update id fun d => { d with counter := d.counter + nfev, hist := d.hist ++ [[⟨iterates, ev⟩]], active := false }
      pure { t2 with pc := finish q }
    | _ => .error s!"local deme {showId id} runs at the wrong moment"
  | .round ge renv news =>
    match t.pc with
    | .post =>
      match gscEval t ge t.cfg.gsc with
      | none => .error "no verdict for the global stop condition"
      | some true =>
        if news.isEmpty then .ok { t with pc := .head, gscSeen := true }
        else .error "a deme was sprouted although the global stop condition holds"
      | some false =>
        match Sprout.getSeeds (view t) renv t.cfg.mech with
        | none => .error "sprout mechanism cannot be performed (missing environment / IndexError)"
        | some seeds => do
          -- candidates name their parent by rendered id; translate back to paths
          let idOf := fun (s : String) => ((t.demes.find? fun d => showId d.id == s).map (·.id)).getD []
          let flat := seeds.flatMap fun c => c.inds.map fun i => (idOf c.deme, i)
          let t1 ← doSprout t flat news
          pure { updateHibernation t1 (seeds.map fun c => idOf c.deme) with pc := .head }
    | _ => .error "sprouting round at the wrong moment"

def exec (t : T) : List Ev → Except String T
  | [] => .ok t
  | e :: es => do let t1 ← step t e; exec t1 es

end Tree
