import PyhmsVerif.Props.C15Full
import Mathlib.Algebra.Order.Ring.Rat
/-!
# C15 — the clustering does not depend on the order of its input

`NearestBetterClustering` first orders its input: a stable sort by genome (lexicographic), then
a stable best-first sort by fitness, then truncation.  `kept_perm_invariant`: for **any** two
input lists that are permutations of each other the kept, best-first population — the list the
nearest-better search, the threshold and the cut are computed on — is the same list of
individuals, whatever the tie pattern (individuals that tie in fitness *and* genome are equal).
With `C15.cluster_eq_spec` (the seeds are the declarative set of cluster seeds of the kept
population) this is the permutation invariance of the clustering: the only other input of the
definition is the distance between individuals.  (This is what finding D16 violated: the order
of equal-fitness individuals used to be the input order.)
-/
namespace C15Perm
open NBC Select

/-! ### lexicographic order on genomes -/

theorem lexLt_irrefl : ∀ a : List Rat, lexLt a a = false
  | [] => rfl
  | x :: xs => by simp [lexLt, lexLt_irrefl xs]

theorem lexLt_trans : ∀ {a b c : List Rat}, lexLt a b = true → lexLt b c = true → lexLt a c = true
  | [], [], _, h, _ => by simp [lexLt] at h
  | [], _ :: _, [], _, h => by simp [lexLt] at h
  | [], _ :: _, _ :: _, _, _ => by simp [lexLt]
  | _ :: _, [], _, h, _ => by simp [lexLt] at h
  | _ :: _, _ :: _, [], _, h => by simp [lexLt] at h
  | x :: xs, y :: ys, z :: zs, h1, h2 => by
    simp only [lexLt] at h1 h2 ⊢
    by_cases hxy : x < y
    · by_cases hyz : y < z
      · simp [lt_trans hxy hyz]
      · simp only [hyz, ↓reduceIte] at h2
        by_cases hzy : z < y
        · simp [hzy] at h2
        · have : y = z := le_antisymm (not_lt.mp hzy) (not_lt.mp hyz)
          subst this
          simp [hxy]
    · simp only [hxy, ↓reduceIte] at h1
      by_cases hyx : y < x
      · simp [hyx] at h1
      · have : x = y := le_antisymm (not_lt.mp hyx) (not_lt.mp hxy)
        subst this
        simp only [hyx, ↓reduceIte] at h1
        by_cases hxz : x < z
        · simp [hxz]
        · simp only [hxz, ↓reduceIte] at h2 ⊢
          by_cases hzx : z < x
          · simp [hzx] at h2
          · simp only [hzx, ↓reduceIte] at h2 ⊢
            exact lexLt_trans h1 h2

theorem lexLt_asymm {a b : List Rat} (h : lexLt a b = true) : lexLt b a = false := by
  by_contra hc
  have hb : lexLt b a = true := by simpa using hc
  have := lexLt_trans h hb
  rw [lexLt_irrefl] at this
  exact absurd this (by simp)

theorem lexLt_total : ∀ {a b : List Rat}, lexLt a b = false → lexLt b a = false → a = b
  | [], [], _, _ => rfl
  | [], _ :: _, h, _ => by simp [lexLt] at h
  | _ :: _, [], _, h => by simp [lexLt] at h
  | x :: xs, y :: ys, h1, h2 => by
    simp only [lexLt] at h1 h2
    by_cases hxy : x < y
    · simp [hxy] at h1
    · by_cases hyx : y < x
      · simp [hyx] at h2
      · have : x = y := le_antisymm (not_lt.mp hyx) (not_lt.mp hxy)
        subst this
        simp only [hxy, ↓reduceIte] at h1 h2
        rw [lexLt_total h1 h2]

/-! ### the order the two sorts establish -/

/-- `a` comes strictly before `b`: strictly better, or equal fitness and lexicographically
smaller genome -/
def Before (mx : Bool) (a b : Ind) : Prop :=
  better mx a b = true ∨ (a.fit = b.fit ∧ lexLt a.genome b.genome = true)

/-- `b` does not come strictly before `a` -/
def Le (mx : Bool) (a b : Ind) : Prop := ¬ Before mx b a

theorem le_antisymm (mx : Bool) (a b : Ind) (h1 : Le mx a b) (h2 : Le mx b a) : a = b := by
  simp only [Le, Before, not_or, not_and, Bool.not_eq_true] at h1 h2
  have hf : a.fit = b.fit := by
    have e1 : Fit.worse mx a.fit b.fit = false := by simpa [better, Select.better, worse] using h1.1
    have e2 : Fit.worse mx b.fit a.fit = false := by simpa [better, Select.better, worse] using h2.1
    cases mx
    · simp only [Fit.worse, Bool.false_eq_true, ↓reduceIte] at e1 e2
      exact (Fit.eq_of_not_lt e1 e2).symm
    · simp only [Fit.worse, ↓reduceIte] at e1 e2
      exact Fit.eq_of_not_lt e1 e2
  have hg : a.genome = b.genome := lexLt_total (h2.2 hf) (h1.2 hf.symm)
  cases a; cases b
  simp only at hf hg
  subst hf; subst hg; rfl

/-- non-strictly ascending in the genome: no later element is lexicographically smaller -/
def LexSorted (l : List (Nat × Ind)) : Prop :=
  l.Pairwise fun a b => lexLt b.2.genome a.2.genome = false

theorem insertLex_sorted (a : Nat × Ind) (l : List (Nat × Ind)) (h : LexSorted l) : LexSorted (insertLex a l) := by
  induction l with
  | nil => simp [insertLex, LexSorted]
  | cons b t ih =>
    simp only [LexSorted, List.pairwise_cons] at h
    obtain ⟨hb, ht⟩ := h
    simp only [insertLex]
    split
    · rename_i hab
      simp only [LexSorted, List.pairwise_cons, List.mem_cons]
      refine ⟨?_, hb, ht⟩
      intro x hx
      rcases hx with rfl | hx
      · exact lexLt_asymm hab
      · by_contra hc
        have hxa : lexLt x.2.genome a.2.genome = true := by simpa using hc
        have := lexLt_trans hxa hab
        rw [hb x hx] at this
        exact absurd this (by simp)
    · rename_i hab
      simp only [LexSorted, List.pairwise_cons]
      refine ⟨?_, ih ht⟩
      intro y hy
      have hy' : y ∈ a :: t := (C15.insertLex_perm a t).mem_iff.mp hy
      rcases List.mem_cons.mp hy' with rfl | hyt
      · simpa using hab
      · exact hb y hyt

theorem sortLex_sorted (l : List (Nat × Ind)) : LexSorted (sortLex l) := by
  have key : ∀ (l acc : List (Nat × Ind)), LexSorted acc → LexSorted (l.foldl (fun acc a => insertLex a acc) acc) := by
    intro l
    induction l with
    | nil => intro acc h; exact h
    | cons a t ih => intro acc h; exact ih _ (insertLex_sorted a acc h)
  exact key l [] (by simp [LexSorted])

/-- best first, ties in genome order -/
def FullSorted (mx : Bool) (l : List (Nat × Ind)) : Prop := l.Pairwise fun a b => Le mx a.2 b.2

theorem insertDesc_full (mx : Bool) (a : Nat × Ind) (l : List (Nat × Ind)) (h : FullSorted mx l)
    (hlex : ∀ b ∈ l, lexLt b.2.genome a.2.genome = false) : FullSorted mx (insertDesc mx a l) := by
  induction l with
  | nil => simp [insertDesc, FullSorted]
  | cons b t ih =>
    simp only [FullSorted, List.pairwise_cons] at h
    obtain ⟨hb, ht⟩ := h
    simp only [insertDesc]
    split
    · rename_i hw
      -- b is strictly better than a: b stays in front
      simp only [FullSorted, List.pairwise_cons]
      refine ⟨?_, ih ht (fun x hx => hlex x (List.mem_cons_of_mem _ hx))⟩
      intro y hy
      have hy' : y ∈ a :: t := (insertDesc_perm mx a t).mem_iff.mp hy
      rcases List.mem_cons.mp hy' with rfl | hyt
      · -- Le b a : a does not come before b
        simp only [Le, Before, not_or, not_and, Bool.not_eq_true]
        constructor
        · have := Fit.worse_asymm hw
          simpa [better, Select.better, worse] using this
        · intro he
          simp only [worse] at hw
          rw [he, Fit.worse_irrefl] at hw
          exact absurd hw (by simp)
      · exact hb y hyt
    · rename_i hw
      have hw' : worse mx a.2 b.2 = false := by simpa using hw
      simp only [FullSorted, List.pairwise_cons, List.mem_cons]
      refine ⟨?_, hb, ht⟩
      intro y hy
      simp only [Le, Before, not_or, not_and, Bool.not_eq_true]
      have hlexy : lexLt y.2.genome a.2.genome = false := hlex y (by
        rcases hy with rfl | hy
        · simp
        · simp [hy])
      refine ⟨?_, fun _ => hlexy⟩
      rcases hy with rfl | hy
      · simpa [better, Select.better, worse] using hw'
      · -- worse a y = false from worse a b = false and Le b y
        have hby := hb y hy
        simp only [Le, Before, not_or, not_and, Bool.not_eq_true] at hby
        have e1 : Fit.worse mx b.2.fit y.2.fit = false := by simpa [better, Select.better, worse] using hby.1
        have e2 : Fit.worse mx a.2.fit b.2.fit = false := by simpa [worse] using hw'
        have := Fit.not_worse_trans (mx := mx) (a := y.2.fit) (b := b.2.fit) (c := a.2.fit) e1 e2
        simpa [better, Select.better, worse] using this

theorem sortDesc_full (mx : Bool) : ∀ (l : List (Nat × Ind)), LexSorted l → FullSorted mx (sortDesc mx l)
  | [], _ => by simp [sortDesc, FullSorted]
  | a :: t, h => by
    simp only [LexSorted, List.pairwise_cons] at h
    obtain ⟨ha, ht⟩ := h
    simp only [sortDesc]
    refine insertDesc_full mx a _ (sortDesc_full mx t ht) ?_
    intro b hb
    exact ha b ((sortDesc_perm mx t).mem_iff.mp hb)

/-- the individuals in the order the two sorts leave them depend only on the multiset of individuals -/
theorem sorted_inds_eq (mx : Bool) (l l' : List (Nat × Ind)) (h : (l.map (·.2)).Perm (l'.map (·.2))) :
    (sortDesc mx (sortLex l)).map (·.2) = (sortDesc mx (sortLex l')).map (·.2) := by
  have hp : ∀ k : List (Nat × Ind), ((sortDesc mx (sortLex k)).map (·.2)).Perm (k.map (·.2)) := fun k =>
    ((sortDesc_perm mx (sortLex k)).trans (C15.sortLex_perm k)).map _
  have hs : ∀ k : List (Nat × Ind), ((sortDesc mx (sortLex k)).map (·.2)).Pairwise (Le mx) := fun k => by
    rw [List.pairwise_map]
    exact sortDesc_full mx _ (sortLex_sorted k)
  exact List.Perm.eq_of_pairwise (fun a b _ _ h1 h2 => le_antisymm mx a b h1 h2) (hs l) (hs l')
    ((hp l).trans (h.trans (hp l').symm))

theorem zipIdx_inds (pop : List Ind) : ((List.zipIdx pop).map fun p => (p.2, p.1)).map (·.2) = pop := by
  simp only [List.map_map]
  have : ((fun (p : Nat × Ind) => p.2) ∘ fun (p : Ind × Nat) => (p.2, p.1)) = fun p => p.1 := by
    funext p; rfl
  rw [this]
  exact List.zipIdx_map_fst 0 pop |> fun h => by simpa using h

/-- **C15, permutation invariance.**  For any two populations that are permutations of each other
— any tie pattern, any direction, any truncation — the kept, best-first population the clustering
computes on is the same list of individuals. -/
theorem kept_perm_invariant (mx : Bool) (pop pop' : List Ind) (m : Nat) (h : pop.Perm pop') :
    ((sortDesc mx (sortLex ((List.zipIdx pop).map fun p => (p.2, p.1)))).take m).map (·.2) =
    ((sortDesc mx (sortLex ((List.zipIdx pop').map fun p => (p.2, p.1)))).take m).map (·.2) := by
  rw [List.map_take, List.map_take]
  congr 1
  apply sorted_inds_eq
  rw [zipIdx_inds, zipIdx_inds]
  exact h

/-- non-vacuity / the D16 scenario: three individuals of equal fitness, two input orders, one result -/
example : ((sortDesc false (sortLex ((List.zipIdx [(⟨[2], .fin 1⟩ : Ind), ⟨[1], .fin 1⟩, ⟨[3], .fin 1⟩]).map fun p => (p.2, p.1)))).take 2).map (·.2)
    = [⟨[1], .fin 1⟩, ⟨[2], .fin 1⟩] := by decide +kernel

end C15Perm

/-! ## From the kept population to the returned seeds

The definition `NBC.spec` mentions input positions only as arguments of the distance function.
`spec_reindex`: renaming the positions consistently with the distance function does not change
the set of seeds. -/
namespace C15Perm
open NBC Select

theorem argminFirst_fst {α : Type} (a : α → Rat) (b b' : α → Nat) : ∀ l : List α,
    (argminFirst (l.map fun q => (a q, b q))).map (·.1) = (argminFirst (l.map fun q => (a q, b' q))).map (·.1)
  | [] => rfl
  | x :: l => by
    simp only [List.map_cons, argminFirst]
    have ih := argminFirst_fst a b b' l
    cases h1 : argminFirst (l.map fun q => (a q, b q)) with
    | none =>
      cases h2 : argminFirst (l.map fun q => (a q, b' q)) with
      | none => rfl
      | some y' => rw [h1, h2] at ih; simp at ih
    | some y =>
      cases h2 : argminFirst (l.map fun q => (a q, b' q)) with
      | none => rw [h1, h2] at ih; simp at ih
      | some y' =>
        rw [h1, h2] at ih
        simp only [Option.map_some, Option.some.injEq] at ih
        simp only [ih]
        split <;> simp [ih]

theorem seedMatch (thr : Rat) (o : Option (Rat × Nat)) :
    (match o with
      | some (d, _) => decide (d > thr)
      | none => false) =
    (match o.map (·.1) with
      | some d => decide (d > thr)
      | none => false) := by
  cases o with
  | none => rfl
  | some x => cases x; rfl

theorem isSeed_reindex (mx : Bool) (dist dist' : Nat → Nat → Rat) (f : Nat → Nat) (s : List (Nat × Ind)) (thr : Rat)
    (hnd : (s.map (·.2.genome)).Nodup)
    (hd : ∀ p ∈ s, ∀ q ∈ s, dist' (f p.1) (f q.1) = dist p.1 q.1) (p : Nat × Ind) (hp : p ∈ s) :
    isSeed mx dist' (s.map fun p => (f p.1, p.2)) thr (f p.1, p.2) = isSeed mx dist s thr p := by
  cases s with
  | nil => simp at hp
  | cons root rest =>
    have hroot : root ∈ root :: rest := by simp
    simp only [List.map_cons, isSeed]
    have heq : (((f p.1, p.2) : Nat × Ind) == (f root.1, root.2)) = (p == root) := by
      by_cases hpr : p = root
      · subst hpr; simp
      · have : ((f p.1, p.2) : Nat × Ind) ≠ (f root.1, root.2) := by
          intro he
          have h2 : p.2 = root.2 := (Prod.mk.injEq _ _ _ _ ▸ he : _ ∧ _).2
          exact hpr (List.inj_on_of_nodup_map hnd hp hroot (by rw [h2]))
        simp [hpr, this]
    rw [heq]
    split
    · rfl
    · have key : (argminFirst (List.map (fun q : Nat × Ind => (dist' (f p.1) q.1, q.1))
            (if (p.2.fit == root.2.fit) = true then [(f root.1, root.2)]
             else List.filter (fun q : Nat × Ind => better mx q.2 p.2) ((f root.1, root.2) :: List.map (fun p => (f p.1, p.2)) rest)))).map (·.1)
          = (argminFirst (List.map (fun q : Nat × Ind => (dist p.1 q.1, q.1))
            (if (p.2.fit == root.2.fit) = true then [root]
             else List.filter (fun q : Nat × Ind => better mx q.2 p.2) (root :: rest)))).map (·.1) := by
        by_cases hf : (p.2.fit == root.2.fit) = true
        · simp only [hf, ↓reduceIte, List.map_cons, List.map_nil, argminFirst, Option.map_some]
          rw [hd p hp root hroot]
        · simp only [hf, Bool.false_eq_true, ↓reduceIte]
          have hfil : List.filter (fun q : Nat × Ind => better mx q.2 p.2) ((f root.1, root.2) :: List.map (fun p => (f p.1, p.2)) rest)
              = (List.filter (fun q : Nat × Ind => better mx q.2 p.2) (root :: rest)).map fun p => (f p.1, p.2) := by
            rw [← List.map_cons (f := fun p : Nat × Ind => (f p.1, p.2)), List.filter_map]
            rfl
          rw [hfil, List.map_map]
          have hmap : (List.filter (fun q : Nat × Ind => better mx q.2 p.2) (root :: rest)).map
                ((fun q : Nat × Ind => (dist' (f p.1) q.1, q.1)) ∘ fun p => (f p.1, p.2))
              = (List.filter (fun q : Nat × Ind => better mx q.2 p.2) (root :: rest)).map fun q => (dist p.1 q.1, f q.1) := by
            apply List.map_congr_left
            intro q hq
            simp only [Function.comp]
            rw [hd p hp q (List.mem_of_mem_filter hq)]
          rw [hmap]
          exact argminFirst_fst (fun q : Nat × Ind => dist p.1 q.1) (fun q => f q.1) (fun q => q.1) _
      revert key
      generalize argminFirst (List.map (fun q : Nat × Ind => (dist' (f p.1) q.1, q.1))
            (if (p.2.fit == root.2.fit) = true then [(f root.1, root.2)]
             else List.filter (fun q : Nat × Ind => better mx q.2 p.2) ((f root.1, root.2) :: List.map (fun p => (f p.1, p.2)) rest))) = o'
      generalize argminFirst (List.map (fun q : Nat × Ind => (dist p.1 q.1, q.1))
            (if (p.2.fit == root.2.fit) = true then [root]
             else List.filter (fun q : Nat × Ind => better mx q.2 p.2) (root :: rest))) = o
      intro key
      cases o' with
      | none =>
        cases o with
        | none => rfl
        | some y => simp at key
      | some y' =>
        cases o with
        | none => simp at key
        | some y =>
          obtain ⟨d', _⟩ := y'
          obtain ⟨d, _⟩ := y
          simp only [Option.map_some, Option.some.injEq] at key
          subst key
          rfl

/-- renaming input positions consistently with the distance function leaves the seeds unchanged -/
theorem spec_reindex (mx : Bool) (dist dist' : Nat → Nat → Rat) (f : Nat → Nat) (s : List (Nat × Ind)) (thr : Rat)
    (hnd : (s.map (·.2.genome)).Nodup)
    (hd : ∀ p ∈ s, ∀ q ∈ s, dist' (f p.1) (f q.1) = dist p.1 q.1) :
    spec mx dist' (s.map fun p => (f p.1, p.2)) thr = spec mx dist s thr := by
  unfold spec
  rw [List.filter_map, List.map_map]
  have hfil : List.filter ((isSeed mx dist' (s.map fun p => (f p.1, p.2)) thr) ∘ fun p => (f p.1, p.2)) s
      = List.filter (isSeed mx dist s thr) s := by
    apply List.filter_congr
    intro p hp
    exact isSeed_reindex mx dist dist' f s thr hnd hd p hp
  rw [hfil]
  rfl

end C15Perm

namespace C15Perm
open NBC Select

/-- the genome at an input position (empty when out of range) -/
def gen (pop : List Ind) (i : Nat) : List Rat := match pop[i]? with | some a => a.genome | none => []

/-- a distance function on input positions induced by a distance between genomes -/
def distOf (distG : List Rat → List Rat → Rat) (pop : List Ind) (i j : Nat) : Rat := distG (gen pop i) (gen pop j)

theorem cluster_kept (mx : Bool) (dist : Nat → Nat → Rat) (pop : List Ind) (phi t : Rat) (mean : Option Rat) (r : Result)
    (h : cluster mx dist pop phi t mean = some r) :
    ∃ m, truncLen pop.length t = some m ∧
      r.kept = (sortDesc mx (sortLex ((List.zipIdx pop).map fun p => (p.2, p.1)))).take m := by
  simp only [cluster, Option.bind_eq_some_iff] at h
  obtain ⟨m, hm, h⟩ := h
  split at h
  · cases h
  refine ⟨m, hm, ?_⟩
  unfold clusterSorted at h
  simp only [] at h
  split at h
  · cases h
  simp only [Option.bind_eq_some_iff] at h
  obtain ⟨thr, _, h⟩ := h
  split at h
  · cases h
  · rename_i root rest hsr
    simp only [Option.some.injEq] at h
    subst h
    rfl

/-- **C15, permutation invariance of the result.**  For a distance that depends on the genomes only,
two populations that are permutations of each other (pairwise distinct genomes) and the same
parameters: whenever the clustering is defined on both, it returns the same list of seeds. -/
theorem seeds_perm_invariant (mx : Bool) (distG : List Rat → List Rat → Rat) (pop pop' : List Ind) (phi t : Rat)
    (mean : Option Rat) (r r' : Result) (hperm : pop.Perm pop') (hnd : (pop.map (·.genome)).Nodup)
    (h : cluster mx (distOf distG pop) pop phi t mean = some r)
    (h' : cluster mx (distOf distG pop') pop' phi t mean = some r') : r.seeds = r'.seeds := by
  have hnd' : (pop'.map (·.genome)).Nodup := (List.Perm.nodup_iff (hperm.map _)).mp hnd
  have hndI' : pop'.Nodup := List.Nodup.of_map _ hnd'
  obtain ⟨thr, hthr, hseeds, hsorted, hmem⟩ := C15.cluster_eq_spec mx _ pop phi t mean r hnd h
  obtain ⟨thr', hthr', hseeds', _, hmem'⟩ := C15.cluster_eq_spec mx _ pop' phi t mean r' hnd' h'
  have hthreq : thr' = thr := by rw [hthr] at hthr'; exact (Option.some.inj hthr').symm
  obtain ⟨m, hm, hk⟩ := cluster_kept mx _ pop phi t mean r h
  obtain ⟨m', hm', hk'⟩ := cluster_kept mx _ pop' phi t mean r' h'
  have hmm : m' = m := by rw [hperm.length_eq, hm'] at hm; exact Option.some.inj hm
  subst hmm
  have hinds : r.kept.map (·.2) = r'.kept.map (·.2) := by
    rw [hk, hk']; exact kept_perm_invariant mx pop pop' m' hperm
  -- the renaming of positions: where the individual at position i of `pop` sits in `pop'`
  let f : Nat → Nat := fun i => match pop[i]? with | some a => pop'.idxOf a | none => 0
  have hf : ∀ p ∈ r.kept, pop'[f p.1]? = some p.2 := by
    intro p hp
    have := hmem p hp
    simp only [f, this]
    exact List.getElem?_idxOf (hperm.subset (List.mem_of_getElem? this))
  have hkept : r'.kept = r.kept.map fun p => (f p.1, p.2) := by
    apply List.ext_getElem
    · have := congrArg List.length hinds
      simpa using this.symm
    · intro j h1 h2
      have hj : j < r.kept.length := by simpa using h2
      have e2 : (r'.kept[j]).2 = (r.kept[j]).2 := by
        have := congrArg (fun l => l[j]?) hinds
        simp only [List.getElem?_map, List.getElem?_eq_getElem hj, List.getElem?_eq_getElem h1, Option.map_some,
          Option.some.injEq] at this
        exact this.symm
      have a1 := hmem' _ (List.getElem_mem h1)
      have a2 := hf _ (List.getElem_mem hj)
      rw [← e2] at a2
      have e1 : (r'.kept[j]).1 = f (r.kept[j]).1 := by
        have l1 : (r'.kept[j]).1 < pop'.length := by
          by_contra hc
          rw [List.getElem?_eq_none (by omega)] at a1
          exact absurd a1 (by simp)
        have l2 : f (r.kept[j]).1 < pop'.length := by
          by_contra hc
          rw [List.getElem?_eq_none (by omega)] at a2
          exact absurd a2 (by simp)
        rw [List.getElem?_eq_getElem l1] at a1
        rw [List.getElem?_eq_getElem l2] at a2
        have : pop'[(r'.kept[j]).1] = pop'[f (r.kept[j]).1] := by
          rw [Option.some.inj a1, Option.some.inj a2]
        exact (List.Nodup.getElem_inj_iff hndI').mp this
      simp only [List.getElem_map]
      exact Prod.ext e1 e2
  have hd : ∀ p ∈ r.kept, ∀ q ∈ r.kept, distOf distG pop' (f p.1) (f q.1) = distOf distG pop p.1 q.1 := by
    intro p hp q hq
    simp only [distOf, gen, hf p hp, hf q hq, hmem p hp, hmem q hq]
  have hndk : (r.kept.map (·.2.genome)).Nodup := by
    have hsub : (r.kept.map (·.2)).Sublist ((sortDesc mx (sortLex ((List.zipIdx pop).map fun p => (p.2, p.1)))).map (·.2)) := by
      rw [hk]; exact (List.take_sublist _ _).map _
    have hp2 : ((sortDesc mx (sortLex ((List.zipIdx pop).map fun p => (p.2, p.1)))).map (·.2)).Perm pop := by
      have := ((sortDesc_perm mx (sortLex ((List.zipIdx pop).map fun p => (p.2, p.1)))).trans
        (C15.sortLex_perm ((List.zipIdx pop).map fun p => (p.2, p.1)))).map (fun p : Nat × Ind => p.2)
      rw [zipIdx_inds] at this
      exact this
    have hn2 : (((sortDesc mx (sortLex ((List.zipIdx pop).map fun p => (p.2, p.1)))).map (·.2)).map (·.genome)).Nodup :=
      (List.Perm.nodup_iff (hp2.map _)).mpr hnd
    have := List.Nodup.sublist (hsub.map (·.genome)) hn2
    rw [List.map_map] at this
    exact this
  rw [hseeds, hseeds', hthreq, hkept]
  exact (spec_reindex mx (distOf distG pop) (distOf distG pop') f r.kept thr hndk hd).symm

end C15Perm
