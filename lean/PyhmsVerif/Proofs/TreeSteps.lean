import PyhmsVerif.Proofs.TreeBasic
/-!
Effect lemmas for the four sub-steps of `Tree.step`.
-/
namespace Tree

/-- functions on demes that only let a deme "grow": same identity, activity can only
drop, history is extended, the counter does not decrease -/
structure Grow (f : Deme → Deme) : Prop where
  id : ∀ d, (f d).id = d.id
  level : ∀ d, (f d).level = d.level
  startedAt : ∀ d, (f d).startedAt = d.startedAt
  parent : ∀ d, (f d).parent = d.parent
  seed : ∀ d, (f d).seed = d.seed
  active : ∀ d, (f d).active = true → d.active = true
  hist : ∀ d, ∃ ext, (f d).hist = d.hist ++ ext
  counter : ∀ d, d.counter ≤ (f d).counter

theorem Grow.demeStep {f : Deme → Deme} (hf : Grow f) (d : Deme) (ha : d.active = true) : DemeStep d (f d) :=
  ⟨hf.id d, hf.level d, hf.startedAt d, hf.parent d, hf.seed d, hf.active d,
    fun h => by simp [ha] at h, hf.hist d, hf.counter d⟩

theorem Grow.comp {f g : Deme → Deme} (hf : Grow f) (hg : Grow g) : Grow (f ∘ g) := by
  refine ⟨fun d => (hf.id _).trans (hg.id d), fun d => (hf.level _).trans (hg.level d),
    fun d => (hf.startedAt _).trans (hg.startedAt d), fun d => (hf.parent _).trans (hg.parent d),
    fun d => (hf.seed _).trans (hg.seed d), fun d h => hg.active d (hf.active _ h), ?_,
    fun d => Nat.le_trans (hg.counter d) (hf.counter _)⟩
  intro d
  obtain ⟨e1, h1⟩ := hg.hist d
  obtain ⟨e2, h2⟩ := hf.hist (g d)
  exact ⟨e1 ++ e2, by simp [Function.comp, h2, h1, List.append_assoc]⟩

theorem grow_bump (k : Nat) : Grow (bump k) :=
  ⟨fun _ => rfl, fun _ => rfl, fun _ => rfl, fun _ => rfl, fun _ => rfl, fun _ h => h,
    fun _ => ⟨[], by simp [bump]⟩, fun _ => by simp [bump]⟩

theorem grow_append (gens : List Gen) (b : Bool) :
    Grow (fun d => { d with hist := d.hist ++ [gens], active := d.active && b }) :=
  ⟨fun _ => rfl, fun _ => rfl, fun _ => rfl, fun _ => rfl, fun _ => rfl,
    fun d h => by simp only [Bool.and_eq_true] at h; exact h.1,
    fun _ => ⟨[gens], rfl⟩, fun _ => Nat.le_refl _⟩

theorem grow_deact (b : Bool) : Grow (fun d => { d with active := d.active && b }) :=
  ⟨fun _ => rfl, fun _ => rfl, fun _ => rfl, fun _ => rfl, fun _ => rfl,
    fun d h => by simp only [Bool.and_eq_true] at h; exact h.1,
    fun _ => ⟨[], by simp⟩, fun _ => Nat.le_refl _⟩

theorem grow_local (n : Nat) (gens : List Gen) :
    Grow (fun d => { d with counter := d.counter + n, hist := d.hist ++ [gens], active := false }) :=
  ⟨fun _ => rfl, fun _ => rfl, fun _ => rfl, fun _ => rfl, fun _ => rfl,
    fun d h => by simp at h, fun _ => ⟨[gens], rfl⟩, fun _ => by simp⟩

/-- updating the first deme with `id` by a growing function, when that deme is active -/
theorem grow_forall2 {f : Deme → Deme} (hf : Grow f) (id : Id) (ds : List Deme) (d0 : Deme)
    (hfind : ds.find? (·.id == id) = some d0) (ha : d0.active = true) :
    List.Forall₂ DemeStep ds (updFirst id f ds) := by
  apply updFirst_forall2
  intro d hd
  rw [hfind] at hd
  cases hd
  exact hf.demeStep d0 ha

/-- common frame of the non-sprouting steps -/
structure RunEffect (t t' : T) : Prop where
  cfg : t'.cfg = t.cfg
  metaepoch : t'.metaepoch = t.metaepoch
  levels : t'.levels = t.levels
  demes : List.Forall₂ DemeStep t.demes t'.demes
  gscSeenMono : t.gscSeen = true → t'.gscSeen = true
  refusedMono : t.refused = true → t'.refused = true

theorem finishGen_demes {t1 t' : T} {id : Id} {lc : LevelCfg} {q : List Id} {done : Nat}
    {pending : List Gen} {gen : Gen} {g : GenEnv} {lscEnv : Option Bool}
    (h : finishGen t1 id lc q done pending gen g lscEnv = .ok t') :
    ∃ f, Grow f ∧ t'.demes = updFirst id f t1.demes ∧ t'.cfg = t1.cfg ∧ t'.metaepoch = t1.metaepoch ∧
      t'.levels = t1.levels ∧ t'.log = t1.log ∧ t'.refused = t1.refused ∧ t'.stacks = t1.stacks ∧
      (t1.gscSeen = true → t'.gscSeen = true) := by
  unfold finishGen at h
  split at h
  · -- lhs / sobol
    simp only [] at h
    split at h
    · simp at h
    · rename_i gv hgv
      split at h
      · simp at h
      · rename_i d2 hd2
        split at h
        · simp at h
        · rename_i lv hlv
          simp only [Except.ok.injEq] at h
          subst h
          refine ⟨(fun d => { d with active := d.active && !(gv || lv) }) ∘
              (fun d => { d with hist := d.hist ++ [[gen]], active := d.active && true }),
            (grow_deact _).comp (grow_append [gen] true), ?_, rfl, rfl, rfl, rfl, rfl, rfl, ?_⟩
          · simp only [T.update, appendHist]
            exact updFirst_comp _ _ _ _ (fun _ => rfl)
          · intro hs; simp [T.update, appendHist, hs]
  · split at h
    · simp at h
    · rename_i gv hgv
      simp only [] at h
      split at h
      · simp only [Except.ok.injEq] at h
        subst h
        exact ⟨_, grow_append _ false, rfl, rfl, rfl, rfl, rfl, rfl, rfl, by intro hs; simp [appendHist, T.update, hs]⟩
      · split at h
        · simp only [Except.ok.injEq] at h
          subst h
          refine ⟨bump 0, grow_bump 0, by simp [updFirst_bump_zero], rfl, rfl, rfl, rfl, rfl, rfl, fun hs => hs⟩
        · split at h
          · simp at h
          · rename_i d2 hd2
            split at h
            · simp at h
            · rename_i lv hlv
              simp only [Except.ok.injEq] at h
              subst h
              refine ⟨(fun d => { d with active := d.active && !lv }) ∘
                  (fun d => { d with hist := d.hist ++ [pending ++ [gen]], active := d.active && true }),
                (grow_deact _).comp (grow_append (pending ++ [gen]) true), ?_, rfl, rfl, rfl, rfl, rfl, rfl, ?_⟩
              · simp only [T.update, appendHist]
                exact updFirst_comp _ _ _ _ (fun _ => rfl)
              · intro hs; simpa [T.update, appendHist] using hs

theorem prepareGen_ok {t : T} {id : Id} {q : List Id} {done : Nat} {pending : List Gen} {d : Deme} {lc : LevelCfg}
    (h : prepareGen t id = .ok (q, done, pending, d, lc)) :
    t.find id = some d ∧ d.active = true ∧ t.cfg.levels[d.level]? = some lc ∧ lc.engine ≠ .localOpt ∧
      ∃ queue cur, t.pc = .running queue cur := by
  unfold prepareGen at h
  split at h
  · rename_i queue cur hpc
    split at h
    · simp at h
    · split at h
      · simp at h
      · rename_i d' hd'
        split at h
        · simp at h
        · rename_i lc' hlc'
          split at h
          · simp at h
          · rename_i hl
            split at h
            · simp at h
            · rename_i ha
              split at h
              · simp at h
              · simp only [Except.ok.injEq, Prod.mk.injEq] at h
                obtain ⟨_, _, _, rfl, rfl⟩ := h
                refine ⟨hd', by simpa using ha, hlc', by simpa using hl, queue, cur, hpc⟩
  · simp at h

theorem stepGen_effect {t t' : T} {id : Id} {g : GenEnv} {l : Option Bool}
    (h : stepGen t id g l = .ok t') : RunEffect t t' := by
  unfold stepGen at h
  split at h
  · simp at h
  · rename_i q done pending d lc hprep
    obtain ⟨hfind, hact, _, _, _⟩ := prepareGen_ok hprep
    simp only [] at h
    split at h
    · simp at h
    · rename_i t1 ev hev
      split at h
      · simp at h
      · have e := evalReqs_effect hev
        obtain ⟨f, hf, hd, hc, hm, hl, _, hr, _, hg⟩ := finishGen_demes h
        refine ⟨hc.trans e.cfg, hm.trans e.metaepoch, hl.trans e.levels, ?_, ?_, ?_⟩
        · rw [hd, e.demes, updFirst_comp id f (bump _) t.demes (fun _ => rfl)]
          exact grow_forall2 (hf.comp (grow_bump _)) id t.demes d hfind hact
        · intro hs; exact hg (by rw [e.gscSeen]; exact hs)
        · intro hs; rw [hr]; exact e.refusedMono hs

theorem stepLocal_effect {t t' : T} {id : Id} {reqs : List Req} {its : List Ind} {nfev : Nat}
    (h : stepLocal t id reqs its nfev = .ok t') : RunEffect t t' := by
  unfold stepLocal at h
  split at h
  · split at h
    · simp at h
    · split at h
      · simp at h
      · rename_i d hfind
        split at h
        · simp at h
        · split at h
          · simp at h
          · split at h
            · simp at h
            · rename_i ha
              split at h
              · simp at h
              · rename_i t1 ev hev
                split at h
                · simp at h
                · simp only [] at h
                  split at h
                  · simp at h
                  · simp only [Except.ok.injEq] at h
                    subst h
                    have e := evalReqs_effect hev
                    refine ⟨e.cfg, e.metaepoch, e.levels, ?_, fun hs => by simpa [T.update, e.gscSeen] using hs,
                      fun hs => by simpa [T.update] using e.refusedMono hs⟩
                    simp only [T.update]
                    rw [e.demes, updFirst_comp id _ (bump _) t.demes (fun _ => rfl)]
                    exact grow_forall2 ((grow_local _ _).comp (grow_bump _)) id t.demes d hfind (by simpa using ha)
  · simp at h

theorem stepLoop_effect {t t' : T} {ge : Option Bool} (h : stepLoop t ge = .ok t') :
    t'.cfg = t.cfg ∧ t'.demes = t.demes ∧ t'.levels = t.levels ∧ t'.log = t.log ∧ t'.refused = t.refused ∧
    t'.stacks = t.stacks ∧ (t.gscSeen = true → t'.gscSeen = true) ∧
    ((t'.metaepoch = t.metaepoch ∧ t'.pc = .done ∧ t'.gscSeen = true) ∨
     (t'.metaepoch = t.metaepoch + 1 ∧ t.gscSeen = false ∧ t'.gscSeen = false ∧
        gscEval t ge t.cfg.gsc = some false)) := by
  unfold stepLoop at h
  split at h
  · split at h
    · simp at h
    · simp only [Except.ok.injEq] at h
      subst h
      exact ⟨rfl, rfl, rfl, rfl, rfl, rfl, fun _ => rfl, Or.inl ⟨rfl, rfl, rfl⟩⟩
    · rename_i hg
      split at h
      · simp at h
      · rename_i hs
        simp only [Except.ok.injEq] at h
        subst h
        have hs' : t.gscSeen = false := by simpa using hs
        exact ⟨rfl, rfl, rfl, rfl, rfl, rfl, fun hx => by simp [hs'] at hx, Or.inr ⟨rfl, hs', hs', hg⟩⟩
  · simp at h

end Tree
