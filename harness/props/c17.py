"""C17 — bound repair lands inside the box and only moves what it must.

Correspondence: `apply_bounds` (real NumPy code from /repo) vs `Repair.repair` with the
binary64 rounding model, compared bit-for-bit (exact rationals) on adversarial inputs.
Monitor: the property itself, in exact rational arithmetic, on the real outputs.
"""
from fractions import Fraction

import numpy as np

from ..common import Slice, fr, run_driver

MODULE = "PyhmsVerif.Props.C17"
THEOREMS = ['C17.repair_inBox', 'C17.inside_unchanged', 'C17.moved_only_if_outside', 'C17.clip_nearest_face', 'C17.clip_total', 'C17.toroidal_congr', 'C17.reflect_congr', 'F64.npDivmod_ideal']
LEVEL = "proof"
LEVEL_TEXT = "Theorems for all boxes, inputs and rounding functions (in-box, inside-unchanged, clip to nearest face, congruence in ideal arithmetic) about the Lean model of apply_bounds; the model is tied to the NumPy code bit-for-bit by differential testing on adversarial doubles every run."
LEVEL_NOTE = "Trusted: Lean kernel + 3 standard axioms; the F64 rounding/npy_divmod model (validated, not proved, against NumPy); no-overflow domain. The binary64 deviation from the ideal congruence is monitored, not proved."
TECHNIQUE = "Lean 4 proof over an exact-rational binary64 model + bit-exact differential correspondence"
RULE = (
    "cases = (method, lower, upper, x) coordinates fed to the real apply_bounds through N x D matrix calls; boxes: decimal "
    "(-0.1,0.2)-style, tiny, huge, negative, random; x: interior, both faces, +-1 ulp around faces, exact multiples of the range "
    "+-1 ulp, many ranges away. non-trivial = x on a face or outside the box (repair path or boundary exercised); distinct by "
    "(method, lower, upper, x)"
)
ASSUMPTIONS = [
    "no intermediate overflow (range and x - lower finite); boxes whose range overflows binary64 are outside the domain",
    "F64 rounding model validated against NumPy bit-for-bit on every run, not proved against IEEE-754",
]
TRUSTED_BASE = ["F64.rnd / npDivmod model of NumPy float64 arithmetic (validated by this slice)", "Python Fraction(float) as exact decoder of doubles"]
METHODS = ["clip", "reflect", "toroidal"]


def ulp(x):
    return float(np.spacing(abs(float(x)))) if x != 0 else 5e-324


def gen_boxes(rng, n):
    boxes = [(-0.1, 0.2), (-20.0, 20.0), (0.1, 0.7), (-1e-3, 1e-3), (1e10, 3e10), (-0.3, -0.1), (1 / 3, 2 / 3), (0.0, 1.0), (-5.0, 5.0), (-1e-300, 1e-300), (1e-8, 1.0), (-1e15, 1e15 + 2), (2.0**52, 2.0**52 + 4), (-0.7, 0.1)]
    for _ in range(n):
        k = rng.integers(0, 4)
        if k == 0:
            lo = float(rng.uniform(-10, 10))
            boxes.append((lo, lo + float(rng.uniform(1e-6, 10))))
        elif k == 1:
            lo = float(np.round(rng.uniform(-3, 3), 1))
            boxes.append((lo, float(np.round(lo + rng.uniform(0.1, 4), 1)) + (0.1 if rng.random() < 0.2 else 0)))
        elif k == 2:
            s = 10.0 ** rng.integers(-12, 12)
            lo = float(rng.uniform(-1, 1)) * s
            boxes.append((lo, lo + float(rng.uniform(0.01, 2)) * s))
        else:
            lo = float(rng.integers(-50, 50))
            boxes.append((lo, lo + float(rng.integers(1, 40))))
    return [(lo, hi) for lo, hi in boxes if lo < hi and np.isfinite(hi - lo)]


def gen_xs(rng, lo, hi, n):
    r = hi - lo
    xs = [lo, hi, np.nextafter(lo, -np.inf), np.nextafter(hi, np.inf), np.nextafter(lo, np.inf), np.nextafter(hi, -np.inf), lo + 0.5 * r, lo - 1e-17, hi + 1e-17]
    xs += [lo + k * r for k in range(-6, 8)]
    xs += [np.nextafter(lo + k * r, s) for k in range(-3, 4) for s in (-np.inf, np.inf)]
    xs += [hi + k * r for k in (-2, -1, 1, 2, 3)]
    xs += list(rng.normal((lo + hi) / 2, 3 * r, n))
    xs += list(rng.uniform(lo, hi, max(2, n // 3)))
    xs += [lo + float(rng.integers(-10**6, 10**6)) * r + float(rng.uniform(0, 1)) * r for _ in range(3)]
    return [float(x) for x in xs if np.isfinite(x)]


def monitor(m, lo, hi, x, y):
    """the property itself on one coordinate; returns None or (signature, detail)"""
    if not np.isfinite(y):
        return ("C17/not-finite", f"{m} box=({lo!r},{hi!r}) x={x!r} -> {y!r}")
    if not (lo <= y <= hi):
        return ("C17/outside-box", f"{m} box=({lo!r},{hi!r}) x={x!r} -> {y!r} outside the box")
    F = Fraction
    big = max(abs(x), abs(lo), abs(hi))
    if lo <= x <= hi:
        if abs(F(y) - F(x)) > 4 * F(ulp(big)):
            return ("C17/inside-moved", f"{m} box=({lo!r},{hi!r}) x={x!r} inside the box moved to {y!r}")
        return None
    r = F(hi) - F(lo)
    if m == "clip":
        want = hi if x > hi else lo
        if y != want:
            return ("C17/clip-not-nearest-face", f"clip box=({lo!r},{hi!r}) x={x!r} -> {y!r}, nearest face {want!r}")
        return None
    if m == "toroidal":
        k = round((F(y) - F(x)) / r)
        tol = 4 * (abs(k) + 2) * F(ulp(big))
        if abs(F(y) - F(x) - k * r) > tol:
            return ("C17/toroidal-not-congruent", f"toroidal box=({lo!r},{hi!r}) x={x!r} -> {y!r}: not x + k*range (k={k})")
        return None
    if m == "reflect":
        a = F(x) - F(lo)
        b = F(y) - F(lo)
        best = None
        for s in (1, -1):
            k = round((b - s * a) / (2 * r))
            err = abs(b - s * a - 2 * k * r)
            tol = 4 * (2 * abs(k) + 2) * F(ulp(big))
            if err <= tol:
                return None
            best = (s, k, float(err))
        return ("C17/reflect-not-congruent", f"reflect box=({lo!r},{hi!r}) x={x!r} -> {y!r}: not +-(x-lo) + 2k*range ({best})")
    return None


def run_cases(ctx, rng, nbox, nx, sl):
    from pyhms.demes.single_pop_eas.common import apply_bounds

    boxes = gen_boxes(rng, nbox)
    lines = []
    expect = []
    meta = []
    i = 0
    while i < len(boxes):
        d = int(rng.integers(1, 6))
        chunk = boxes[i : i + d]
        i += d
        cols = [gen_xs(rng, lo, hi, nx) for lo, hi in chunk]
        n = min(len(c) for c in cols)
        for c in cols:
            rng.shuffle(c)
        mat = np.array([c[:n] for c in cols], dtype=np.float64).T  # n x d
        bounds = np.array(chunk, dtype=np.float64)
        for m in METHODS:
            sl.count(f"matrix-calls-{m}")
            # the same values in the memory layouts a caller may hand over: C-contiguous, Fortran-ordered
            # (e.g. the transpose of a (dim, n) array), a strided view of a larger array
            lay = int(rng.integers(0, 5))
            if lay == 4:
                # single-precision genomes (the box stays a float64 array): the values are exact doubles all the same
                mat = mat.astype(np.float32).astype(np.float64)
                arg = mat.astype(np.float32)
            elif lay == 0:
                arg = mat.copy()
            elif lay == 1:
                arg = np.asfortranarray(mat)
            elif lay == 2:
                big = np.zeros((2 * n, len(chunk)))
                big[::2] = mat
                arg = big[::2]
            else:
                arg = np.ascontiguousarray(mat.T).T  # a transposed view of a (dim, n) array
            sl.count(f"layout-{['C', 'F', 'strided', 'transposed-view', 'float32'][lay]}")
            out = np.asarray(apply_bounds(arg, bounds, m))
            assert out.shape == mat.shape
            for j, (lo, hi) in enumerate(chunk):
                for a in range(n):
                    x = float(mat[a, j])
                    y = float(out[a, j])
                    lines.append(f"repair f64 {m} {fr(lo)} {fr(hi)} {fr(x)}")
                    expect.append(fr(y) if np.isfinite(y) else "none")
                    meta.append((m, lo, hi, x, y))
    # the box is an argument, not an identity: a second box that happens to live where an earlier one lived (the
    # earlier array was freed), or a bounds array edited in place between two calls, must be honoured as given
    k = 0
    while k + 1 < len(boxes) and k < 60:
        (lo1, hi1), (lo2, hi2) = boxes[k], boxes[k + 1]
        k += 2
        xs = gen_xs(rng, lo2, hi2, max(4, nx // 4))
        mat = np.array([xs], dtype=np.float64).T
        for m in METHODS:
            b = np.array([(lo1, hi1)], dtype=np.float64)
            apply_bounds(mat.copy(), b, m)
            if rng.random() < 0.5:
                del b
                b = np.array([(lo2, hi2)], dtype=np.float64)
                sl.count("second-box-after-the-first-was-freed")
            else:
                b[0, 0], b[0, 1] = lo2, hi2
                sl.count("bounds-array-edited-in-place")
            out = np.asarray(apply_bounds(mat.copy(), b, m))
            for a in range(len(xs)):
                x, y = float(mat[a, 0]), float(out[a, 0])
                lines.append(f"repair f64 {m} {fr(lo2)} {fr(hi2)} {fr(x)}")
                expect.append(fr(y) if np.isfinite(y) else "none")
                meta.append((m, lo2, hi2, x, y))
    got = run_driver(lines)
    for line, e, g, (m, lo, hi, x, y) in zip(lines, expect, got, meta):
        sl.cases += 1
        inside = lo < x < hi
        cls = "interior" if inside else ("face" if x in (lo, hi) else "outside")
        sl.count(f"{m}:{cls}")
        if not inside:
            sl.nontrivial.add((m, lo, hi, x))
        if e != g:
            sl.disagreements.append({"op": line, "impl": e, "model": g, "floats": [m, lo, hi, x, y]})
        v = monitor(m, lo, hi, x, y)
        if v:
            sl.violations.append({"signature": v[0], "detail": v[1], "replay": {"method": m, "lower": lo, "upper": hi, "x": x, "got": y}})
    for t in meta[:: max(1, len(meta) // 4)][:4]:
        sl.sample({"method": t[0], "lower": t[1], "upper": t[2], "x": t[3], "apply_bounds": t[4]})


def run(ctx):
    sl = Slice("apply_bounds-vs-Repair.repair(F64)")
    rng = ctx.rng(1)
    run_cases(ctx, rng, ctx.size(60, 700), ctx.size(12, 24), sl)
    return [sl]


def search(ctx, broken):
    sl = Slice("search")
    run_cases(ctx, ctx.rng(99), 400 if not ctx.thorough else 3000, 20, sl)
    return sl.violations


def replay(data):
    from pyhms.demes.single_pop_eas.common import apply_bounds

    r = data["violation"]["replay"]
    y = float(apply_bounds(np.array([[r["x"]]]), np.array([[r["lower"], r["upper"]]]), r["method"])[0, 0])
    v = monitor(r["method"], r["lower"], r["upper"], r["x"], y)
    print("apply_bounds ->", y, v)
    return v is None
