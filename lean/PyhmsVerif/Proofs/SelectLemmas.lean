import PyhmsVerif.Proofs.FitOrder
/-! Helper lemmas about the selection kernels. -/
namespace Select
open Fit

theorem removeOne_mem {a : Ind} {l r : List Ind} (h : removeOne a l = some r) :
    ∀ x ∈ l, x = a ∨ x ∈ r := by
  induction l generalizing r with
  | nil => simp [removeOne] at h
  | cons b l ih =>
    simp only [removeOne] at h
    split at h
    · rename_i hab; cases h
      intro x hx
      rcases List.mem_cons.mp hx with rfl | hx
      · exact Or.inl hab.symm
      · exact Or.inr hx
    · simp only [Option.map_eq_some_iff] at h
      obtain ⟨r', hr', rfl⟩ := h
      intro x hx
      rcases List.mem_cons.mp hx with rfl | hx
      · exact Or.inr (by simp)
      · rcases ih hr' x hx with h1 | h1
        · exact Or.inl h1
        · exact Or.inr (List.mem_cons_of_mem _ h1)

theorem removeOne_length {a : Ind} {l r : List Ind} (h : removeOne a l = some r) :
    l.length = r.length + 1 := by
  induction l generalizing r with
  | nil => simp [removeOne] at h
  | cons b l ih =>
    simp only [removeOne] at h
    split at h
    · cases h; simp
    · simp only [Option.map_eq_some_iff] at h
      obtain ⟨r', hr', rfl⟩ := h
      simp [ih hr']

/-- every member of the population is either kept or dropped -/
theorem msub_mem {pop out d : List Ind} (h : msub pop out = some d) :
    ∀ x ∈ pop, x ∈ out ∨ x ∈ d := by
  induction out generalizing pop d with
  | nil => simp only [msub, Option.some.injEq] at h; subst h; intro x hx; exact Or.inr hx
  | cons a out ih =>
    simp only [msub, Option.bind_eq_some_iff] at h
    obtain ⟨p, hp, hd⟩ := h
    intro x hx
    rcases removeOne_mem hp x hx with rfl | hx'
    · exact Or.inl (by simp)
    · rcases ih hd x hx' with h1 | h1
      · exact Or.inl (List.mem_cons_of_mem _ h1)
      · exact Or.inr h1

theorem better_irrefl (mx : Bool) (a : Ind) : better mx a a = false := by
  simp [better, Fit.worse_irrefl]

/-- A top-k result with k ≥ 1 of a non-empty population contains, for every member of the
population, someone at least as good. -/
theorem topkOk_covers {mx : Bool} {k : Nat} {pop out : List Ind} (h : topkOk mx k pop out = true)
    (hk : 1 ≤ k) : ∀ p ∈ pop, ∃ o ∈ out, better mx p o = false := by
  simp only [topkOk, Bool.and_eq_true, beq_iff_eq] at h
  obtain ⟨⟨hlen, _⟩, hm⟩ := h
  split at hm
  · simp at hm
  · rename_i dropped hd
    intro p hp
    rcases msub_mem hd p hp with hin | hdr
    · exact ⟨p, hin, better_irrefl mx p⟩
    · have hpos : 0 < pop.length := List.length_pos_of_mem hp
      have : 0 < out.length := by rw [hlen]; omega
      obtain ⟨o, ho⟩ := List.exists_mem_of_length_pos this
      rw [List.all_eq_true] at hm
      have h1 := hm p hdr
      rw [List.all_eq_true] at h1
      have h2 := h1 o ho
      exact ⟨o, ho, by simpa using h2⟩

theorem topkOk_length {mx : Bool} {k : Nat} {pop out : List Ind} (h : topkOk mx k pop out = true) :
    out.length = min k pop.length := by
  simp only [topkOk, Bool.and_eq_true, beq_iff_eq] at h
  exact h.1.1

theorem better_trans_weak {mx : Bool} {a b c : Ind} (h1 : better mx a b = false) (h2 : better mx b c = false) :
    better mx a c = false := by
  unfold better at *
  exact Fit.not_worse_trans (a := a.fit) (b := b.fit) (c := c.fit) h1 h2

end Select

namespace Select

theorem best_mem {mx : Bool} {l : List Ind} {b : Ind} (h : best mx l = some b) : b ∈ l := by
  induction l generalizing b with
  | nil => simp [best] at h
  | cons a l ih =>
    simp only [best] at h
    split at h
    · simp only [Option.some.injEq] at h; subst h; simp
    · rename_i c hc
      split at h
      · simp only [Option.some.injEq] at h; subst h; exact List.mem_cons_of_mem _ (ih hc)
      · simp only [Option.some.injEq] at h; subst h; simp

/-- the best individual is at least as good as every member -/
theorem best_not_worse {mx : Bool} {l : List Ind} {b : Ind} (h : best mx l = some b) :
    ∀ x ∈ l, better mx x b = false := by
  induction l generalizing b with
  | nil => simp [best] at h
  | cons a l ih =>
    simp only [best] at h
    split at h
    · rename_i hn
      simp only [Option.some.injEq] at h; subst h
      have : l = [] := by
        cases l with
        | nil => rfl
        | cons x xs =>
          simp only [best] at hn
          split at hn <;> (try split at hn) <;> simp at hn
      subst this
      intro x hx; simp only [List.mem_singleton] at hx; subst hx; exact better_irrefl mx _
    · rename_i c hc
      have ihc := ih hc
      split at h
      · rename_i hb
        simp only [Option.some.injEq] at h; subst h
        intro x hx
        rcases List.mem_cons.mp hx with rfl | hx
        · -- c strictly better than a ⇒ a not better than c
          unfold better at hb ⊢
          exact Fit.worse_asymm hb
        · exact ihc x hx
      · rename_i hb
        simp only [Option.some.injEq] at h; subst h
        have hb' : better mx c a = false := by simpa using hb
        intro x hx
        rcases List.mem_cons.mp hx with rfl | hx
        · exact better_irrefl mx _
        · exact better_trans_weak (ihc x hx) hb'

theorem best_isSome_of_ne_nil {mx : Bool} {l : List Ind} (h : l ≠ []) : (best mx l).isSome := by
  cases l with
  | nil => exact absurd rfl h
  | cons a l =>
    simp only [best]
    split
    · simp
    · split <;> simp

end Select
