import PyhmsVerif.Props.EngineDE
/-!
# C13 — SHADE: maximising f is minimising −f, one whole generation

`EngineDE.deGen_mirror` for `shadeGen`: the p-best admissibility test (`pbestOk`: fewer than `m`
individuals strictly better) is symmetric, the mutation does not look at fitness values, the
carry-over / evaluation / replacement mirror as for DE, and the archive (genomes only) is the same.
-/
namespace EngineMirror
open Engine Repair F64 Select EngineDE

def negSDraws (dr : SDraws) : SDraws := { dr with values := dr.values.map Fit.neg }
def negSGen (g : SGen) : SGen :=
  { trials := g.trials.map negInd, requests := g.requests.map (fun q => (q.1, q.2.neg)),
    next := g.next.map negInd, archive := g.archive }

theorem pbestOk_neg (parents : List Ind) (m : Nat) (p : PPick) :
    pbestOk false (parents.map negInd) m p = pbestOk true parents m p := by
  unfold pbestOk
  simp only [List.getElem?_map]
  cases parents[p.pb]? with
  | none => rfl
  | some b =>
    simp only [Option.map_some, List.countP_map]
    have : ((fun a => better false a (negInd b)) ∘ negInd) = fun a => better true a b := by
      funext a
      simp [Function.comp, C13.better_mirror]
    rw [this]

theorem sshapeOk_neg (r : Rounding) (box : Box) (parents : List Ind) (arch : List Genome) (dr : SDraws) :
    sshapeOk false r box (parents.map negInd) arch (negSDraws dr) = sshapeOk true r box parents arch dr := by
  simp only [sshapeOk, negSDraws, List.all_map, Function.comp_def, negInd, List.length_map]
  congr 1
  congr 1
  funext p
  have := pbestOk_neg parents
  cases poolSize r parents.length p.2.p with
  | none => rfl
  | some m => simp only [this]

theorem replaced_neg (parents trials : List Ind) :
    (replaced false (parents.map negInd) (trials.map negInd)).map (·.genome) = (replaced true parents trials).map (·.genome) := by
  unfold replaced
  have hz : (parents.map negInd).zip (trials.map negInd) = (parents.zip trials).map (fun p => (negInd p.1, negInd p.2)) := by
    rw [List.zip_map]; rfl
  rw [hz, List.filter_map, List.map_map, List.map_map]
  have hf : List.filter ((fun p : Ind × Ind => trialWins false p.1 p.2) ∘ fun p => (negInd p.1, negInd p.2)) (parents.zip trials)
      = List.filter (fun p => trialWins true p.1 p.2) (parents.zip trials) := by
    apply List.filter_congr; intro p _; simp [Function.comp, C13.trialWins_mirror]
  rw [hf, List.map_map]
  apply List.map_congr_left
  intro p _
  simp [Function.comp, negInd]

/-- **C13, SHADE.**  One SHADE generation under `maximize = true` and the same generation on the
mirrored population (fitness and objective values negated, `maximize = false`, same archive, same
draws) are defined together and are mirror images: same trial genomes, same requests in the same
order, mirrored survivors, identical archive. -/
theorem shadeGen_mirror (r : Rounding) (box : Box) (parents : List Ind) (arch : List Genome) (dr : SDraws) :
    shadeGen false r box (parents.map negInd) arch (negSDraws dr) = (shadeGen true r box parents arch dr).map negSGen := by
  unfold shadeGen
  rw [sshapeOk_neg]
  split
  · rfl
  · simp only [map_genome_neg, List.length_map]
    have hd : (negSDraws dr).picks = dr.picks ∧ (negSDraws dr).jrand = dr.jrand ∧ (negSDraws dr).crs = dr.crs ∧
        (negSDraws dr).chosen = dr.chosen ∧ (negSDraws dr).values = dr.values.map Fit.neg := ⟨rfl, rfl, rfl, rfl, rfl⟩
    rw [hd.1, hd.2.1, hd.2.2.1, hd.2.2.2.1, hd.2.2.2.2]
    cases hm : (if parents.length < 4 then some (parents.map (·.genome))
        else seqOpt (((List.range parents.length).zip dr.picks).map fun p =>
          pmutant r box (parents.map (·.genome)) (parents.map (·.genome) ++ arch) p.1 p.2)) with
    | none => simp
    | some muts =>
      simp only [Option.bind_some]
      rw [assignFit_mirror]
      cases assignFit ((trialRows box.length dr.jrand dr.crs dr.chosen muts (parents.map (·.genome))).zip parents) dr.values with
      | none => rfl
      | some q =>
        simp only [Option.map_some, negSGen, Option.some.injEq]
        rw [C13.deSelect_mirror, replaced_neg]

end EngineMirror
