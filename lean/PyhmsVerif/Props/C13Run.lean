import PyhmsVerif.Props.C13Sprout
import PyhmsVerif.Proofs.F64Neg
import PyhmsVerif.Proofs.TreeSteps
/-!
# C13 — the whole tree machine mirrors

`step_mirror`: for every state of a tree that maximises `f`, and every event, the machine run
on the mirrored state (`−f`, minimised: all stored / logged / requested fitness values negated,
optima of precision wrappers negated) with the mirrored event does exactly the mirror image
of what it does on the original — it accepts the same events, refuses the same events with
the same message, and reaches the mirrored state.  `exec_mirror` lifts this to whole runs:
pyhms' own logic (bookkeeping, acceptance of generations, stop conditions, wrapper stacks,
sprouting, hibernation) treats `(f, maximise)` exactly like `(−f, minimise)`.
-/
namespace C13
open Tree Select

def mGen (g : Gen) : Gen := ⟨g.inds.map negInd, g.evald.map negInd⟩
def mDeme (d : Deme) : Deme := { d with hist := d.hist.map (·.map mGen), seed := d.seed.map negInd }
def mWrapper : Problem.Wrapper → Problem.Wrapper
  | .precision n opt eps eta hit => .precision n (-opt) eps eta hit
  | w => w
def mInv (i : Inv) : Inv := { i with v := i.v.neg }
def mPc : Pc → Pc
  | .running q (some (id, done, p)) => .running q (some (id, done, p.map mGen))
  | pc => pc
def mT (t : T) : T :=
  { t with cfg := { t.cfg with maximize := false }, demes := t.demes.map mDeme,
           «stacks» := t.stacks.map (·.map mWrapper), pc := mPc t.pc, log := t.log.map mInv }
def mReq (r : Req) : Req := { r with v := r.v.map Fit.neg }
def mGenEnv (g : GenEnv) : GenEnv := { g with reqs := g.reqs.map mReq, pop := g.pop.map negInd }
def mNew (e : NewEnv) : NewEnv := ⟨e.reqs.map mReq, e.pop.map negInd⟩
def mEv : Ev → Ev
  | .loop ge => .loop ge
  | .gen id g l => .gen id (mGenEnv g) l
  | .localRun id reqs its nfev => .localRun id (reqs.map mReq) (its.map negInd) nfev
  | .round ge renv news => .round ge renv (news.map mNew)

-- ---------------------------------------------------------------- wrapper stacks
theorem withinPrecision_mirror (v : Fit) (opt eps : Rat) :
    Problem.withinPrecision v.neg (-opt) eps = Problem.withinPrecision v opt eps := by
  cases v with
  | negInf => rfl
  | posInf => rfl
  | fin q =>
    simp only [Problem.withinPrecision, Fit.neg]
    have : -q - -opt = -(q - opt) := by ring
    rw [this, F64.rnd_neg]
    cases F64.rnd (q - opt) with
    | none => rfl
    | some d => simp [F64.absR_neg]

theorem after_mirror (w : Problem.Wrapper) (r : Fit) : (mWrapper w).after r.neg = mWrapper (w.after r) := by
  cases w with
  | counting n => rfl
  | cutoff n c => rfl
  | stats n => rfl
  | precision n opt eps eta hit =>
    simp only [mWrapper, Problem.Wrapper.after, withinPrecision_mirror]
    split <;> rfl

theorem refuses_mirror (w : Problem.Wrapper) : (mWrapper w).refuses = w.refuses := by
  cases w <;> rfl

theorem evalStack_mirror (ws : List Problem.Wrapper) (v : Fit) :
    Problem.evalStack false (ws.map mWrapper) v.neg =
      ((Problem.evalStack true ws v).1.map mWrapper, (Problem.evalStack true ws v).2.1.neg, (Problem.evalStack true ws v).2.2) := by
  induction ws with
  | nil => rfl
  | cons w ws ih =>
    simp only [List.map_cons, Problem.evalStack, refuses_mirror]
    split
    · rfl
    · simp only [ih, after_mirror, List.map_cons]

theorem hitPrecision_mirror (w : Problem.Wrapper) : (mWrapper w).hitPrecision = w.hitPrecision := by
  cases w <;> rfl


-- ---------------------------------------------------------------- structure of the mirrored state
@[simp] theorem mDeme_id (d : Deme) : (mDeme d).id = d.id := rfl
@[simp] theorem mDeme_level (d : Deme) : (mDeme d).level = d.level := rfl
@[simp] theorem mDeme_active (d : Deme) : (mDeme d).active = d.active := rfl
@[simp] theorem mDeme_hib (d : Deme) : (mDeme d).hib = d.hib := rfl
@[simp] theorem mDeme_counter (d : Deme) : (mDeme d).counter = d.counter := rfl
@[simp] theorem mDeme_children (d : Deme) : (mDeme d).children = d.children := rfl
@[simp] theorem mDeme_startedAt (d : Deme) : (mDeme d).startedAt = d.startedAt := rfl
@[simp] theorem mDeme_parent (d : Deme) : (mDeme d).parent = d.parent := rfl
@[simp] theorem mT_levels (t : T) : (mT t).cfg.levels = t.cfg.levels := rfl
@[simp] theorem mT_gsc (t : T) : (mT t).cfg.gsc = t.cfg.gsc := rfl
@[simp] theorem mT_mech (t : T) : (mT t).cfg.mech = t.cfg.mech := rfl
@[simp] theorem mT_hibernation (t : T) : (mT t).cfg.hibernation = t.cfg.hibernation := rfl
@[simp] theorem mT_maximize (t : T) : (mT t).cfg.maximize = false := rfl
@[simp] theorem mT_metaepoch (t : T) : (mT t).metaepoch = t.metaepoch := rfl
@[simp] theorem mT_height (t : T) : (mT t).height = t.height := rfl
@[simp] theorem mT_gscSeen (t : T) : (mT t).gscSeen = t.gscSeen := rfl
@[simp] theorem mT_refused (t : T) : (mT t).refused = t.refused := rfl
@[simp] theorem mT_tlevels (t : T) : (mT t).levels = t.levels := rfl
@[simp] theorem mT_demes (t : T) : (mT t).demes = t.demes.map mDeme := rfl

theorem find_mT (t : T) (id : Id) : (mT t).find id = (t.find id).map mDeme := by
  simp only [T.find, mT_demes, List.find?_map]
  rfl

theorem updFirst_map (id : Id) (f g : Deme → Deme) (hfg : ∀ d, g (mDeme d) = mDeme (f d)) (ds : List Deme) :
    updFirst id g (ds.map mDeme) = (updFirst id f ds).map mDeme := by
  induction ds with
  | nil => rfl
  | cons a l ih =>
    by_cases h : (a.id == id) = true
    · simp [updFirst, h, hfg]
    · have h' : (a.id == id) = false := by simpa using h
      simp [updFirst, h', ih]

theorem stacks_getD (t : T) (k : Nat) : (mT t).stacks.getD k [] = (t.stacks.getD k []).map mWrapper := by
  simp only [mT, List.getD_eq_getElem?_getD, List.getElem?_map]
  cases t.stacks[k]? <;> rfl

theorem mDeme_gens (d : Deme) : (mDeme d).gens = d.gens.map mGen := by
  simp [Deme.gens, mDeme, List.map_flatten]

theorem mDeme_allInds (d : Deme) : (mDeme d).allInds = d.allInds.map negInd := by
  simp only [Deme.allInds, mDeme_gens, List.flatMap_map, List.map_flatMap]
  rfl

theorem mDeme_curPop (d : Deme) : (mDeme d).curPop = d.curPop.map negInd := by
  simp only [Deme.curPop, mDeme_gens, List.getLast?_map, Option.map_map]
  cases d.gens.getLast? <;> rfl

theorem mDeme_metaepochs (d : Deme) : (mDeme d).metaepochs = d.metaepochs := by
  simp [Deme.metaepochs, mDeme]

-- ---------------------------------------------------------------- evaluation requests
def mRes (p : T × Ind) : T × Ind := (mT p.1, negInd p.2)

theorem sentinel_getD (v : Option Fit) :
    (v.map Fit.neg).getD (Fit.sentinel false) = (v.getD (Fit.sentinel true)).neg := by
  cases v <;> rfl

theorem updFirst_count_map (id : Id) (ds : List Deme) :
    updFirst id (fun d => { d with counter := d.counter + 1 }) (ds.map mDeme) =
      (updFirst id (fun d => { d with counter := d.counter + 1 }) ds).map mDeme :=
  updFirst_map id (fun d => { d with counter := d.counter + 1 }) (fun d => { d with counter := d.counter + 1 })
    (fun _ => rfl) ds

theorem mPc_eq (t : T) : (mT t).pc = mPc t.pc := rfl

theorem evalReqCore_mirror (t : T) (id : Id) (lvl : Nat) (counts : Bool) (r : Req) (lc : LevelCfg)
    (res : List Problem.Wrapper × Fit × Bool) :
    evalReqCore (mT t) id lvl counts (mReq r) lc (res.1.map mWrapper, res.2.1.neg, res.2.2) =
      (evalReqCore t id lvl counts r lc res).map mRes := by
  obtain ⟨ws, v, b⟩ := res
  unfold evalReqCore
  simp only [mReq, Option.isSome_map]
  by_cases hb : (b != r.v.isSome) = true
  · simp only [hb, ↓reduceIte]
    cases b <;> rfl
  · simp only [hb, Bool.false_eq_true, ↓reduceIte, Except.map, mRes, Except.ok.injEq, Prod.mk.injEq]
    refine ⟨?_, rfl⟩
    cases b <;> cases counts <;>
      simp [mT, T.update, mInv, List.map_set, updFirst_count_map]

theorem evalReq_mirror (t : T) (hmx : t.cfg.maximize = true) (id : Id) (lvl : Nat) (counts : Bool) (r : Req) :
    evalReq (mT t) id lvl counts (mReq r) = (evalReq t id lvl counts r).map mRes := by
  unfold evalReq
  simp only [mT_levels]
  cases hl : t.cfg.levels[lvl]? with
  | none => rfl
  | some lc =>
    simp only []
    have hx : (mReq r).x = r.x := rfl
    have hv : (mReq r).v.isSome = r.v.isSome := by simp [mReq]
    rw [hx, hv]
    split
    · rfl
    · simp only [mT_maximize, hmx, stacks_getD]
      have : (mReq r).v.getD (Fit.sentinel false) = (r.v.getD (Fit.sentinel true)).neg := sentinel_getD r.v
      rw [this, evalStack_mirror]
      exact evalReqCore_mirror t id lvl counts r lc _


def mResL (p : T × List Ind) : T × List Ind := (mT p.1, p.2.map negInd)

theorem evalReqs_mirror (id : Id) (lvl : Nat) (counts : Bool) (rs : List Req) :
    ∀ (t : T), t.cfg.maximize = true →
      evalReqs (mT t) id lvl counts (rs.map mReq) = (evalReqs t id lvl counts rs).map mResL := by
  induction rs with
  | nil => intro t _; rfl
  | cons r rs ih =>
    intro t hmx
    simp only [List.map_cons, evalReqs, bind, Except.bind, evalReq_mirror t hmx]
    cases h1 : evalReq t id lvl counts r with
    | error e => rfl
    | ok p =>
      obtain ⟨t1, i1⟩ := p
      have hmx1 : t1.cfg.maximize = true := by rw [(evalReq_effect h1).cfg]; exact hmx
      simp only [Except.map, mRes, ih t1 hmx1]
      cases evalReqs t1 id lvl counts rs with
      | error e => rfl
      | ok q => rfl

-- ---------------------------------------------------------------- acceptance of generations
theorem contains_negInd (l : List Ind) (i : Ind) : (l.map negInd).contains (negInd i) = l.contains i := by
  induction l with
  | nil => rfl
  | cons a l ih =>
    simp only [List.map_cons, List.contains_cons, ih]
    congr 1
    by_cases h : i = a
    · simp [h]
    · have : negInd i ≠ negInd a := fun hn => h (negInd_injective hn)
      simp [h, this]

theorem fit_sentinel_mirror (f : Fit) : (f.neg == Fit.sentinel false) = (f == Fit.sentinel true) := by
  rw [← sentinel_mirror, fit_beq_neg]

theorem refusedIn_mirror (ev : List Ind) : refusedIn false (ev.map negInd) = refusedIn true ev := by
  simp only [refusedIn, List.any_map]
  congr 1
  funext e
  simp [Function.comp, fit_sentinel_mirror]

theorem memberOk_mirror (ps ev : List Ind) (i : Ind) :
    memberOk false (ps.map negInd) (ev.map negInd) (negInd i) = memberOk true ps ev i := by
  simp only [memberOk, contains_negInd, refusedIn_mirror, negInd_fit, fit_sentinel_mirror]

theorem observedOk_mirror (ev pop : List Ind) :
    observedOk false (ev.map negInd) (pop.map negInd) = observedOk true ev pop := by
  simp only [observedOk, List.all_map, List.any_map]
  congr 1
  funext e
  simp only [Function.comp]
  congr 1
  funext o
  simp only [Function.comp, ← better_mirror]

theorem genOk_mirror (lc : LevelCfg) (ps ev pop : List Ind) (n : Nat) :
    genOk false lc (ps.map negInd) (ev.map negInd) (pop.map negInd) n = genOk true lc ps ev pop n := by
  unfold genOk
  simp only [List.length_map, observedOk_mirror]
  have h1 : ∀ qs : List Ind, ((pop.map negInd).all fun i => memberOk false (qs.map negInd) (ev.map negInd) i) =
      (pop.all fun i => memberOk true qs ev i) := by
    intro qs
    simp only [List.all_map]
    congr 1
    funext i
    simp only [Function.comp, memberOk_mirror]
  have h1' : ((pop.map negInd).all fun i => memberOk false [] (ev.map negInd) i) =
      (pop.all fun i => memberOk true [] ev i) := by simpa using h1 []
  have h2 : ((ps.map negInd).all fun p => (pop.map negInd).any fun o => !(better false p o)) =
      (ps.all fun p => pop.any fun o => !(better true p o)) := by
    simp only [List.all_map, List.any_map]
    congr 1
    funext p
    simp only [Function.comp]
    congr 1
    funext o
    simp only [Function.comp, ← better_mirror]
  have h3 : ((ps.map negInd).all fun p => decide (countAtLeast false p.fit (ps.map negInd) ≤ countAtLeast false p.fit (pop.map negInd))) =
      (ps.all fun p => decide (countAtLeast true p.fit ps ≤ countAtLeast true p.fit pop)) := by
    simp only [List.all_map]
    congr 1
    funext p
    simp only [Function.comp, negInd_fit, ← countAtLeast_mirror]
  by_cases hf : (lc.engine == .cma || lc.engine == .lhs || lc.engine == .sobol) = true
  · simp only [hf, ↓reduceIte, List.map_nil] at h1' ⊢
    simp only [h1', h2, h3]
  · simp only [hf, Bool.false_eq_true, ↓reduceIte]
    simp only [h1 ps, h2, h3]


-- ---------------------------------------------------------------- stop conditions, schedule
theorem nEvals_mT (t : T) : (mT t).nEvals = t.nEvals := by
  simp only [T.nEvals, mT_demes, List.map_map]
  rfl

theorem filter_mDeme (p : Deme → Bool) (hp : ∀ d, p (mDeme d) = p d) (l : List Deme) :
    (l.map mDeme).filter p = (l.filter p).map mDeme := by
  rw [List.filter_map]
  congr 1
  apply List.filter_congr
  intro d _; exact hp d

theorem gscEval_mirror (t : T) (e : Option Bool) (g : Gsc) : gscEval (mT t) e g = gscEval t e g := by
  induction g with
  | metaepochLimit n => rfl
  | dontRun => rfl
  | dontStop => rfl
  | evalLimit n => simp [gscEval, nEvals_mT]
  | weighted limit w =>
    simp only [gscEval, mT_demes, List.map_map]
    rfl
  | precision s l =>
    simp only [gscEval, stacks_getD]
    congr 1
    simp only [List.getD_eq_getElem?_getD, List.getElem?_map]
    cases (t.stacks[s]?.getD [])[l]? with
    | none => rfl
    | some w => simp only [Option.map_some, Option.getD_some, hitPrecision_mirror]
  | rootStopped =>
    simp only [gscEval, find_mT, Option.map_map]
    rfl
  | allStopped =>
    simp only [gscEval, mT_demes, List.all_map]
    rfl
  | noActiveNonroot n =>
    simp only [gscEval, mT_height, mT_demes, mT_metaepoch]
    congr 2
    funext k
    rw [filter_mDeme (fun d => d.level == k + 1) (fun _ => rfl)]
    simp only [List.isEmpty_map, List.all_map]
    congr 2
    funext d
    simp only [Function.comp, mDeme_active, mDeme_startedAt, mDeme_metaepochs]
  | env => rfl
  | either a b iha ihb => simp [gscEval, iha, ihb]

theorem lscEval_mirror (t : T) (d : Deme) (e : Option Bool) (l : Lsc) :
    lscEval (mT t) (mDeme d) e l = lscEval t d e l := by
  cases l with
  | dontStop => rfl
  | dontRun => rfl
  | metaepochLimit n => simp [lscEval, mDeme_metaepochs]
  | allChildrenStopped =>
    simp only [lscEval, mDeme_children, find_mT]
    congr 2
    congr 1
    funext c
    cases t.find c <;> rfl
  | env => rfl

theorem levelMajor_mT (t : T) : (mT t).levelMajor = t.levelMajor.map mDeme := by
  simp only [T.levelMajor, mT_height, mT_demes, List.map_flatMap]
  congr 1
  funext l
  exact filter_mDeme (fun d => d.level == l) (fun _ => rfl) _

theorem schedule_mT (t : T) : schedule (mT t) = schedule t := by
  simp only [schedule, levelMajor_mT, mT_hibernation]
  rw [filter_mDeme (fun d => d.active && !(t.cfg.hibernation && d.hib)) (fun _ => rfl), List.map_map]
  rfl

theorem view_mT (t : T) (hmx : t.cfg.maximize = true) : view (mT t) = mirrorView (view t) := by
  simp only [view, mirrorView, levelMajor_mT, mT_height, mT_metaepoch, mT_maximize, List.map_map]
  congr 1
  apply List.map_congr_left
  intro d _
  simp only [Function.comp, mirrorDV, mDeme_id, mDeme_level, mDeme_active, mDeme_children, mDeme_curPop,
    mDeme_allInds, mDeme_startedAt, hmx, ← best_mirror]
  simp [mDeme]


-- ---------------------------------------------------------------- one generation
theorem map_ok {α β : Type} (f : α → β) (x : α) : Except.map f (Except.ok x : Except String α) = .ok (f x) := rfl
theorem map_error {α β : Type} (f : α → β) (e : String) : Except.map f (Except.error e : Except String α) = .error e := rfl

def mPrep (p : List Id × Nat × List Gen × Deme × LevelCfg) : List Id × Nat × List Gen × Deme × LevelCfg :=
  (p.1, p.2.1, p.2.2.1.map mGen, mDeme p.2.2.2.1, p.2.2.2.2)

theorem prepareGen_mirror (t : T) (id : Id) : prepareGen (mT t) id = (prepareGen t id).map mPrep := by
  unfold prepareGen
  rw [mPc_eq]
  cases hpc : t.pc with
  | head => rfl
  | post => rfl
  | done => rfl
  | running queue cur =>
    -- who may run
    have hsel : ∀ (sel : Except String (List Id × Nat × List Gen)),
        (match sel.map (fun x => (x.1, x.2.1, x.2.2.map mGen)) with
          | .error e => (Except.error e : Except String (List Id × Nat × List Gen × Deme × LevelCfg))
          | .ok (q, done, pending) =>
            match (mT t).find id with
            | none => .error s!"unknown deme {showId id}"
            | some d =>
              match (mT t).cfg.levels[d.level]? with
              | none => .error "no level"
              | some lc =>
                if lc.engine == Engine.localOpt then .error "local deme produced a generation"
                else if !d.active then .error s!"inactive deme {showId id} runs"
                else if (mT t).gscSeen && done > 0 then
                  .error s!"deme {showId id} performs another generation after the global stop condition held"
                else .ok (q, done, pending, d, lc)) =
        (match sel with
          | .error e => (Except.error e : Except String (List Id × Nat × List Gen × Deme × LevelCfg))
          | .ok (q, done, pending) =>
            match t.find id with
            | none => .error s!"unknown deme {showId id}"
            | some d =>
              match t.cfg.levels[d.level]? with
              | none => .error "no level"
              | some lc =>
                if lc.engine == Engine.localOpt then .error "local deme produced a generation"
                else if !d.active then .error s!"inactive deme {showId id} runs"
                else if t.gscSeen && done > 0 then
                  .error s!"deme {showId id} performs another generation after the global stop condition held"
                else .ok (q, done, pending, d, lc)).map mPrep := by
      intro sel
      cases sel with
      | error e => rfl
      | ok x =>
        obtain ⟨q, done, pending⟩ := x
        simp only [Except.map, find_mT]
        cases t.find id with
        | none => rfl
        | some d =>
          simp only [Option.map_some, mT_levels, mDeme_level, mDeme_active, mT_gscSeen]
          cases t.cfg.levels[d.level]? with
          | none => rfl
          | some lc =>
            simp only []
            by_cases h1 : (lc.engine == Engine.localOpt) = true
            · simp [h1]
            · by_cases h2 : (!d.active) = true
              · simp [h1, h2]
              · by_cases h3 : (t.gscSeen && decide (done > 0)) = true
                · simp [h1, h2, h3]
                · simp [h1, h2, h3, mPrep]
    cases cur with
    | none =>
      cases queue with
      | nil =>
        have := hsel (.error "generation after the metaepoch ended")
        simp only [map_error] at this
        simpa [mPc, map_error] using this
      | cons qid q =>
        simp only [mPc]
        by_cases hq : (qid == id) = true
        · have := hsel (.ok (q, 0, []))
          simp only [map_ok, List.map_nil] at this
          simp only [hq, ↓reduceIte]
          exact this
        · have hq' : (qid == id) = false := by simpa using hq
          have := hsel (.error s!"deme {showId id} runs, but {showId qid} is next in the schedule")
          simp only [map_error] at this
          simpa [hq', map_error] using this
    | some c =>
      obtain ⟨cid, done, pending⟩ := c
      simp only [mPc]
      by_cases hq : (cid == id) = true
      · have := hsel (.ok (queue, done, pending))
        simp only [map_ok] at this
        simp only [hq, ↓reduceIte]
        exact this
      · have hq' : (cid == id) = false := by simpa using hq
        have := hsel (.error s!"deme {showId id} produced a generation while {showId cid} is running")
        simp only [map_error] at this
        simpa [hq', map_error] using this


theorem appendHist_mT (t : T) (id : Id) (gens : List Gen) (b : Bool) :
    appendHist (mT t) id (gens.map mGen) b = mT (appendHist t id gens b) := by
  simp only [appendHist, T.update, mT, List.map_map]
  congr 1
  exact updFirst_map id (fun d => { d with hist := d.hist ++ [gens], active := d.active && b })
    (fun d => { d with hist := d.hist ++ [gens.map mGen], active := d.active && b })
    (fun d => by simp [mDeme]) t.demes

theorem update_active_mT (t : T) (id : Id) (b : Bool) :
    (mT t).update id (fun d => { d with active := d.active && b }) =
      mT (t.update id fun d => { d with active := d.active && b }) := by
  simp only [T.update, mT]
  congr 1
  exact updFirst_map id (fun d => { d with active := d.active && b }) (fun d => { d with active := d.active && b })
    (fun _ => rfl) t.demes

theorem mPc_finish (q : List Id) : mPc (finish q) = finish q := by
  unfold finish; split <;> rfl

theorem mT_finish (t : T) (q : List Id) (s : Bool) :
    ({ mT t with pc := finish q, gscSeen := s } : T) = mT { t with pc := finish q, gscSeen := s } := by
  simp only [mT, mPc_finish]

theorem mT_finish' (t : T) (q : List Id) :
    ({ mT t with pc := finish q } : T) = mT { t with pc := finish q } := by
  simp only [mT, mPc_finish]

theorem mT_running (t : T) (q : List Id) (id : Id) (k : Nat) (p : List Gen) :
    ({ mT t with pc := .running q (some (id, k, p.map mGen)) } : T) = mT { t with pc := .running q (some (id, k, p)) } := by
  simp only [mT, mPc]

theorem finishGen_mirror (t1 : T) (id : Id) (lc : LevelCfg) (q : List Id) (done : Nat) (pending : List Gen)
    (gen : Gen) (g : GenEnv) (l : Option Bool) :
    finishGen (mT t1) id lc q done (pending.map mGen) (mGen gen) (mGenEnv g) l =
      (finishGen t1 id lc q done pending gen g l).map mT := by
  unfold finishGen
  have happ : pending.map mGen ++ [mGen gen] = (pending ++ [gen]).map mGen := by simp
  have hge : (mGenEnv g).gscEnv = g.gscEnv := rfl
  have hcs : (mGenEnv g).cmaStop = g.cmaStop := rfl
  rw [happ, hge, hcs]
  by_cases hls : (lc.engine == .lhs || lc.engine == .sobol) = true
  · simp only [hls, ↓reduceIte, appendHist_mT, gscEval_mirror, find_mT]
    have hcfg : (mT (appendHist t1 id (pending ++ [gen]) true)).cfg.gsc = (appendHist t1 id (pending ++ [gen]) true).cfg.gsc := rfl
    rw [hcfg]
    cases gscEval (appendHist t1 id (pending ++ [gen]) true) g.gscEnv (appendHist t1 id (pending ++ [gen]) true).cfg.gsc with
    | none => rfl
    | some gv =>
      simp only []
      cases (appendHist t1 id (pending ++ [gen]) true).find id with
      | none => rfl
      | some d2 =>
        simp only [Option.map_some]
        cases gv with
        | true =>
          simp only [↓reduceIte, map_ok, Bool.true_or, Bool.not_true]
          rw [update_active_mT]
          simp only [mT_gscSeen, Bool.or_true]
          rw [mT_finish]
        | false =>
          simp only [Bool.false_eq_true, ↓reduceIte, lscEval_mirror]
          cases lscEval (appendHist t1 id (pending ++ [gen]) true) d2 l lc.lsc with
          | none => rfl
          | some lv =>
            simp only [map_ok, Bool.false_or]
            rw [update_active_mT]
            simp only [mT_gscSeen, Bool.or_false]
            rw [mT_finish]
  · simp only [hls, Bool.false_eq_true, ↓reduceIte, gscEval_mirror]
    have hcfg : (mT t1).cfg.gsc = t1.cfg.gsc := rfl
    rw [hcfg]
    cases gscEval t1 g.gscEnv t1.cfg.gsc with
    | none => rfl
    | some gv =>
      simp only []
      by_cases hstop : (gv || (lc.engine == .cma && g.cmaStop)) = true
      · simp only [hstop, ↓reduceIte, map_ok, appendHist_mT, mT_gscSeen]
        rw [mT_finish]
      · simp only [hstop, Bool.false_eq_true, ↓reduceIte]
        by_cases hmore : done + 1 < lc.generations
        · simp only [hmore, ↓reduceIte, map_ok]
          rw [mT_running]
        · simp only [hmore, ↓reduceIte, appendHist_mT, find_mT]
          cases (appendHist t1 id (pending ++ [gen]) true).find id with
          | none => rfl
          | some d2 =>
            simp only [Option.map_some, lscEval_mirror]
            cases lscEval (appendHist t1 id (pending ++ [gen]) true) d2 l lc.lsc with
            | none => rfl
            | some lv =>
              simp only [map_ok]
              rw [update_active_mT, mT_finish']


theorem getLast_mGen (pending : List Gen) : (pending.map mGen).getLast? = pending.getLast?.map mGen := by
  simp [List.getLast?_map]

theorem stepGen_mirror (t : T) (hmx : t.cfg.maximize = true) (id : Id) (g : GenEnv) (l : Option Bool) :
    stepGen (mT t) id (mGenEnv g) l = (stepGen t id g l).map mT := by
  unfold stepGen
  rw [prepareGen_mirror]
  cases hp : prepareGen t id with
  | error e => rfl
  | ok p =>
    obtain ⟨q, done, pending, d, lc⟩ := p
    simp only [map_ok, mPrep]
    have hreqs : (mGenEnv g).reqs = g.reqs.map mReq := rfl
    have hpop : (mGenEnv g).pop = g.pop.map negInd := rfl
    rw [hreqs, hpop, mDeme_level, evalReqs_mirror id d.level true g.reqs t hmx]
    cases hev : evalReqs t id d.level true g.reqs with
    | error e => rfl
    | ok r =>
      obtain ⟨t1, ev⟩ := r
      simp only [map_ok, mResL, mT_maximize, hmx]
      -- the parents the generation was bred from
      rw [getLast_mGen]
      cases pending.getLast? with
      | none =>
        simp only [Option.map_none, mDeme_curPop, List.length_map, genOk_mirror]
        cases genOk true lc d.curPop ev g.pop (if lc.engine == Engine.cma then d.curPop.length else lc.popSize) with
        | error e => rfl
        | ok u => exact finishGen_mirror t1 id lc q done pending ⟨g.pop, ev⟩ g l
      | some p =>
        have hp' : (mGen p).inds = p.inds.map negInd := rfl
        simp only [Option.map_some, hp', List.length_map, genOk_mirror]
        cases genOk true lc p.inds ev g.pop (if lc.engine == Engine.cma then p.inds.length else lc.popSize) with
        | error e => rfl
        | ok u => exact finishGen_mirror t1 id lc q done pending ⟨g.pop, ev⟩ g l

theorem schedule_congr (a b : T) (hc : a.cfg = b.cfg) (hd : a.demes = b.demes) : schedule a = schedule b := by
  simp only [schedule, T.levelMajor, T.height, hc, hd]

theorem stepLoop_mirror (t : T) (ge : Option Bool) : stepLoop (mT t) ge = (stepLoop t ge).map mT := by
  unfold stepLoop
  rw [mPc_eq]
  cases hpc : t.pc with
  | running q c => cases c with
    | none => rfl
    | some x => obtain ⟨a, b, c⟩ := x; rfl
  | post => rfl
  | done => rfl
  | head =>
    have hv : gscEval (mT t) ge (mT t).cfg.gsc = gscEval t ge t.cfg.gsc := gscEval_mirror t ge _
    simp only [mPc]
    rw [hv]
    cases gscEval t ge t.cfg.gsc with
    | none => rfl
    | some v =>
      cases v with
      | true =>
        simp only [map_ok]
        congr 1
      | false =>
        simp only []
        by_cases hs : t.gscSeen = true
        · have hs' : (mT t).gscSeen = true := hs
          rw [if_pos hs, if_pos hs']; rfl
        · have hs' : ¬ (mT t).gscSeen = true := hs
          rw [if_neg hs, if_neg hs']
          rw [map_ok]
          congr 1
          have key : ∀ a b : T, a.cfg = (mT t).cfg → a.demes = (mT t).demes → b.cfg = t.cfg → b.demes = t.demes →
              schedule a = schedule b := by
            intro a b h1 h2 h3 h4
            exact (schedule_congr a (mT t) h1 h2).trans ((schedule_mT t).trans (schedule_congr t b h3.symm h4.symm))
          simp only [mT, mPc_finish, T.mk.injEq, true_and, and_true]
          congr 1
          exact key _ _ rfl rfl rfl rfl


-- ---------------------------------------------------------------- local search
theorem any_sentinel_mirror (ev : List Ind) :
    ((ev.map negInd).any fun e => e.genome.isEmpty && e.fit == Fit.sentinel false) =
      (ev.any fun e => e.genome.isEmpty && e.fit == Fit.sentinel true) := by
  simp only [List.any_map]
  congr 1
  funext e
  simp [Function.comp, fit_sentinel_mirror]

theorem stepLocal_mirror (t : T) (hmx : t.cfg.maximize = true) (id : Id) (reqs : List Req) (its : List Ind) (nfev : Nat) :
    stepLocal (mT t) id (reqs.map mReq) (its.map negInd) nfev = (stepLocal t id reqs its nfev).map mT := by
  unfold stepLocal
  rw [mPc_eq]
  cases hpc : t.pc with
  | head => rfl
  | post => rfl
  | done => rfl
  | running queue cur =>
    cases cur with
    | some c => obtain ⟨a, b, c⟩ := c; cases queue <;> rfl
    | none =>
      cases queue with
      | nil => rfl
      | cons qid q =>
        simp only [mPc]
        by_cases hq : (qid != id) = true
        · simp only [hq, ↓reduceIte]; rfl
        · simp only [hq, Bool.false_eq_true, ↓reduceIte, find_mT]
          cases t.find id with
          | none => rfl
          | some d =>
            simp only [Option.map_some, mT_levels, mDeme_level, mDeme_active]
            cases t.cfg.levels[d.level]? with
            | none => rfl
            | some lc =>
              simp only []
              by_cases h1 : (lc.engine != Engine.localOpt) = true
              · simp only [h1, ↓reduceIte]; rfl
              · simp only [h1, Bool.false_eq_true, ↓reduceIte]
                by_cases h2 : (!d.active) = true
                · simp only [h2, ↓reduceIte]; rfl
                · simp only [h2, Bool.false_eq_true, ↓reduceIte, evalReqs_mirror id d.level false reqs t hmx]
                  cases hev : evalReqs t id d.level false reqs with
                  | error e => rfl
                  | ok r =>
                    obtain ⟨t1, ev⟩ := r
                    simp only [map_ok, mResL, List.length_map, mT_maximize, hmx]
                    by_cases h3 : (nfev != reqs.length) = true
                    · simp only [h3, ↓reduceIte]; rfl
                    · simp only [h3, Bool.false_eq_true, ↓reduceIte, any_sentinel_mirror]
                      have hall : ((its.map negInd).all fun i => (ev.map negInd).contains i ||
                            ((ev.any fun e => e.genome.isEmpty && e.fit == Fit.sentinel true) && i.fit == Fit.sentinel false)) =
                          (its.all fun i => ev.contains i ||
                            ((ev.any fun e => e.genome.isEmpty && e.fit == Fit.sentinel true) && i.fit == Fit.sentinel true)) := by
                        simp only [List.all_map]
                        congr 1
                        funext i
                        simp only [Function.comp, contains_negInd, negInd_fit, fit_sentinel_mirror]
                      rw [hall]
                      by_cases h4 : (!(its.all fun i => ev.contains i ||
                            ((ev.any fun e => e.genome.isEmpty && e.fit == Fit.sentinel true) && i.fit == Fit.sentinel true))) = true
                      · simp only [h4, ↓reduceIte]; rfl
                      · simp only [h4, Bool.false_eq_true, ↓reduceIte, map_ok]
                        congr 1
                        have hu : (mT t1).update id (fun d => { d with counter := d.counter + nfev, hist := d.hist ++ [[⟨its.map negInd, ev.map negInd⟩]], active := false }) =
                            mT (t1.update id fun d => { d with counter := d.counter + nfev, hist := d.hist ++ [[⟨its, ev⟩]], active := false }) := by
                          simp only [T.update, mT]
                          congr 1
                          exact updFirst_map id
                            (fun d => { d with counter := d.counter + nfev, hist := d.hist ++ [[⟨its, ev⟩]], active := false })
                            (fun d => { d with counter := d.counter + nfev, hist := d.hist ++ [[⟨its.map negInd, ev.map negInd⟩]], active := false })
                            (fun d => by simp [mDeme, mGen]) t1.demes
                        rw [hu, mT_finish']


-- ---------------------------------------------------------------- creating demes
theorem map_negInd_ne_singleton (pop : List Ind) (s0 : Ind) :
    (pop.map negInd != [negInd s0]) = (pop != [s0]) := by
  have : (pop.map negInd = [negInd s0]) ↔ (pop = [s0]) := by
    constructor
    · intro h
      cases pop with
      | nil => simp at h
      | cons a l =>
        cases l with
        | nil =>
          simp only [List.map_cons, List.map_nil, List.cons.injEq, and_true] at h
          rw [negInd_injective h]
        | cons b l' => simp at h
    · intro h; rw [h]; rfl
  by_cases hp : pop = [s0]
  · subst hp
    simp
  · have hn : ¬ (pop.map negInd = [negInd s0]) := fun h => hp (this.mp h)
    rw [bne_iff_ne.mpr hn, bne_iff_ne.mpr hp]

theorem initPopShape_mirror (lc : LevelCfg) (seed : Option Ind) (env : NewEnv) (ev : List Ind) :
    initPopShape lc (seed.map negInd) (mNew env) (ev.map negInd) = initPopShape lc seed env ev := by
  unfold initPopShape
  have hpop : (mNew env).pop = env.pop.map negInd := rfl
  have hreqs : (mNew env).reqs.isEmpty = env.reqs.isEmpty := by simp [mNew]
  have hall : ((env.pop.map negInd).all (ev.map negInd).contains) = (env.pop.all ev.contains) := by
    simp only [List.all_map]
    congr 1
    funext i
    simp only [Function.comp, contains_negInd]
  rw [hpop, hreqs, hall, List.length_map]
  cases seed with
  | none => rfl
  | some s0 =>
    simp only [Option.map_some, map_negInd_ne_singleton, Option.isNone_some]
    have hany : ((env.pop.map negInd).any fun i => i.genome == (negInd s0).genome) =
        (env.pop.any fun i => i.genome == s0.genome) := by
      simp only [List.any_map]
      rfl
    rw [hany]

theorem initPopOk_mirror (lc : LevelCfg) (seed : Option Ind) (env : NewEnv) (ev : List Ind) :
    initPopOk false lc (seed.map negInd) (mNew env) (ev.map negInd) = initPopOk true lc seed env ev := by
  unfold initPopOk
  rw [initPopShape_mirror]
  have hpop : (mNew env).pop = env.pop.map negInd := rfl
  rw [hpop, observedOk_mirror]

theorem nextChildId_mT (t : T) (p : Deme) : nextChildId (mT t) (mDeme p) = nextChildId t p := rfl

theorem createDeme_core_mirror (t : T) (hmx : t.cfg.maximize = true) (seed : Option Ind) (env : NewEnv)
    (lvl : Nat) (id : Id) (par : Option Id) (pid : Option Id) :
    (match (mT t).cfg.levels[lvl]? with
      | none => (Except.error s!"sprout below the last level ({showId id})" : Except String T)
      | some lc =>
        match evalReqs (mT t) id lvl false (mNew env).reqs with
        | .error e => .error e
        | .ok (t1, ev0) =>
          let refusedHere := ev0.any fun e => e.genome.isEmpty && e.fit == Fit.sentinel (mT t).cfg.maximize
          let ev := ev0 ++ (if refusedHere then (mNew env).pop.filter (fun (i : Ind) => i.fit == Fit.sentinel (mT t).cfg.maximize) else [])
          match initPopOk (mT t).cfg.maximize lc (seed.map negInd) (mNew env) ev with
          | .error e => .error s!"deme {showId id}: {e}"
          | .ok _ =>
            let d : Deme := { id := id, level := lvl, parent := par, startedAt := (mT t).metaepoch,
                              active := true, hib := false, hist := [[⟨(mNew env).pop, ev⟩]],
                              counter := if lc.engine == Engine.localOpt then 0 else (mNew env).reqs.length,
                              children := [], seed := seed.map negInd }
            let old := match pid with
              | some p => updFirst p (fun x => { x with children := x.children ++ [id] }) t1.demes
              | none => t1.demes
            .ok { t1 with demes := old ++ [d], levels := t1.levels.set lvl ((t1.levels.getD lvl []) ++ [id]) }) =
    (match t.cfg.levels[lvl]? with
      | none => (Except.error s!"sprout below the last level ({showId id})" : Except String T)
      | some lc =>
        match evalReqs t id lvl false env.reqs with
        | .error e => .error e
        | .ok (t1, ev0) =>
          let refusedHere := ev0.any fun e => e.genome.isEmpty && e.fit == Fit.sentinel t.cfg.maximize
          let ev := ev0 ++ (if refusedHere then env.pop.filter (fun (i : Ind) => i.fit == Fit.sentinel t.cfg.maximize) else [])
          match initPopOk t.cfg.maximize lc seed env ev with
          | .error e => .error s!"deme {showId id}: {e}"
          | .ok _ =>
            let d : Deme := { id := id, level := lvl, parent := par, startedAt := t.metaepoch,
                              active := true, hib := false, hist := [[⟨env.pop, ev⟩]],
                              counter := if lc.engine == Engine.localOpt then 0 else env.reqs.length,
                              children := [], seed := seed }
            let old := match pid with
              | some p => updFirst p (fun x => { x with children := x.children ++ [id] }) t1.demes
              | none => t1.demes
            .ok { t1 with demes := old ++ [d], levels := t1.levels.set lvl ((t1.levels.getD lvl []) ++ [id]) }).map mT := by
  simp only [mT_levels]
  cases t.cfg.levels[lvl]? with
  | none => rfl
  | some lc =>
    simp only []
    have hreqs : (mNew env).reqs = env.reqs.map mReq := rfl
    rw [hreqs, evalReqs_mirror id lvl false env.reqs t hmx]
    cases hev : evalReqs t id lvl false env.reqs with
    | error e => rfl
    | ok r =>
      obtain ⟨t1, ev0⟩ := r
      simp only [map_ok, mResL, mT_maximize, hmx, any_sentinel_mirror]
      have hpop : (mNew env).pop = env.pop.map negInd := rfl
      have hext : (ev0.map negInd ++
            (if (ev0.any fun e => e.genome.isEmpty && e.fit == Fit.sentinel true) = true
              then (env.pop.map negInd).filter (fun i => i.fit == Fit.sentinel false) else [])) =
          (ev0 ++ (if (ev0.any fun e => e.genome.isEmpty && e.fit == Fit.sentinel true) = true
              then env.pop.filter (fun i => i.fit == Fit.sentinel true) else [])).map negInd := by
        rw [List.map_append]
        congr 1
        split
        · exact filter_negInd _ _ (fun i => by simp [fit_sentinel_mirror]) _
        · rfl
      rw [hpop, hext, initPopOk_mirror]
      cases initPopOk true lc seed env (ev0 ++ (if (ev0.any fun e => e.genome.isEmpty && e.fit == Fit.sentinel true) = true
              then env.pop.filter (fun i => i.fit == Fit.sentinel true) else [])) with
      | error e => rfl
      | ok u =>
        simp only [map_ok, mT_metaepoch, List.length_map]
        congr 1
        cases pid with
        | none => simp [mT, mDeme, mGen]
        | some p =>
          simp only [mT, mT_demes, List.map_append, List.map_cons, List.map_nil]
          have := updFirst_map p (fun x => { x with children := x.children ++ [id] })
            (fun x => { x with children := x.children ++ [id] }) (fun _ => rfl) t1.demes
          simp [this, mDeme, mGen]

theorem createDeme_mirror (t : T) (hmx : t.cfg.maximize = true) (parent : Option Deme) (seed : Option Ind) (env : NewEnv) :
    createDeme (mT t) (parent.map mDeme) (seed.map negInd) (mNew env) = (createDeme t parent seed env).map mT := by
  cases parent with
  | none =>
    exact createDeme_core_mirror t hmx seed env 0 [] none none
  | some p =>
    exact createDeme_core_mirror t hmx seed env (p.level + 1) (nextChildId t p) (some p.id) (some p.id)


-- ---------------------------------------------------------------- sprouting round
def mPair (p : Id × Ind) : Id × Ind := (p.1, negInd p.2)

theorem doSprout_mirror (flat : List (Id × Ind)) : ∀ (t : T) (news : List NewEnv), t.cfg.maximize = true →
    doSprout (mT t) (flat.map mPair) (news.map mNew) = (doSprout t flat news).map mT := by
  induction flat with
  | nil =>
    intro t news _
    cases news <;> rfl
  | cons ps rest ih =>
    intro t news hmx
    obtain ⟨pid, s0⟩ := ps
    cases news with
    | nil => rfl
    | cons e es =>
      simp only [List.map_cons, mPair, doSprout, find_mT]
      cases t.find pid with
      | none => rfl
      | some p =>
        simp only [Option.map_some]
        have := createDeme_mirror t hmx (some p) (some s0) e
        simp only [Option.map_some] at this
        rw [this]
        cases hc : createDeme t (some p) (some s0) e with
        | error err => rfl
        | ok t1 =>
          simp only [map_ok]
          have hmx1 : t1.cfg.maximize = true := by rw [(createDeme_effect hc).cfg]; exact hmx
          exact ih t1 es hmx1

theorem updateHibernation_mirror (t : T) (took : List Id) :
    updateHibernation (mT t) took = mT (updateHibernation t took) := by
  unfold updateHibernation
  by_cases hh : (!t.cfg.hibernation) = true
  · have hh' : (!(mT t).cfg.hibernation) = true := hh
    rw [if_pos hh, if_pos hh']
  · have hh' : ¬ (!(mT t).cfg.hibernation) = true := hh
    rw [if_neg hh, if_neg hh']
    have hmap : (mT t).demes.map (fun d =>
          if d.active && decide (d.level + 1 < (mT t).height) && d.startedAt != (mT t).metaepoch then { d with hib := !took.contains d.id } else d) =
        (t.demes.map (fun d =>
          if d.active && decide (d.level + 1 < t.height) && d.startedAt != t.metaepoch then { d with hib := !took.contains d.id } else d)).map mDeme := by
      simp only [mT_demes, List.map_map]
      apply List.map_congr_left
      intro d _
      simp only [Function.comp]
      by_cases hc : (d.active && decide (d.level + 1 < t.height) && d.startedAt != t.metaepoch) = true
      · have hc' : ((mDeme d).active && decide ((mDeme d).level + 1 < (mT t).height) && (mDeme d).startedAt != (mT t).metaepoch) = true := hc
        rw [if_pos hc, if_pos hc']; rfl
      · have hc' : ¬ ((mDeme d).active && decide ((mDeme d).level + 1 < (mT t).height) && (mDeme d).startedAt != (mT t).metaepoch) = true := hc
        rw [if_neg hc, if_neg hc']
    rw [hmap]
    rfl

theorem flat_mirror (seeds : List Sprout.Cand) :
    ((seeds.map mirrorCand).flatMap fun c => c.inds.map fun i => (c.deme, i)) =
      (seeds.flatMap fun c => c.inds.map fun i => (c.deme, i)).map mPair := by
  induction seeds with
  | nil => rfl
  | cons c cs ih =>
    simp only [List.map_cons, List.flatMap_cons, List.map_append, ih]
    congr 1
    simp [mirrorCand, mPair, List.map_map, Function.comp]

theorem stepRound_mirror (t : T) (hmx : t.cfg.maximize = true) (ge : Option Bool) (renv : Sprout.Env) (news : List NewEnv) :
    stepRound (mT t) ge renv (news.map mNew) = (stepRound t ge renv news).map mT := by
  unfold stepRound
  rw [mPc_eq]
  cases hpc : t.pc with
  | head => rfl
  | done => rfl
  | running q c => cases c with
    | none => rfl
    | some x => obtain ⟨a, b, c⟩ := x; rfl
  | post =>
    have hv : gscEval (mT t) ge (mT t).cfg.gsc = gscEval t ge t.cfg.gsc := gscEval_mirror t ge _
    simp only [mPc]
    rw [hv]
    cases gscEval t ge t.cfg.gsc with
    | none => rfl
    | some v =>
      cases v with
      | true =>
        simp only [List.isEmpty_map]
        split
        · simp only [map_ok]
          congr 1
        · rfl
      | false =>
        simp only []
        by_cases hs : t.gscSeen = true
        · have hs' : (mT t).gscSeen = true := hs
          rw [if_pos hs, if_pos hs']; rfl
        · have hs' : ¬ (mT t).gscSeen = true := hs
          rw [if_neg hs, if_neg hs', view_mT t hmx, mT_mech, getSeeds_mirror (view t) (by simp [view, hmx])]
          cases Sprout.getSeeds (view t) renv t.cfg.mech with
          | none => rfl
          | some seeds =>
            simp only [Option.map_some, flat_mirror, doSprout_mirror _ t news hmx]
            cases doSprout t (seeds.flatMap fun c => c.inds.map fun i => (c.deme, i)) news with
            | error e => rfl
            | ok t1 =>
              simp only [map_ok]
              congr 1
              have hd : (seeds.map mirrorCand).map (·.deme) = seeds.map (·.deme) := by
                simp [List.map_map, Function.comp]
              rw [hd, updateHibernation_mirror]
              simp only [mT, mPc]

/-- **C13 — one step of the tree machine mirrors.** -/
theorem step_mirror (t : T) (hmx : t.cfg.maximize = true) (ev : Ev) :
    step (mT t) (mEv ev) = (step t ev).map mT := by
  cases ev with
  | loop ge => exact stepLoop_mirror t ge
  | gen id g l => exact stepGen_mirror t hmx id g l
  | localRun id reqs its nfev => exact stepLocal_mirror t hmx id reqs its nfev
  | round ge renv news => exact stepRound_mirror t hmx ge renv news

theorem step_cfg_maximize {t t' : T} {ev : Ev} (h : step t ev = .ok t') : t'.cfg.maximize = t.cfg.maximize := by
  cases ev with
  | loop ge => rw [(stepLoop_effect h).1]
  | gen id g l => rw [(stepGen_effect h).cfg]
  | localRun id reqs its nfev => rw [(stepLocal_effect h).cfg]
  | round ge renv news => rw [(stepRound_effect h).1]

/-- **C13 — whole runs mirror.**  For every state of a tree that maximises `f` and every
sequence of events: the machine run on the mirrored state with the mirrored events accepts
exactly when the original does, refuses with the same message at the same event, and ends
in the mirrored state. -/
theorem exec_mirror (evs : List Ev) : ∀ (t : T), t.cfg.maximize = true →
    exec (mT t) (evs.map mEv) = (exec t evs).map mT := by
  induction evs with
  | nil => intro t _; rfl
  | cons e es ih =>
    intro t hmx
    simp only [List.map_cons, exec, bind, Except.bind, step_mirror t hmx]
    cases h1 : step t e with
    | error err => rfl
    | ok t1 =>
      simp only [map_ok]
      exact ih t1 (by rw [step_cfg_maximize h1]; exact hmx)

end C13

namespace C13
open Tree
/-- corollary: the mirrored run is accepted iff the original is -/
theorem exec_mirror_ok {t t' : T} {evs : List Ev} (hmx : t.cfg.maximize = true) (h : exec t evs = .ok t') :
    exec (mT t) (evs.map mEv) = .ok (mT t') := by
  rw [exec_mirror evs t hmx, h]; rfl

/-- the initial state mirrors too: constructing the tree on `−f` gives the mirrored tree -/
theorem init_mirror (cfg : Cfg) (hmx : cfg.maximize = true) (stks : List (List Problem.Wrapper)) (rootEnv : NewEnv) :
    init { cfg with maximize := false } (stks.map (·.map mWrapper)) (mNew rootEnv) =
      (init cfg stks rootEnv).map mT := by
  unfold init
  have := createDeme_mirror
    { cfg := cfg, metaepoch := 0, demes := [], levels := cfg.levels.map fun _ => [], «stacks» := stks, pc := .head,
      log := [], refused := false, gscSeen := false } hmx none none rootEnv
  simpa [mT, mPc] using this
end C13
