import PyhmsVerif.Model.Select
/-!
# M10 — multiwinner selection of MWEA (`pyhms/demes/single_pop_eas/multiwinner.py`)

`MultiwinnerRepeatedSelection.__call__` with the `CCGreedyPolicy` voting scheme, as the code
does it.  Environment: the election groups (`np.random.choice`), the candidate orders after
every `np.random.shuffle`, and the voters' preference lists (`argsort` of floating-point
utilities `γ(h(f)) · δ(‖x − y‖₁)` — powers and reciprocals of doubles are not modelled; the
lists are checked to be permutations of the group).  Everything else is computed: Borda scores
from the positions in the preference lists, the greedy rounds with their strict-improvement
rule, which group members are elected, the concatenation over `n // k + 1` elections; the final
`topk(n)` cut is the relational `Select.topkOk` (any `argsort` tie-break).

A faithful detail: `all_borda_scores[new_winner_indices, :]` indexes the *voter* axis with
candidate indices, so the "total score" of a committee is the sum over its members — read as
voters — of their best Borda score, which is `N` for every voter: all committees of one size
tie, and the strict-improvement rule elects the first not yet elected candidate of the shuffled
order.  The model computes the scores as the code does and does not use this shortcut; the
theorem `ccRound_first` states it.
-/
namespace MW

/-- is `l` a permutation of `0 … n-1`? -/
def isPerm (n : Nat) (l : List Nat) : Bool :=
  decide (l.length = n) && (List.range n).all fun i => l.contains i

/-- `np.argsort(preferences)[j][c]`: position of candidate `c` in voter `j`'s list -/
def position (pref : List Nat) (c : Nat) : Nat := pref.idxOf c

/-- `all_borda_scores[v, c] = N - position of c in v's list` -/
def borda (prefs : List (List Nat)) (n v c : Nat) : Nat := n - position (prefs.getD v []) c

/-- `np.sum(np.max(all_borda_scores[committee, :], axis=1))` -/
def totalScore (prefs : List (List Nat)) (n : Nat) (committee : List Nat) : Nat :=
  (committee.map fun v => ((List.range n).map fun c => borda prefs n v c).foldl max 0).sum

/-- one greedy round: scan the shuffled candidates, skip elected ones, keep the first candidate
whose committee scores strictly more than the best so far (`best_score` starts at `-inf`) -/
def ccScan (prefs : List (List Nat)) (n : Nat) (winners : List Nat) :
    List Nat → Option (Nat × Nat) → Option (Nat × Nat)
  | [], best => best
  | c :: rest, best =>
    if winners.contains c then ccScan prefs n winners rest best
    else
      let s := totalScore prefs n (winners ++ [c])
      match best with
      | none => ccScan prefs n winners rest (some (s, c))
      | some (bs, bc) => if s > bs then ccScan prefs n winners rest (some (s, c)) else ccScan prefs n winners rest (some (bs, bc))

/-- `CCGreedyPolicy.__call__(preferences, k)`: `orders` holds the candidate order after each of
the `k` in-loop shuffles; `none` when a round finds no candidate (`k` larger than the group) -/
def ccGreedy (prefs : List (List Nat)) (n : Nat) : List (List Nat) → List Nat → Option (List Nat)
  | [], winners => some winners
  | order :: more, winners =>
    match ccScan prefs n winners order none with
    | none => none
    | some (_, c) => ccGreedy prefs n more (winners ++ [c])

/-- one election of `MultiwinnerRepeatedSelection` -/
structure Election where
  group : List Nat              -- indices into the population
  prefs : List (List Nat)       -- preference list of every group member (indices into the group)
  orders : List (List Nat)      -- candidate order after every in-loop shuffle
deriving Repr

def electionOk (n g k : Nat) (e : Election) : Bool :=
  decide (e.group.length = g) && e.group.all (fun i => decide (i < n)) && e.group.Nodup &&
  decide (e.prefs.length = g) && e.prefs.all (isPerm g) &&
  decide (e.orders.length = k) && e.orders.all (isPerm g)

/-- the group members elected by one election, as individuals of the population -/
def elect (pop : List Ind) (g : Nat) (e : Election) : Option (List Ind) :=
  (ccGreedy e.prefs g e.orders []).bind fun ws =>
    ws.mapM fun w => (e.group[w]?).bind fun i => pop[i]?

/-- `MultiwinnerRepeatedSelection.__call__` before the final `topk(n)` cut:
`n // k + 1` elections, winners concatenated -/
def repeated (pop : List Ind) (g k : Nat) (es : List Election) : Option (List Ind) :=
  if k = 0 ∨ es.length ≠ pop.length / k + 1 ∨ !(es.all (electionOk pop.length g k)) then none
  else (es.mapM (elect pop g)).map List.flatten

end MW
