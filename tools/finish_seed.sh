#!/bin/bash
# usage: tools/finish_seed.sh <worktree> <seed-id> <property>
# verify_seed + run the property's quick check against it (no change-directed boost) + fill meta.json + remove worktree on success
WT=$1; ID=$2; P=$3
cd /verif
tools/verify_seed.sh $WT $ID $P 2>&1 | tail -3
[ -d seeded/$ID ] || { echo "seed not stored"; exit 3; }
out=$(VERIF_NO_FOCUS=1 timeout 2400 tools/run_seed.sh $ID $P quick 2>&1 | grep -v "^KNOWN-FINDING" | tail -2 | tr '\n' ' ' | cut -c1-300)
echo "$ID $P :: $out"
/venv/bin/python - "$ID" "$out" <<'PY'
import json,sys,re,os
i,out=sys.argv[1:3]
p=f"/verif/seeded/{i}/meta.json"; m=json.load(open(p))
notes=open(f"/verif/seeded/{i}/notes.md").read() if os.path.exists(f"/verif/seeded/{i}/notes.md") else ""
ch=re.search(r"^CHANGE:\s*(.*)$",notes,re.M); nd=re.search(r"^NEEDS:\s*(.*)$",notes,re.M)
if ch: m["change"]=ch.group(1).strip()
if nd: m["needs_to_manifest"]=nd.group(1).strip()
ex=re.search(r"exit (\d)",out)
m["detected_by"]={"check":f"./check.py {m['property']} --tier quick (VERIF_SEED=0, VERIF_NO_FOCUS=1)","exit":int(ex.group(1)) if ex else None,"how":out}
json.dump(m,open(p,"w"),indent=1)
PY
git -C /repo status --short
