import PyhmsVerif.Proofs.FitOrder
/-!
# C13 — maximising f behaves exactly like minimising −f (decision kernels)

`negInd` mirrors an individual (same genome, negated fitness).  Each theorem says that a
comparison-based decision taken under `maximize = true` selects the mirror image of what it
selects on the mirrored data under `maximize = false` — for every population.
Whole seeded runs of index-stable engines are compared as twins by harness/props/c13.py.
-/
namespace C13
open Select

theorem worse_mirror (a b : Ind) : worse true a b = worse false (negInd a) (negInd b) := by
  simp [worse, negInd, Fit.worse_mirror]

theorem better_mirror (a b : Ind) : better true a b = better false (negInd a) (negInd b) := by
  simp [better, negInd, Fit.worse_mirror]

/-- best-individual query (`max(...)`, `best_individual`, tournament winner) -/
theorem best_mirror (l : List Ind) : (best true l).map negInd = best false (l.map negInd) := by
  induction l with
  | nil => rfl
  | cons a l ih =>
    simp only [best, List.map_cons]
    rw [← ih]
    cases h : best true l with
    | none => simp
    | some b =>
      simp only [Option.map_some]
      rw [← better_mirror]
      split <;> simp

theorem trialWins_mirror (p t : Ind) : trialWins true p t = trialWins false (negInd p) (negInd t) := by
  simp [trialWins, worse_mirror]

/-- DE / SHADE one-to-one replacement selects the same individuals -/
theorem deSurvivors_mirror (ps ts : List Ind) :
    (deSurvivors true ps ts).map negInd = deSurvivors false (ps.map negInd) (ts.map negInd) := by
  induction ps generalizing ts with
  | nil => simp [deSurvivors]
  | cons p ps ih =>
    cases ts with
    | nil => simp [deSurvivors]
    | cons t ts =>
      have := ih ts
      simp only [deSurvivors, List.zip_cons_cons, List.map_cons] at this ⊢
      rw [← trialWins_mirror, this]
      congr 1
      split <;> rfl

theorem deSelect_mirror (ps ts : List Ind) :
    (deSelect true ps ts).map negInd = deSelect false (ps.map negInd) (ts.map negInd) := by
  unfold deSelect
  simp only [List.map_append, List.map_map]
  have hz : (ps.map negInd).zip (ts.map negInd) = (ps.zip ts).map (fun p => (negInd p.1, negInd p.2)) := by
    rw [List.zip_map]; rfl
  rw [hz]
  simp only [List.filter_map, List.map_map]
  have hf1 : List.filter ((fun p : Ind × Ind => trialWins false p.1 p.2) ∘ fun p => (negInd p.1, negInd p.2)) (ps.zip ts)
      = List.filter (fun p => trialWins true p.1 p.2) (ps.zip ts) := by
    apply List.filter_congr; intro p _; simp [Function.comp, trialWins_mirror]
  have hf2 : List.filter ((fun p : Ind × Ind => !trialWins false p.1 p.2) ∘ fun p => (negInd p.1, negInd p.2)) (ps.zip ts)
      = List.filter (fun p => !trialWins true p.1 p.2) (ps.zip ts) := by
    apply List.filter_congr; intro p _; simp [Function.comp, trialWins_mirror]
  rw [hf1, hf2]
  rfl

/-- "at least as good as a threshold" counts agree (k-th best statistics mirror) -/
theorem countAtLeast_mirror (t : Fit) (l : List Ind) :
    countAtLeast true t l = countAtLeast false t.neg (l.map negInd) := by
  unfold countAtLeast
  rw [List.countP_map]
  congr 1
  funext a
  simp [Function.comp, negInd, Fit.worse_mirror]

/-- the sentinel of an exhausted budget mirrors too -/
theorem sentinel_mirror : (Fit.sentinel true).neg = Fit.sentinel false := rfl

end C13
