"""C13 — maximising f behaves exactly like minimising -f.

Theorems: mirror laws of the decision kernels (lean/PyhmsVerif/Props/C13.lean).
Correspondence / monitor: twin calls of every real decision function on (f, maximize) and
(-f, minimize), and twin whole seeded runs for index-stable engine mixes: identical trees up
to the sign of fitness.
"""
import types

import numpy as np

from .. import runs as R
from ..common import Slice

MODULE = 'PyhmsVerif.Props.C13R5SNodup'
THEOREMS = ['C13.worse_mirror', 'C13.better_mirror', 'C13.best_mirror', 'C13.trialWins_mirror', 'C13.deSurvivors_mirror', 'C13.deSelect_mirror', 'C13.countAtLeast_mirror', 'C13.sentinel_mirror', 'C13.getSeeds_mirror', 'C13.cluster_mirror', 'C13.generate_mirror', 'C13.applyFilter_mirror', 'C13.levelLimitLevel_mirror', 'C13.demeLimit_mirror', 'C13.sortDesc_mirror', 'C13.exec_mirror', 'C13.step_mirror', 'C13.init_mirror', 'C13.genOk_mirror', 'C13.evalStack_mirror', 'F64.rnd_neg', 'R5S.r5s_mirror', 'R5S.r5s_mem', 'R5S.r5sD_eq', 'R5S.select_map', 'R5S.selectIdx_nodup', 'EngineDE.deGen_mirror', 'EngineMirror.shadeGen_mirror', 'EngineMirror.seaOffspring_mirror']
EXTRA_MODULES = ['PyhmsVerif.Props.EngineDE', 'PyhmsVerif.Props.EngineMirror']
LEVEL = "proof"
LEVEL_TEXT = 'Theorems for all populations: ordering, best-individual query, DE/SHADE replacement and order statistics select mirror images under (f, max) and (-f, min). Tie to the code: twin calls of the real Individual ordering, max, Population.topk, TournamentSelection, DE.run, SHADE.run, NearestBetterClustering, DemeLimit, LevelLimit, R5SSelection on mirrored inputs with identical RNG state, and twin whole seeded runs (DE, SHADE, CMA-ES, local, LHS, Sobol mixes, both mechanisms and user-composed ones) compared genome by genome. NEW: getSeeds_mirror — for every tree view, environment (distances, NBC means) and mechanism (any generator, any chain of filters) the seeds selected under maximize=true are exactly the mirror images (same parents, same genomes, negated fitness, same order) of the seeds selected on the mirrored view under maximize=false: nearest-better clustering (cluster_mirror), best-per-deme, DemeLimit, LevelLimit (finding D8 class), FarEnough, NBC_FarEnough, SkipSameSprout. NEW (whole runs): step_mirror / exec_mirror / init_mirror — for every state of a tree that maximises f and every event sequence, the tree machine run on the mirrored state (all stored / logged / requested fitness values negated, optima of precision wrappers negated, maximize=false) with the mirrored events accepts exactly when the original does, refuses with the same message at the same event, and ends in the mirrored state: bookkeeping, acceptance of generations, wrapper stacks incl. the binary64 precision test (F64.rnd_neg), stop conditions, sprouting, hibernation. NEW (R5S): r5s_mirror — R5SSelection on (-f, min) returns the mirror images, in the same order, of what it returns on (f, max), for every population, distance matrix and weighted sums (after the stable best-first sort the selection never looks at a fitness value: select_map); the model R5S.r5sD (sort, minima, binary64 isclose filter, top-k and dominated scan) is diffed against pyhms.utils.r5s.R5SSelection. ENGINE LEVEL (Model/Engine.lean, Props/EngineDE.lean): one whole generation of DE.run / SHADE.run is in the model, deterministic given the generator draws (donor arithmetic in binary64, reflect repair, crossover mask incl. the row-zeroing quirk, fitness carry-over, which rows are evaluated, replacement), and is diffed bit-exactly against the real engines with recorded draws: deGen_mirror — a whole DE generation under maximize=true and the same generation on the mirrored population (fitness and objective values negated, maximize=false) are defined together and are mirror images: same trial genomes, same requests in the same order, same survivors; EngineMirror.shadeGen_mirror — the same for a whole SHADE generation (p-best admissibility, archive included); EngineMirror.seaOffspring_mirror — the same for one pass of the SEA variational pipeline of all three shipped variants (tournament = first best contestant, crossover, mutation, evaluation).'
LEVEL_NOTE = "Trusted: Lean kernel + standard axioms; that CMA-ES / L-BFGS-B descend on what they are fed is library behaviour (observed through the twin runs, not proved); SEA-family levels are covered decision by decision (their top-k keeps the same set in mirrored order); FitnessSteadiness and the precision stop condition read raw values and are excluded from whole-run twins as the property states."
TECHNIQUE = "Lean 4 mirror lemmas for the decision kernels + twin-call and twin-run differential"
RULE = "component case = one decision function called on a random population (ties, plateaus, +-inf) under (f,max) and (-f,min); run case = one index-stable configuration run twice; non-trivial = ties present / >= 2 demes; distinct by content hash"
ASSUMPTIONS = ["objective values are not NaN", "library optimisers are deterministic functions of the values they are told"]


def stub_problem(mx, d):
    from pyhms.core.problem import FunctionProblem

    return FunctionProblem(lambda x: 0.0, bounds=np.array([[-5.0, 5.0]] * d), maximize=mx)


def genomes(inds):
    return [tuple(float(t) for t in i.genome) for i in inds]


def component(ctx, rng, n_cases, sl):
    from pyhms.core.individual import Individual
    from pyhms.core.population import Population
    from pyhms.demes.single_pop_eas.de import DE, SHADE
    from pyhms.demes.single_pop_eas.sea import TournamentSelection
    from pyhms.sprout.sprout_candidates import DemeCandidates, DemeFeatures
    from pyhms.sprout.sprout_filters import DemeLimit, LevelLimit
    from pyhms.utils.clusterization import NearestBetterClustering
    from pyhms.utils.r5s import R5SSelection

    for _ in range(n_cases):
        n = int(rng.integers(4, 14))
        d = int(rng.integers(2, 5))
        X = rng.uniform(-5, 5, (n, d))
        ties = rng.random() < 0.6
        f = rng.integers(0, max(2, n // 2), n).astype(float) if ties else rng.normal(size=n)
        if rng.random() < 0.1:
            f[int(rng.integers(n))] = np.inf
        sl.cases += 1
        key = hash((X.tobytes(), f.tobytes()))
        if ties:
            sl.nontrivial.add(key)
        pa, pb = stub_problem(True, d), stub_problem(False, d)
        A = [Individual(X[i].copy(), pa, float(f[i])) for i in range(n)]
        B = [Individual(X[i].copy(), pb, float(-f[i])) for i in range(n)]

        def bad(sig, detail):
            sl.violations.append({"signature": sig, "detail": detail, "replay": {"X": X.tolist(), "f": f.tolist()}})

        # precision wrapper: "within eps of the optimum" on (f, max, opt) and on (-f, min, -opt)
        from pyhms.core.problem import FunctionProblem, PrecisionCutoffProblem

        opt = float(rng.choice([0.0, 1.5, -2.0]))
        eps = float(rng.choice([0.0, 0.25, 1.0]))
        vals = [float(opt + t) for t in rng.choice([-2.0, -1.0, -0.25, -0.1, 0.0, 0.1, 0.25, 1.0, 2.0], 5)]
        ia, ib = iter(vals), iter([-v for v in vals])
        wa = PrecisionCutoffProblem(FunctionProblem(lambda x: next(ia), bounds=np.array([[-1.0, 1.0]]), maximize=True), opt, eps)
        wb = PrecisionCutoffProblem(FunctionProblem(lambda x: next(ib), bounds=np.array([[-1.0, 1.0]]), maximize=False), -opt, eps)
        for k_, v_ in enumerate(vals):
            wa.evaluate(np.zeros(1))
            wb.evaluate(np.zeros(1))
            if (wa.hit_precision, wa.ETA) != (wb.hit_precision, wb.ETA):
                bad("C13/precision-wrapper", f"after {k_ + 1} evaluations (values {vals[:k_ + 1]}, optimum {opt}, precision {eps}) the wrapper reports hit={wa.hit_precision} ETA={wa.ETA} under maximisation but hit={wb.hit_precision} ETA={wb.ETA} on the mirrored problem")
                break
        sl.count("precision-wrapper")
        # ordering and best
        for i in range(n):
            for j in range(n):
                if (A[i] < A[j]) != (B[i] < B[j]) or (A[i] > A[j]) != (B[i] > B[j]) or (A[i] == A[j]) != (B[i] == B[j]):
                    bad("C13/ordering", f"individuals {i},{j} compare differently under (f,max) and (-f,min)")
        if tuple(max(A).genome) != tuple(max(B).genome) or genomes(sorted(A, reverse=True)) != genomes(sorted(B, reverse=True)):
            bad("C13/best-or-sort", "max()/sorted() pick different individuals")
        sl.count("ordering+best")
        # topk: same set
        k = int(rng.integers(1, n + 1))
        ta = Population.from_individuals(A).topk(k)
        tb = Population.from_individuals(B).topk(k)
        fa = sorted(float(v) for v in ta.fitnesses)
        fb = sorted(float(-v) for v in tb.fitnesses)
        if fa != fb:
            bad("C13/topk", f"topk({k}) keeps fitness multiset {fa} under max but {fb} (mirrored) under min")
        if not ties and sorted(map(tuple, ta.genomes.tolist())) != sorted(map(tuple, tb.genomes.tolist())):
            bad("C13/topk", f"topk({k}) keeps different individuals")
        sl.count("topk")
        # tournament with identical RNG
        s0 = int(rng.integers(1 << 30))
        np.random.seed(s0)
        wa = TournamentSelection()(Population.from_individuals(A))
        np.random.seed(s0)
        wb = TournamentSelection()(Population.from_individuals(B))
        if not ties and wa.genomes.tolist() != wb.genomes.tolist():
            bad("C13/tournament", "tournament winners differ")
        if sorted(wa.fitnesses.tolist()) != sorted((-wb.fitnesses).tolist()):
            bad("C13/tournament", "tournament winners' fitness multisets differ")
        sl.count("tournament")
        # DE / SHADE generations with identical RNG and a mirrored objective
        finite = np.isfinite(f).all()
        if finite:
            # in a part of the cases the objective is undefined (NaN) on a half-space: NaN is a legal value, a
            # NaN trial never replaces its parent — on either formulation
            hole = float(np.median(X[:, 0])) if rng.random() < 0.4 else None
            for eng in ("de", "ded", "shade"):
                def mk(sign, prob):
                    prob.fitness_function = lambda x, s=sign: (float("nan") if (hole is not None and x[0] > hole) else s * float(np.floor(np.sum(np.asarray(x) ** 2))))
                    inds = [Individual(X[i].copy(), prob) for i in range(n)]
                    for i in inds:
                        i.evaluate()
                    return inds
                ia, ib = mk(-1.0, stub_problem(True, d)), mk(1.0, stub_problem(False, d))
                ea = DE(False, 0.9, 0.8) if eng == "de" else (DE(True, 0.5) if eng == "ded" else SHADE(4, n))
                eb = DE(False, 0.9, 0.8) if eng == "de" else (DE(True, 0.5) if eng == "ded" else SHADE(4, n))
                for g in range(3):
                    np.random.seed(s0 + g)
                    ia = ea.run(ia)
                    np.random.seed(s0 + g)
                    ib = eb.run(ib)
                    if genomes(ia) != genomes(ib) or [repr(float(i.fitness)) for i in ia] != [repr(float(-i.fitness)) for i in ib]:
                        bad("C13/" + eng, f"{eng}: generation {g+1} differs between (f,max) and (-f,min) with the same random state")
                        break
                sl.count(eng)
        # NBC
        phi, t = float(rng.choice([1.0, 2.0, 3.0])), float(rng.choice([1.0, 0.7]))
        if int(n * t) > 0:
            ca = NearestBetterClustering(A, phi, t).cluster()
            cb = NearestBetterClustering(B, phi, t).cluster()
            if genomes(ca) != genomes(cb):
                bad("C13/nbc", "nearest-better clustering returns different seeds")
            sl.count("nbc")
        # DemeLimit / LevelLimit on a stub tree with two parents
        class Stub:
            def __init__(self, **kw):
                self.__dict__.update(kw)

        def stub_tree(inds, act):
            p1 = Stub(level=0, id="p1")
            p2 = Stub(level=0, id="p2")
            kids = [Stub(level=1, is_active=(i < act)) for i in range(3)]
            tree = Stub(levels=[[p1, p2], kids])
            h = len(inds) // 2
            cands = {p1: DemeCandidates(individuals=list(inds[:h]), features=DemeFeatures()), p2: DemeCandidates(individuals=list(inds[h:]), features=DemeFeatures())}
            return tree, cands
        lim, act = int(rng.integers(1, 5)), int(rng.integers(0, 3))
        for flt in (DemeLimit(int(rng.integers(1, 4))), LevelLimit(lim)):
            if isinstance(flt, LevelLimit) and act > lim:
                continue
            ta_, ca_ = stub_tree(A, act)
            tb_, cb_ = stub_tree(B, act)
            ra = flt(ca_, ta_)
            rb = flt(cb_, tb_)
            ga = [genomes(c.individuals) for c in ra.values()]
            gb = [genomes(c.individuals) for c in rb.values()]
            if ga != gb:
                bad("C13/" + type(flt).__name__, f"{type(flt).__name__} keeps different candidates under (f,max) and (-f,min)")
            sl.count(type(flt).__name__)
        # R5S
        if n > 5:
            ra = R5SSelection()(list(A))
            rb = R5SSelection()(list(B))
            if genomes(ra) != genomes(rb):
                bad("C13/r5s", "R5S selection differs")
            sl.count("r5s")
    return sl


def mirror_ok(sa, sb):
    if len(sa["demes"]) != len(sb["demes"]) or sa["levels"] != sb["levels"] or sa["n_evals"] != sb["n_evals"] or sa["metaepoch"] != sb["metaepoch"]:
        return f"tree shape differs: {len(sa['demes'])} demes / {sa['n_evals']} evaluations vs {len(sb['demes'])} / {sb['n_evals']}"
    for a, b in zip(sa["demes"], sb["demes"]):
        for k in ("id", "level", "started_at", "active", "hib", "n_evals", "children", "ngens"):
            if a[k] != b[k]:
                return f"deme {a['id']}: {k} {a[k]} vs {b[k]}"
        for ga, gb in zip(a["hist"], b["hist"]):
            if [x for x, _ in ga] != [x for x, _ in gb]:
                return f"deme {a['id']}: genomes differ"
            if [f for _, f in ga] != [-f for _, f in gb]:
                return f"deme {a['id']}: fitness values are not mirror images"
    return None


def _twin_worker(spec):
    a = dict(spec, maximize=False)
    b = dict(spec, maximize=True)
    from ..common import RunTimeout, run_limit

    try:
        with run_limit():
            sa, sb = R.plain_run(a), R.plain_run(b)
    except RunTimeout as e:
        return {"status": "crash", "detail": f"run did not terminate: {e}"}
    except Exception as e:  # noqa: BLE001
        from ..common import is_env_crash

        if is_env_crash(e):
            return {"status": "env", "exc": type(e).__name__}
        return {"status": "crash", "detail": f"{type(e).__name__}: {e}"}
    return {"status": "ok", "demes": len(sa["demes"]), "evals": sa["n_evals"], "mirror": mirror_ok(sa, sb)}


def twin_specs(rng, n):
    specs = []
    for i in range(n):
        nlev = int(rng.choice([1, 2, 2, 3]))
        eng = {0: ["de", "ded", "shade", "lhs", "sobol", "xde"], 1: ["de", "ded", "shade", "cma", "cmaw", "cmas", "xde"] + (["local"] if nlev == 2 else []), 2: ["de", "shade", "cma", "cmaw", "local", "xde"]}
        obj = str(rng.choice(["four", "plateau0", "sphere", "penalty"]))
        if i % 4 == 1:
            # local searches started on a plateau stop at once (zero gradient, no iteration, the callback is
            # never called): what the deme records then must mirror as well
            nlev, obj = 2, "plateau0"
            eng = {0: ["de", "ded", "shade", "xde"], 1: ["local"]}
        spec = R.rand_spec(rng, nlev=nlev, engines=eng, objective=obj, max_steps=int(rng.integers(3, 8)))
        for L in spec["levels"]:
            if L["lsc"]["kind"] == "FitnessSteadiness":
                L["lsc"] = {"kind": "MetaepochLimit", "limit": int(rng.integers(1, 5))}
        # (SingularProblemPrecisionReached stays: the optimum VALUE of all four objectives is 0 in both
        # formulations, so the precision wrapper's hit / ETA must mirror as well)
        if spec["gsc"]["kind"] == "User":
            spec["gsc"]["look"] = False
        # an exhausted evaluation cutoff hands the sentinel (the worst value, +-inf) to the engines:
        # it must mirror too; keep the run going past the cutoff with a metaepoch-based stop condition
        if rng.random() < 0.3:
            spec["cutoff"] = int(rng.integers(40, 200))
            spec["shared_problem"] = True
            spec["gsc"] = {"kind": "MetaepochLimit", "limit": int(rng.integers(3, 8))}
        else:
            spec["cutoff"] = None
        specs.append(spec)
    return specs


def twin_runs(ctx, rng, n, sl):
    from ..common import pmap

    n = ctx.boost(n) if hasattr(ctx, "boost") else n
    specs = twin_specs(rng, n)
    for i, (spec, r) in enumerate(zip(specs, pmap(_twin_worker, specs, chunksize=2))):
        if r["status"] == "env":
            sl.skipped += 1
            sl.count("skipped:third-party-library-raised:" + r["exc"])
            continue
        if r["status"] == "crash":
            sl.violations.append({"signature": "C13/run-crashed", "detail": r["detail"], "replay": {"spec": spec}})
            continue
        sl.cases += 1
        d = R.describe(spec)
        sl.count("engines:" + ">".join(d["engines"]))
        if r["demes"] >= 2:
            sl.nontrivial.add(R.spec_id(spec))
        if r["mirror"]:
            sl.violations.append({"signature": "C13/whole-run-differs", "detail": f"{d['engines']} {d['sprout']} seed {spec['seed']}: {r['mirror']}", "replay": {"spec": spec}})
        if i < 2:
            sl.sample({"spec": d, "demes": r["demes"], "evals": r["evals"]})
    return sl


def run(ctx):
    a = component(ctx, ctx.rng(1), ctx.size(250, 4000), Slice("twin-calls-of-decision-functions"))
    b = twin_runs(ctx, ctx.rng(2), ctx.size(80, 1200), Slice("twin-whole-runs(f,max)-vs-(-f,min)"))
    b.is_trace = True
    from .. import r5s

    c = r5s.batch(ctx, ctx.rng(3), ctx.size(300, 6000))
    c.violations = [v for v in c.violations if v["signature"].startswith("C13/")]
    return [a, b, c]


def search(ctx, broken):
    v = component(ctx, ctx.rng(91), 1000, Slice("s1")).violations
    v += twin_runs(ctx, ctx.rng(92), 300, Slice("s2")).violations
    from .. import r5s

    v += [x for x in r5s.batch(ctx, ctx.rng(93), 1500).violations if x["signature"].startswith("C13/")]
    return v
