import PyhmsVerif.Props.C15
import Mathlib.Data.List.Nodup
/-!
# C15 — the list returned by the clustering *is* the declarative set of cluster seeds

`C15.cluster_eq_spec`: for every population with pairwise distinct genomes, every distance
function, both directions, every `φ`, `t` and mean: whatever `NBC.cluster` (the model of the
code) returns is exactly `NBC.spec` (the definition) on the kept, best-first sorted
population, with the threshold the code computed.
-/
namespace C15
open NBC Select

/-- insertion keeps the elements -/
theorem insertLex_perm (a : Nat × Ind) (l : List (Nat × Ind)) : (insertLex a l).Perm (a :: l) := by
  induction l with
  | nil => simp [insertLex]
  | cons b t ih =>
    simp only [insertLex]
    split
    · exact List.Perm.refl _
    · exact (List.Perm.cons b ih).trans (List.Perm.swap a b t)

theorem sortLex_perm (l : List (Nat × Ind)) : (sortLex l).Perm l := by
  have key : ∀ (l acc : List (Nat × Ind)), (l.foldl (fun acc a => insertLex a acc) acc).Perm (l.reverse ++ acc) := by
    intro l
    induction l with
    | nil => intro acc; simp
    | cons a t ih =>
      intro acc
      simp only [List.foldl_cons, List.reverse_cons, List.append_assoc, List.singleton_append]
      exact (ih _).trans (List.Perm.append_left _ (insertLex_perm a acc))
  have := key l []
  simp only [List.append_nil] at this
  exact this.trans (List.reverse_perm l)

/-- positions `k, k+1, …` looked up behind a prefix of length `k` give back the suffix -/
theorem filterMap_getElem?_suffix : ∀ (l : List (Nat × Ind)) (pre : List (Nat × Ind)),
    (List.range' pre.length l.length).filterMap (fun j => (pre ++ l)[j]?) = l := by
  intro l
  induction l with
  | nil => intro pre; simp
  | cons a t ih =>
    intro pre
    simp only [List.length_cons, List.range'_succ, List.filterMap_cons]
    have h0 : (pre ++ a :: t)[pre.length]? = some a := by simp
    rw [h0]
    have := ih (pre ++ [a])
    simp only [List.length_append, List.length_cons, List.length_nil, Nat.zero_add, List.append_assoc,
      List.cons_append, List.nil_append] at this
    rw [this]

/-- filtering a suffix by a predicate that is, index by index, a threshold test on `g` -/
theorem filter_zip_aux (g : Nat → Rat) (thr : Rat) (P : (Nat × Ind) → Bool) :
    ∀ (suf : List (Nat × Ind)) (k : Nat),
      (∀ i (h : i < suf.length), P suf[i] = decide (g (k + i) > thr)) →
      (suf.filter P).map (·.2) =
        ((suf.zip ((List.range' k suf.length).map g)).filter (fun pd => decide (pd.2 > thr))).map (·.1.2) := by
  intro suf
  induction suf with
  | nil => intro k _; simp
  | cons a t ih =>
    intro k h
    have h0 := h 0 (by simp)
    simp only [List.getElem_cons_zero, Nat.add_zero] at h0
    have ht : ∀ i (hi : i < t.length), P t[i] = decide (g (k + 1 + i) > thr) := by
      intro i hi
      have := h (i + 1) (Nat.succ_lt_succ hi)
      simp only [List.getElem_cons_succ] at this
      have e : k + (i + 1) = k + 1 + i := by omega
      rw [this, e]
    simp only [List.length_cons, List.range'_succ, List.map_cons, List.zip_cons_cons, List.filter_cons, h0]
    by_cases hg : g k > thr
    · simp only [hg, decide_true, ↓reduceIte, List.map_cons, ih (k + 1) ht]
    · simp only [hg, decide_false, Bool.false_eq_true, ↓reduceIte, ih (k + 1) ht]

/-- with pairwise distinct genomes no kept individual is a duplicate of an earlier one -/
theorem no_dup (s : List (Nat × Ind)) (hnd : (s.map (·.2.genome)).Nodup) (j : Nat) (hj : j < s.length) :
    isDupAt s j = false := by
  unfold isDupAt
  rw [List.getElem?_eq_getElem hj]
  simp only [List.any_eq_false, beq_iff_eq]
  intro q hq heq
  obtain ⟨i, hi, rfl⟩ := List.getElem_of_mem hq
  simp only [List.length_take] at hi
  simp only [List.getElem_take] at heq
  have hij : i < j := by omega
  rw [List.nodup_iff_pairwise_ne, List.pairwise_iff_getElem] at hnd
  have := hnd i j (by simp; omega) (by simp; omega) hij
  simp only [List.getElem_map] at this
  exact this heq

/-- the definition's predicate at sorted position `j ≥ 1` is the threshold test on the code's
nearest-better distance -/
theorem isSeed_eq (mx : Bool) (dist : Nat → Nat → Rat) (root : Nat × Ind) (rest : List (Nat × Ind)) (thr : Rat)
    (hs : SortedDesc mx (root :: rest)) (hnd : ((root :: rest).map (·.2.genome)).Nodup)
    (i : Nat) (hi : i < rest.length) :
    isSeed mx dist (root :: rest) thr rest[i] =
      decide (((nbDist dist (root :: rest) (i + 1)).getD 0) > thr) ∧ (nbDist dist (root :: rest) (i + 1)).isSome := by
  have hj : (root :: rest)[i + 1]? = some rest[i] := by simp [hi]
  have hne : (rest[i] == root) = false := by
    rw [beq_eq_false_iff_ne]
    intro heq
    rw [List.nodup_iff_pairwise_ne, List.pairwise_iff_getElem] at hnd
    have := hnd 0 (i + 1) (by simp) (by simp; omega) (by omega)
    simp only [List.getElem_map, List.getElem_cons_zero, List.getElem_cons_succ] at this
    exact this (by rw [heq])
  have hsp := nbDist_spec mx dist root rest hs (i + 1) rest[i] hj
  -- the candidate list is never empty
  have hnonempty : (if rest[i].2.fit == root.2.fit then [root] else (root :: rest).filter fun q => better mx q.2 rest[i].2) ≠ [] := by
    by_cases hr : (rest[i].2.fit == root.2.fit) = true
    · simp [hr]
    · simp only [hr, Bool.false_eq_true, ↓reduceIte, ne_eq, List.filter_eq_nil_iff, not_forall]
      refine ⟨root, by simp, ?_⟩
      simp only [SortedDesc, List.pairwise_cons] at hs
      have hnw := hs.1 rest[i] (List.getElem_mem hi)
      simp only [Select.worse] at hnw
      simp only [better, Bool.not_eq_true, Bool.not_eq_false]
      cases hw : Fit.worse mx rest[i].2.fit root.2.fit with
      | true => rfl
      | false =>
        exfalso
        apply hr
        have : rest[i].2.fit = root.2.fit := by
          cases mx <;> simp only [Fit.worse, Bool.false_eq_true, ↓reduceIte] at hnw hw
          · exact (Fit.eq_of_not_lt hw hnw).symm
          · exact (Fit.eq_of_not_lt hnw hw).symm
        simp [this]
  have hargsome : ∀ (l : List (Rat × Nat)), l ≠ [] → (argminFirst l).isSome := by
    intro l
    induction l with
    | nil => intro h; exact absurd rfl h
    | cons a t _ =>
      intro _
      simp only [argminFirst]
      split
      · rfl
      · split <;> rfl
  have hsome := hargsome _ (by simpa using hnonempty :
    ((if rest[i].2.fit == root.2.fit then [root] else (root :: rest).filter fun q => better mx q.2 rest[i].2).map
        fun q => (dist rest[i].1 q.1, q.1)) ≠ [])
  obtain ⟨⟨d, n⟩, hdn⟩ := Option.isSome_iff_exists.mp hsome
  refine ⟨?_, ?_⟩
  · simp only [isSeed, hne, Bool.false_eq_true, ↓reduceIte]
    rw [hsp, hdn]
    simp
  · rw [hsp, hdn]; rfl

/-- the core: on a best-first sorted list with distinct genomes the code's assembly of the
seed list equals the definition -/
theorem assemble_eq_spec (mx : Bool) (dist : Nat → Nat → Rat) (root : Nat × Ind) (rest : List (Nat × Ind)) (thr : Rat)
    (hs : SortedDesc mx (root :: rest)) (hnd : ((root :: rest).map (·.2.genome)).Nodup) :
    let s := root :: rest
    let idxs := (List.range (s.length - 1)).map (· + 1) |>.filter fun j => !isDupAt s j
    let ds := idxs.filterMap fun j => nbDist dist s j
    let nodes := idxs.filterMap fun j => s[j]?
    ds.length = idxs.length ∧
    root.2 :: (((nodes.zip ds).filter fun pd => decide (pd.2 > thr)).map (·.1.2)) = spec mx dist s thr := by
  intro s idxs ds nodes
  have hidx : idxs = List.range' 1 rest.length := by
    have h1 : (List.range (s.length - 1)).map (· + 1) = List.range' 1 rest.length := by
      simp only [s, List.length_cons, Nat.add_sub_cancel]
      apply List.ext_getElem <;> simp [Nat.add_comm]
    show List.filter _ _ = _
    rw [h1, List.filter_eq_self]
    intro j hj
    simp only [List.mem_range'_1] at hj
    have := no_dup s hnd j (by simp [s]; omega)
    simp only [this, Bool.not_false]
  have hg : ∀ j ∈ List.range' 1 rest.length,
      nbDist dist s j = some ((nbDist dist s j).getD 0) := by
    intro j hj
    simp only [List.mem_range'_1] at hj
    obtain ⟨i, rfl⟩ : ∃ i, j = i + 1 := ⟨j - 1, by omega⟩
    have := (isSeed_eq mx dist root rest thr hs hnd i (by omega)).2
    obtain ⟨d, hd⟩ := Option.isSome_iff_exists.mp this
    simp [s, hd]
  have hds : ds = (List.range' 1 rest.length).map fun j => (nbDist dist s j).getD 0 := by
    show List.filterMap _ idxs = _
    rw [hidx, ← List.filterMap_eq_map]
    apply List.filterMap_congr
    intro j hj
    simpa using hg j hj
  have hnodes : nodes = rest := by
    show List.filterMap _ idxs = _
    rw [hidx]
    have := filterMap_getElem?_suffix rest [root]
    simpa using this
  refine ⟨by rw [hds, hidx]; simp, ?_⟩
  rw [hnodes, hds]
  have hroot : isSeed mx dist s thr root = true := by simp [isSeed, s]
  simp only [spec, s, List.filter_cons, hroot, ↓reduceIte, List.map_cons]
  congr 1
  symm
  exact filter_zip_aux (fun j => (nbDist dist (root :: rest) j).getD 0) thr _ rest 1 (by
    intro i hi
    rw [(isSeed_eq mx dist root rest thr hs hnd i hi).1, Nat.add_comm 1 i])

/-- **C15** — for every population with pairwise distinct genomes, every distance function,
direction, distance factor, truncation factor and mean: the result of the clustering is
exactly the defined set of cluster seeds of the kept (best-first, truncated) population,
for the threshold the code computed; the kept population is best-first, has the computed
length bound, and consists of individuals of the input. -/
theorem cluster_eq_spec (mx : Bool) (dist : Nat → Nat → Rat) (pop : List Ind) (phi t : Rat) (mean : Option Rat)
    (r : Result) (hdist : (pop.map (·.genome)).Nodup)
    (h : cluster mx dist pop phi t mean = some r) :
    ∃ thr, F64.rnd (mean.getD 0 * phi) = some thr ∧
      r.seeds = spec mx dist r.kept thr ∧
      SortedDesc mx r.kept ∧
      (∀ p ∈ r.kept, pop[p.1]? = some p.2) := by
  simp only [cluster, Option.bind_eq_some_iff] at h
  obtain ⟨m, _, h⟩ := h
  split at h
  · cases h
  rename_i hm
  unfold clusterSorted at h
  simp only [] at h
  split at h
  · cases h
  rename_i hlen
  simp only [Option.bind_eq_some_iff] at h
  obtain ⟨thr, hthr, h⟩ := h
  -- facts about the sorted, truncated population
  generalize hfull : sortDesc mx (sortLex (List.map (fun p => (p.2, p.1)) pop.zipIdx)) = full at h hlen
  have hperm : full.Perm (List.map (fun p => (p.2, p.1)) pop.zipIdx) := by
    rw [← hfull]; exact (sortDesc_perm mx _).trans (sortLex_perm _)
  have hsorted : SortedDesc mx (full.take m) := by
    have : SortedDesc mx full := by rw [← hfull]; exact sortDesc_sorted mx _
    exact List.Pairwise.sublist (List.take_sublist m full) this
  have hmem : ∀ p ∈ full.take m, pop[p.1]? = some p.2 := by
    intro p hp
    have hp' := hperm.subset (List.mem_of_mem_take hp)
    simp only [List.mem_map, Prod.exists] at hp'
    obtain ⟨a, i, hai, rfl⟩ := hp'
    have := List.mem_zipIdx hai
    simp only [Nat.zero_le, Nat.zero_add, Nat.sub_zero, true_and] at this
    simp [this.2, this.1]
  have hnd : ((full.take m).map (·.2.genome)).Nodup := by
    have h0 : ((List.map (fun p => (p.2, p.1)) pop.zipIdx).map (·.2.genome)).Nodup := by
      have : (List.map (fun p => (p.2, p.1)) pop.zipIdx).map (·.2.genome) = pop.map (·.genome) := by
        simp only [List.map_map]
        have : ((fun (x : Nat × Ind) => x.2.genome) ∘ fun (p : Ind × Nat) => (p.2, p.1)) = fun p => p.1.genome := rfl
        rw [this]
        apply List.ext_getElem <;> simp
      rw [this]; exact hdist
    have h1 : (full.map (·.2.genome)).Nodup := (List.Perm.nodup_iff (hperm.map _)).mpr h0
    exact List.Nodup.sublist ((List.take_sublist m full).map _) h1
  split at h
  · cases h
  rename_i root rest hsr
  rw [hsr] at hsorted hnd hmem
  have key := assemble_eq_spec mx dist root rest thr hsorted hnd
  simp only [] at key
  simp only [Option.some.injEq] at h
  subst h
  refine ⟨thr, hthr, ?_, ?_, ?_⟩
  · simp only [hsr]
    exact key.2
  · simpa [hsr] using hsorted
  · simpa [hsr] using hmem

end C15

namespace C15
open NBC
/-- non-vacuity of the hypotheses of `assemble_eq_spec` (a best-first list with a fitness tie) -/
example : SortedDesc false [(2, ⟨[6], .fin 1⟩), (0, ⟨[0], .fin 2⟩), (1, ⟨[1], .fin 2⟩)] ∧
    ([(2, (⟨[6], .fin 1⟩ : Ind)), (0, ⟨[0], .fin 2⟩), (1, ⟨[1], .fin 2⟩)].map (·.2.genome)).Nodup := by
  refine ⟨by simp [SortedDesc, Select.worse, Fit.worse, Fit.lt], by simp⟩
end C15
