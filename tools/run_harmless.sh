#!/bin/bash
# usage: tools/run_harmless.sh <Rk> <prop> [<prop> ...]
# applies harmless/<Rk>/patch.diff (a behaviour-preserving refactoring) to /repo, runs the given checks
# (they are expected to pass: exit 0), reverts /repo.
R=$1; shift
cd /verif
git -C /repo status --short | grep -q . && { echo "/repo not clean"; exit 2; }
git -C /repo apply /verif/harmless/$R/patch.diff || exit 2
for p in "$@"; do
  out=$(VERIF_SEED=${VERIF_SEED:-0} ./check.py $p 2>&1 | grep -v "^KNOWN-FINDING" | tail -2 | tr '\n' ' ' | cut -c1-230)
  echo "$R $p :: $out"
done
git -C /repo checkout -- .
git -C /repo status --short
