#!/venv/bin/python
"""Soak: many refinement + monitor batches with different seeds on the current /repo tree.
Prints every disagreement / monitor hit (none expected on the unchanged tree except known findings).
usage: tools/soak.py <n_batches> <runs_per_batch> [first_seed]"""
import os, sys, time, json, collections
HERE = os.path.dirname(os.path.dirname(os.path.abspath(__file__)))
sys.path.insert(0, HERE); os.chdir(HERE)
from harness import common
common.use_repo()
from harness import refine, runs
import numpy as np

class Ctx:
    def __init__(s, seed): s.seed = seed
    def rng(s, salt=0): return np.random.default_rng([s.seed, salt, 4242])

nb, per = int(sys.argv[1]), int(sys.argv[2]); first = int(sys.argv[3]) if len(sys.argv) > 3 else 1000
KNOWN = {k["signature"]: k["id"] for k in json.load(open(os.path.join(HERE, "known_findings.json")))["findings"] if isinstance(k, dict) and k.get("status") == "known"}
ALL = {"C01","C02","C03","C04","C05","C06","C07","C08","C09","C10","C11","C12","C18"}
agg = collections.Counter(); t0 = time.time()
for b in range(nb):
    ctx = Ctx(first + b)
    sl = refine.refine_batch(ctx, per)
    for d in sl.disagreements:
        agg["DISAGREE " + d["cat"]] += 1
        print("DISAGREE", first + b, json.dumps({k: (str(v)[:300]) for k, v in d.items() if k != "spec"}), flush=True)
        print("  SPEC", json.dumps(d.get("spec")), flush=True)
    for v in sl.violations:
        agg["ENV " + v["signature"]] += 1
        print("ENVVIOL", first + b, v["signature"], v["detail"][:300], flush=True)
    rng = ctx.rng(5)
    for i in range(per):
        spec = runs.rand_spec(rng)
        try:
            run, res = runs.monitored_run(spec, ALL)
        except Exception as e:
            if common.is_env_crash(e):
                agg["skipped third-party crash " + type(e).__name__] += 1
                continue
            agg["CRASH " + type(e).__name__] += 1
            print("CRASH", first + b, repr(e)[:300], json.dumps(spec), flush=True)
            continue
        for pid, vs in res.items():
            for v in vs[:1]:
                if v["signature"] in KNOWN:
                    agg["known " + KNOWN[v["signature"]]] += 1
                    continue
                agg["MON " + v["signature"]] += 1
                print("MONITOR", first + b, v["signature"], v["detail"][:300], json.dumps(spec), flush=True)
    print(f"batch {b} done {time.time()-t0:.0f}s {dict(agg)}", flush=True)
