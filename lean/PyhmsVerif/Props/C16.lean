import PyhmsVerif.Model.Problem
import Mathlib.Tactic.Linarith
/-!
# C16 — problem wrappers are transparent and their counters follow simple laws

All theorems quantify over *every* stack (any depth, any order of the four wrapper
kinds, any initial counters) and *every* call sequence.
-/
namespace C16
open Problem

/-- number of calls (out of `len` received) that a layer passes on to the layers below -/
def passes (w : Wrapper) (len : Nat) : Nat :=
  match w with
  | .cutoff n c => min len (c - n)
  | _ => len

/-- Transparency of one call: if the objective was invoked the caller gets exactly its
value; if not, the caller gets the direction's worst value and some cutoff layer refused. -/
theorem transparent (mx : Bool) (ws : List Wrapper) (v : Fit) :
    ((evalStack mx ws v).2.2 = true → (evalStack mx ws v).2.1 = v) ∧
    ((evalStack mx ws v).2.2 = false →
        (evalStack mx ws v).2.1 = Fit.sentinel mx ∧ ∃ w ∈ ws, w.refuses = true) := by
  induction ws with
  | nil => simp [evalStack]
  | cons w ws ih =>
    by_cases h : w.refuses = true
    · simp [evalStack, h]
    · simp only [evalStack, h, Bool.false_eq_true, ↓reduceIte]
      refine ⟨ih.1, fun hf => ?_⟩
      obtain ⟨h1, w', hw', hr⟩ := ih.2 hf
      exact ⟨h1, w', List.mem_cons_of_mem _ hw', hr⟩

/-- With no exhausted cutoff in the stack every layer sees the call and the objective's
value comes back unchanged. -/
theorem transparent_no_refusal (mx : Bool) (ws : List Wrapper) (v : Fit)
    (h : ∀ w ∈ ws, w.refuses = false) :
    evalStack mx ws v = (ws.map (·.after v), v, true) := by
  induction ws with
  | nil => simp [evalStack]
  | cons w ws ih =>
    have hw : w.refuses = false := h w (by simp)
    have ih' := ih (fun w' hw' => h w' (List.mem_cons_of_mem _ hw'))
    simp [evalStack, hw, ih']

theorem after_count (w : Wrapper) (r : Fit) : (w.after r).count = w.count + 1 := by
  cases w with
  | counting n => simp [Wrapper.after, Wrapper.count]
  | cutoff n c => simp [Wrapper.after, Wrapper.count]
  | stats n => simp [Wrapper.after, Wrapper.count]
  | precision n o e eta hit =>
    simp only [Wrapper.after]
    split <;> simp [Wrapper.count]

theorem after_refuses_passes (w : Wrapper) (r : Fit) (len : Nat) (h : w.refuses = false) :
    passes w (len + 1) = passes (w.after r) len + 1 := by
  cases w with
  | cutoff n c =>
    simp only [Wrapper.refuses, decide_eq_false_iff_not, ge_iff_le, not_le] at h
    simp only [passes, Wrapper.after]; omega
  | counting n => simp [passes, Wrapper.after]
  | stats n => simp [passes, Wrapper.after]
  | precision n o e eta hit =>
    simp only [Wrapper.after]
    split <;> simp [passes]

theorem refuses_passes (w : Wrapper) (len : Nat) (h : w.refuses = true) : passes w len = 0 := by
  cases w with
  | cutoff n c =>
    simp only [Wrapper.refuses, decide_eq_true_eq, ge_iff_le] at h
    simp only [passes]; omega
  | counting n => simp [Wrapper.refuses] at h
  | stats n => simp [Wrapper.refuses] at h
  | precision n o e eta hit => simp [Wrapper.refuses] at h

/-- **Head law** (count law + cutoff law in one): over any call sequence `vs`, the
outermost layer `w` passes exactly the first `k = passes w |vs|` calls to the layers
below — whose final state and answers are those of running them on `vs.take k` —, its
counter grows by exactly `k`, and every later call is answered with the worst value
without invoking anything (`k = |vs|` for every wrapper except a cutoff, for which
`k = min |vs| (N − n)`). -/
theorem head_law (mx : Bool) (w : Wrapper) (ws : List Wrapper) (vs : List Fit) :
    ∃ w', (runStack mx (w :: ws) vs).1 = w' :: (runStack mx ws (vs.take (passes w vs.length))).1 ∧
      w'.count = w.count + passes w vs.length ∧
      (runStack mx (w :: ws) vs).2 =
        (runStack mx ws (vs.take (passes w vs.length))).2 ++
          List.replicate (vs.length - passes w vs.length) (Fit.sentinel mx, false) := by
  induction vs generalizing w ws with
  | nil =>
    have : passes w 0 = 0 := by cases w <;> simp [passes]
    exact ⟨w, by simp [runStack, this]⟩
  | cons v vs ih =>
    by_cases h : w.refuses = true
    · have hp : ∀ n, passes w n = 0 := fun n => refuses_passes w n h
      obtain ⟨w', h1, h2, h3⟩ := ih w ws
      refine ⟨w', ?_, ?_, ?_⟩
      · simp only [runStack, evalStack, h, ↓reduceIte, hp, List.take_zero]
        simpa [hp, runStack] using h1
      · simpa [hp] using h2
      · simp only [runStack, evalStack, h, ↓reduceIte, hp, List.take_zero, List.length_cons,
          Nat.sub_zero, List.replicate_succ]
        rw [h3]; simp [hp, runStack]
    · have h' : w.refuses = false := by simpa using h
      have hp := after_refuses_passes w (evalStack mx ws v).2.1 vs.length h'
      obtain ⟨w', h1, h2, h3⟩ := ih (w.after (evalStack mx ws v).2.1) (evalStack mx ws v).1
      refine ⟨w', ?_, ?_, ?_⟩
      · simp only [runStack, evalStack, h', Bool.false_eq_true, ↓reduceIte, List.length_cons, hp,
          List.take_succ_cons]
        exact h1
      · rw [h2, after_count, List.length_cons, hp]; omega
      · simp only [runStack, evalStack, h', Bool.false_eq_true, ↓reduceIte, List.length_cons, hp,
          List.take_succ_cons]
        rw [h3]
        simp

theorem invocations_le_length (mx : Bool) (ws : List Wrapper) (vs : List Fit) :
    invocations (runStack mx ws vs).2 ≤ vs.length := by
  have : (runStack mx ws vs).2.length = vs.length := by
    induction vs generalizing ws with
    | nil => simp [runStack]
    | cons v vs ih => simp [runStack, ih]
  unfold invocations
  exact this ▸ List.length_filter_le _ _

/-- **Hard budget**: whatever else is in the stack and whatever is called, a cutoff
layer with counter `n` and limit `N` lets the objective be invoked at most `N − n` more
times (so at most `N` times from a fresh wrapper). -/
theorem cutoff_hard (mx : Bool) (ws : List Wrapper) (vs : List Fit) (n c : Nat)
    (hmem : Wrapper.cutoff n c ∈ ws) : invocations (runStack mx ws vs).2 ≤ c - n := by
  induction ws generalizing vs with
  | nil => simp at hmem
  | cons w ws ih =>
    obtain ⟨w', _, _, h3⟩ := head_law mx w ws vs
    rw [h3]
    have hrep : invocations (List.replicate (vs.length - passes w vs.length) (Fit.sentinel mx, false)) = 0 := by
      simp [invocations]
    have happ : ∀ a b : List (Fit × Bool), invocations (a ++ b) = invocations a + invocations b := by
      intro a b; simp [invocations, List.filter_append]
    rw [happ, hrep, Nat.add_zero]
    rcases List.mem_cons.mp hmem with heq | htail
    · subst heq
      have h1 := invocations_le_length mx ws (vs.take (passes (.cutoff n c) vs.length))
      have h2 : (vs.take (passes (.cutoff n c) vs.length)).length ≤ c - n := by
        simp only [passes, List.length_take]; omega
      omega
    · exact ih _ htail

/-- **Precision law, sticky half**: once `hit_precision` is set neither it nor ETA ever changes. -/
theorem precision_sticky (mx : Bool) (ws : List Wrapper) (vs : List Fit) (n : Nat) (opt eps : Rat)
    (eta : Option Nat) :
    ∃ n', (runStack mx (.precision n opt eps eta true :: ws) vs).1.head? =
      some (.precision n' opt eps eta true) := by
  induction vs generalizing n ws with
  | nil => exact ⟨n, by simp [runStack]⟩
  | cons v vs ih =>
    simp only [runStack, evalStack, Wrapper.refuses, Bool.false_eq_true, ↓reduceIte, Wrapper.after,
      Bool.not_true, Bool.and_false]
    exact ih _ _

/-- **Precision law, first-hit half**: on a call whose returned value is within the
precision of the optimum, a wrapper that has not hit yet records the 1-based index of
that call (its own counter after the call); on any other call it records nothing. -/
theorem precision_first (mx : Bool) (ws : List Wrapper) (v : Fit) (n : Nat) (opt eps : Rat)
    (eta : Option Nat) :
    let r := (evalStack mx ws v).2.1
    (evalStack mx (.precision n opt eps eta false :: ws) v).1.head? =
      some (if withinPrecision r opt eps then .precision (n + 1) opt eps (some (n + 1)) true
            else .precision (n + 1) opt eps eta false) := by
  simp only [evalStack, Wrapper.refuses, Bool.false_eq_true, ↓reduceIte, Wrapper.after,
    Bool.not_false, Bool.and_true, List.head?_cons]

-- non-vacuity: counting over cutoff(2) over precision, three calls, minimisation:
-- the third call is refused by the cutoff, the outer counter still counts it.
example :
    runStack false [.counting 0, .cutoff 0 2, .precision 0 0 (1/2) none false]
      [.fin 3, .fin (1/4), .fin 0] =
    ([.counting 3, .cutoff 2 2, .precision 2 0 (1/2) (some 2) true],
     [(.fin 3, true), (.fin (1/4), true), (.posInf, false)]) := by decide +kernel

end C16
