"""C20 — reports agree with the tree, and looking at a tree does not change it

Monitor at every metaepoch boundary of traced real runs: summary()/tree() are parsed and
compared with the tree state; every reporting/query accessor is called twice: same answer,
no objective invocation, no change of the observable state or of the global random states.
The structured content of the report (which deme is displayed, evaluation counts, marker) is
also part of the Lean model dump (Report) compared by trace refinement.
"""
from .. import refine, runs

MODULE = 'PyhmsVerif.Props.C20Run'
THEOREMS = ['C20.line_fields', 'C20.summary_fields', 'C20.levels_sum_to_total', 'C20.marker_iff', 'C20.marker_on_best_deme', 'C20.childLines_sound', 'C20.lines_root', 'C20.lines_complete', 'C20.chain_displayed', 'C20.C20_lines_complete_run', 'R5S.r5s_mem']
LEVEL = 'proof'
LEVEL_TEXT = 'Theorems about the report record of the Lean tree model (all states): header and level sections show the tree counters (summary_fields), per-level evaluation counts add up to the total (levels_sum_to_total), the *** marker is set iff the deme best fitness equals the tree best fitness and the deme holding the tree best is always marked, also at fitness 0 (marker_iff, marker_on_best_deme), every displayed line is the line of a deme that has run (childLines_sound). Tie: the parsed real summary()/tree() text is diffed with the model record at every boundary of every traced run (header, per-level counts incl. No-demes-available, displayed demes, class, evaluations, marker); purity of all accessors (no objective call, no state change, no RNG use, same answer twice) and number formatting by direct monitors. lines_complete: in a well-formed tree with consistent children lists (every reachable state: C07_wf, C07_children) every non-root deme that has run at least one metaepoch, and whose ancestors below the root have too, has its line in the rendered tree (the converse of childLines_sound). NEW: C20_lines_complete_run — in every state reachable from a freshly constructed tree the rendered tree contains the line of EVERY non-root deme that has run at least one metaepoch (the hypothesis of lines_complete about ancestors is discharged by C07_ancestors_ran). R5S.r5s_mem: r5s_solutions returns only individuals it was given.'
LEVEL_NOTE = 'Trusted: Lean kernel + standard axioms; the regex parser of the report text; accessor purity and float formatting are sampled (monitors), not proved: in the model a report is a function of the state, so purity holds by construction and carries no information about the Python accessors.'
TECHNIQUE = 'Lean 4 theorems about the report record of the tree model + trace refinement (parsed real reports vs model record at every boundary) + accessor purity monitors'
RULE = "case = one traced run of a random configuration (1-3 levels, engine per level from the full list, every shipped GSC/LSC kind plus user-defined ones, both stock sprout mechanisms and user-composed chains, hibernation on/off, both directions, decimal boxes, optional cutoff/precision/stats wrappers, shared or per-level problems); non-trivial = run with >= 2 demes and >= 2 metaepochs; distinct by configuration hash"
ASSUMPTIONS = ["objective is deterministic and never returns NaN", "runs are capped at 12 metaepochs by a user-level composite stop condition"]
FORCE = None
PID = "C20"


def run(ctx):
    return [
        refine.refine_batch(ctx, ctx.size(120, 1500), force=FORCE, pid=PID, name="trace-refinement(Tree.step vs DemeTree.run)"),
        runs.monitor_batch(ctx, PID, ctx.size(250, 3000), force=FORCE),
        _r5s(ctx, ctx.size(150, 3000), 5),
        observed_twins(ctx, ctx.size(60, 800), 71),
        # local searches that stop at once (plateau: zero gradient, no iterate recorded): they have run all the
        # same, and the report must say so
        refine.refine_batch(ctx, ctx.size(30, 300), salt=77, force=_plateau_local, pid=PID, name="trace-refinement(local leaves started on plateaus)"),
        runs.monitor_batch(ctx, PID, ctx.size(40, 400), salt=79, name="traced-runs-monitor-C20(local leaves started on plateaus)", force=_plateau_local),
        # an objective with NaN holes: NaN is a legal fitness, individuals that carry it are compared by every
        # best-individual query — which must still not evaluate anything or change any counter
        _nan_purity(ctx),
    ]


def _nan_purity(ctx):
    """under NaN fitness the order of individuals is a coin flip by design (the stdlib generator is consumed, two
    calls may name different bests): only the clauses that do not depend on the order are judged here — looking
    never evaluates the objective, and the evaluation counts shown are the demes' counters"""
    sl = runs.nan_monitor_batch(ctx, PID, ctx.size(40, 400), salt=83)
    sl.violations = [v for v in sl.violations if v["signature"] in ("C20/report-evaluated-objective", "C20/tree-evals", "C20/run-did-not-terminate")]
    return sl


def _plateau_local(rng):
    return {"nlev": int(rng.choice([2, 2, 3])), "engines": {0: ["sea", "de", "shade", "ga"], 1: ["local", "local", "sea"], 2: ["local"]}, "objective": "plateau0",
            "local_methods": ["L-BFGS-B", "BFGS", "CG", "L-BFGS-B"], "gsc": {"kind": "MetaepochLimit", "limit": int(rng.integers(3, 7))}}


def _observed_worker(spec):
    from ..common import RunTimeout, is_env_crash, run_limit

    try:
        with run_limit():
            a = runs.plain_run(spec)
            b = runs.plain_run(spec, observe=True)
    except RunTimeout as e:
        return {"status": "crash", "detail": f"run did not terminate: {e}"}
    except Exception as e:  # noqa: BLE001
        return {"status": "env" if is_env_crash(e) else "crash", "detail": f"{type(e).__name__}: {e}"}
    diff = None
    if repr(a) != repr(b):  # repr: NaN-safe
        if len(a["demes"]) != len(b["demes"]) or a["n_evals"] != b["n_evals"]:
            diff = f"{len(a['demes'])} demes / {a['n_evals']} evaluations unobserved, {len(b['demes'])} / {b['n_evals']} when looked at after every metaepoch"
        elif repr(a["centroids"]) != repr(b["centroids"]):
            k = next(i for i, (x, y) in enumerate(zip(a["centroids"], b["centroids"])) if repr(x) != repr(y))
            diff = f"deme {a['centroids'][k][0]} reports centroid {b['centroids'][k][1]} after having been looked at, {a['centroids'][k][1]} otherwise"
        else:
            k = next((d["id"] for d, e in zip(a["demes"], b["demes"]) if repr(d) != repr(e)), "?")
            diff = f"deme {k} (or the report) differs between the observed and the unobserved run"
    return {"status": "ok", "diff": diff, "demes": len(a["demes"])}


def observed_twins(ctx, n, salt):
    """looking at a tree does not change it: a seeded run during which every report and query accessor is
    read after every metaepoch ends in the same tree (and reports the same centroids) as the same run
    left alone"""
    from ..common import Slice, pmap

    sl = Slice("observed-vs-unobserved-twin-runs(all reports and accessors read after every metaepoch)")
    sl.is_trace = True
    rng = ctx.rng(salt)
    n = ctx.boost(n) if hasattr(ctx, "boost") else n
    specs = []
    for i in range(n):
        spec = runs.rand_spec(rng, max_steps=int(rng.integers(3, 8)))
        if spec["gsc"]["kind"] == "User":
            spec["gsc"]["look"] = False
        specs.append(spec)
    for i, (spec, r) in enumerate(zip(specs, pmap(_observed_worker, specs, chunksize=2))):
        if r["status"] == "env":
            sl.skipped += 1
            continue
        if r["status"] == "crash":
            sl.violations.append({"signature": "C20/run-crashed", "detail": r["detail"], "replay": {"spec": spec}})
            continue
        sl.cases += 1
        if r["demes"] >= 2:
            sl.nontrivial.add(runs.spec_id(spec))
        if r["diff"]:
            sl.violations.append({"signature": "C20/looking-changes-the-run", "detail": r["diff"], "replay": {"spec": spec, "describe": runs.describe(spec)}})
        if i < 1:
            sl.sample(runs.describe(spec))
    return sl


def _r5s(ctx, n, salt):
    """r5s_solutions' selection against the Lean model; only the C20 signatures (returns what it was given, changes nothing) count here"""
    from .. import r5s

    sl = r5s.batch(ctx, ctx.rng(salt), n, name="R5SSelection-vs-R5S.r5sD(returns-given-individuals,no-side-effect)")
    sl.violations = [v for v in sl.violations if v["signature"].startswith("C20/")]
    return sl


def search(ctx, broken):
    return runs.monitor_batch(ctx, PID, 500, salt=97, force=FORCE).violations


def replay(data):
    spec = data["violation"]["replay"]["spec"]
    _, res = runs.monitored_run(spec, {PID})
    for v in res.get(PID, []):
        print(v["signature"], v["detail"])
    return not res.get(PID)
