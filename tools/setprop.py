#!/usr/bin/env python3
"""tools/setprop.py Cxx key=value ...  (value is a python literal) — patch constants of harness/props/cxx.py"""
import re, sys, ast
pid = sys.argv[1]
path = f"/verif/harness/props/{pid.lower()}.py"
s = open(path).read()
for kv in sys.argv[2:]:
    k, v = kv.split("=", 1)
    val = ast.literal_eval(v)
    pat = re.compile(r"^" + k + r" = .*?(?=^[A-Za-z_#@])", re.S | re.M)
    rep = f"{k} = {val!r}\n"
    if pat.search(s):
        s = pat.sub(lambda m: rep, s, count=1)
    else:
        s = s.replace("\n\ndef run(", f"\n{rep}\n\ndef run(", 1)
open(path, "w").write(s)
