"""C14 — a seeded run is exactly reproducible (partial).

Model side: `Seed.plan` (lean/PyhmsVerif/Model/Seed.lean) says which generator feeds which
consumer; `C14.ambient_independent` proves that with a seed no draw depends on the ambient
generator states.  Entropy inside the interpreter / libraries cannot be exhibited by a model:
that part is sampled here — every configuration runs in this process after two different
pollutions of both global generators and in fresh interpreters with different
PYTHONHASHSEED; all trees must be identical, and so must both global generator states right
after the tree was constructed (they are functions of the seed only).
"""
import json
import os
import subprocess
import sys

from .. import runs as R
from ..common import REPO, VERIF, Slice

MODULE = "PyhmsVerif.Props.C14"
THEOREMS = ["C14.ambient_independent", "C14.cma_seed_depends_only_on_seed_and_start", "C14.unseeded_not_claimed"]
LEVEL = "other"
LEVEL_TEXT = "Partial by nature. Theorem about the seeding plan (which generator feeds which consumer): with a seed, no draw depends on ambient generator state. The runtime part — hash-order iteration, unseeded generators inside libraries, process state — is sampled: twin runs in-process after different pollution of both global generators and in fresh interpreters with different PYTHONHASHSEED must give identical trees (ids, start metaepochs, genomes, fitness, counts, flags) and identical generator states right after construction."
LEVEL_NOTE = "NumPy / Python / cma / scipy generators trusted to be deterministic functions of their seed; sampled configurations only; objectives with NaN holes included (ordering of NaN individuals uses the stdlib generator)."
TECHNIQUE = "Lean theorem on the seeding plan + twin-run differential across RNG pollution, processes and hash seeds"
RULE = "case = one configuration run 2x in-process (different pollution) + in 2 fresh interpreters (PYTHONHASHSEED 0 and 4242) + 2x in-process sharing one sprout mechanism object; non-trivial = run with >= 2 demes; distinct by configuration hash"
ASSUMPTIONS = ["library generators are deterministic given their seed", "objective deterministic"]
EXPLANATION = "twin-run differential; see LEVEL_TEXT"
NAN_SAFE = ["sea", "seax", "ga", "adapt", "de", "ded", "shade"]


def specs_for(ctx, n, salt):
    rng = ctx.rng(salt)
    out = []
    for i in range(n):
        if i % 4 == 3:
            nlev = int(rng.choice([1, 2, 3]))
            spec = R.rand_spec(rng, objective="holes", nlev=nlev, engines={l: NAN_SAFE for l in range(3)}, max_steps=6)
            if spec["gsc"]["kind"] == "SingularProblemPrecisionReached":
                spec["gsc"] = {"kind": "MetaepochLimit", "limit": 5}
        elif i % 5 == 2:
            # (boundary seeds, below) with engines that hand a derived seed to a library
            eng = {0: ["sea", "de", "lhs", "sobol", "shade"], 1: ["cma", "cmaw", "cmas", "cma", "de"], 2: ["cma", "local", "sea"]}
            spec = R.rand_spec(rng, nlev=int(rng.choice([2, 2, 3])), engines=eng, max_steps=int(rng.integers(4, 9)))
        else:
            spec = R.rand_spec(rng, max_steps=int(rng.integers(4, 9)))
        if spec["gsc"]["kind"] == "User":
            spec["gsc"]["look"] = False
        if i % 5 == 2:
            # boundary seeds: 0 is a valid seed (libraries treat a falsy seed as "seed from the clock"),
            # and so are seeds near 2**32 (NumPy's legacy seeding limit is 2**32 - 1)
            spec["seed"] = [0, 0, 2**32 - 40][(i // 5) % 3]
        out.append(spec)
    return out


def worker(specs, hashseed, pollute):
    env = dict(os.environ, PYTHONHASHSEED=str(hashseed), PYTHONPATH=REPO, PYHMS_REPO=REPO)
    p = subprocess.run([sys.executable, os.path.join(VERIF, "harness", "c14_worker.py"), str(pollute)], input=json.dumps(specs).encode(), stdout=subprocess.PIPE, stderr=subprocess.PIPE, env=env, timeout=900)
    if p.returncode != 0:
        raise RuntimeError("c14 worker failed: " + p.stderr.decode()[-1500:])
    return json.loads(p.stdout.decode().strip().split("\n")[-1])


def batch(ctx, n, salt, sl):
    from ..c14_worker import digest_of

    specs = specs_for(ctx, n, salt)
    a = [safe(digest_of, s, 12345) for s in specs]
    # the second in-process pass runs the configurations in REVERSE order: what a run gives must not depend on
    # which other configurations the process has seen before it
    b = [safe(digest_of, s, 987) for s in reversed(specs)][::-1]
    c = worker(specs, 0, 31337)
    d = worker(specs, 4242, 5)
    # the same configuration run twice more with ONE sprout mechanism object (everything else built afresh):
    # the second of these runs must be the same tree again
    e = []
    for s in specs:
        holder = {}
        safe(digest_of, s, 4711, holder)
        e.append(safe(digest_of, s, 815, holder))
    for spec, ra, rb, rc, rd, re_ in zip(specs, a, b, c, d, e):
        sl.cases += 1
        desc = R.describe(spec)
        sl.count("engines:" + ">".join(desc["engines"]))
        sl.count("objective:" + spec["objective"])
        if "error" in ra:
            sl.count("run-raised:" + ra["error"][:60])
            if any(("error" in r) != True or r["error"] != ra["error"] for r in (rb, rc, rd, re_)):
                sl.violations.append({"signature": "C14/not-reproducible", "detail": f"one repetition raised {ra['error'][:150]}, another did not / raised something else", "replay": {"spec": spec}})
            continue
        if ra.get("demes", 0) >= 2:
            sl.nontrivial.add(R.spec_id(spec))
        for name, r in (("in-process, other pollution of the global generators", rb), ("fresh interpreter PYTHONHASHSEED=0", rc), ("fresh interpreter PYTHONHASHSEED=4242", rd), ("in-process, second run with a sprout mechanism object that already served a run of this configuration", re_)):
            if r.get("rng_after_init") != ra["rng_after_init"]:
                sl.violations.append({"signature": "C14/generator-not-seeded", "detail": f"{name}: the global generator states right after DemeTree construction differ between two seeded runs (some generator is not seeded from options.random_seed)", "replay": {"spec": spec}})
                break
            if r.get("tree") != ra["tree"]:
                sl.violations.append({"signature": "C14/not-reproducible", "detail": f"{name}: seeded run produced a different tree ({r.get('demes')} demes / {r.get('evals')} evaluations vs {ra['demes']} / {ra['evals']})", "replay": {"spec": spec}})
                break
        if sl.cases <= 2:
            sl.sample({"spec": desc, "digest": ra})


def safe(f, *a):
    from ..common import run_limit

    try:
        with run_limit(60):
            return f(*a)
    except Exception as e:
        return {"error": f"{type(e).__name__}: {e}"}


def run(ctx):
    sl = Slice("seeded-twin-runs(in-process x2, 2 fresh interpreters)")
    sl.is_trace = True
    batch(ctx, ctx.size(100, 600), 7, sl)
    return [sl]


def search(ctx, broken):
    sl = Slice("search")
    batch(ctx, 150, 97, sl)
    return sl.violations
