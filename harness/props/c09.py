"""C09 — Sprouts keep their distance from existing demes; centroids are current

Run-level check: traced real runs (harness/runs.py) under the direct monitor of C09
(harness/monitors.py).  The Lean theorems registered here are about the tree model
(lean/PyhmsVerif/Model/Tree.lean); the model is tied to the code by trace refinement.
"""
from .. import runs

MODULE = "PyhmsVerif.Props.C09"
THEOREMS = []
LEVEL = "exploration"
LEVEL_TEXT = "Monitors state the property itself on real runs; sampled configurations only (no theorem yet for this property)."
LEVEL_NOTE = "Sampled runs only; monitors trusted."
TECHNIQUE = "direct monitors over hook-free traced runs (Lean model + refinement for this property under construction)"
RULE = "case = one traced run of a random configuration (1-3 levels, engine per level from the full list, every shipped GSC/LSC kind plus user-defined ones, both stock sprout mechanisms and user-composed chains, hibernation on/off, both directions, decimal boxes); non-trivial = run with >= 2 demes and >= 2 metaepochs; distinct by configuration hash"
ASSUMPTIONS = ["objective is deterministic and never returns NaN", "runs are capped at 12 metaepochs by a user-level composite stop condition"]
FORCE = None


def run(ctx):
    return [runs.monitor_batch(ctx, "C09", ctx.size(250, 3000), force=FORCE)]


def search(ctx, broken):
    return runs.monitor_batch(ctx, "C09", 400, salt=97, force=FORCE).violations


def replay(data):
    spec = data["violation"]["replay"]["spec"]
    _, res = runs.monitored_run(spec, {"C09"})
    for v in res.get("C09", []):
        print(v["signature"], v["detail"])
    return not res.get("C09")
