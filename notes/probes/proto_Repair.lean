import Proto.Basic
open F64

/-- model value: exact rational; all ops return Option (none = overflow/nan) -/
abbrev V := Rat

def fadd (a b : V) : Option V := rnd (a + b)
def fsub (a b : V) : Option V := rnd (a - b)
def fdiv (a b : V) : Option V := if b = 0 then none else rnd (a / b)

/-- C fmod: exact, sign of a -/
def cfmod (a b : V) : V :=
  let q := a / b
  let t : Int := if q ≥ 0 then q.floor else -((-q).floor)
  a - (t : Rat) * b

/-- numpy npy_divmod for b ≠ 0; returns (floordiv, mod) -/
def npDivmod (a b : V) : Option (V × V) := do
  if b = 0 then none
  let mod0 := cfmod a b
  let d0 ← fsub a mod0
  let div0 ← fdiv d0 b
  let (md, dv) ←
    if mod0 ≠ 0 then
      if (b < 0) != (mod0 < 0) then do
        let m ← fadd mod0 b
        let d ← fsub div0 1
        pure (m, d)
      else pure (mod0, div0)
    else pure (0, div0)
  let fl : V :=
    if dv ≠ 0 then
      let f : Rat := (dv.floor : Rat)
      if dv - f > 1/2 then f + 1 else f
    else 0
  pure (fl, md)

def npMod (a b : V) : Option V := (npDivmod a b).map (·.2)
def npFloorDiv (a b : V) : Option V := (npDivmod a b).map (·.1)

def clip (lo hi x : V) : V := min (max x lo) hi

def reflect (lo hi x : V) : Option V := do
  let r ← fsub hi lo
  let n ← fsub x lo
  let flips ← npFloorDiv n r
  let md ← npMod n r
  let odd ← npMod flips 2
  let refl ← if odd = 1 then fsub r md else pure md
  fadd lo refl

def toroidal (lo hi x : V) : Option V := do
  let r ← fsub hi lo
  let n ← fsub x lo
  let md ← npMod n r
  fadd lo md

/-- line protocol: "<method> <lo> <hi> <x>" with rationals as "num/den" -/
def parseRat (s : String) : Option Rat :=
  match s.splitOn "/" with
  | [n, d] => do let n ← n.toInt?; let d ← d.toNat?; if d = 0 then none else some ((n : Rat) / (d : Rat))
  | [n] => do let n ← n.toInt?; some (n : Rat)
  | _ => none

def showRat (q : Rat) : String := s!"{q.num}/{q.den}"

def stepLine (line : String) : String :=
  match (line.trimAscii.toString.splitOn " ") with
  | [m, lo, hi, x] =>
    match parseRat lo, parseRat hi, parseRat x with
    | some lo, some hi, some x =>
      let r := match m with
        | "clip" => some (clip lo hi x)
        | "reflect" => reflect lo hi x
        | "toroidal" => toroidal lo hi x
        | _ => none
      match r with | some y => showRat y | none => "none"
    | _, _, _ => "bad"
  | _ => "bad"

partial def loop (h : IO.FS.Stream) : IO Unit := do
  let line ← h.getLine
  if line.isEmpty then return ()
  IO.println (stepLine line)
  loop h

def main : IO Unit := do loop (← IO.getStdin)
