"""C19 — a tree can be snapshotted and restored at any metaepoch boundary (partial).

What a model can carry: the invariants of C03/C04/C06/C07/C08 are proved *inductive* (from
any state satisfying them, not only from the initial one — `Tree.step` preservation lemmas),
so a restored tree whose abstract state equals the live one keeps satisfying them as long
as its continuation is a run of the model.  What only the runtime can show: that dill
round-trips the live objects (CMA-ES state, samplers, SHADE memory, closures).  That part
is exercised here on real trees at every boundary and is sampled, not proved.
"""
import os
import random
import tempfile

import numpy as np

from .. import monitors as M
from .. import runs as R
from ..common import Slice

MODULE = 'PyhmsVerif.Props.C19'
THEOREMS = ['C19.C19_continue', 'C19.step_good', 'C19.C19_reachable_good', 'C19.witness_good', 'Witness.accepted', 'Witness.run_exists']
LEVEL = 'proof'
LEVEL_TEXT = 'Model side proved, runtime side sampled (partial). Theorems: every invariant used for C01/C03/C04/C06/C07/C08/C11/C12 (well-formedness, in-box log, exact accounting relative to the current counters and log, level limit, generation chaining, nothing-observed-forgotten, log coverage, elitism pairs) is inductive from ANY state that satisfies it, not only from a freshly constructed tree (C19_continue: any accepted continuation of any length from a good state ends in a good state, old demes in place, inactive ones frozen, histories only extended), and every reachable state is good (C19_reachable_good) — so every state at which a snapshot can be taken is a valid starting point and the continued run keeps the tree invariants. Tie / runtime side: pickle_dump + pickle_load at every boundary of real runs (callable and lambda objectives, all engine mixes): identical snapshot, summary and GSC verdict, live tree and both global RNG states untouched, and the continuation of the LOADED tree is monitored (structure, level limit, accounting relative to restored counters, never-worsening best). Non-vacuity: Witness.accepted / run_exists — a concrete run (two-level tree that sprouts a child and returns) is accepted event by event by Tree.step, checked by kernel evaluation (decide +kernel); C19.witness_good applies the run-level theorems to it.'
LEVEL_NOTE = 'Trusted: Lean kernel + standard axioms; that dill really restores the object graph (CMA-ES internals, sampler state, SHADE memory) is runtime behaviour no model can exhibit — it is checked differentially on sampled runs, not proved. In the model a snapshot is the state itself.'
TECHNIQUE = 'Lean 4 theorems (invariants inductive from any state => restored trees keep the tree invariants) + snapshot/restore differential on real runs at every boundary'
RULE = "case = (configuration, boundary k): dump+load at that boundary; configurations as in the traced-run generator but untraced (objective = picklable callable or lambda); non-trivial = tree with >= 2 demes at the snapshot point; distinct by (configuration hash, k)"
ASSUMPTIONS = ['dill can serialise the objective (module-level callable or lambda)', 'for CMA-ES levels the continuation of the live and of the restored tree need not coincide (dill copies np.random.randn by value into the restored strategy); for every other engine mix one step of both from equal global generator states must give the same tree']
EXPLANATION = "differential snapshot/restore on real runs; see LEVEL_TEXT"


def structural(snap, spec):
    """C07-style scan of one snapshot"""
    out = []
    ids = [d["id"] for d in snap["demes"]]
    demes = {d["id"]: d for d in snap["demes"]}
    if len(set(ids)) != len(ids):
        out.append("duplicate ids")
    pc = {i: 0 for i in ids}
    for d in snap["demes"]:
        if d["id"] not in snap["levels"][d["level"]]:
            out.append(f"{d['id']} not registered at its level")
        for c in d["children"]:
            if c not in demes:
                out.append(f"unknown child {c}")
            else:
                pc[c] += 1
                if demes[c]["level"] != d["level"] + 1:
                    out.append(f"child {c} at wrong level")
        if not (0 <= d["started_at"] <= snap["metaepoch"]):
            out.append(f"{d['id']} started_at out of range")
    for i in ids:
        if i != "root" and pc[i] != 1:
            out.append(f"{i} has {pc[i]} parents")
    L = M.level_limit_of(spec)
    if L is not None:
        for lvl in range(1, len(snap["levels"])):
            a = sum(1 for d in snap["demes"] if d["level"] == lvl and d["active"])
            if a > L:
                out.append(f"level {lvl} has {a} active demes > {L}")
    return out


def gsc_oracle(spec, tree):
    """the verdict of the configured global stop condition recomputed from its definition on the tree's
    public state (None for conditions that are not a plain function of it)"""
    g = spec["gsc"]
    k = g["kind"]
    demes = [d for _, d in tree.all_demes]
    if k == "MetaepochLimit":
        return tree.metaepoch_count >= g["limit"]
    if k == "SingularProblemEvalLimitReached":
        return tree.n_evaluations >= g["limit"]
    if k == "FitnessEvalLimitReached":
        nlev = len(spec["levels"])
        w = {"root": [1.0] + [0.0] * (nlev - 1), "equal": [1.0] * nlev, "list": [1.0, 0.5, 0.25, 0.125][:nlev]}[g["weights"]]
        return sum(w[d.level] * d.n_evaluations for d in demes) >= g["limit"]
    if k == "AllStopped":
        return not any(d.is_active for d in demes)
    if k == "RootStopped":
        return not tree.root.is_active
    return None


def gsc_threshold_probe(spec, tree):
    """for the limit-type conditions: a private copy of the restored condition, with its limit set just
    above the quantity the definition measures on the tree, must answer False (and True at that quantity) —
    a condition that carries a running total or remembered demes through the snapshot answers differently"""
    import copy

    k = spec["gsc"]["kind"]
    if k not in ("SingularProblemEvalLimitReached", "FitnessEvalLimitReached"):
        return None
    demes = [d for _, d in tree.all_demes]
    if k == "SingularProblemEvalLimitReached":
        q = float(tree.n_evaluations)
    else:
        nlev = len(spec["levels"])
        w = {"root": [1.0] + [0.0] * (nlev - 1), "equal": [1.0] * nlev, "list": [1.0, 0.5, 0.25, 0.125][:nlev]}[spec["gsc"]["weights"]]
        q = float(sum(w[d.level] * d.n_evaluations for d in demes))
    try:
        g = copy.deepcopy(tree._gsc)
        if not hasattr(g, "limit"):
            return None
        g.limit = q + 0.0625
        above = bool(g(tree))
        g2 = copy.deepcopy(tree._gsc)
        g2.limit = q
        at = bool(g2(tree))
    except Exception:  # noqa: BLE001
        return None
    if above or not at:
        return f"{k}: the quantity its definition measures on this tree is {q}; a copy of the condition with limit {q} answers {at}, with limit {q + 0.0625} answers {above}"
    return None


class Extended:
    """a stop condition the user installs on the tree object itself to run a tree further than its configuration
    said (what test_reload does with `tree._gsc = ...`): never true within the horizon of these runs"""

    def __init__(self, inner, horizon):
        self.inner = inner
        self.horizon = horizon

    def __call__(self, tree):
        return bool(tree.metaepoch_count >= self.horizon)

    def __str__(self):
        return f"Extended({self.inner})"


def one_config(spec, sl, kind):
    import pyhms.tree as T
    from pyhms.config import TreeConfig

    o = R.build(spec, None, plain=kind)
    opts = {"random_seed": spec["seed"], "hibernation": spec["hibernation"]}
    if spec.get("unseeded"):
        opts = {"hibernation": spec["hibernation"]}
        np.random.seed(spec["seed"] % (2**32))
        random.seed(spec["seed"])
    tree = T.DemeTree(TreeConfig(o["levels"], o["gsc"], o["sm"], options=opts, config_class_to_deme_class=o["custom"]))
    # one configuration in four is run further than configured through a stop condition installed on the tree
    # object: a snapshot is a snapshot of the TREE, not of its configuration
    extended = spec["seed"] % 4 == 1
    if extended:
        tree._gsc = Extended(tree._gsc, spec["max_steps"] + 50)
        sl.count("stop-condition-installed-on-the-tree-object")
    mx = spec["maximize"]
    fd, fn = tempfile.mkstemp(suffix=".pkl")
    os.close(fd)
    order = []

    def snap(t):
        for _, d in t.all_demes:
            if d.id not in order:
                order.append(d.id)
        return R.snap_tree(t, order)

    def viol(sig, detail, k):
        sl.violations.append({"signature": sig, "detail": detail, "replay": {"spec": spec, "boundary": k, "objective_kind": kind}})

    # engines whose random source is the global NumPy / stdlib generator (or a generator pickled by value):
    # from equal generator states the restored tree must do what the live tree does.  CMA-ES is left out:
    # dill copies `np.random.randn` by value into the restored strategy object.
    deterministic = not any(L["engine"] in ("cma", "cmaw", "cmas") for L in spec["levels"])
    expect_next = None
    try:
        for k in range(spec["max_steps"] + 1):
            if k > 0:
                if tree._gsc(tree):
                    break
                tree.run_step()
                if expect_next is not None:
                    now = snap(tree)
                    if now != expect_next[1]:
                        diff = [d["id"] for a, d in zip(now["demes"], expect_next[1]["demes"]) if a != d]
                        viol("C19/restored-tree-behaves-differently", f"the tree restored at boundary {expect_next[0]} and the live tree, both run one step from the same random-generator states, differ afterwards (demes {diff[:4]}; {len(expect_next[1]['demes'])} vs {len(now['demes'])} demes; evaluations {expect_next[1]['n_evals']} vs {now['n_evals']}): the snapshot lost part of the state", expect_next[0])
                    expect_next = None
            live0 = snap(tree)
            if k == 1:
                # a dump that FAILS (the directory does not exist) and whose exception the caller catches leaves the
                # live tree as it was: same state, reports still render, the next step still runs
                failed = False
                try:
                    tree.pickle_dump(os.path.join(fn + ".no-such-directory", "snapshot.pkl"))
                except Exception:  # noqa: BLE001
                    failed = True
                if failed:
                    try:
                        same = snap(tree) == live0
                        tree.summary()
                        for _, d in tree.all_demes:
                            d.log("still alive")
                    except Exception as e:  # noqa: BLE001
                        same = False
                        viol("C19/failed-dump-broke-the-live-tree", f"boundary {k}: after a pickle_dump that raised (unwritable path) the live tree cannot be used: {type(e).__name__}: {e}", k)
                    if not same:
                        viol("C19/failed-dump-broke-the-live-tree", f"boundary {k}: after a pickle_dump that raised (unwritable path) the live tree differs from before", k)
                        break
            st_np = np.random.get_state()[1].copy()
            st_py = random.getstate()
            sum0 = tree.summary()
            try:
                tree.pickle_dump(fn)
                loaded = T.DemeTree.pickle_load(fn)
            except Exception as e:
                viol("C19/pickle-failed", f"boundary {k}: {type(e).__name__}: {str(e)[:200]}", k)
                break
            sl.cases += 1
            if len(live0["demes"]) >= 2:
                sl.nontrivial.add((R.spec_id(spec), k))
            if not (np.random.get_state()[1] == st_np).all() or random.getstate() != st_py:
                viol("C19/dump-changed-random-state", f"boundary {k}: pickle_dump/pickle_load changed a global random generator state", k)
            if snap(tree) != live0 or tree.summary() != sum0:
                viol("C19/dump-changed-live-tree", f"boundary {k}: the live tree differs after pickle_dump", k)
            ls = snap(loaded)
            if ls != live0:
                diff = [d["id"] for a, d in zip(ls["demes"], live0["demes"]) if a != d]
                viol("C19/loaded-differs", f"boundary {k}: loaded tree differs from the live one (demes {diff[:4]}; n_evals {ls['n_evals']} vs {live0['n_evals']})", k)
            elif loaded.summary() != sum0:
                viol("C19/loaded-summary-differs", f"boundary {k}: summary of the loaded tree differs", k)
            elif bool(loaded._gsc(loaded)) != bool(tree._gsc(tree)):
                viol("C19/loaded-gsc-differs", f"boundary {k}: stop-condition verdict differs on the loaded tree", k)
            if extended and not isinstance(loaded._gsc, Extended):
                viol("C19/loaded-gsc-differs", f"boundary {k}: the live tree's stop condition is {tree._gsc}, the restored tree's is {loaded._gsc}", k)
            pr = None if extended else gsc_threshold_probe(spec, loaded)
            if pr:
                viol("C19/loaded-gsc-not-its-definition", f"boundary {k}: restored tree — {pr}", k)
            want = None if extended else gsc_oracle(spec, loaded)
            if want is not None and bool(loaded._gsc(loaded)) != bool(want):
                viol("C19/loaded-gsc-not-its-definition", f"boundary {k}: on the restored tree {spec['gsc']['kind']} answers {bool(loaded._gsc(loaded))}, its definition on the restored state gives {bool(want)}", k)
            # continuation of the loaded tree (every third boundary): invariants relative to restored counters
            if k % 3 == 1:
                lrecs = {id(lc.problem): lc.problem for lc in loaded.config.levels}
                def calls(t):
                    from pyhms.core.problem import get_function_problem
                    seen = {}
                    for lc in t.config.levels:
                        f = get_function_problem(lc.problem).fitness_function
                        c = f if isinstance(f, R.CountingObjective) else f.__defaults__[0]
                        seen[id(c)] = c
                    return sum(c.n for c in seen.values())
                c0, e0 = calls(loaded), loaded.n_evaluations
                b0 = loaded.best_individual.fitness
                rs_np, rs_py = np.random.get_state(), random.getstate()
                for it in range(2):
                    if loaded._gsc(loaded):
                        break
                    loaded.run_step()
                    want = None if extended else gsc_oracle(spec, loaded)
                    if want is not None and bool(loaded._gsc(loaded)) != bool(want):
                        viol("C19/loaded-gsc-not-its-definition", f"restored at boundary {k} and run further: {spec['gsc']['kind']} answers {bool(loaded._gsc(loaded))}, its definition on the tree's state gives {bool(want)}", k)
                    s2 = R.snap_tree(loaded, order + [d.id for _, d in loaded.all_demes if d.id not in order])
                    if it == 0 and deterministic:
                        expect_next = (k, s2)
                    for p in structural(s2, spec):
                        viol("C19/continuation-structure", f"loaded at boundary {k}, run further: {p}", k)
                    b1 = loaded.best_individual.fitness
                    if (b1 < b0) if mx else (b1 > b0):
                        viol("C19/continuation-best-worse", f"loaded at boundary {k}: best went from {b0} to {b1}", k)
                    b0 = b1
                if not spec.get("cutoff") and loaded.n_evaluations - e0 != calls(loaded) - c0:
                    viol("C19/continuation-accounting", f"loaded at boundary {k}: counters grew by {loaded.n_evaluations - e0}, objective was invoked {calls(loaded) - c0} times", k)
                # the live tree takes its next step from the generator states the restored one started from
                np.random.set_state(rs_np)
                random.setstate(rs_py)
    finally:
        if os.path.exists(fn):
            os.remove(fn)


def batch(ctx, n, salt, sl):
    rng = ctx.rng(salt)
    for i in range(n):
        if i % 4 == 3:
            # a tree built WITHOUT options.random_seed (the global generators are seeded here instead): engines
            # that own a sampler / strategy object must carry its state through the snapshot, not a handle to a
            # process-wide generator
            nlev = int(rng.choice([1, 2, 2, 3]))
            eng = {0: ["lhs", "lhs", "sobol", "sea", "de", "shade"], 1: ["sea", "de", "shade", "local", "mwea"], 2: ["sea", "de", "local"]}
            spec = R.rand_spec(rng, nlev=nlev, engines=eng, max_steps=int(rng.integers(3, 8)))
            spec["unseeded"] = True
        else:
            spec = R.rand_spec(rng, max_steps=int(rng.integers(3, 8)))
        if spec["gsc"]["kind"] == "User":
            spec["gsc"]["look"] = False
        kind = "lambda" if i % 2 else "callable"
        from ..common import RunTimeout, run_limit

        try:
            with run_limit(300):
                one_config(spec, sl, kind)
        except RunTimeout as e:
            sl.violations.append({"signature": "C19/run-did-not-terminate", "detail": str(e), "replay": {"spec": spec}})
            continue
        except Exception as e:
            import traceback

            from ..common import is_env_crash

            if is_env_crash(e):
                sl.skipped += 1
                sl.count("skipped:third-party-library-raised:" + type(e).__name__)
                continue
            sl.violations.append({"signature": "C19/run-crashed", "detail": f"{type(e).__name__}: {e} {traceback.format_exc()[-500:]}", "replay": {"spec": spec}})
        d = R.describe(spec)
        sl.count("engines:" + ">".join(d["engines"]))
        sl.count("objective:" + kind)
        if i < 2:
            sl.sample({"spec": d, "objective": kind})


NAN_SAFE = ["sea", "seax", "ga", "adapt", "de", "ded", "shade"]


def nan_batch(ctx, n, salt, sl):
    """objectives with NaN holes: comparing NaN individuals consumes the stdlib generator
    (`worse_than` -> random.choice), so any accessor that dumping calls behind the scenes shows up
    as a changed global generator state.  Only the generator states around dump / load are
    compared here (snapshots containing NaN are not comparable by equality)."""
    import pyhms.tree as T
    from pyhms.config import TreeConfig

    rng = ctx.rng(salt)
    for i in range(n):
        nlev = int(rng.choice([1, 2, 2]))
        spec = R.rand_spec(rng, objective="holes", nlev=nlev, engines={l: NAN_SAFE for l in range(3)}, max_steps=int(rng.integers(3, 7)), gsc={"kind": "MetaepochLimit", "limit": 7})
        if i % 2:
            spec["nan_slab"] = (0.15, 0.85)  # most of the box: whole stretches of a history are NaN
        o = R.build(spec, None, plain="callable")
        opts = {"random_seed": spec["seed"], "hibernation": spec["hibernation"]}
        fd, fn = tempfile.mkstemp(suffix=".pkl")
        os.close(fd)
        try:
            tree = T.DemeTree(TreeConfig(o["levels"], o["gsc"], o["sm"], options=opts, config_class_to_deme_class=o["custom"]))
            for k in range(spec["max_steps"] + 1):
                if k > 0:
                    if tree._gsc(tree):
                        break
                    try:
                        tree.run_step()
                    except Exception as e:
                        # with NaN fitness the order of individuals is random by design (worse_than ->
                        # random.choice), so the run itself may leave the domain of the other properties
                        # (e.g. LevelLimit indexing past its candidate list): not this property's business
                        sl.count("run-step-raised-under-NaN-objective:" + type(e).__name__)
                        break
                n_nan = sum(1 for _, d in tree.all_demes for ind in d.all_individuals if ind.fitness != ind.fitness)
                st_np = np.random.get_state()[1].copy()
                st_py = random.getstate()
                tree.pickle_dump(fn)
                changed_dump = (not (np.random.get_state()[1] == st_np).all()) or random.getstate() != st_py
                T.DemeTree.pickle_load(fn)
                changed_load = (not (np.random.get_state()[1] == st_np).all()) or random.getstate() != st_py
                sl.cases += 1
                sl.count("nan-individuals:" + ("0" if n_nan == 0 else "1" if n_nan == 1 else "2+"))
                if n_nan >= 2:
                    sl.nontrivial.add((R.spec_id(spec), k))
                if changed_dump or changed_load:
                    sl.violations.append({"signature": "C19/dump-changed-random-state", "detail": f"objective with NaN holes, boundary {k} ({n_nan} NaN individuals in the tree): {'pickle_dump' if changed_dump else 'pickle_load'} changed a global random generator state", "replay": {"spec": spec, "boundary": k, "objective_kind": "callable"}})
                    break
        except Exception as e:
            import traceback

            sl.violations.append({"signature": "C19/run-crashed", "detail": f"NaN-hole objective: {type(e).__name__}: {e} {traceback.format_exc()[-400:]}", "replay": {"spec": spec}})
        finally:
            if os.path.exists(fn):
                os.remove(fn)


def run(ctx):
    sl = Slice("pickle_dump/pickle_load-at-every-boundary")
    sl.is_trace = True
    batch(ctx, ctx.size(60, 800), 3, sl)
    sl2 = Slice("dump/load-leave-global-generators-alone(objective-with-NaN-holes)")
    sl2.is_trace = True
    nan_batch(ctx, ctx.size(25, 300), 5, sl2)
    return [sl, sl2]


def search(ctx, broken):
    sl = Slice("search")
    batch(ctx, 200, 93, sl)
    nan_batch(ctx, 80, 95, sl)
    return sl.violations
