import PyhmsVerif.Model.Proto
import PyhmsVerif.Model.Tree
import PyhmsVerif.Model.Report
/-!
Line protocol for whole-run traces (parsers and the canonical state dump).
Only used by `Driver.lean`.
-/
namespace TreeProto
open Proto Tree

def fitP : P Fit := do
  let t ← tok
  match t with
  | "inf" => pure .posInf
  | "-inf" => pure .negInf
  | _ => match parseRat t with
    | some q => pure (.fin q)
    | none => failure

def showFit : Fit → String
  | .posInf => "inf"
  | .negInf => "-inf"
  | .fin q => showRat q

def indP : P Ind := do let g ← list rat; let f ← fitP; pure ⟨g, f⟩
def showInd (a : Ind) : String := showList showRat a.genome ++ " " ++ showFit a.fit

def optBoolP : P (Option Bool) := do
  let t ← tok
  match t with
  | "-" => pure none
  | "1" => pure (some true)
  | "0" => pure (some false)
  | _ => failure

def optRatP : P (Option Rat) := do
  let t ← tok
  if t == "-" then pure none else match parseRat t with
    | some q => pure (some q)
    | none => failure

def engineP : P Engine := do
  let t ← tok
  match t with
  | "ea" => pure .ea | "de" => pure .de | "shade" => pure .shade | "cma" => pure .cma
  | "local" => pure .localOpt | "lhs" => pure .lhs | "sobol" => pure .sobol
  | _ => failure

def lscP : P Lsc := do
  let t ← tok
  match t with
  | "DS" => pure .dontStop | "DR" => pure .dontRun | "ACS" => pure .allChildrenStopped | "ENV" => pure .env
  | "ML" => do let n ← nat; pure (.metaepochLimit n)
  | _ => failure

partial def gscP : P Gsc := do
  let t ← tok
  match t with
  | "ML" => do let n ← nat; pure (.metaepochLimit n)
  | "DR" => pure .dontRun | "DS" => pure .dontStop
  | "EL" => do let n ← nat; pure (.evalLimit n)
  | "W" => do let l ← rat; let w ← list rat; pure (.weighted l w)
  | "PR" => do let s ← nat; let l ← nat; pure (.precision s l)
  | "RS" => pure .rootStopped | "AS" => pure .allStopped
  | "NAN" => do let n ← nat; pure (.noActiveNonroot n)
  | "ENV" => pure .env
  | "OR" => do let a ← gscP; let b ← gscP; pure (.either a b)
  | _ => failure

def levelP : P LevelCfg := do
  let e ← engineP; let c ← tok; let g ← nat; let p ← nat; let l ← lscP; let s ← nat; let el ← bool
  let box ← list (do let lo ← rat; let hi ← rat; pure (lo, hi))
  pure ⟨e, c, g, p, l, s, el, box⟩

def genP : P Sprout.Generator := do
  let t ← tok
  match t with
  | "BEST" => pure .bestPerDeme
  | "NBC" => do let a ← rat; let b ← rat; pure (.nbc a b)
  | "NBCL" => do let a ← rat; let b ← rat; pure (.nbcLocal a b)
  | _ => failure

def filterP : P Sprout.Filter := do
  let t ← tok
  match t with
  | "FAR" => do let d ← rat; pure (.farEnough d)
  | "NFAR" => do let f ← rat; let a ← bool; pure (.nbcFarEnough f a)
  | "DL" => do let n ← nat; pure (.demeLimit n)
  | "LL" => do let n ← nat; pure (.levelLimit n)
  | "SS" => pure .skipSame
  | "MAHA" => pure .mahalanobis
  | _ => failure

def wrapperP : P Problem.Wrapper := do
  let t ← tok
  match t with
  | "C" => do let n ← nat; pure (.counting n)
  | "X" => do let n ← nat; let c ← nat; pure (.cutoff n c)
  | "S" => do let n ← nat; pure (.stats n)
  | "P" => do
    let n ← nat; let o ← rat; let e ← rat
    let eta ← tok
    let hit ← bool
    pure (.precision n o e (eta.toNat?) hit)
  | _ => failure

def cfgP : P (Cfg × List (List Problem.Wrapper)) := do
  let mx ← bool; let hib ← bool
  let levels ← list levelP
  let gsc ← gscP
  let g ← genP; let df ← list filterP; let tf ← list filterP
  let stacks ← list (list wrapperP)
  pure (⟨levels, gsc, hib, mx, ⟨g, df, tf⟩⟩, stacks)

def reqP : P Req := do
  let x ← list rat
  let t ← peek?
  match t with
  | some "-" => do let _ ← tok; pure ⟨x, none⟩
  | _ => do let v ← fitP; pure ⟨x, some v⟩

def newEnvP : P NewEnv := do let r ← list reqP; let p ← list indP; pure ⟨r, p⟩

def genEnvP : P GenEnv := do
  let r ← list reqP; let p ← list indP; let g ← optBoolP; let c ← bool
  pure ⟨r, p, g, c⟩

def idP : P Id := do
  let t ← tok
  if t == "root" then pure [] else
    match (t.splitOn "/").mapM (·.toNat?) with
    | some l => pure l
    | none => failure

def lookupMat (n : Nat) (flat : Array Rat) (i j : Nat) : Rat := flat.getD (i * n + j) 0

def sproutEnvP : P Sprout.Env := do
  let nbcs ← list (do
    let id ← idP; let n ← nat; let m ← rep (n * n) rat; let mean ← optRatP
    pure (id, n, m.toArray, mean))
  let dists ← list (do
    let g ← list rat; let id ← idP; let d ← optRatP
    pure (g, id, d))
  let mahas ← list (do
    let g ← list rat; let id ← idP; let b ← bool
    pure (g, id, b))
  pure {
    nbc := fun id => (nbcs.find? (·.1 == id)).map fun e => (lookupMat e.2.1 e.2.2.1, e.2.2.2)
    dist := fun g id => ((dists.find? fun e => e.1 == g && e.2.1 == id).map (·.2.2)).getD none
    maha := fun g id => (mahas.find? fun e => e.1 == g && e.2.1 == id).map (·.2.2) }

def evP : P Ev := do
  let t ← tok
  match t with
  | "loop" => do let g ← optBoolP; pure (.loop g)
  | "gen" => do let id ← idP; let g ← genEnvP; let l ← optBoolP; pure (.gen id g l)
  | "local" => do
    let id ← idP; let r ← list reqP; let it ← list indP; let n ← nat
    pure (.localRun id r it n)
  | "round" => do
    let g ← optBoolP; let e ← sproutEnvP; let news ← list newEnvP
    pure (.round g e news)
  | _ => failure

-- ---------------------------------------------------------------- canonical dump
def showPc : Pc → String
  | .head => "head" | .post => "post" | .done => "done"
  | .running q cur => s!"running[{",".intercalate (q.map showId)}]" ++ match cur with
    | some (id, n, _) => s!"@{showId id}:{n}"
    | none => ""

def showOptInd : Option Ind → String
  | none => "-"
  | some i => showInd i

def showEngine : Engine → String
  | .ea => "ea" | .de => "de" | .shade => "shade" | .cma => "cma" | .localOpt => "local"
  | .lhs => "lhs" | .sobol => "sobol"

def dumpDeme (cfg : Cfg) (full : Bool) (d : Deme) : String :=
  let mx := cfg.maximize
  let cls := match cfg.levels[d.level]? with | some lc => lc.cls | none => "?"
  let head := s!"D {showId d.id} {d.level} {(d.parent.map showId).getD "-"} {d.startedAt} {showBool d.active} {showBool d.hib} {d.counter} [{",".intercalate (d.children.map showId)}] seed {showOptInd d.seed} me {d.metaepochs} gens {d.gens.length} cls {cls} best {showOptInd (Select.best mx d.allInds)}"
  if full then
    head ++ " hist " ++ " / ".intercalate (d.hist.map fun m => " ; ".intercalate (m.map fun g => showList showInd g.inds))
  else head

def dumpReport (t : T) : String :=
  let s := Report.summary t
  let lv := " ".intercalate (s.perLevel.map fun p => match p with | some p => s!"{p.1}/{p.2}" | none => "-")
  let ls := " ".intercalate ((Report.lines t).map fun l => s!"{showId l.id}:{l.cls}:{l.evals}:{showBool l.marker}")
  s!"R {s.metaepoch} {s.evals} {s.demes} levels {lv} lines {ls}"

def dump (t : T) (full : Bool) : String :=
  let lv := " ".intercalate (t.levels.map fun l => "[" ++ ",".intercalate (l.map showId) ++ "]")
  let head := s!"T {t.metaepoch} evals {t.nEvals} levels {lv} best {showOptInd t.best} invocations {t.log.length}"
  " | ".intercalate (head :: t.demes.map (dumpDeme t.cfg full) ++ [dumpReport t])

def dumpStages (tr : List (List Sprout.Cand)) : String :=
  " || ".intercalate (tr.map fun cs => " ; ".intercalate (cs.map fun c =>
    s!"{showId c.deme} " ++ showList showInd c.inds))

end TreeProto
