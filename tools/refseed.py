import sys, time, json
sys.path.insert(0,'/verif')
from harness import common
common.use_repo()
from harness import refine
class Ctx:
    seed=int(sys.argv[2]) if len(sys.argv)>2 else 0
    def rng(self,salt=0):
        import numpy as np; return np.random.default_rng([self.seed,salt])
t0=time.time()
sl=refine.refine_batch(Ctx(), int(sys.argv[1]))
print({k:v for k,v in sl.hist.items() if k.startswith('diff') or k.startswith('runs-cut') or k.startswith('engine-')})
print('cases',sl.cases,'disagreements',len(sl.disagreements),'violations',len(sl.violations),round(time.time()-t0,1),'s')
for d in sl.disagreements[:3]:
    print(d.get('describe'), d.get('kind'), (d.get('model') or '')[:300], '<<>>', (d.get('impl') or '')[:300])
