import PyhmsVerif.Proofs.TreeSteps
/-!
# C11 — each generation is bred from the generation immediately before it

`chainOk`: for every consecutive pair of generations `(G, G')` of a deme's (flattened)
history, every individual of `G'` either already belonged to `G` (same genome, same fitness)
or was evaluated while `G'` was being made (it is in `G'.evald`, the ghost record of that
generation's objective requests), or carries the sentinel of a request refused by an
exhausted evaluation budget.  The model refuses a generation that violates this, so the
invariant holds in every reachable state; a real run whose generations do not chain (finding
D2) is rejected by the trace refinement at that generation.
-/
namespace C11
open Tree

def chainOk (mx : Bool) : List Gen → Bool
  | [] => true
  | [_] => true
  | a :: b :: l => (b.inds.all fun i => memberOk mx a.inds b.evald i) && chainOk mx (b :: l)

theorem chainOk_snoc (mx : Bool) (gs : List Gen) (g : Gen)
    (h : chainOk mx gs = true)
    (hg : ∀ last, gs.getLast? = some last → (g.inds.all fun i => memberOk mx last.inds g.evald i) = true) :
    chainOk mx (gs ++ [g]) = true := by
  induction gs with
  | nil => simp [chainOk]
  | cons a l ih =>
    cases l with
    | nil =>
      simp only [List.cons_append, List.nil_append, chainOk, Bool.and_true]
      exact hg a (by simp)
    | cons b l' =>
      simp only [chainOk, Bool.and_eq_true] at h
      simp only [List.cons_append, chainOk, Bool.and_eq_true]
      refine ⟨h.1, ?_⟩
      apply ih h.2
      intro last hl
      exact hg last (by simpa using hl)

/-- weakening: an empty "bred from" list is the strongest requirement -/
theorem memberOk_mono (mx : Bool) (ps evald : List Ind) (i : Ind) (h : memberOk mx [] evald i = true) :
    memberOk mx ps evald i = true := by
  simp only [memberOk, List.contains_nil, Bool.false_or, Bool.or_eq_true] at h ⊢
  rcases h with h | h
  · exact Or.inl (Or.inr h)
  · exact Or.inr h

theorem genOk_member {mx : Bool} {lc : LevelCfg} {parents ev pop : List Ind} {n : Nat}
    (h : genOk mx lc parents ev pop n = .ok ()) : (pop.all fun i => memberOk mx parents ev i) = true := by
  unfold genOk at h
  split at h
  · simp at h
  · by_cases hf : (lc.engine == .cma || lc.engine == .lhs || lc.engine == .sobol) = true
    · simp only [hf, ↓reduceIte] at h
      split at h
      · simp at h
      · rename_i hall
        simp only [Bool.not_eq_true', Bool.not_eq_false] at hall
        rw [List.all_eq_true] at hall ⊢
        intro i hi
        exact memberOk_mono mx parents ev i (hall i hi)
    · simp only [hf, Bool.false_eq_true, ↓reduceIte] at h
      split at h
      · simp at h
      · rename_i hall
        simpa using hall

/-- the chain invariant: recorded histories chain, and so does the running deme's history
extended by the generations of the metaepoch in progress -/
def Chain (t : T) : Prop :=
  (∀ d ∈ t.demes, chainOk t.cfg.maximize d.gens = true) ∧
  (∀ q id done pending, t.pc = .running q (some (id, done, pending)) →
    ∀ d, t.find id = some d → chainOk t.cfg.maximize (d.gens ++ pending) = true)

theorem gens_append (d : Deme) (m : List Gen) :
    ({ d with hist := d.hist ++ [m] } : Deme).gens = d.gens ++ m := by
  simp [Deme.gens]

/-- updating only the first deme with `id`, all others keep their (chained) histories -/
theorem chain_updFirst (mx : Bool) (id : Id) (f : Deme → Deme) (ds : List Deme)
    (hall : ∀ d ∈ ds, chainOk mx d.gens = true)
    (hf : ∀ d, ds.find? (·.id == id) = some d → chainOk mx (f d).gens = true) :
    ∀ d ∈ updFirst id f ds, chainOk mx d.gens = true := by
  induction ds with
  | nil => intro d hd; simp [updFirst] at hd
  | cons a as ih =>
    intro d hd
    simp only [updFirst] at hd
    by_cases h : (a.id == id) = true
    · simp only [h, ↓reduceIte] at hd
      rcases List.mem_cons.mp hd with rfl | hd'
      · exact hf a (by simp [List.find?, h])
      · exact hall d (List.mem_cons_of_mem _ hd')
    · simp only [h, Bool.false_eq_true, ↓reduceIte] at hd
      rcases List.mem_cons.mp hd with rfl | hd'
      · exact hall d (by simp)
      · exact ih (fun x hx => hall x (List.mem_cons_of_mem _ hx))
          (fun x hx => hf x (by simp [List.find?, h, hx])) d hd'

end C11

namespace C11
open Tree

theorem finish_pc (q : List Id) : ∀ q' id' done' pending', finish q ≠ .running q' (some (id', done', pending')) := by
  intro q' id' done' pending' h
  unfold finish at h
  split at h <;> simp at h

/-- what `finishGen` does to histories: either the metaepoch continues (nothing recorded yet,
the new generation joins the pending ones) or the metaepoch's generations are appended -/
theorem finishGen_hist {t1 t' : T} {id : Id} {lc : LevelCfg} {q : List Id} {done : Nat}
    {pending : List Gen} {gen : Gen} {g : GenEnv} {lscEnv : Option Bool}
    (h : finishGen t1 id lc q done pending gen g lscEnv = .ok t') :
    t'.cfg = t1.cfg ∧
    ((t'.pc = .running q (some (id, done + 1, pending ++ [gen])) ∧ t'.demes = t1.demes) ∨
     (t'.pc = finish q ∧ ∃ f : Deme → Deme, t'.demes = updFirst id f t1.demes ∧
        ∀ d, (f d).gens = d.gens ++ (pending ++ [gen]))) := by
  unfold finishGen at h
  split at h
  · simp only [] at h
    split at h
    · simp at h
    · rename_i gv hgv
      split at h
      · simp at h
      · split at h
        · simp at h
        · rename_i lv hlv
          simp only [Except.ok.injEq] at h
          subst h
          refine ⟨rfl, Or.inr ⟨rfl, (fun d => { d with active := d.active && !(gv || lv) }) ∘
            (fun d => { d with hist := d.hist ++ [pending ++ [gen]], active := d.active && true }), ?_, ?_⟩⟩
          · simp only [T.update, appendHist]
            exact updFirst_comp _ _ _ _ (fun _ => rfl)
          · intro d; simp [Function.comp, Deme.gens]
  · split at h
    · simp at h
    · rename_i gv hgv
      simp only [] at h
      split at h
      · simp only [Except.ok.injEq] at h
        subst h
        exact ⟨rfl, Or.inr ⟨rfl, _, rfl, fun d => by simp [Deme.gens]⟩⟩
      · split at h
        · simp only [Except.ok.injEq] at h
          subst h
          exact ⟨rfl, Or.inl ⟨rfl, rfl⟩⟩
        · split at h
          · simp at h
          · split at h
            · simp at h
            · rename_i lv hlv
              simp only [Except.ok.injEq] at h
              subst h
              refine ⟨rfl, Or.inr ⟨rfl, (fun d => { d with active := d.active && !lv }) ∘
                (fun d => { d with hist := d.hist ++ [pending ++ [gen]], active := d.active && true }), ?_, ?_⟩⟩
              · simp only [T.update, appendHist]
                exact updFirst_comp _ _ _ _ (fun _ => rfl)
              · intro d; simp [Function.comp, Deme.gens]

theorem bump_gens (k : Nat) (d : Deme) : (bump k d).gens = d.gens := rfl

theorem find_updFirst_bump (id : Id) (k : Nat) (ds : List Deme) :
    (updFirst id (bump k) ds).find? (·.id == id) = (ds.find? (·.id == id)).map (bump k) :=
  find_updFirst id (bump k) ds (fun _ => rfl)

end C11

namespace C11
open Tree

/-- what `prepareGen` tells about the program counter -/
theorem prepareGen_pc {t : T} {id : Id} {q : List Id} {done : Nat} {pending : List Gen} {d : Deme} {lc : LevelCfg}
    (h : prepareGen t id = .ok (q, done, pending, d, lc)) :
    (t.pc = .running q (some (id, done, pending))) ∨ (t.pc = .running (id :: q) none ∧ pending = []) := by
  unfold prepareGen at h
  split at h
  · rename_i queue cur hpc
    split at h
    · simp at h
    · rename_i q' done' pending' hsel
      have hq : (q', done', pending') = (q, done, pending) := by
        split at h
        · simp at h
        · split at h
          · simp at h
          · split at h
            · simp at h
            · split at h
              · simp at h
              · split at h
                · simp at h
                · simp only [Except.ok.injEq, Prod.mk.injEq] at h
                  obtain ⟨a, b, c, _⟩ := h
                  simp [a, b, c]
      simp only [Prod.mk.injEq] at hq
      obtain ⟨rfl, rfl, rfl⟩ := hq
      split at hsel
      · rename_i q0 cid dn pd
        split at hsel
        · rename_i hc
          simp only [Except.ok.injEq, Prod.mk.injEq] at hsel
          obtain ⟨rfl, rfl, rfl⟩ := hsel
          have : cid = id := by simpa using hc
          subst this
          exact Or.inl hpc
        · simp at hsel
      · rename_i qid qq
        split at hsel
        · rename_i hc
          simp only [Except.ok.injEq, Prod.mk.injEq] at hsel
          obtain ⟨rfl, rfl, rfl⟩ := hsel
          have : qid = id := by simpa using hc
          subst this
          exact Or.inr ⟨hpc, rfl⟩
        · simp at hsel
      · simp at hsel
  · simp at h

theorem getLast_append_gens (gs pending : List Gen) :
    (gs ++ pending).getLast? = match pending.getLast? with | some p => some p | none => gs.getLast? := by
  cases hp : pending.getLast? with
  | none =>
    have : pending = [] := List.getLast?_eq_none_iff.mp hp
    subst this; simp
  | some p => simp [List.getLast?_append, hp]

theorem gen_chain {t t' : T} {id : Id} {g : GenEnv} {l : Option Bool} (hinv : Chain t)
    (h : stepGen t id g l = .ok t') : Chain t' := by
  unfold stepGen at h
  split at h
  · simp at h
  · rename_i q done pending d lc hprep
    obtain ⟨hfind, _, _, _, _⟩ := prepareGen_ok hprep
    have hpend : chainOk t.cfg.maximize (d.gens ++ pending) = true := by
      rcases prepareGen_pc hprep with hpc | ⟨_, rfl⟩
      · exact hinv.2 q id done pending hpc d hfind
      · simpa using hinv.1 d (find_some_mem (show t.demes.find? (·.id == id) = some d from hfind)).1
    simp only [] at h
    split at h
    · simp at h
    · rename_i t1 ev hev
      split at h
      · simp at h
      · rename_i hgen
        have e := evalReqs_effect hev
        have hmem := genOk_member hgen
        -- the new generation chains onto the last one
        have hnew : chainOk t.cfg.maximize (d.gens ++ pending ++ [⟨g.pop, ev⟩]) = true := by
          apply chainOk_snoc _ _ _ hpend
          intro last hl
          rw [getLast_append_gens] at hl
          cases hp : pending.getLast? with
          | some p =>
            simp only [hp, Option.some.injEq] at hl
            subst hl
            simpa [hp] using hmem
          | none =>
            simp only [hp] at hl
            simpa [hp, Deme.curPop, hl] using hmem
        obtain ⟨hc, hcase⟩ := finishGen_hist h
        have hcfg : t'.cfg.maximize = t.cfg.maximize := by rw [hc, e.cfg]
        have hfind1 : t1.demes.find? (·.id == id) = some (bump (if true = true then g.reqs.length else 0) d) := by
          rw [e.demes, find_updFirst_bump]; simp [show t.demes.find? (·.id == id) = some d from hfind]
        rcases hcase with ⟨hpc, hd⟩ | ⟨hpc, f, hd, hf⟩
        · refine ⟨?_, ?_⟩
          · rw [hd, e.demes, hcfg]
            exact chain_updFirst _ id _ _ hinv.1 (fun x hx => by
              rw [show t.demes.find? (·.id == id) = some d from hfind] at hx; cases hx
              rw [bump_gens]; exact hinv.1 d (find_some_mem (show t.demes.find? (·.id == id) = some d from hfind)).1)
          · intro q' id' done' pending' hpc' d' hfind'
            rw [hpc] at hpc'
            simp only [Pc.running.injEq, Option.some.injEq, Prod.mk.injEq] at hpc'
            obtain ⟨_, rfl, _, rfl⟩ := hpc'
            unfold T.find at hfind'
            rw [hd, hfind1] at hfind'
            cases hfind'
            rw [bump_gens, hcfg, ← List.append_assoc]
            exact hnew
        · refine ⟨?_, fun q' id' done' pending' hpc' => absurd (hpc ▸ hpc') (finish_pc q q' id' done' pending')⟩
          rw [hd, e.demes, updFirst_comp id f (bump _) t.demes (fun _ => rfl), hcfg]
          exact chain_updFirst _ id _ _ hinv.1 (fun x hx => by
            rw [show t.demes.find? (·.id == id) = some d from hfind] at hx; cases hx
            simp only [Function.comp, hf, bump_gens]
            rw [← List.append_assoc]; exact hnew)

end C11

namespace C11
open Tree

theorem local_chain {t t' : T} {id : Id} {reqs : List Req} {its : List Ind} {nfev : Nat} (hinv : Chain t)
    (h : stepLocal t id reqs its nfev = .ok t') : Chain t' := by
  unfold stepLocal at h
  split at h
  · split at h
    · simp at h
    · split at h
      · simp at h
      · rename_i d hfind
        split at h
        · simp at h
        · split at h
          · simp at h
          · split at h
            · simp at h
            · split at h
              · simp at h
              · rename_i t1 ev hev
                split at h
                · simp at h
                · simp only [] at h
                  split at h
                  · simp at h
                  · rename_i hall
                    simp only [Except.ok.injEq] at h
                    subst h
                    have e := evalReqs_effect hev
                    have hcfg : t1.cfg.maximize = t.cfg.maximize := by rw [e.cfg]
                    refine ⟨?_, fun q' id' done' pending' hpc' => absurd hpc' (finish_pc _ q' id' done' pending')⟩
                    simp only [T.update]
                    rw [e.demes, updFirst_comp id _ (bump _) t.demes (fun _ => rfl), hcfg]
                    apply chain_updFirst _ id _ _ hinv.1
                    intro x hx
                    rw [show t.demes.find? (·.id == id) = some d from hfind] at hx; cases hx
                    have hg : ∀ y : Deme, ({ y with counter := y.counter + nfev, hist := y.hist ++ [[⟨its, ev⟩]], active := false } : Deme).gens
                        = y.gens ++ [⟨its, ev⟩] := by intro y; simp [Deme.gens]
                    simp only [Function.comp]
                    rw [hg, bump_gens]
                    apply chainOk_snoc _ _ _ (hinv.1 d (find_some_mem (show t.demes.find? (·.id == id) = some d from hfind)).1)
                    intro last _
                    simp only [Bool.not_eq_true', Bool.not_eq_false] at hall
                    rw [List.all_eq_true] at hall ⊢
                    intro i hi
                    have := hall i hi
                    simp only [memberOk, refusedIn, Bool.or_eq_true] at this ⊢
                    rcases this with h1 | h1
                    · exact Or.inl (Or.inr h1)
                    · exact Or.inr h1
  · simp at h

theorem chain_rel {R : Deme → Deme → Prop} (hR : ∀ a b, R a b → b.hist = a.hist) (mx : Bool)
    {as bs : List Deme} (h : List.Forall₂ R as bs) (hall : ∀ d ∈ as, chainOk mx d.gens = true) :
    ∀ d ∈ bs, chainOk mx d.gens = true := by
  intro d hd
  obtain ⟨a, ha, hr⟩ := forall2_mem_right h d hd
  have : d.gens = a.gens := by simp [Deme.gens, hR _ _ hr]
  rw [this]; exact hall a ha

theorem create_chain {t t' : T} {parent : Option Deme} {seed : Option Ind} {env : NewEnv}
    (hall : ∀ d ∈ t.demes, chainOk t.cfg.maximize d.gens = true)
    (h : createDeme t parent seed env = .ok t') : ∀ d ∈ t'.demes, chainOk t'.cfg.maximize d.gens = true := by
  have ce := createDeme_effect h
  obtain ⟨old, d, hd, hf, _, _, ⟨g, hg, _⟩, _⟩ := ce.demes
  rw [ce.cfg, hd]
  intro x hx
  rcases List.mem_append.mp hx with hx | hx
  · exact chain_rel (R := SameBC) (fun a b hab => by obtain ⟨cs, rfl⟩ := hab; rfl) _ hf hall x hx
  · simp only [List.mem_singleton] at hx; subst hx
    simp [Deme.gens, hg, chainOk]

theorem sprout_chain {t t' : T} {flat : List (Id × Ind)} {news : List NewEnv}
    (hall : ∀ d ∈ t.demes, chainOk t.cfg.maximize d.gens = true)
    (h : doSprout t flat news = .ok t') : ∀ d ∈ t'.demes, chainOk t'.cfg.maximize d.gens = true := by
  induction flat generalizing t news with
  | nil =>
    cases news with
    | nil => simp only [doSprout, Except.ok.injEq] at h; subst h; exact hall
    | cons e es => simp [doSprout] at h
  | cons ps rest ih =>
    obtain ⟨pid, s⟩ := ps
    cases news with
    | nil => simp [doSprout] at h
    | cons e es =>
      simp only [doSprout] at h
      split at h
      · simp at h
      · split at h
        · simp at h
        · rename_i t1 hc
          exact ih (create_chain hall hc) h

/-- **The chain invariant is inductive.** -/
theorem step_chain {t t' : T} {ev : Ev} (hinv : Chain t) (h : step t ev = .ok t') : Chain t' := by
  cases ev with
  | loop ge =>
    obtain ⟨hc, hd, _, _, _, _, _, hcase⟩ := stepLoop_effect h
    refine ⟨by rw [hd, hc]; exact hinv.1, ?_⟩
    intro q' id' done' pending' hpc'
    exfalso
    rcases hcase with ⟨_, hpc, _⟩ | ⟨_, _, _, _⟩
    · rw [hpc] at hpc'; cases hpc'
    · -- a started metaepoch begins with nobody running
      simp only [step, stepLoop] at h
      split at h
      · split at h
        · simp at h
        · simp only [Except.ok.injEq] at h; subst h; cases hpc'
        · split at h
          · simp at h
          · simp only [Except.ok.injEq] at h; subst h
            exact finish_pc _ q' id' done' pending' hpc'
      · simp at h
  | gen id g l => exact gen_chain hinv h
  | localRun id reqs its nfev => exact local_chain hinv h
  | round ge renv news =>
    obtain ⟨hc, _, _, hpc, _, _, hcase⟩ := stepRound_effect h
    refine ⟨?_, fun q' id' done' pending' hpc' => by rw [hpc] at hpc'; cases hpc'⟩
    rcases hcase with ⟨hd, _⟩ | ⟨_, _, _, seeds, t1, _, se, hds, rfl⟩
    · rw [hd, hc]; exact hinv.1
    · have h1 := sprout_chain hinv.1 hds
      obtain ⟨f1, _, _, _, _, _⟩ := updateHibernation_frame t1 (seeds.map (·.deme))
      simp only [f1]
      exact chain_rel (R := fun d d' => ∃ h, d' = { d with hib := h })
        (fun a b hab => by obtain ⟨x, rfl⟩ := hab; rfl) _ (updateHibernation_forall2 t1 _) h1

theorem exec_chain {t0 t : T} {evs : List Ev} (h0 : Chain t0) (h : exec t0 evs = .ok t) : Chain t := by
  induction evs generalizing t0 with
  | nil => simp only [exec, Except.ok.injEq] at h; subst h; exact h0
  | cons e es ih =>
    simp only [exec, bind, Except.bind] at h
    split at h
    · simp at h
    · rename_i t1 h1
      exact ih (step_chain h0 h1) h

/-- what `chainOk` says, spelled out for a consecutive pair -/
theorem chainOk_pair (mx : Bool) (pre : List Gen) (a b : Gen) (post : List Gen)
    (h : chainOk mx (pre ++ a :: b :: post) = true) :
    ∀ i ∈ b.inds, i ∈ a.inds ∨ i ∈ b.evald ∨ (refusedIn mx b.evald = true ∧ i.fit = Fit.sentinel mx) := by
  induction pre with
  | nil =>
    simp only [List.nil_append, chainOk, Bool.and_eq_true, List.all_eq_true] at h
    intro i hi
    have := h.1 i hi
    simp only [memberOk, Bool.or_eq_true, List.contains_iff_mem, Bool.and_eq_true, beq_iff_eq] at this
    rcases this with (h1 | h1) | h1
    · exact Or.inl h1
    · exact Or.inr (Or.inl h1)
    · exact Or.inr (Or.inr h1)
  | cons p pre ih =>
    cases pre with
    | nil =>
      simp only [List.cons_append, List.nil_append, chainOk, Bool.and_eq_true] at h
      exact ih (by simpa [chainOk] using h.2)
    | cons p2 pre2 =>
      simp only [List.cons_append, chainOk, Bool.and_eq_true] at h
      exact ih (by simpa using h.2)

/-- **C11.** In every state reachable from a freshly constructed tree, for every deme and
every consecutive pair of generations `(G, G')` of its history — also inside a metaepoch of
several generations —, each individual of `G'` belonged to `G` (same genome and fitness) or was
evaluated while `G'` was being made (or carries the sentinel of a refused request). -/
theorem C11_chain {cfg : Cfg} {stks : List (List Problem.Wrapper)} {rootEnv : NewEnv} {t0 t : T}
    {evs : List Ev} (hi : init cfg stks rootEnv = .ok t0) (h : exec t0 evs = .ok t) :
    ∀ d ∈ t.demes, ∀ pre a b post, d.gens = pre ++ a :: b :: post →
      ∀ i ∈ b.inds, i ∈ a.inds ∨ i ∈ b.evald ∨
        (refusedIn t.cfg.maximize b.evald = true ∧ i.fit = Fit.sentinel t.cfg.maximize) := by
  have h0 : Chain t0 := by
    refine ⟨create_chain (by intro d hd; simp at hd) hi, ?_⟩
    intro q id done pending hpc
    have := (createDeme_effect hi).pc
    rw [this] at hpc; cases hpc
  have hc := exec_chain h0 h
  intro d hd pre a b post hg
  exact chainOk_pair _ pre a b post (hg ▸ hc.1 d hd)

end C11
