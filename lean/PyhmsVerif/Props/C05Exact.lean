import PyhmsVerif.Props.C05Run
import PyhmsVerif.Props.C06Step
import PyhmsVerif.Props.Witness
/-!
# C05 — the metaepoch counter when run() returns

For `MetaepochLimit(n)` the run returns with the counter equal to `n` exactly; for `DontRun`
with 0.  (The counter counts the metaepochs performed: `C05_metaepoch_count`.)
-/
namespace C05
open Tree

theorem finish_ne_done (q : List Id) : finish q ≠ .done := by
  unfold finish; split <;> simp

/-- a generation never ends the run -/
theorem stepGen_pc {t t' : T} {id : Id} {g : GenEnv} {l : Option Bool}
    (h : stepGen t id g l = .ok t') : t'.pc ≠ .done := by
  unfold stepGen at h
  split at h
  · simp at h
  · simp only [] at h
    split at h
    · simp at h
    · split at h
      · simp at h
      · obtain ⟨f, _, _, _, _, hcase⟩ := C06.finishGen_hist h
        rcases hcase with ⟨_, hr⟩ | ⟨_, hr⟩
        · rw [hr]; simp
        · rw [hr]; exact finish_ne_done _

/-- only the loop-head consult can end the run, and only with a true verdict -/
theorem done_only_by_true_consult {t t' : T} {ev : Ev} (h : step t ev = .ok t') (hd : t'.pc = .done) :
    ∃ ge, ev = .loop ge ∧ gscEval t ge t.cfg.gsc = some true ∧ t'.metaepoch = t.metaepoch := by
  cases ev with
  | loop ge =>
    obtain ⟨_, _, _, _, _, _, _, hc⟩ := stepLoop_effect h
    rcases hc with ⟨hm, _, _, hv⟩ | ⟨_, _, _, hv⟩
    · exact ⟨ge, rfl, hv, hm⟩
    · have := (C05_returns_iff_true h).mp hd
      rw [hv] at this; cases this
  | gen id g l => exact absurd hd (stepGen_pc h)
  | localRun id reqs its nfev =>
    obtain ⟨q, hq⟩ := stepLocal_pc h
    rw [hq] at hd; exact absurd hd (finish_ne_done q)
  | round ge renv news =>
    obtain ⟨_, _, _, hpc, _⟩ := stepRound_effect h
    rw [hpc] at hd; cases hd

theorem step_cfg {t t' : T} {ev : Ev} (h : step t ev = .ok t') : t'.cfg = t.cfg := by
  cases ev with
  | loop ge => exact (stepLoop_effect h).1
  | gen id g l => exact (stepGen_effect h).cfg
  | localRun id reqs its nfev => exact (stepLocal_effect h).cfg
  | round ge renv news => exact (stepRound_effect h).1

/-- the invariant for `MetaepochLimit(n)`: never more than `n` metaepochs are started, and a
finished run has performed at least `n` -/
def LimitInv (n : Nat) (t : T) : Prop := t.metaepoch ≤ n ∧ (t.pc = .done → t.metaepoch ≥ n)

theorem step_limitInv {n : Nat} {t t' : T} {ev : Ev} (hg : t.cfg.gsc = .metaepochLimit n)
    (hinv : LimitInv n t) (h : step t ev = .ok t') : LimitInv n t' := by
  have hm := C05_metaepoch_count h
  refine ⟨?_, ?_⟩
  · rw [hm]
    by_cases hs : startsMetaepoch t ev = true
    · -- a loop-head consult that came out false: fewer than n metaepochs so far
      rw [if_pos hs]
      cases ev with
      | loop ge =>
        simp only [startsMetaepoch, hg, gscEval] at hs
        have hv : decide (t.metaepoch ≥ n) = false := by simpa using hs
        simp only [decide_eq_false_iff_not] at hv
        omega
      | gen id g l => simp [startsMetaepoch] at hs
      | localRun id reqs its nfev => simp [startsMetaepoch] at hs
      | round ge renv news => simp [startsMetaepoch] at hs
    · rw [if_neg hs]; simpa using hinv.1
  · intro hd
    obtain ⟨ge, rfl, hv, hme⟩ := done_only_by_true_consult h hd
    rw [hg] at hv
    simp only [gscEval, Option.some.injEq, decide_eq_true_eq] at hv
    rw [hme]; exact hv

/-- **C05 — `MetaepochLimit(n)` performs exactly `n` metaepochs.**  For every run of a freshly
constructed tree whose global stop condition is `MetaepochLimit(n)`, whatever the engines,
the sprouting and the local stop conditions do: when `run()` returns the counter equals `n`. -/
theorem C05_metaepochLimit_exact {cfg : Cfg} {stks : List (List Problem.Wrapper)} {rootEnv : NewEnv}
    {t0 t : T} {evs : List Ev} {n : Nat} (hg : cfg.gsc = .metaepochLimit n)
    (hi : init cfg stks rootEnv = .ok t0) (h : exec t0 evs = .ok t) (hd : t.pc = .done) :
    t.metaepoch = n := by
  have ce := createDeme_effect hi
  have hcfg0 : t0.cfg.gsc = .metaepochLimit n := by rw [ce.cfg]; exact hg
  have hinv0 : LimitInv n t0 := by
    refine ⟨by rw [ce.metaepoch]; exact Nat.zero_le _, fun hpc => ?_⟩
    rw [ce.pc] at hpc; cases hpc
  clear hi ce
  have : LimitInv n t := by
    induction evs generalizing t0 with
    | nil => simp only [exec, Except.ok.injEq] at h; subst h; exact hinv0
    | cons e es ih =>
      simp only [exec, bind, Except.bind] at h
      split at h
      · simp at h
      · rename_i t1 h1
        exact ih h (by rw [step_cfg h1]; exact hcfg0) (step_limitInv hcfg0 hinv0 h1)
  exact Nat.le_antisymm this.1 (this.2 hd)

/-- **`DontRun`: no metaepoch is performed.** -/
theorem C05_dontRun_zero {cfg : Cfg} {stks : List (List Problem.Wrapper)} {rootEnv : NewEnv}
    {t0 t : T} {evs : List Ev} (hg : cfg.gsc = .dontRun)
    (hi : init cfg stks rootEnv = .ok t0) (h : exec t0 evs = .ok t) : t.metaepoch = 0 := by
  have ce := createDeme_effect hi
  have hcfg0 : t0.cfg.gsc = .dontRun := by rw [ce.cfg]; exact hg
  have hm0 : t0.metaepoch = 0 := ce.metaepoch
  clear hi ce
  induction evs generalizing t0 with
  | nil => simp only [exec, Except.ok.injEq] at h; subst h; exact hm0
  | cons e es ih =>
    simp only [exec, bind, Except.bind] at h
    split at h
    · simp at h
    · rename_i t1 h1
      refine ih h (by rw [step_cfg h1]; exact hcfg0) ?_
      rw [C05_metaepoch_count h1, hm0]
      cases e with
      | loop ge => simp [startsMetaepoch, hcfg0, gscEval]
      | gen id g l => simp [startsMetaepoch]
      | localRun id reqs its nfev => simp [startsMetaepoch]
      | round ge renv news => simp [startsMetaepoch]

/-- a stop condition caps the run at `n` metaepochs if a false verdict implies that fewer than `n`
have been performed -/
def Caps (n : Nat) (g : Gsc) : Prop := ∀ (t : T) (e : Option Bool), gscEval t e g = some false → t.metaepoch < n

theorem caps_metaepochLimit (n : Nat) : Caps n (.metaepochLimit n) := by
  intro t e h
  simp only [gscEval, Option.some.injEq, decide_eq_false_iff_not] at h
  omega

/-- `a or MetaepochLimit(n)` — any composite with a metaepoch limit (the harness caps every traced
run this way) -/
theorem caps_either_right {n : Nat} {a b : Gsc} (hb : Caps n b) : Caps n (.either a b) := by
  intro t e h
  simp only [gscEval] at h
  split at h
  · rename_i x y hx hy
    simp only [Option.some.injEq, Bool.or_eq_false_iff] at h
    exact hb t e (by rw [hy, h.2])
  · cases h

theorem caps_either_left {n : Nat} {a b : Gsc} (ha : Caps n a) : Caps n (.either a b) := by
  intro t e h
  simp only [gscEval] at h
  split at h
  · rename_i x y hx hy
    simp only [Option.some.injEq, Bool.or_eq_false_iff] at h
    exact ha t e (by rw [hx, h.1])
  · cases h

/-- **a capped run never starts more than `n` metaepochs** -/
theorem C05_capped {cfg : Cfg} {stks : List (List Problem.Wrapper)} {rootEnv : NewEnv}
    {t0 t : T} {evs : List Ev} {n : Nat} (hc : Caps n cfg.gsc)
    (hi : init cfg stks rootEnv = .ok t0) (h : exec t0 evs = .ok t) : t.metaepoch ≤ n := by
  have ce := createDeme_effect hi
  have hcfg0 : t0.cfg = cfg := ce.cfg
  have hm0 : t0.metaepoch ≤ n := by rw [ce.metaepoch]; exact Nat.zero_le _
  clear hi ce
  induction evs generalizing t0 with
  | nil => simp only [exec, Except.ok.injEq] at h; subst h; exact hm0
  | cons e es ih =>
    simp only [exec, bind, Except.bind] at h
    split at h
    · simp at h
    · rename_i t1 h1
      refine ih h (by rw [step_cfg h1]; exact hcfg0) ?_
      rw [C05_metaepoch_count h1]
      by_cases hs : startsMetaepoch t0 e = true
      · rw [if_pos hs]
        cases e with
        | loop ge =>
          simp only [startsMetaepoch] at hs
          have hv : gscEval t0 ge t0.cfg.gsc = some false := by simpa using hs
          rw [hcfg0] at hv
          have := hc t0 ge hv
          omega
        | gen id g l => simp [startsMetaepoch] at hs
        | localRun id reqs its nfev => simp [startsMetaepoch] at hs
        | round ge renv news => simp [startsMetaepoch] at hs
      · rw [if_neg hs]; simpa using hm0

end C05
