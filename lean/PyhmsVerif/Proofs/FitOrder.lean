import PyhmsVerif.Model.Select
import Mathlib.Algebra.Order.Ring.Rat
import Mathlib.Tactic.Linarith
/-! Order facts about `Fit` and the direction-aware comparisons. -/
namespace Fit

theorem lt_irrefl (a : Fit) : lt a a = false := by
  cases a <;> simp [lt]

theorem lt_trans {a b c : Fit} (h1 : lt a b = true) (h2 : lt b c = true) : lt a c = true := by
  cases a <;> cases b <;> cases c <;> simp_all [lt]
  exact _root_.lt_trans h1 h2

theorem lt_asymm {a b : Fit} (h : lt a b = true) : lt b a = false := by
  cases a <;> cases b <;> simp_all [lt]
  exact le_of_lt h

/-- totality: if neither is below the other they are equal -/
theorem eq_of_not_lt {a b : Fit} (h1 : lt a b = false) (h2 : lt b a = false) : a = b := by
  cases a <;> cases b <;> simp_all [lt]
  exact le_antisymm h2 h1

/-- `a ≤ b ≤ c` (as negated strict comparisons) -/
theorem not_lt_trans {a b c : Fit} (h1 : lt b a = false) (h2 : lt c b = false) : lt c a = false := by
  cases a <;> cases b <;> cases c <;> simp_all [lt]
  exact le_trans h1 h2

theorem lt_of_lt_of_not_lt {a b c : Fit} (h1 : lt a b = true) (h2 : lt c b = false) : lt a c = true := by
  cases a <;> cases b <;> cases c <;> simp_all [lt]
  exact lt_of_lt_of_le h1 h2

theorem lt_of_not_lt_of_lt {a b c : Fit} (h1 : lt b a = false) (h2 : lt b c = true) : lt a c = true := by
  cases a <;> cases b <;> cases c <;> simp_all [lt]
  exact lt_of_le_of_lt h1 h2

theorem neg_neg (a : Fit) : a.neg.neg = a := by cases a <;> simp [neg]

theorem lt_neg (a b : Fit) : lt a.neg b.neg = lt b a := by
  cases a <;> cases b <;> simp [lt, neg]

theorem worse_irrefl (mx : Bool) (a : Fit) : worse mx a a = false := by
  cases mx <;> simp [worse, lt_irrefl]

theorem worse_trans {mx : Bool} {a b c : Fit} (h1 : worse mx a b = true) (h2 : worse mx b c = true) :
    worse mx a c = true := by
  cases mx <;> simp_all [worse]
  · exact lt_trans h2 h1
  · exact lt_trans h1 h2

theorem not_worse_trans {mx : Bool} {a b c : Fit} (h1 : worse mx b a = false) (h2 : worse mx c b = false) :
    worse mx c a = false := by
  cases mx <;> simp_all [worse]
  · exact not_lt_trans h2 h1
  · exact not_lt_trans h1 h2

/-- mirror law (C13): comparing under maximisation is comparing the negated values under minimisation -/
theorem worse_mirror (a b : Fit) : worse true a b = worse false a.neg b.neg := by
  simp [worse, lt_neg]

/-- `x` worse than `t`, `a` not worse than `t`  ⇒  `x` worse than `a` -/
theorem worse_of_worse_of_not_worse {mx : Bool} {x a t : Fit} (h1 : worse mx x t = true)
    (h2 : worse mx a t = false) : worse mx x a = true := by
  cases mx <;> simp_all [worse]
  · exact lt_of_not_lt_of_lt h2 h1
  · exact lt_of_lt_of_not_lt h1 h2

theorem worse_asymm {mx : Bool} {a b : Fit} (h : worse mx a b = true) : worse mx b a = false := by
  cases mx <;> simp_all [worse] <;> exact lt_asymm h

end Fit
