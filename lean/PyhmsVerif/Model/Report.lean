import PyhmsVerif.Model.Tree
/-!
# M7 — reports (`DemeTree.summary`, `DemeTree.tree`, `utils/print_tree.py`) as a record

Only the structured content is modelled: the header counts, the per-level counts, and one
line per displayed deme (root + every deme that has run at least one metaepoch, reached
through displayed parents, depth first in `children` order) with the deme's class, its
evaluation counter and the `***` marker.  Number formatting is checked in Python.
-/
namespace Report
open Tree

structure Line where
  id : Id
  cls : String
  evals : Nat
  marker : Bool
deriving Repr, DecidableEq

/-- `***`: the deme's best fitness equals the tree's best fitness -/
def marker (t : T) (d : Deme) : Bool :=
  match Select.best t.cfg.maximize d.allInds, t.best with
  | some b, some tb => b.fit == tb.fit
  | _, _ => false

def lineOf (t : T) (d : Deme) : Line :=
  { id := d.id, cls := (match t.cfg.levels[d.level]? with | some lc => lc.cls | none => "?"),
    evals := d.counter, marker := marker t d }

/-- `format_deme_children_tree`: children that have not run yet are skipped with their subtree -/
def childLines (t : T) : Nat → Deme → List Line
  | 0, _ => []
  | fuel + 1, d => d.children.flatMap fun cid =>
    match t.find cid with
    | some c => if c.metaepochs ≥ 1 then lineOf t c :: childLines t fuel c else []
    | none => []

def lines (t : T) : List Line :=
  match t.find [] with
  | some root => lineOf t root :: childLines t t.height root
  | none => []

structure Summary where
  metaepoch : Nat
  evals : Nat
  demes : Nat
  /-- per level: (evaluations, number of demes); `none` = "No demes available." (no deme of
  the level has a best individual yet) -/
  perLevel : List (Option (Nat × Nat))
deriving Repr, DecidableEq

def summary (t : T) : Summary :=
  { metaepoch := t.metaepoch, evals := t.nEvals, demes := t.demes.length,
    perLevel := (List.range t.height).map fun l =>
      let ds := t.demes.filter (·.level == l)
      if ds.all (fun d => d.allInds.isEmpty) then none
      else some (t.levelEvals l, ds.length) }

end Report
