/-!
# Fitness values

A fitness is a finite double (exact rational) or one of the sentinels ±inf that the
evaluation-cutoff wrapper hands out.  NaN is excluded (hypothesis `NoNaN` of DESIGN.md:
`Problem.worse_than` on NaN uses `random.choice`, outside every property).
-/
inductive Fit
  | negInf
  | fin (q : Rat)
  | posInf
deriving DecidableEq, Repr

namespace Fit

/-- strict `<` on the extended line -/
def lt : Fit → Fit → Bool
  | negInf, negInf => false
  | negInf, _ => true
  | fin _, negInf => false
  | fin a, fin b => decide (a < b)
  | fin _, posInf => true
  | posInf, _ => false

def le (a b : Fit) : Bool := !(lt b a)

def neg : Fit → Fit
  | negInf => posInf
  | fin q => fin (-q)
  | posInf => negInf

/-- `FunctionProblem.worse_than(first, second)`: `first < second` when maximising,
`first > second` when minimising. -/
def worse (maximize : Bool) (a b : Fit) : Bool := if maximize then lt a b else lt b a

/-- strictly better, in the problem's direction -/
def better (maximize : Bool) (a b : Fit) : Bool := worse maximize b a

/-- the value an exhausted cutoff wrapper returns: the worst possible one -/
def sentinel (maximize : Bool) : Fit := if maximize then negInf else posInf

end Fit
