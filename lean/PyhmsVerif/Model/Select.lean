import PyhmsVerif.Model.Fit
/-!
# M3 — individuals and selection kernels

`pyhms/core/individual.py`, `pyhms/core/population.py` (`topk`, `merge`),
`single_pop_eas/sea.py` (`BaseSEA.select_new_population`, tournament),
`single_pop_eas/de.py` (DE / SHADE one-to-one replacement).

Where NumPy's `argsort` leaves the order of equal fitness values open, the model has a
*relation* (`topkOk`) that pins everything except that freedom, plus a reference
implementation (`topk`) that satisfies it.
-/

structure Ind where
  genome : List Rat
  fit : Fit
deriving DecidableEq, Repr

namespace Select

/-- `a < b` of `Individual` (`__lt__` = `problem.worse_than`) -/
def worse (mx : Bool) (a b : Ind) : Bool := Fit.worse mx a.fit b.fit
/-- `a > b` of `Individual` (total_ordering: not `<` and not `==`) -/
def better (mx : Bool) (a b : Ind) : Bool := Fit.worse mx b.fit a.fit

/-- Python's `max(inds)`: the first element that no later element beats strictly. -/
def best (mx : Bool) : List Ind → Option Ind
  | [] => none
  | a :: l => match best mx l with
    | none => some a
    | some b => if better mx b a then some b else some a

/-- insert into a list sorted ascending by raw fitness, after equal elements (stable) -/
def insertAsc (a : Ind) : List Ind → List Ind
  | [] => [a]
  | b :: l => if Fit.lt a.fit b.fit then a :: b :: l else b :: insertAsc a l

/-- stable sort, ascending raw fitness (`np.argsort(fitnesses)` on tie-free input) -/
def sortAsc : List Ind → List Ind
  | [] => []
  | a :: l => insertAsc a (sortAsc l)

/-- `Population.topk(k)`: `argsort[:k]` when minimising, `argsort[-k:]` when maximising -/
def topk (mx : Bool) (k : Nat) (pop : List Ind) : List Ind :=
  let s := sortAsc pop
  if mx then s.drop (s.length - k) else s.take k

def ascending : List Ind → Bool
  | [] => true
  | [_] => true
  | a :: b :: l => Fit.le a.fit b.fit && ascending (b :: l)

/-- remove the first occurrence -/
def removeOne (a : Ind) : List Ind → Option (List Ind)
  | [] => none
  | b :: l => if a = b then some l else (removeOne a l).map (b :: ·)

/-- multiset difference `pop − out`; `none` when `out ⊄ pop` -/
def msub : List Ind → List Ind → Option (List Ind)
  | pop, [] => some pop
  | pop, a :: out => (removeOne a pop).bind fun p => msub p out

/-- the relation every admissible `topk` result satisfies: right size, drawn from the
population (as a multiset), ascending in raw fitness, and no dropped individual strictly
better than a kept one. -/
def topkOk (mx : Bool) (k : Nat) (pop out : List Ind) : Bool :=
  out.length == min k pop.length && ascending out &&
  match msub pop out with
  | none => false
  | some dropped => dropped.all fun d => out.all fun o => !(better mx d o)

/-- `BaseSEA.select_new_population`: `offspring.merge(parents.topk(k_elites)).topk(n)` -/
def seaSelect (mx : Bool) (kElites : Nat) (parents offspring : List Ind) : List Ind :=
  topk mx parents.length (offspring ++ topk mx kElites parents)

/-- relational version: any admissible elites, any admissible final top-n -/
def seaOk (mx : Bool) (kElites : Nat) (parents offspring elites out : List Ind) : Bool :=
  topkOk mx kElites parents elites && topkOk mx parents.length (offspring ++ elites) out

/-- DE / SHADE: the trial replaces its parent iff it is not worse (`<=` / `>=`) -/
def trialWins (mx : Bool) (parent trial : Ind) : Bool := !(worse mx trial parent)

/-- `trial[idx].merge(parent[~idx])`: winning trials first, then surviving parents -/
def deSelect (mx : Bool) (parents trials : List Ind) : List Ind :=
  let pairs := parents.zip trials
  (pairs.filter (fun p => trialWins mx p.1 p.2)).map (·.2) ++
  (pairs.filter (fun p => !(trialWins mx p.1 p.2))).map (·.1)

/-- index-wise survivor (same multiset as `deSelect`, order of the population kept) -/
def deSurvivors (mx : Bool) (parents trials : List Ind) : List Ind :=
  (parents.zip trials).map fun p => if trialWins mx p.1 p.2 then p.2 else p.1

/-- tournament of size 2..: `argmin` / `argmax` returns the first best contestant -/
def tournamentWinner (mx : Bool) : List Ind → Option Ind
  | [] => none
  | a :: l => match tournamentWinner mx l with
    | none => some a
    | some b => if better mx b a then some b else some a

/-- mirror a population: maximise f  ↔  minimise −f -/
def negInd (a : Ind) : Ind := { a with fit := a.fit.neg }

/-- number of individuals at least as good as a threshold fitness -/
def countAtLeast (mx : Bool) (t : Fit) (l : List Ind) : Nat :=
  l.countP fun a => !(Fit.worse mx a.fit t)

end Select
