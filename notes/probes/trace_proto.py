import numpy as np, sys, warnings, functools
warnings.filterwarnings("ignore")
sys.path.insert(0,'/root/scratch')
from mon import *
import pyhms.tree as T
from pyhms.demes import initialize as I

EV=[]
def trace_run(cfg, maxsteps=6):
    cur=[None]
    for l,r in enumerate(cfg['recs']):
        orig=r.fn
        def f(x,orig=orig,l=l):
            v=orig(x); EV.append(("EVAL",l,cur[0],tuple(np.asarray(x).tolist()),v)); return v
        r.fn=f
    class G:
        def __init__(s,i): s.i=i
        def __call__(s,t):
            v=s.i(t); EV.append(("GSC",cur[0],v)); return v
    class L:
        def __init__(s,i): s.i=i
        def __call__(s,d):
            v=s.i(d); EV.append(("LSC",d.id,v)); return v
    for lc in cfg['levels']: lc.lsc=L(lc.lsc)
    orig_init=T.init_from_config
    def init(*a,**k):
        prev=cur[0]; cur[0]="init:"+k['new_id']
        d=orig_init(*a,**k); cur[0]=prev
        EV.append(("NEWDEME",d.id,d.level,d.started_at,type(d).__name__,len(d.current_population),d.n_evaluations))
        # patch run_metaepoch on instance
        rm=d.run_metaepoch
        def run_me(tree,d=d,rm=rm):
            cur[0]=d.id; EV.append(("BEGIN",d.id)); rm(tree); EV.append(("END",d.id,d.is_active,len(d._history[-1]),d.n_evaluations)); cur[0]=None
        d.run_metaepoch=run_me
        return d
    T.init_from_config=init
    sm=cfg['sm']; og=sm.get_seeds
    def gs(tree):
        EV.append(("SPROUT_BEGIN",)); r=og(tree); EV.append(("SPROUT_END",[(d.id,len(c.individuals)) for d,c in r.items()])); return r
    sm.get_seeds=gs
    try:
        t=DemeTree(TreeConfig(cfg['levels'],G(cfg['gsc']),sm,options={"random_seed":cfg['seed'],"hibernation":cfg['hib']}))
        k=0
        while not t._gsc(t) and k<maxsteps:
            EV.append(("STEP",k+1)); t.run_step(); k+=1
    finally:
        T.init_from_config=orig_init
    return t
rng=np.random.default_rng(int(sys.argv[1])); cfg=rand_cfg(rng); print(cfg['names'],cfg['gsc'],cfg['hib'])
t=trace_run(cfg)
# compress: print events but collapse EVAL runs
out=[];n=0
for e in EV:
    if e[0]=="EVAL": n+=1; continue
    if n: out.append(f"  EVAL x{n}"); n=0
    out.append(str(e))
print("\n".join(out[:90]))
