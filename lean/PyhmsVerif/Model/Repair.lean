import PyhmsVerif.Model.F64
/-!
# M1 — bound repair (`pyhms/demes/single_pop_eas/common.py: apply_bounds`)

One coordinate at a time (the NumPy code is element-wise).  `none` = an intermediate
result overflowed binary64 (NumPy would continue with ±inf / NaN; such boxes are outside
the domain of the theorems and of the correspondence generator).
-/
namespace Repair
open F64

inductive Method | clip | reflect | toroidal
deriving DecidableEq, Repr

/-- `np.clip(x, lo, hi)` = `minimum(maximum(x, lo), hi)`. -/
def clip (lo hi x : Rat) : Rat := min (max x lo) hi

def inBox (lo hi x : Rat) : Bool := decide (lo ≤ x) && decide (x ≤ hi)

/-- the reflect arithmetic of the code: `lower + reflected` before clipping -/
def reflectRaw (r : Rounding) (lo hi x : Rat) : Option Rat :=
  (r (hi - lo)).bind fun range =>
  (r (x - lo)).bind fun n =>
  (npFloorDiv r n range).bind fun flips =>
  (npMod r n range).bind fun md =>
  (npMod r flips 2).bind fun odd =>
  (if odd = 1 then r (range - md) else some md).bind fun refl =>
  r (lo + refl)

/-- the toroidal arithmetic of the code: `lower + (x - lower) % range` before clipping -/
def toroidalRaw (r : Rounding) (lo hi x : Rat) : Option Rat :=
  (r (hi - lo)).bind fun range =>
  (r (x - lo)).bind fun n =>
  (npMod r n range).bind fun md =>
  r (lo + md)

/-- `apply_bounds` on one coordinate.  Coordinates inside the box are returned
untouched; the others are repaired and the repaired value is clipped. -/
def repair (m : Method) (r : Rounding) (lo hi x : Rat) : Option Rat :=
  match m with
  | .clip => some (clip lo hi x)
  | .reflect =>
    (reflectRaw r lo hi x).map fun y => if inBox lo hi x then x else clip lo hi y
  | .toroidal =>
    (toroidalRaw r lo hi x).map fun y => if inBox lo hi x then x else clip lo hi y

/-- the affine map of LHS / Sobol: `lower + u * (upper - lower)` -/
def affine (r : Rounding) (lo hi u : Rat) : Option Rat :=
  (r (hi - lo)).bind fun range => (r (u * range)).bind fun p => r (lo + p)

end Repair
