import numpy as np, sys, warnings, hashlib
warnings.filterwarnings("ignore")
from pyhms import *
from pyhms.config import *
from pyhms.tree import DemeTree
from pyhms.sprout import *
from pyhms.sprout.sprout_mechanisms import SproutMechanism
from pyhms.sprout.sprout_generators import *
from pyhms.sprout.sprout_filters import *
import pyhms; print(pyhms.__file__)
def four(x, c=np.array([[-1,-1],[3,3],[-1,5],[4,0]],float)):
    return float(np.min(np.sum((np.asarray(x)-c)**2,axis=1)))
bounds=np.array([(-3.0,5.0),(-2.0,7.0)])
def build(maximize, kinds, seed, mech):
    sign=-1.0 if maximize else 1.0
    prob=FunctionProblem(lambda x: sign*four(x),bounds=bounds,maximize=maximize)
    lv=[]
    for i,k in enumerate(kinds):
        lsc=MetaepochLimit(4) if i>0 else DontStop()
        if k=="de": lv.append(DELevelConfig(generations=2,problem=prob,pop_size=12 if i==0 else 7,lsc=lsc,sample_std_dev=0.4))
        if k=="ded": lv.append(DELevelConfig(generations=2,problem=prob,pop_size=12 if i==0 else 7,lsc=lsc,dither=True,sample_std_dev=0.4))
        if k=="shade": lv.append(SHADELevelConfig(generations=2,problem=prob,pop_size=12 if i==0 else 7,memory_size=4,lsc=lsc,sample_std_dev=0.4))
        if k=="lhs": lv.append(LHSLevelConfig(problem=prob,pop_size=12,lsc=lsc))
        if k=="sobol": lv.append(SobolLevelConfig(problem=prob,pop_size=8,lsc=lsc))
        if k=="cma": lv.append(CMALevelConfig(generations=3,problem=prob,sigma0=None,lsc=lsc))
        if k=="local": lv.append(LocalOptimizationConfig(problem=prob,lsc=DontStop(),maxiter=5))
    sm=get_NBC_sprout(level_limit=2) if mech=="nbc" else get_simple_sprout(0.8,level_limit=2)
    return DemeTree(TreeConfig(lv,MetaepochLimit(7),sm,options={"random_seed":seed}))
def sig(t,sign):
    out=[]
    for l,d in t.all_demes:
        out.append((d.id,l,d.started_at,d.is_active,d.n_evaluations,[[ [ (tuple(i.genome), sign*i.fitness) for i in g] for g in me] for me in d._history]))
    return out
bad=0;tot=0
for kinds in [["de","de"],["ded","shade"],["shade","cma"],["lhs","de","cma"],["sobol","shade","local"],["de","cma","local"],["shade","shade"]]:
    for mech in ["nbc","simple"]:
        for seed in [1,2,3]:
            a=sig(build(False,kinds,seed,mech).__class__.run and (lambda t:(t.run(),t)[1])(build(False,kinds,seed,mech)),1.0)
            b=sig((lambda t:(t.run(),t)[1])(build(True,kinds,seed,mech)),-1.0)
            tot+=1
            if a!=b: bad+=1; print("MIRROR DIFF",kinds,mech,seed,len(a),len(b))
print(bad,tot)

def first_diff(kinds,mech,seed):
    ta=build(False,kinds,seed,mech); ta.run(); tb=build(True,kinds,seed,mech); tb.run()
    a=sig(ta,1.0); b=sig(tb,-1.0)
    for da,db in zip(a,b):
        if da[:5]!=db[:5]: return ("meta",da[:5],db[:5])
        for mi,(ma,mb) in enumerate(zip(da[5],db[5])):
            for gi,(ga,gb) in enumerate(zip(ma,mb)):
                if ga!=gb:
                    for ii,(x,y) in enumerate(zip(ga,gb)):
                        if x!=y: return (da[0],"me",mi,"gen",gi,"ind",ii,x,y)
                    return (da[0],"len",len(ga),len(gb))
    return ("count",len(a),len(b))
print("----")
for kinds,mech,seed in [(["de","de"],"nbc",1),(["ded","shade"],"nbc",1),(["shade","cma"],"nbc",1),(["lhs","de","cma"],"nbc",1),(["sobol","shade","local"],"simple",1),(["de","cma","local"],"simple",2),(["shade","shade"],"simple",1)]:
    print(kinds,mech,seed,first_diff(kinds,mech,seed))
