import PyhmsVerif.Props.C20Lines
import PyhmsVerif.Props.C07Ran
import PyhmsVerif.Props.C13R5S
/-!
# C20 at run level: the rendered tree shows every deme that has run

`C20.lines_complete` needs that the ancestors of a deme have run.  In reachable states they
always have (`C07.C07_ancestors_ran`: a deme that lists a child has run), so the hypothesis
disappears for whole runs.
-/
namespace C20
open Tree Report

/-- **C20 — whole runs: one line for every deme that has run.**  In every state reachable
from a freshly constructed tree the rendered tree starts with the root's line and contains
the line of every non-root deme that has run at least one metaepoch. -/
theorem C20_lines_complete_run {cfg : Cfg} {stks : List (List Problem.Wrapper)} {rootEnv : NewEnv} {t0 t : T}
    {evs : List Ev} (hi : init cfg stks rootEnv = .ok t0) (h : exec t0 evs = .ok t)
    (d : Deme) (hd : d ∈ t.demes) (hne : d.id ≠ []) (hran : d.metaepochs ≥ 1) :
    lineOf t d ∈ lines t := by
  have hg := C07.exec_ranGood (C07.init_ranGood hi) h
  obtain ⟨root, hroot, hrid⟩ := C07.ancestor_exists hg.child d.id.length d [] d.id hd (by simp) rfl
  refine lines_complete t hg.wf hg.child root hroot hrid d hd hne ?_
  intro a ha hpre _
  by_cases hid : a.id = d.id
  · have : a = d := List.inj_on_of_nodup_map hg.wf.nodup ha hd hid
    rw [this]; exact hran
  · exact C07.C07_ancestors_ran hi h a ha d hd hpre hid

end C20
