import PyhmsVerif.Props.C16
import PyhmsVerif.Props.C07
import PyhmsVerif.Props.C08
/-!
# C16 / C03 at run level — wrapper stacks of a running tree behave like `runStack`

`Traced`: in every reachable state, for every wrapper stack `s` of the configuration there is a
sequence of objective values `vs` (the values the objective would have returned to the requests
issued so far through `s`, in order) such that the stack's current state is exactly what
`Problem.runStack` produces from the initial stack on `vs`, and the number of objective
invocations logged for levels that use `s` is the number of invocations in that trace.
Every wrapper-level law of C16 (`cutoff_hard`, `head_law`, `precision_sticky`, …) therefore
holds of the stacks of a running tree; `C16_cutoff_hard_run` spells out the hard budget.
-/
namespace C16
open Tree Problem

def usesStack (cfg : Cfg) (s : Nat) (lvl : Nat) : Bool :=
  match cfg.levels[lvl]? with
  | some lc => lc.stack == s
  | none => false

/-- objective invocations made through stack `s` so far -/
def stackLog (t : T) (s : Nat) : List Inv := t.log.filter fun i => usesStack t.cfg s i.level

def Traced (stks0 : List (List Wrapper)) (t : T) : Prop :=
  ∀ s, ∃ vs, (runStack t.cfg.maximize (stks0.getD s []) vs).1 = t.stacks.getD s [] ∧
    invocations (runStack t.cfg.maximize (stks0.getD s []) vs).2 = (stackLog t s).length

theorem runStack_snoc (mx : Bool) (ws : List Wrapper) (vs : List Fit) (v : Fit) :
    runStack mx ws (vs ++ [v]) =
      ((evalStack mx (runStack mx ws vs).1 v).1,
       (runStack mx ws vs).2 ++ [((evalStack mx (runStack mx ws vs).1 v).2.1, (evalStack mx (runStack mx ws vs).1 v).2.2)]) := by
  induction vs generalizing ws with
  | nil => simp [runStack]
  | cons a l ih => simp only [List.cons_append, runStack, ih, List.cons_append]

theorem invocations_snoc (outs : List (Fit × Bool)) (r : Fit) (b : Bool) :
    invocations (outs ++ [(r, b)]) = invocations outs + (if b then 1 else 0) := by
  unfold invocations
  cases b <;> simp [List.filter_append]

/-- what one request does to the wrapper stacks and to the log -/
theorem evalReq_stacks_log {t t' : T} {id : Id} {lvl : Nat} {counts : Bool} {r : Req} {i : Ind}
    (h : evalReq t id lvl counts r = .ok (t', i)) :
    ∃ lc, t.cfg.levels[lvl]? = some lc ∧ t'.cfg = t.cfg ∧
      t'.stacks = t.stacks.set lc.stack (evalStack t.cfg.maximize (t.stacks.getD lc.stack []) (r.v.getD (Fit.sentinel t.cfg.maximize))).1 ∧
      t'.log = t.log ++ (if (evalStack t.cfg.maximize (t.stacks.getD lc.stack []) (r.v.getD (Fit.sentinel t.cfg.maximize))).2.2
        then [⟨lvl, id, r.x, (evalStack t.cfg.maximize (t.stacks.getD lc.stack []) (r.v.getD (Fit.sentinel t.cfg.maximize))).2.1⟩] else []) := by
  unfold evalReq at h
  split at h
  · simp at h
  · rename_i lc hlc
    refine ⟨lc, hlc, ?_⟩
    split at h
    · simp at h
    · generalize evalStack t.cfg.maximize (t.stacks.getD lc.stack []) (r.v.getD (Fit.sentinel t.cfg.maximize)) = res at h ⊢
      unfold evalReqCore at h
      split at h
      · simp at h
      · simp only [Except.ok.injEq, Prod.mk.injEq] at h
        obtain ⟨rfl, _⟩ := h
        obtain ⟨ws, v, b⟩ := res
        cases b <;> cases counts <;> simp [T.update]

theorem stackLog_append (cfg : Cfg) (s : Nat) (l1 l2 : List Inv) :
    (List.filter (fun i => usesStack cfg s i.level) (l1 ++ l2)).length =
      (List.filter (fun i => usesStack cfg s i.level) l1).length + (List.filter (fun i => usesStack cfg s i.level) l2).length := by
  simp [List.filter_append]

theorem evalReq_traced {stks0 : List (List Wrapper)} {t t' : T} {id : Id} {lvl : Nat} {counts : Bool} {r : Req} {i : Ind}
    (ht : Traced stks0 t) (h : evalReq t id lvl counts r = .ok (t', i)) : Traced stks0 t' := by
  obtain ⟨lc, hlc, hcfg, hst, hlog⟩ := evalReq_stacks_log h
  generalize hres : evalStack t.cfg.maximize (t.stacks.getD lc.stack []) (r.v.getD (Fit.sentinel t.cfg.maximize)) = res at hst hlog
  intro s
  obtain ⟨vs, hvs, hinv⟩ := ht s
  have huse : usesStack t.cfg s lvl = (lc.stack == s) := by simp [usesStack, hlc]
  by_cases hs : lc.stack = s
  · subst hs
    refine ⟨vs ++ [r.v.getD (Fit.sentinel t.cfg.maximize)], ?_, ?_⟩
    · rw [hcfg, runStack_snoc, hvs, hres, hst]
      by_cases hlen : lc.stack < t.stacks.length
      · exact (C07.getD_set_same _ _ _ _ hlen).symm
      · -- index out of range: nothing is stored, and the empty stack stays empty
        have hnil : t.stacks.getD lc.stack [] = [] := by
          simp [List.getD, List.getElem?_eq_none (by omega : t.stacks.length ≤ lc.stack)]
        have hset : t.stacks.set lc.stack res.1 = t.stacks := List.set_eq_of_length_le (by omega)
        rw [hset, hnil]
        rw [hnil] at hres
        simp only [evalStack] at hres
        rw [← hres]
    · rw [hcfg, runStack_snoc, hvs, hres, invocations_snoc, hinv]
      simp only [stackLog, hcfg, hlog, List.filter_append, List.length_append]
      congr 1
      cases res.2.2 <;> simp [huse]
  · refine ⟨vs, ?_, ?_⟩
    · rw [hcfg, hvs, hst, C07.getD_set_ne _ _ _ _ _ hs]
    · rw [hcfg, hinv]
      simp only [stackLog, hcfg, hlog, List.filter_append, List.length_append]
      have : (lc.stack == s) = false := by simpa using hs
      cases res.2.2 <;> simp [huse, this]


theorem traced_congr {stks0 : List (List Wrapper)} {t t' : T} (hc : t'.cfg = t.cfg) (hs : t'.stacks = t.stacks)
    (hl : t'.log = t.log) (ht : Traced stks0 t) : Traced stks0 t' := by
  intro s
  obtain ⟨vs, h1, h2⟩ := ht s
  exact ⟨vs, by rw [hc, hs]; exact h1, by simp only [stackLog, hc, hl] at h2 ⊢; exact h2⟩

theorem evalReqs_traced {stks0 : List (List Wrapper)} {id : Id} {lvl : Nat} {counts : Bool} {rs : List Req} :
    ∀ {t t' : T} {is : List Ind}, Traced stks0 t → evalReqs t id lvl counts rs = .ok (t', is) → Traced stks0 t' := by
  induction rs with
  | nil =>
    intro t t' is ht h
    simp only [evalReqs, Except.ok.injEq, Prod.mk.injEq] at h
    obtain ⟨rfl, _⟩ := h
    exact ht
  | cons r rs ih =>
    intro t t' is ht h
    simp only [evalReqs, bind, Except.bind] at h
    split at h
    · simp at h
    · rename_i p hp
      obtain ⟨t1, i1⟩ := p
      split at h
      · simp at h
      · rename_i q hq
        obtain ⟨t2, is2⟩ := q
        simp only [pure, Except.pure, Except.ok.injEq, Prod.mk.injEq] at h
        obtain ⟨rfl, _⟩ := h
        exact ih (evalReq_traced ht hp) hq

theorem createDeme_traced {stks0 : List (List Wrapper)} {t t' : T} {parent : Option Deme} {seed : Option Ind} {env : NewEnv}
    (ht : Traced stks0 t) (h : createDeme t parent seed env = .ok t') : Traced stks0 t' := by
  unfold createDeme at h
  simp only [] at h
  split at h
  · simp at h
  · split at h
    · simp at h
    · rename_i t1 ev0 hev
      split at h
      · simp at h
      · simp only [Except.ok.injEq] at h
        subst h
        exact traced_congr (t := t1) rfl rfl rfl (evalReqs_traced ht hev)

theorem doSprout_traced {stks0 : List (List Wrapper)} {t t' : T} {flat : List (Id × Ind)} {news : List NewEnv}
    (ht : Traced stks0 t) (h : doSprout t flat news = .ok t') : Traced stks0 t' := by
  induction flat generalizing t news with
  | nil =>
    cases news with
    | nil => simp only [doSprout, Except.ok.injEq] at h; subst h; exact ht
    | cons e es => simp [doSprout] at h
  | cons ps rest ih =>
    obtain ⟨pid, s⟩ := ps
    cases news with
    | nil => simp [doSprout] at h
    | cons e es =>
      simp only [doSprout] at h
      split at h
      · simp at h
      · split at h
        · simp at h
        · rename_i t1 hc
          exact ih (createDeme_traced ht hc) h

/-- **the trace invariant is inductive** -/
theorem step_traced {stks0 : List (List Wrapper)} {t t' : T} {ev : Ev} (ht : Traced stks0 t)
    (h : step t ev = .ok t') : Traced stks0 t' := by
  cases ev with
  | loop ge =>
    obtain ⟨hc, _, _, hl, _, hst, _⟩ := stepLoop_effect h
    exact traced_congr hc hst hl ht
  | gen id g l =>
    simp only [step] at h
    unfold stepGen at h
    split at h
    · simp at h
    · simp only [] at h
      split at h
      · simp at h
      · rename_i t1 ev hev
        split at h
        · simp at h
        · obtain ⟨_, _, _, hc, _, _, hl, _, hst, _⟩ := finishGen_demes h
          exact traced_congr hc hst hl (evalReqs_traced ht hev)
  | localRun id reqs its nfev =>
    simp only [step] at h
    unfold stepLocal at h
    split at h
    · split at h
      · simp at h
      · split at h
        · simp at h
        · split at h
          · simp at h
          · split at h
            · simp at h
            · split at h
              · simp at h
              · split at h
                · simp at h
                · rename_i t1 ev hev
                  split at h
                  · simp at h
                  · simp only [] at h
                    split at h
                    · simp at h
                    · simp only [Except.ok.injEq] at h
                      subst h
                      exact traced_congr (t := t1) rfl rfl rfl (evalReqs_traced ht hev)
    · simp at h
  | round ge renv news =>
    simp only [step] at h
    unfold stepRound at h
    split at h
    · split at h
      · simp at h
      · split at h
        · simp only [Except.ok.injEq] at h
          subst h
          exact traced_congr (t := t) rfl rfl rfl ht
        · simp at h
      · split at h
        · simp at h
        · split at h
          · simp at h
          · simp only [] at h
            split at h
            · simp at h
            · rename_i t1 hds
              simp only [Except.ok.injEq] at h
              subst h
              have h1 := doSprout_traced ht hds
              refine traced_congr (t := t1) ?_ ?_ ?_ h1
              · show (updateHibernation t1 _).cfg = t1.cfg
                unfold updateHibernation; split <;> rfl
              · show (updateHibernation t1 _).stacks = t1.stacks
                unfold updateHibernation; split <;> rfl
              · show (updateHibernation t1 _).log = t1.log
                unfold updateHibernation; split <;> rfl
    · simp at h

theorem exec_traced {stks0 : List (List Wrapper)} {t t' : T} {evs : List Ev} (ht : Traced stks0 t)
    (h : exec t evs = .ok t') : Traced stks0 t' := by
  induction evs generalizing t with
  | nil => simp only [exec, Except.ok.injEq] at h; subst h; exact ht
  | cons e es ih =>
    simp only [exec, bind, Except.bind] at h
    split at h
    · simp at h
    · rename_i t1 h1
      exact ih (step_traced ht h1) h

theorem init_traced {cfg : Cfg} {stks : List (List Wrapper)} {rootEnv : NewEnv} {t0 : T}
    (hi : init cfg stks rootEnv = .ok t0) : Traced stks t0 := by
  unfold init at hi
  refine createDeme_traced ?_ hi
  intro s
  exact ⟨[], rfl, by simp [runStack, invocations, stackLog]⟩

/-- **C16 at run level.**  In every state reachable from a freshly constructed tree, every
wrapper stack is in the state `runStack` computes from the initial stack on the sequence of
objective values requested through it so far, and the invocations logged for the levels that
use the stack are exactly the invocations of that trace. -/
theorem C16_run {cfg : Cfg} {stks : List (List Wrapper)} {rootEnv : NewEnv} {t0 t : T} {evs : List Ev}
    (hi : init cfg stks rootEnv = .ok t0) (h : exec t0 evs = .ok t) : Traced stks t :=
  exec_traced (init_traced hi) h

/-- **An evaluation cutoff is hard for whole runs** (C03 / C16): whatever the engines request and
however long the run continues, the objective is invoked at most `c − n` times through a stack
that contains a cutoff wrapper `cutoff n c` — at any position in the stack. -/
theorem C16_cutoff_hard_run {cfg : Cfg} {stks : List (List Wrapper)} {rootEnv : NewEnv} {t0 t : T} {evs : List Ev}
    (hi : init cfg stks rootEnv = .ok t0) (h : exec t0 evs = .ok t)
    (s n c : Nat) (hmem : Wrapper.cutoff n c ∈ stks.getD s []) : (stackLog t s).length ≤ c - n := by
  obtain ⟨vs, _, hinv⟩ := C16_run hi h s
  rw [← hinv]
  exact cutoff_hard t.cfg.maximize (stks.getD s []) vs n c hmem

end C16
