import PyhmsVerif.Props.C01
import PyhmsVerif.Props.C02Log
/-!
# C01 — stored genomes lie inside the box
-/
namespace C01
open Tree

/-- **C01 — stored genomes.**  In every state reachable from a freshly constructed tree, every
individual stored in any generation of any deme that was obtained from the objective lies
inside the box of its deme's level; the only other stored individuals are carriers of the
sentinel of a refused request (their point was never handed to the objective) and a local
deme's starting point, which is its sprout seed — itself a stored individual of the parent. -/
theorem C01_stored_in_box {cfg : Cfg} {stks : List (List Problem.Wrapper)} {rootEnv : NewEnv} {t0 t : T}
    {evs : List Ev} (hi : init cfg stks rootEnv = .ok t0) (h : exec t0 evs = .ok t) :
    ∀ d ∈ t.demes, ∀ G ∈ d.gens, ∀ i ∈ G.inds,
      (∃ lc, t.cfg.levels[d.level]? = some lc ∧ inBox lc.box i.genome = true) ∨
      i.fit = Fit.sentinel t.cfg.maximize ∨ d.seed = some i := by
  have hbox := C01_run hi h
  intro d hd G hG i hi'
  rcases C02.C02_stored_is_objective_value hi h d hd G hG i hi' with ⟨inv, hinv, _, hlv, hx, _⟩ | hs | hseed
  · obtain ⟨lc, hlc, hb⟩ := hbox inv hinv
    exact Or.inl ⟨lc, by rw [← hlv]; exact hlc, by rw [← hx]; exact hb⟩
  · exact Or.inr (Or.inl hs)
  · exact Or.inr (Or.inr hseed)

end C01
