"""C11 — Each generation is bred from the generation immediately before it

Theorems: lean/PyhmsVerif/Props/C11.lean (about the tree model lean/PyhmsVerif/Model/Tree.lean).
Tie to /repo: trace refinement — real runs are re-executed by `Tree.step`, state dumps and
sprout-stage outputs are diffed (harness/refine.py); only disagreements that bear on this
property count.  Direct monitor of the property on the same kind of runs (harness/monitors.py).
"""
from .. import refine, runs

MODULE = "PyhmsVerif.Props.C11"
THEOREMS = ['C11.C11_chain', 'C11.step_chain', 'C11.gen_chain', 'C11.local_chain', 'C11.chainOk_pair', 'C11.genOk_member', 'EngineDE.deGen_next_mem', 'EngineDE.deGen_size']
EXTRA_MODULES = ['PyhmsVerif.Props.EngineDE']
LEVEL = 'proof'
LEVEL_TEXT = 'Theorem C11_chain: in every reachable state, for every deme and every consecutive pair of generations (G, G-prime) of its flattened history — also inside a metaepoch of several generations — each individual of G-prime belonged to G (same genome and fitness) or was evaluated while G-prime was being made (or carries the sentinel of a refused request). Inductive over all event sequences; the pending generations of the metaepoch in progress are part of the invariant. Tie: trace refinement re-checks genOk on every real generation with the parents the model threaded (finding D2 is rejected at the first non-chaining generation) + direct monitor joining histories with the time-stamped call log. ENGINE LEVEL (Model/Engine.lean, Props/EngineDE.lean): one whole generation of DE.run / SHADE.run is in the model, deterministic given the generator draws (donor arithmetic in binary64, reflect repair, crossover mask incl. the row-zeroing quirk, fitness carry-over, which rows are evaluated, replacement), and is diffed bit-exactly against the real engines with recorded draws: deGen_next_mem — every individual of the new generation is its row parent or its row trial, and every trial is computed from the parent generation only.'
LEVEL_NOTE = 'Trusted: Lean kernel + standard axioms; the hand-written tree model is tied to the code by trace refinement on sampled runs (the model refuses a generation that does not chain, a stored individual that was never evaluated, an iterate scipy never evaluated); numerical engines and objective values are environment; monitors trusted as failing-input search. The ghost list evald (requests issued while a generation was made) is part of the model state; the tracer attributes objective calls to generations by the GSC consults between them.'
TECHNIQUE = "trace refinement against the Lean tree model (Tree.step re-executes real runs) + direct monitors"
RULE = "case = one traced run of a random configuration (1-3 levels, engine per level from the full list, every shipped GSC/LSC kind plus user-defined ones, both stock sprout mechanisms and user-composed chains, hibernation on/off, both directions, decimal boxes, optional cutoff/precision/stats wrappers, shared or per-level problems); non-trivial = run with >= 2 demes and >= 2 metaepochs; distinct by configuration hash"
ASSUMPTIONS = ["objective is deterministic and never returns NaN", "runs are capped at 12 metaepochs by a user-level composite stop condition"]
FORCE = None
PID = "C11"


def run(ctx):
    from .. import engine

    return [
        refine.refine_batch(ctx, ctx.size(120, 1500), force=FORCE, pid=PID, name="trace-refinement(Tree.step vs DemeTree.run)"),
        runs.monitor_batch(ctx, PID, ctx.size(250, 3000), force=FORCE),
        _contracted(ctx),
        engine.slice_engine(ctx, ctx.rng(81), ctx.size(250, 3000), only="C11/"),
    ]


def _contracted(ctx):
    """engine-level generations on contracted populations (what a deme looks like after ~100 generations):
    every individual handed back is an individual of the preceding generation or was evaluated while this
    generation was made"""
    from . import c02

    sl = c02.slice_contracted(ctx, ctx.rng(33), ctx.size(300, 4000), only="C11/")
    sl.name = "engine-runs-on-contracted-populations(each individual from the preceding generation or freshly evaluated)"
    return sl


def search(ctx, broken):
    return runs.monitor_batch(ctx, PID, 500, salt=97, force=FORCE).violations


def replay(data):
    spec = data["violation"]["replay"]["spec"]
    _, res = runs.monitored_run(spec, {PID})
    for v in res.get(PID, []):
        print(v["signature"], v["detail"])
    return not res.get(PID)
