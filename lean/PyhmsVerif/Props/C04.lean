import PyhmsVerif.Proofs.TreeSteps
import PyhmsVerif.Proofs.SelectLemmas
/-!
# C04 — the reported best is the true best of everything kept, and never gets worse

`T.best` is `tree.best_individual` (max over the demes' whole-history bests), `Select.best`
on a deme's `allInds` is `deme.best_individual`.  Both directions (`cfg.maximize`).
-/
namespace C04
open Tree Select

theorem mem_levelMajor {t : T} {d : Deme} : d ∈ t.levelMajor ↔ d ∈ t.demes ∧ d.level < t.height := by
  simp only [T.levelMajor, List.mem_flatMap, List.mem_range, List.mem_filter, beq_iff_eq]
  constructor
  · rintro ⟨k, hk, hd, rfl⟩; exact ⟨hd, hk⟩
  · rintro ⟨hd, hl⟩; exact ⟨d.level, hl, hd, rfl⟩

/-- **The tree's best is one of the stored individuals.** -/
theorem tree_best_mem {t : T} {b : Ind} (h : t.best = some b) : ∃ d ∈ t.levelMajor, b ∈ d.allInds := by
  have hm := best_mem h
  simp only [List.mem_filterMap] at hm
  obtain ⟨d, hd, hb⟩ := hm
  exact ⟨d, hd, best_mem hb⟩

/-- **The tree's best is at least as good as every individual in every deme's history.** -/
theorem tree_best_ge_all {t : T} {b : Ind} (h : t.best = some b) :
    ∀ d ∈ t.levelMajor, ∀ i ∈ d.allInds, better t.cfg.maximize i b = false := by
  intro d hd i hi
  have hne : d.allInds ≠ [] := List.ne_nil_of_mem hi
  obtain ⟨bd, hbd⟩ := Option.isSome_iff_exists.mp (best_isSome_of_ne_nil (mx := t.cfg.maximize) hne)
  have h1 := best_not_worse hbd i hi
  have h2 := best_not_worse h bd (by simp only [List.mem_filterMap]; exact ⟨d, hd, hbd⟩)
  exact better_trans_weak h1 h2

/-- each deme's best is a member of, and at least as good as everything in, its own history -/
theorem deme_best {mx : Bool} {d : Deme} {b : Ind} (h : best mx d.allInds = some b) :
    b ∈ d.allInds ∧ ∀ i ∈ d.allInds, better mx i b = false :=
  ⟨best_mem h, best_not_worse h⟩

theorem allInds_mono {d d' : Deme} (h : DemeStep d d') : ∀ i ∈ d.allInds, i ∈ d'.allInds := by
  obtain ⟨ext, he⟩ := h.histGrows
  intro i hi
  simp only [Deme.allInds, Deme.gens, he, List.flatten_append, List.flatMap_append, List.mem_append]
  exact Or.inl hi

/-- **The reported best never gets worse**: along any accepted event sequence the later
tree's best is at least as good as the earlier tree's best. -/
theorem best_never_worse {t t' : T} {evs : List Ev} {b b' : Ind} (hc : t'.cfg = t.cfg)
    (h : exec t evs = .ok t') (hb : t.best = some b) (hb' : t'.best = some b') :
    better t.cfg.maximize b b' = false := by
  obtain ⟨d, hd, hbd⟩ := tree_best_mem hb
  obtain ⟨old, new, hdm, hf⟩ := exec_ext h
  obtain ⟨hdm0, hlv⟩ := mem_levelMajor.mp hd
  obtain ⟨d', hd', hr⟩ := forall2_mem_left hf d hdm0
  have hin : d' ∈ t'.levelMajor := by
    rw [mem_levelMajor]
    refine ⟨by rw [hdm]; exact List.mem_append_left _ hd', ?_⟩
    rw [hr.level]; simpa [T.height, hc] using hlv
  have := tree_best_ge_all hb' d' hin b (allInds_mono hr b hbd)
  rwa [hc] at this

end C04
