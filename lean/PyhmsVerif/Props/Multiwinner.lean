import PyhmsVerif.Model.Multiwinner
import PyhmsVerif.Proofs.SelectLemmas
import Mathlib.Tactic.Linarith
/-!
# MWEA's multiwinner selection (`Model/Multiwinner.lean`)

For every population, every election group, all preference lists and shuffles:

* `repeated_mem` — every individual the selection hands on is an individual of the population it
  was given, genome and fitness together (C02 / C11: the operator never invents or relabels);
* `ccGreedy_nodup` — no group member is elected twice in one election;
* `repeated_length`, `mwea_size` — `n // k + 1` elections of `k` winners each give at least `n`
  individuals, so after the `topk(n)` cut the population has exactly its old size (C12).
-/
namespace MWProps
open MW Select

theorem ccScan_spec (prefs : List (List Nat)) (n : Nat) (winners : List Nat) :
    ∀ (order : List Nat) (best res : Option (Nat × Nat)),
      ccScan prefs n winners order best = res →
      (∀ b, best = some b → b.2 ∉ winners) → ∀ r, res = some r → r.2 ∉ winners
  | [], best, res, h, hb => by
    simp only [ccScan] at h
    subst h
    exact hb
  | c :: rest, best, res, h, hb => by
    unfold ccScan at h
    by_cases hc : winners.contains c = true
    · simp only [hc, ↓reduceIte] at h
      exact ccScan_spec prefs n winners rest best res h hb
    · simp only [hc, Bool.false_eq_true, ↓reduceIte] at h
      have hcn : c ∉ winners := by simpa using hc
      cases best with
      | none =>
        simp only at h
        exact ccScan_spec prefs n winners rest _ res h (by intro b hb'; simp only [Option.some.injEq] at hb'; subst hb'; exact hcn)
      | some b =>
        obtain ⟨bs, bc⟩ := b
        simp only at h
        split at h
        · exact ccScan_spec prefs n winners rest _ res h (by intro b hb'; simp only [Option.some.injEq] at hb'; subst hb'; exact hcn)
        · exact ccScan_spec prefs n winners rest _ res h hb

/-- a round elects nobody twice -/
theorem ccGreedy_nodup (prefs : List (List Nat)) (n : Nat) :
    ∀ (orders : List (List Nat)) (winners res : List Nat), ccGreedy prefs n orders winners = some res →
      winners.Nodup → res.Nodup ∧ res.length = winners.length + orders.length
  | [], winners, res, h, hn => by
    simp only [ccGreedy, Option.some.injEq] at h
    subst h
    exact ⟨hn, by simp⟩
  | order :: more, winners, res, h, hn => by
    unfold ccGreedy at h
    cases hs : ccScan prefs n winners order none with
    | none => simp [hs] at h
    | some r =>
      obtain ⟨s, c⟩ := r
      simp only [hs] at h
      have hc : c ∉ winners := ccScan_spec prefs n winners order none _ hs (by intro b hb; simp at hb) (s, c) rfl
      obtain ⟨a, b⟩ := ccGreedy_nodup prefs n more (winners ++ [c]) res h
        (by rw [List.nodup_append]; exact ⟨hn, by simp, by intro x hx y hy; simp only [List.mem_singleton] at hy; subst hy; intro e; subst e; exact hc hx⟩)
      exact ⟨a, by rw [b]; simp; omega⟩

theorem mapM_mem {α β : Type} (f : α → Option β) : ∀ (l : List α) (out : List β), l.mapM f = some out →
    out.length = l.length ∧ ∀ y ∈ out, ∃ x ∈ l, f x = some y
  | [], out, h => by
    simp only [List.mapM_nil, Option.pure_def, Option.some.injEq] at h
    subst h; simp
  | a :: l, out, h => by
    simp only [List.mapM_cons, Option.pure_def, Option.bind_eq_bind, Option.bind_eq_some_iff, Option.some.injEq] at h
    obtain ⟨b, hb, bs, hbs, rfl⟩ := h
    obtain ⟨hl, hm⟩ := mapM_mem f l bs hbs
    refine ⟨by simp [hl], ?_⟩
    intro y hy
    simp only [List.mem_cons] at hy
    rcases hy with rfl | hy
    · exact ⟨a, by simp, hb⟩
    · obtain ⟨x, hx, hfx⟩ := hm y hy
      exact ⟨x, by simp [hx], hfx⟩

/-- one election hands on individuals of the population, as many as there were shuffles -/
theorem elect_spec (pop : List Ind) (g : Nat) (e : Election) (out : List Ind) (h : elect pop g e = some out) :
    out.length = e.orders.length ∧ ∀ x ∈ out, x ∈ pop := by
  unfold elect at h
  simp only [Option.bind_eq_some_iff] at h
  obtain ⟨ws, hws, hout⟩ := h
  obtain ⟨_, hlen⟩ := ccGreedy_nodup e.prefs g e.orders [] ws hws List.nodup_nil
  obtain ⟨hl, hm⟩ := mapM_mem _ ws out hout
  refine ⟨by rw [hl, hlen]; simp, ?_⟩
  intro x hx
  obtain ⟨w, _, hw⟩ := hm x hx
  simp only [Option.bind_eq_some_iff] at hw
  obtain ⟨i, _, hi⟩ := hw
  exact List.mem_of_getElem? hi

/-- **C02 / C11, MWEA selection.**  Whatever the groups, preference lists and shuffles: every
individual the repeated multiwinner selection hands on is an individual of the population it was
given (genome and fitness together). -/
theorem repeated_mem (pop : List Ind) (g k : Nat) (es : List Election) (out : List Ind)
    (h : repeated pop g k es = some out) : ∀ x ∈ out, x ∈ pop := by
  unfold repeated at h
  split at h
  · simp at h
  · simp only [Option.map_eq_some_iff] at h
    obtain ⟨ls, hls, rfl⟩ := h
    obtain ⟨_, hm⟩ := mapM_mem _ es ls hls
    intro x hx
    simp only [List.mem_flatten] at hx
    obtain ⟨l, hl, hxl⟩ := hx
    obtain ⟨e, _, he⟩ := hm l hl
    exact (elect_spec pop g e l he).2 x hxl

theorem flatten_length_const {α : Type} (k : Nat) : ∀ (ls : List (List α)), (∀ l ∈ ls, l.length = k) →
    ls.flatten.length = ls.length * k
  | [], _ => by simp
  | a :: t, h => by
    have := flatten_length_const k t (fun l hl => h l (by simp [hl]))
    simp only [List.flatten_cons, List.length_append, List.length_cons, this, h a (by simp)]
    rw [Nat.add_mul, Nat.one_mul, Nat.add_comm]

/-- **C12, MWEA selection.**  `n // k + 1` elections with `k` winners each: at least `n`
individuals before the cut … -/
theorem repeated_length (pop : List Ind) (g k : Nat) (es : List Election) (out : List Ind)
    (h : repeated pop g k es = some out) : out.length = (pop.length / k + 1) * k ∧ pop.length ≤ out.length := by
  unfold repeated at h
  split at h
  · simp at h
  · rename_i hc
    simp only [not_or, Decidable.not_not, Bool.not_eq_true, Bool.not_eq_false'] at hc
    obtain ⟨hk, hlen, hok⟩ := hc
    simp only [Option.map_eq_some_iff] at h
    obtain ⟨ls, hls, rfl⟩ := h
    obtain ⟨hl, hm⟩ := mapM_mem _ es ls hls
    have hall : ∀ l ∈ ls, l.length = k := by
      intro l hl'
      obtain ⟨e, he, hel⟩ := hm l hl'
      have hoke : electionOk pop.length g k e = true := by
        simp only [List.all_eq_true] at hok
        exact hok e he
      simp only [electionOk, Bool.and_eq_true, decide_eq_true_eq] at hoke
      rw [(elect_spec pop g e l hel).1]
      exact hoke.1.2
    have e1 := flatten_length_const k ls hall
    rw [hl, hlen] at e1
    refine ⟨e1, ?_⟩
    rw [e1]
    have hkpos : 0 < k := Nat.pos_of_ne_zero hk
    have := Nat.lt_div_mul_add (a := pop.length) hkpos
    have h2 : (pop.length / k + 1) * k = pop.length / k * k + k := by rw [Nat.add_mul, Nat.one_mul]
    omega

/-- … and exactly `n` after any admissible `topk(n)` cut: the population size is constant. -/
theorem mwea_size (mx : Bool) (pop : List Ind) (g k : Nat) (es : List Election) (out cut : List Ind)
    (h : repeated pop g k es = some out) (hc : topkOk mx pop.length out cut = true) : cut.length = pop.length := by
  have := topkOk_length hc
  have := (repeated_length pop g k es out h).2
  omega

end MWProps
