"""Change-directed depth (DESIGN.md §2.3, "focus").

`source_fingerprint.json` (committed; `tools/mkfingerprint.py`) records, for every module
under /repo/pyhms, a hash of its abstract syntax tree with docstrings removed — comments,
blank lines and formatting do not count.  A check run compares the working tree with it.

Nothing here decides a verdict.  When the source differs from the tree the model was written
against, the correspondence has more to re-establish, so the *same* quick check

* draws more cases (`scale`), and
* biases the random configurations towards the code that changed (an engine whose module
  changed is chosen for a level in about half of the configurations, hibernation is switched
  on more often when tree.py changed, three-level trees when the sprouting code changed).

On the recorded tree the fingerprint matches, `scale` is 1 and the generator draws exactly the
sequence it always drew.  A mismatch is reported in the evidence (`source_changed`).
"""
import ast
import hashlib
import json
import os

HERE = os.path.dirname(os.path.dirname(os.path.abspath(__file__)))
REPO = os.environ.get("PYHMS_REPO", "/repo")
FP = os.path.join(HERE, "source_fingerprint.json")


def _strip_docstrings(tree):
    for node in ast.walk(tree):
        if isinstance(node, (ast.FunctionDef, ast.AsyncFunctionDef, ast.ClassDef, ast.Module)):
            b = node.body
            if b and isinstance(b[0], ast.Expr) and isinstance(getattr(b[0], "value", None), ast.Constant) and isinstance(b[0].value.value, str):
                node.body = b[1:] or [ast.Pass()]
    return tree


def file_hash(path):
    try:
        src = open(path, encoding="utf-8").read()
        tree = _strip_docstrings(ast.parse(src))
        return hashlib.sha256(ast.dump(tree, include_attributes=False).encode()).hexdigest()[:20]
    except SyntaxError:
        return "syntax-error"
    except OSError:
        return "missing"


def current(repo=REPO):
    out = {}
    root = os.path.join(repo, "pyhms")
    for dp, _, fns in os.walk(root):
        for fn in fns:
            if fn.endswith(".py"):
                p = os.path.join(dp, fn)
                out[os.path.relpath(p, repo)] = file_hash(p)
    return out


def changed_files(repo=REPO):
    """modules whose syntax tree differs from the recorded one (added / removed ones included)"""
    if not os.path.exists(FP):
        return []
    rec = json.load(open(FP))["files"]
    cur = current(repo)
    return sorted(f for f in set(rec) | set(cur) if rec.get(f) != cur.get(f))


# module -> engines of the harness generator (harness/runs.py) that execute it
ENGINE_OF = {
    "pyhms/demes/cma_deme.py": ["cma", "cmaw", "cmas"],
    "pyhms/demes/de_deme.py": ["de", "ded", "xde"],
    "pyhms/demes/shade_deme.py": ["shade"],
    "pyhms/demes/single_pop_eas/de.py": ["de", "ded", "xde", "shade"],
    "pyhms/demes/ea_deme.py": ["sea", "seax", "ga", "adapt", "mwea", "xsea"],
    "pyhms/demes/single_pop_eas/sea.py": ["sea", "seax", "ga", "adapt", "xsea"],
    "pyhms/demes/single_pop_eas/common.py": ["sea", "seax", "ga", "adapt", "mwea", "xsea"],
    "pyhms/demes/single_pop_eas/multiwinner.py": ["mwea"],
    "pyhms/demes/local_deme.py": ["local"],
    "pyhms/demes/lhs_deme.py": ["lhs"],
    "pyhms/demes/sobol_deme.py": ["sobol"],
}
SPROUT = {"pyhms/sprout/sprout_filters.py", "pyhms/sprout/sprout_generators.py", "pyhms/sprout/sprout_mechanisms.py",
          "pyhms/sprout/sprout_candidates.py", "pyhms/utils/clusterization.py"}


class Focus:
    def __init__(self, files):
        self.files = list(files)
        self.scale = 1
        self.engines = []
        self.sprout = False
        self.tree = False
        if self.files:
            self.scale = int(os.environ.get("VERIF_FOCUS_SCALE", "3"))
            for f in self.files:
                for e in ENGINE_OF.get(f, []):
                    if e not in self.engines:
                        self.engines.append(e)
            self.sprout = any(f in SPROUT for f in self.files)
            self.tree = any(f in ("pyhms/tree.py", "pyhms/demes/abstract_deme.py", "pyhms/demes/initialize.py") for f in self.files)

    @property
    def active(self):
        return bool(self.files)

    def describe(self):
        return {"source_changed": self.files, "scale": self.scale, "engines_favoured": self.engines,
                "three_levels_favoured": self.sprout, "hibernation_favoured": self.tree}


_CUR = None


def get():
    global _CUR
    if _CUR is None:
        if os.environ.get("VERIF_NO_FOCUS") == "1":
            _CUR = Focus([])
        else:
            _CUR = Focus(changed_files())
    return _CUR
