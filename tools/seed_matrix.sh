#!/bin/bash
# usage: tools/seed_matrix.sh [tier]  — runs every seeded change against the check of the property it targets
cd /verif
TIER=${1:-quick}
for d in seeded/S-*; do
  id=$(basename $d); p=$(python3 -c "import json;print(json.load(open('$d/meta.json'))['property'])")
  out=$(timeout 1800 tools/run_seed.sh $id $p $TIER 2>&1 | grep -v "^KNOWN-FINDING" | tail -2 | tr '\n' ' ' | cut -c1-260)
  echo "$id $p :: $out"
done
git -C /repo status --short
