/-! prototype: LevelLimit count bound -/
namespace LL

/-- number of elements strictly below the element at index c of a sorted list is ≤ c -/
theorem countP_lt_getElem_le (l : List Int) (hs : l.Pairwise (· ≤ ·)) (c : Nat) (hc : c < l.length) :
    (l.filter (· < l[c])).length ≤ c := by
  induction l generalizing c with
  | nil => simp at hc
  | cons a t ih =>
    rw [List.pairwise_cons] at hs
    cases c with
    | zero =>
      simp only [List.getElem_cons_zero, List.filter_cons, Int.lt_irrefl, decide_false]
      have : t.filter (· < a) = [] := by
        rw [List.filter_eq_nil_iff]; intro x hx; have := hs.1 x hx; simp; omega
      simp [this]
    | succ c =>
      simp only [List.getElem_cons_succ, List.filter_cons]
      have hc' : c < t.length := by simpa using hc
      have := ih hs.2 c hc'
      split <;> simp <;> omega

end LL
#print axioms LL.countP_lt_getElem_le
