import PyhmsVerif.Model.Repair
import Mathlib.Algebra.Order.Field.Basic
import Mathlib.Algebra.Order.Ring.Rat
import Mathlib.Tactic.Linarith
import Mathlib.Tactic.FieldSimp
import Mathlib.Tactic.Ring
/-!
NumPy's `npy_divmod` in ideal (exact real) arithmetic, for a positive divisor:
`(floor_divide, mod) = (k, a − k·b)` for an integer `k`, with `0 ≤ a − k·b < b`.
-/
namespace F64

theorem cfmod_eq (a b : Rat) : ∃ t : Int, cfmod a b = a - (t : Rat) * b ∧
    ((a / b ≥ 0 → t = (a / b).floor) ∧ (¬ a / b ≥ 0 → t = -((-(a / b)).floor))) := by
  unfold cfmod
  by_cases h : a / b ≥ 0
  · exact ⟨(a / b).floor, by simp [h], fun _ => rfl, fun hn => absurd h hn⟩
  · exact ⟨-((-(a / b)).floor), by simp [h], fun hp => absurd hp h, fun _ => rfl⟩

/-- for `b > 0`: the C remainder has the sign of `a` and magnitude below `b` -/
theorem cfmod_range (a b : Rat) (hb : 0 < b) :
    (a / b ≥ 0 → 0 ≤ cfmod a b ∧ cfmod a b < b) ∧ (¬ a / b ≥ 0 → -b < cfmod a b ∧ cfmod a b ≤ 0) := by
  obtain ⟨t, ht, hpos, hneg⟩ := cfmod_eq a b
  constructor
  · intro h
    have htf := hpos h
    have h1 : ((a / b).floor : Rat) ≤ a / b := Rat.floor_le _
    have h2 : a / b < (((a / b).floor + 1 : Int) : Rat) := Rat.lt_floor_add_one _
    rw [ht, htf]
    have hab : a = (a / b) * b := by field_simp
    push_cast at h2
    constructor
    · nlinarith
    · nlinarith
  · intro h
    have htf := hneg h
    have h1 : (((-(a / b)).floor : Int) : Rat) ≤ -(a / b) := Rat.floor_le _
    have h2 : -(a / b) < ((((-(a / b)).floor + 1 : Int)) : Rat) := Rat.lt_floor_add_one _
    rw [ht, htf]
    have hab : a = (a / b) * b := by field_simp
    push_cast at h2 ⊢
    constructor
    · nlinarith
    · nlinarith

/-- **`npy_divmod` in ideal arithmetic, positive divisor.** -/
theorem npDivmod_ideal (a b : Rat) (hb : 0 < b) :
    ∃ k : Int, npDivmod ideal a b = some ((k : Rat), a - (k : Rat) * b) ∧ 0 ≤ a - (k : Rat) * b ∧ a - (k : Rat) * b < b := by
  obtain ⟨t, ht, hpos, hneg⟩ := cfmod_eq a b
  have hr := cfmod_range a b hb
  have hb0 : b ≠ 0 := ne_of_gt hb
  have hnb : ¬ b < 0 := not_lt.mpr (le_of_lt hb)
  have hdiv : (a - cfmod a b) / b = (t : Rat) := by rw [ht]; field_simp; ring
  have hfloorInt : ∀ z : Int, (if (z : Rat) ≠ 0 then
      (if (z : Rat) - (((z : Rat).floor : Int) : Rat) > 1 / 2 then (((z : Rat).floor : Int) : Rat) + 1 else (((z : Rat).floor : Int) : Rat))
      else 0) = (z : Rat) := by
    intro z
    by_cases hz : (z : Rat) = 0
    · simp [hz]
    · simp only [ne_eq, hz, not_false_eq_true, ↓reduceIte, Rat.floor_intCast, sub_self]
      norm_num
  by_cases hm0 : cfmod a b = 0
  · refine ⟨t, ?_, ?_, ?_⟩
    · have hdiv0 : a / b = (t : Rat) := by have := hdiv; rw [hm0, sub_zero] at this; exact this
      have hz : a - (t : Rat) * b = 0 := by rw [← ht]; exact hm0
      unfold npDivmod
      simp only [hb0, ↓reduceIte, ideal, Option.bind_some, hm0, sub_zero, hdiv0, ne_eq, not_true_eq_false,
        hfloorInt, hz]
    · have : a - (t : Rat) * b = 0 := by rw [← ht]; exact hm0
      rw [this]
    · have : a - (t : Rat) * b = 0 := by rw [← ht]; exact hm0
      rw [this]; exact hb
  · by_cases hq : a / b ≥ 0
    · -- remainder already in [0, b)
      obtain ⟨h0, h1⟩ := hr.1 hq
      have hnn : ¬ cfmod a b < 0 := not_lt.mpr h0
      refine ⟨t, ?_, by rw [← ht]; exact h0, by rw [← ht]; exact h1⟩
      unfold npDivmod
      simp only [hb0, ↓reduceIte, ideal, Option.bind_some, hdiv, ne_eq, hm0, not_false_eq_true, hnb, hnn,
        decide_false, bne_self_eq_false, Bool.false_eq_true, hfloorInt]
      rw [ht]
    · obtain ⟨h0, h1⟩ := hr.2 hq
      have hlt : cfmod a b < 0 := lt_of_le_of_ne h1 hm0
      refine ⟨t - 1, ?_, ?_, ?_⟩
      · unfold npDivmod
        simp only [hb0, ↓reduceIte, ideal, Option.bind_some, hdiv, ne_eq, hm0, not_false_eq_true, hnb, hlt,
          decide_false, decide_true, Bool.false_bne, ↓reduceIte]
        have hcast : (t : Rat) - 1 = ((t - 1 : Int) : Rat) := by push_cast; ring
        rw [hcast, hfloorInt]
        simp only [Option.some.injEq, Prod.mk.injEq, true_and]
        rw [ht]; push_cast; ring
      · push_cast; rw [ht] at h0; linarith
      · push_cast; rw [ht] at hlt; linarith

end F64
