/-! Prototype: IEEE binary64 rounding on exact rationals (core Lean only). -/
namespace F64

def pow2 (e : Int) : Rat := if e ≥ 0 then ((2 ^ e.toNat : Nat) : Rat) else 1 / ((2 ^ (-e).toNat : Nat) : Rat)

/-- floor(log2 q) for q > 0 -/
def ilog2 (q : Rat) : Int :=
  let n := q.num.toNat
  let d := q.den
  let e : Int := (n.log2 : Int) - (d.log2 : Int)
  if pow2 e ≤ q then e else e - 1

def roundHalfEven (m : Rat) : Int :=
  let f := m.floor
  let d := m - (f : Rat)
  if d < 1/2 then f else if d > 1/2 then f + 1 else if f % 2 = 0 then f else f + 1

/-- round to nearest even binary64; `none` on overflow -/
def rnd (q : Rat) : Option Rat :=
  if q = 0 then some 0 else
  let a := if q < 0 then -q else q
  let e := ilog2 a
  let ee := if e < -1022 then -1022 else e
  let ulp := pow2 (ee - 52)
  let r := (roundHalfEven (q / ulp) : Rat) * ulp
  if (if r < 0 then -r else r) ≥ pow2 1024 then none else some r

end F64

open F64
#eval rnd ((1:Rat)/10)
#eval rnd ((1:Rat)/10) == some ((3602879701896397 : Rat) / 36028797018963968)
