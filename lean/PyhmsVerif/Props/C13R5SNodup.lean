import Mathlib.Data.List.Nodup
import PyhmsVerif.Props.C13R5S
/-!
# R5S: no position of the best-first list is selected twice
-/
namespace R5S

theorem getElem?_inj_of_nodup {l : List Nat} (h : l.Nodup) {i j b : Nat}
    (hi : l[i]? = some b) (hj : l[j]? = some b) : i = j := by
  obtain ⟨hi', hib⟩ := List.getElem?_eq_some_iff.mp hi
  obtain ⟨hj', hjb⟩ := List.getElem?_eq_some_iff.mp hj
  exact (h.getElem_inj_iff (hi := hi') (hj := hj')).mp (by rw [hib, hjb])

/-- **the selected positions are pairwise distinct**: R5S never returns the same individual
(position of the best-first list) twice -/
theorem selectIdx_nodup (topK n : Nat) (env : Env) : (selectIdx topK n env).Nodup := by
  unfold selectIdx
  simp only []
  generalize hk : (List.range n).filter (interesting env n) = keep
  have hkn : keep.Nodup := by rw [← hk]; exact List.nodup_range.filter _
  rw [List.nodup_append]
  refine ⟨hkn.sublist (List.take_sublist _ _), ?_, ?_⟩
  · apply List.Nodup.filterMap
    · intro a a' b hb hb'
      exact getElem?_inj_of_nodup hkn hb hb'
    · exact (List.nodup_reverse.mpr List.nodup_range).filter _
  · intro a ha b hb hab
    subst hab
    obtain ⟨i, hi, hia⟩ := List.mem_take_iff_getElem.mp ha
    simp only [List.mem_filterMap, List.mem_filter, List.mem_reverse, List.mem_range, Bool.and_eq_true,
      decide_eq_true_eq] at hb
    obtain ⟨j, ⟨_, hj, _⟩, hjb⟩ := hb
    have hi1 : i < topK := Nat.lt_of_lt_of_le hi (Nat.min_le_left _ _)
    have hi2 : i < keep.length := Nat.lt_of_lt_of_le hi (Nat.min_le_right _ _)
    have : keep[i]? = some a := by rw [List.getElem?_eq_getElem hi2]; simpa using hia
    have hij := getElem?_inj_of_nodup hkn this hjb
    omega

end R5S
