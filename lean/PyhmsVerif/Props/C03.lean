import PyhmsVerif.Proofs.TreeSteps
import PyhmsVerif.Props.C16
/-!
# C03 — evaluation counts are exact and evaluation budgets are hard limits

Run level (`CountInv`): as long as no cutoff wrapper has refused a request, for every level
the sum of the demes' counters equals the number of logged objective invocations of that
level — in *every* reachable state, hence at every consult of a stop condition (consults
happen inside events, on states with the same counters and log).  The local deme's counter
is fed by scipy's `nfev`, which the model requires to equal the number of requests
(`ScipyNfevExact`, checked on every traced run).
Budget: `C16.cutoff_hard` (any stack, any call sequence).
-/
namespace C03
open Tree

def levelEvals (ds : List Deme) (l : Nat) : Nat := ((ds.filter (·.level == l)).map (·.counter)).sum
def logCount (log : List Inv) (l : Nat) : Nat := (log.filter (·.level == l)).length

/-- the accounting invariant -/
def CountInv (t : T) : Prop := t.refused = false → ∀ l, levelEvals t.demes l = logCount t.log l

theorem levelEvals_append (a b : List Deme) (l : Nat) : levelEvals (a ++ b) l = levelEvals a l + levelEvals b l := by
  simp [levelEvals, List.filter_append, List.map_append, List.sum_append]

theorem logCount_append (a b : List Inv) (l : Nat) : logCount (a ++ b) l = logCount a l + logCount b l := by
  simp [logCount, List.filter_append]

/-- bumping the counter of the first deme with `id` by `k`, and possibly changing other
fields but neither level nor (further) counter -/
theorem levelEvals_updFirst (id : Id) (f : Deme → Deme) (k : Nat) (ds : List Deme) (d0 : Deme) (l : Nat)
    (hfind : ds.find? (·.id == id) = some d0)
    (hl : ∀ d, (f d).level = d.level) (hc : ∀ d, (f d).counter = d.counter + k) :
    levelEvals (updFirst id f ds) l = levelEvals ds l + (if d0.level == l then k else 0) := by
  induction ds with
  | nil => simp at hfind
  | cons d ds ih =>
    simp only [updFirst]
    by_cases h : (d.id == id) = true
    · simp only [List.find?, h, Option.some.injEq] at hfind
      subst hfind
      simp only [h, ↓reduceIte, levelEvals, List.filter_cons, hl]
      by_cases hlv : (d.level == l) = true
      · simp only [hlv, ↓reduceIte, List.map_cons, List.sum_cons, hc]; omega
      · simp [hlv]
    · simp only [List.find?, h] at hfind
      have := ih hfind
      simp only [h, Bool.false_eq_true, ↓reduceIte]
      simp only [levelEvals, List.filter_cons] at this ⊢
      by_cases hlv : (d.level == l) = true
      · simp only [hlv, ↓reduceIte, List.map_cons, List.sum_cons]; omega
      · simp only [hlv, Bool.false_eq_true, ↓reduceIte]; exact this

theorem logCount_same_level (invs : List Inv) (lvl l : Nat) (h : ∀ i ∈ invs, i.level = lvl) :
    logCount invs l = if lvl == l then invs.length else 0 := by
  induction invs with
  | nil => simp [logCount]
  | cons a as ih =>
    have ha := h a (by simp)
    have := ih (fun i hi => h i (List.mem_cons_of_mem _ hi))
    simp only [logCount, List.filter_cons, ha] at this ⊢
    by_cases hl : (lvl == l) = true
    · simp only [hl, ↓reduceIte, List.length_cons] at this ⊢; omega
    · simp only [hl, Bool.false_eq_true, ↓reduceIte] at this ⊢; exact this

theorem refused_false_of {a b : Bool} (h : a = true → b = true) (hb : b = false) : a = false := by
  cases a with
  | false => rfl
  | true => simp [h rfl] at hb

theorem gen_count {t t' : T} {id : Id} {g : GenEnv} {l : Option Bool}
    (hinv : CountInv t) (h : stepGen t id g l = .ok t') : CountInv t' := by
  unfold stepGen at h
  split at h
  · simp at h
  · rename_i q done pending d lc hprep
    obtain ⟨hfind, _, _, _, _⟩ := prepareGen_ok hprep
    simp only [] at h
    split at h
    · simp at h
    · rename_i t1 ev hev
      split at h
      · simp at h
      · have e := evalReqs_effect hev
        obtain ⟨f, hf, hd, _, _, _, hlog, hr, _, _, hcnt⟩ := finishGen_demes h
        obtain ⟨invs, hi1, _, hi3, hi4⟩ := e.log
        intro href lv
        have hr1 : t1.refused = false := by rw [← hr]; exact href
        have hr0 : t.refused = false := refused_false_of e.refusedMono hr1
        rw [hd, e.demes, updFirst_comp id f (bump _) t.demes (fun _ => rfl), hlog, hi1, logCount_append]
        rw [levelEvals_updFirst id (f ∘ bump _) g.reqs.length t.demes d lv hfind
          (fun x => by simp [Function.comp, hf.level, bump]) (fun x => by simp [Function.comp, hcnt, bump])]
        rw [hinv hr0 lv, logCount_same_level invs d.level lv (fun i hi => (hi3 i hi).1), hi4 hr1]

theorem local_count {t t' : T} {id : Id} {reqs : List Req} {its : List Ind} {nfev : Nat}
    (hinv : CountInv t) (h : stepLocal t id reqs its nfev = .ok t') : CountInv t' := by
  unfold stepLocal at h
  split at h
  · split at h
    · simp at h
    · split at h
      · simp at h
      · rename_i d hfind
        split at h
        · simp at h
        · split at h
          · simp at h
          · split at h
            · simp at h
            · split at h
              · simp at h
              · rename_i t1 ev hev
                split at h
                · simp at h
                · rename_i hn
                  simp only [] at h
                  split at h
                  · simp at h
                  · simp only [Except.ok.injEq] at h
                    subst h
                    have e := evalReqs_effect hev
                    obtain ⟨invs, hi1, _, hi3, hi4⟩ := e.log
                    have hnf : nfev = reqs.length := by simpa using hn
                    intro href lv
                    have hr1 : t1.refused = false := by simpa [T.update] using href
                    have hr0 : t.refused = false := refused_false_of e.refusedMono hr1
                    simp only [T.update]
                    rw [e.demes, updFirst_comp id _ (bump _) t.demes (fun _ => rfl), hi1, logCount_append]
                    have key := levelEvals_updFirst id
                      ((fun d : Deme => { d with counter := d.counter + nfev, hist := d.hist ++ [[⟨its, ev⟩]], active := false }) ∘
                        bump (if false = true then reqs.length else 0)) nfev t.demes d lv hfind (fun x => rfl)
                      (fun x => by simp [Function.comp, bump])
                    rw [key, hinv hr0 lv, logCount_same_level invs d.level lv (fun i hi => (hi3 i hi).1), hi4 hr1, hnf]
  · simp at h

end C03

namespace C03
open Tree

theorem levelEvals_rel {R : Deme → Deme → Prop} (hR : ∀ a b, R a b → b.level = a.level ∧ b.counter = a.counter)
    {as bs : List Deme} (h : List.Forall₂ R as bs) (l : Nat) : levelEvals bs l = levelEvals as l := by
  induction h with
  | nil => rfl
  | cons hab _ ih =>
    obtain ⟨h1, h2⟩ := hR _ _ hab
    simp only [levelEvals, List.filter_cons, h1] at ih ⊢
    split <;> simp [h2, ih]

theorem sameBC_lc (a b : Deme) (h : SameBC a b) : b.level = a.level ∧ b.counter = a.counter := by
  obtain ⟨cs, rfl⟩ := h; exact ⟨rfl, rfl⟩

theorem create_count {t t' : T} {parent : Option Deme} {seed : Option Ind} {env : NewEnv}
    (hinv : CountInv t) (h : createDeme t parent seed env = .ok t') : CountInv t' := by
  have ce := createDeme_effect h
  obtain ⟨old, d, hd, hf, _, _, _, _, _, _, _, _, _, _, _, invs, hlog, _, hb, hcnt⟩ := ce.demes
  intro href lv
  have hr0 : t.refused = false := refused_false_of ce.refusedMono href
  rw [hd, hlog, levelEvals_append, logCount_append, levelEvals_rel sameBC_lc hf lv, hinv hr0 lv,
    logCount_same_level invs d.level lv (fun i hi => (hb i hi).1), hcnt href]
  simp only [levelEvals, List.filter_cons, List.filter_nil]
  by_cases hl : (d.level == lv) = true <;> simp [hl]

theorem sprout_count {t t' : T} {flat : List (Id × Ind)} {news : List NewEnv}
    (hinv : CountInv t) (h : doSprout t flat news = .ok t') : CountInv t' := by
  induction flat generalizing t news with
  | nil =>
    cases news with
    | nil => simp only [doSprout, Except.ok.injEq] at h; subst h; exact hinv
    | cons e es => simp [doSprout] at h
  | cons ps rest ih =>
    obtain ⟨pid, s⟩ := ps
    cases news with
    | nil => simp [doSprout] at h
    | cons e es =>
      simp only [doSprout] at h
      split at h
      · simp at h
      · split at h
        · simp at h
        · rename_i t1 hc
          exact ih (create_count hinv hc) h

theorem hib_count {t : T} (took : List Id) (hinv : CountInv t) : CountInv (updateHibernation t took) := by
  obtain ⟨_, _, f3, f4, _, _⟩ := updateHibernation_frame t took
  intro href lv
  rw [f3, levelEvals_rel (R := fun d d' => ∃ h, d' = { d with hib := h })
    (fun a b hab => by obtain ⟨x, rfl⟩ := hab; exact ⟨rfl, rfl⟩) (updateHibernation_forall2 t took) lv]
  exact hinv (by rw [← f4]; exact href) lv

/-- **The accounting invariant is inductive**: every step preserves it, from any state. -/
theorem step_count {t t' : T} {ev : Ev} (hinv : CountInv t) (h : step t ev = .ok t') : CountInv t' := by
  cases ev with
  | loop ge =>
    obtain ⟨_, hd, _, hl, hr, _⟩ := stepLoop_effect h
    intro href lv; rw [hd, hl]; exact hinv (by rw [← hr]; exact href) lv
  | gen id g l => exact gen_count hinv h
  | localRun id reqs its nfev => exact local_count hinv h
  | round ge renv news =>
    obtain ⟨_, _, _, _, _, _, hcase⟩ := stepRound_effect h
    rcases hcase with ⟨hd, _, hl, hr, _⟩ | ⟨_, _, _, seeds, t1, _, _, hds, rfl⟩
    · intro href lv
      rw [hd, hl]
      exact hinv (by rw [← hr]; exact href) lv
    · intro href lv
      exact hib_count _ (sprout_count hinv hds) (by simpa using href) lv

/-- **C03, run level.** In every state reachable from a freshly constructed tree, as long as
no evaluation-cutoff wrapper has refused a request, for every level the demes' counters sum
to the number of objective invocations made by that level (so the tree total equals the
total number of invocations). -/
theorem C03_run {cfg : Cfg} {stks : List (List Problem.Wrapper)} {rootEnv : NewEnv} {t0 t : T}
    {evs : List Ev} (hi : init cfg stks rootEnv = .ok t0) (h : exec t0 evs = .ok t) : CountInv t := by
  have h0 : CountInv t0 := create_count (by intro _ lv; simp [levelEvals, logCount]) hi
  clear hi
  induction evs generalizing t0 with
  | nil => simp only [exec, Except.ok.injEq] at h; subst h; exact h0
  | cons e es ih =>
    simp only [exec, bind, Except.bind] at h
    split at h
    · simp at h
    · rename_i t1 h1
      exact ih h (step_count h0 h1)

/-- the tree total is the sum of the per-level totals (levels below the height) whenever
every deme sits at a configured level -/
theorem total_is_sum_over_demes (t : T) : t.nEvals = (t.demes.map (·.counter)).sum := rfl

/-- **Hard budget** (from C16): whatever the run does, a cutoff layer with counter `n` and
limit `N` in a level's stack lets the objective be invoked at most `N − n` more times. -/
theorem budget_hard (mx : Bool) (ws : List Problem.Wrapper) (vs : List Fit) (n c : Nat)
    (hmem : Problem.Wrapper.cutoff n c ∈ ws) :
    Problem.invocations (Problem.runStack mx ws vs).2 ≤ c - n :=
  C16.cutoff_hard mx ws vs n c hmem

end C03
