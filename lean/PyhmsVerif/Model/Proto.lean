/-!
# Line protocol helpers (token-stream parser, rational printing)

A line is a list of space-separated tokens.  Numbers are exact rationals `n/d` (or `n`);
lists are length-prefixed (`3 a b c`).  Used by `Driver.lean` only.
-/
namespace Proto

abbrev P := StateT (List String) Option

def tok : P String := fun s => match s with
  | [] => none
  | t :: ts => some (t, ts)

def peek? : P (Option String) := fun s => some (s.head?, s)

def atEnd : P Bool := fun s => some (s.isEmpty, s)

def parseRat (s : String) : Option Rat :=
  match s.splitOn "/" with
  | [n, d] => do
    let n ← n.toInt?
    let d ← d.toNat?
    if d = 0 then none else some ((n : Rat) / (d : Rat))
  | [n] => do let n ← n.toInt?; some (n : Rat)
  | _ => none

def rat : P Rat := do let t ← tok; (parseRat t : Option Rat)
def nat : P Nat := do let t ← tok; (t.toNat? : Option Nat)
def int : P Int := do let t ← tok; (t.toInt? : Option Int)
def bool : P Bool := do
  let t ← tok
  match t with
  | "1" | "T" | "true" => pure true
  | "0" | "F" | "false" => pure false
  | _ => failure

def rep {α} (n : Nat) (p : P α) : P (List α) :=
  match n with
  | 0 => pure []
  | n + 1 => do let a ← p; let as ← rep n p; pure (a :: as)

/-- length-prefixed list -/
def list {α} (p : P α) : P (List α) := do let n ← nat; rep n p

def showRat (q : Rat) : String := if q.den = 1 then s!"{q.num}" else s!"{q.num}/{q.den}"
def showBool (b : Bool) : String := if b then "1" else "0"
def showList {α} (f : α → String) (l : List α) : String :=
  " ".intercalate (toString l.length :: l.map f)
def showOpt {α} (f : α → String) : Option α → String
  | none => "none"
  | some a => f a

def run {α} (p : P α) (toks : List String) : Option α :=
  match p toks with
  | some (a, []) => some a
  | _ => none

end Proto
