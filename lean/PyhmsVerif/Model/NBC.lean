import PyhmsVerif.Model.Select
import PyhmsVerif.Model.F64
/-!
# M4 — nearest-better clustering (`pyhms/utils/clusterization.py`)

The clustering is modelled over a *given* distance function on the input population
(indices of the input list): Euclidean norms are irrational, so NumPy's values are
environment; the correspondence check ties them to the exact squared distances.

`cluster` mirrors the code (stable best-first sort, truncation `⌊fl(n·t)⌋`, nearest
strictly-better scan with the tie-with-best rule, mean, cut).  `spec` is the declarative
definition of C15.  Genomes are assumed pairwise distinct (hypothesis of C15; the code
silently drops a second individual with an identical genome).
-/
namespace NBC
open Select

/-- insert keeping the list sorted best-first; equal elements stay in input order -/
def insertDesc (mx : Bool) (a : Nat × Ind) : List (Nat × Ind) → List (Nat × Ind)
  | [] => [a]
  | b :: l => if worse mx a.2 b.2 then b :: insertDesc mx a l else a :: b :: l

/-- `sorted(individuals, reverse=True)`: best first.  Python's reverse sort keeps the
original order of equal elements: an element is inserted *before* its equals. -/
def sortDesc (mx : Bool) : List (Nat × Ind) → List (Nat × Ind)
  | [] => []
  | a :: l => insertDesc mx a (sortDesc mx l)

/-- lexicographic `<` on genomes (Python tuple comparison) -/
def lexLt : List Rat → List Rat → Bool
  | [], [] => false
  | [], _ :: _ => true
  | _ :: _, [] => false
  | a :: as, b :: bs => if a < b then true else if b < a then false else lexLt as bs

/-- insert into a list sorted ascending by genome, after equal genomes (stable) -/
def insertLex (a : Nat × Ind) : List (Nat × Ind) → List (Nat × Ind)
  | [] => [a]
  | b :: l => if lexLt a.2.genome b.2.genome then a :: b :: l else b :: insertLex a l

/-- `sorted(individuals, key=lambda ind: tuple(ind.genome))`: stable, ascending by genome.
Inserting from the right keeps the input order of equal genomes when `insertLex` places
an element *before* … so we fold from the left instead. -/
def sortLex (l : List (Nat × Ind)) : List (Nat × Ind) :=
  l.foldl (fun acc a => insertLex a acc) []

/-- `int(len * truncation_factor)` with the product rounded to binary64 first -/
def truncLen (n : Nat) (t : Rat) : Option Nat :=
  (F64.rnd ((n : Rat) * t)).map fun p => p.floor.toNat

/-- first index (in the sorted list) whose fitness equals that of position `i` -/
def firstSameFit (s : List (Nat × Ind)) (f : Fit) : Nat :=
  (s.findIdx? (fun p => p.2.fit == f)).getD 0

/-- argmin with first-minimum tie-break over candidates `(distance, index)` -/
def argminFirst : List (Rat × Nat) → Option (Rat × Nat)
  | [] => none
  | a :: l => match argminFirst l with
    | none => some a
    | some b => if b.1 < a.1 then some b else some a

/-- nearest-better distance of the element at sorted position `i ≥ 1` -/
def nbDist (dist : Nat → Nat → Rat) (s : List (Nat × Ind)) (i : Nat) : Option Rat :=
  match s[i]?, s[0]? with
  | some p, some root =>
    if p.2.fit == root.2.fit then some (dist p.1 root.1)
    else
      let k := firstSameFit s p.2.fit
      (argminFirst ((s.take k).map fun q => (dist p.1 q.1, q.1))).map (·.1)
  | _, _ => none

structure Result where
  /-- sorted + truncated population (input index, individual) -/
  kept : List (Nat × Ind)
  /-- nearest-better distances of positions 1 … -/
  dists : List Rat
  /-- the returned cluster seeds, best first -/
  seeds : List Ind
deriving Repr

/-- a second individual with an identical genome gets the same node id: the code skips it -/
def isDupAt (s : List (Nat × Ind)) (j : Nat) : Bool :=
  match s[j]? with
  | some p => (s.take j).any fun q => q.2.genome == p.2.genome
  | none => true

/-- the part of the clustering after sorting and truncation: nearest-better distances of
the kept, best-first population `s`, threshold, cut -/
def clusterSorted (dist : Nat → Nat → Rat) (s : List (Nat × Ind)) (phi : Rat) (mean : Option Rat) : Option Result :=
  let idxs := (List.range (s.length - 1)).map (· + 1) |>.filter fun j => !isDupAt s j
  let ds := idxs.filterMap fun j => nbDist dist s j
  if ds.length ≠ idxs.length then none else
  let mu : Rat := mean.getD 0
  (F64.rnd (mu * phi)).bind fun thr =>
  match s with
  | [] => none
  | root :: _ =>
    let nodes := idxs.filterMap fun j => s[j]?
    let cut := (nodes.zip ds).filter fun pd => decide (pd.2 > thr)
    some { kept := s, dists := ds, seeds := root.2 :: cut.map (·.1.2) }

/-- `NearestBetterClustering(pop, φ, t).cluster()`; `mean` is NumPy's `np.mean(distances)`
(environment; `none` for an empty list of distances, where the code uses 0.0). -/
def cluster (mx : Bool) (dist : Nat → Nat → Rat) (pop : List Ind) (phi t : Rat) (mean : Option Rat) :
    Option Result :=
  (truncLen pop.length t).bind fun m =>
  if m = 0 then none else
  clusterSorted dist ((sortDesc mx (sortLex (List.zipIdx pop |>.map fun p => (p.2, p.1)))).take m) phi mean

/-- declarative definition (C15): the best individual plus every other kept individual
whose distance to its nearest strictly better individual (tied with the best ⇒ the best)
exceeds the threshold. -/
def isSeed (mx : Bool) (dist : Nat → Nat → Rat) (s : List (Nat × Ind)) (thr : Rat) (p : Nat × Ind) : Bool :=
  match s with
  | [] => false
  | root :: _ =>
    if p == root then true
    else
      let betterOnes :=
        if p.2.fit == root.2.fit then [root] else s.filter fun q => better mx q.2 p.2
      match argminFirst (betterOnes.map fun q => (dist p.1 q.1, q.1)) with
      | some (d, _) => decide (d > thr)
      | none => false

def spec (mx : Bool) (dist : Nat → Nat → Rat) (s : List (Nat × Ind)) (thr : Rat) : List Ind :=
  (s.filter (isSeed mx dist s thr)).map (·.2)

end NBC
