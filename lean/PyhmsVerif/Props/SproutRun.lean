import PyhmsVerif.Props.C09
import PyhmsVerif.Props.C10
import PyhmsVerif.Proofs.TreeSteps
/-!
# C09 / C10 at run level — what a sprouting round creates

`round_creates`: the demes created by an accepted sprouting round are, one for one and in
order, the `(parent, individual)` pairs of the seeds the mechanism selected on the view of the
tree before the round.  With the filter theorems this gives, for every *created deme* of every
run: its seed survived `FarEnough` / `NBC_FarEnough` (C09) and was proposed by the generator
from its parent's population (C10).
-/
namespace SproutRun
open Tree Sprout

/-- the `(parent, individual)` pairs of a list of seed candidates, in creation order -/
def flat (seeds : List Cand) : List (Id × Ind) := seeds.flatMap fun c => c.inds.map fun i => (c.deme, i)

theorem mem_flat {seeds : List Cand} {p : Id × Ind} (h : p ∈ flat seeds) :
    ∃ c ∈ seeds, p.1 = c.deme ∧ p.2 ∈ c.inds := by
  simp only [flat, List.mem_flatMap, List.mem_map] at h
  obtain ⟨c, hc, i, hi, rfl⟩ := h
  exact ⟨c, hc, rfl, hi⟩

theorem forall2_split {R : Deme → Deme → Prop} : ∀ {a b c : List Deme}, List.Forall₂ R (a ++ b) c →
    List.Forall₂ R a (c.take a.length) ∧ List.Forall₂ R b (c.drop a.length)
  | [], b, c, h => by simpa using h
  | x :: a, b, c, h => by
    cases h with
    | cons hxy htl =>
      obtain ⟨h1, h2⟩ := forall2_split htl
      exact ⟨by simpa using List.Forall₂.cons hxy h1, by simpa using h2⟩

/-- **what a round creates** -/
theorem round_creates {t t' : T} {ge : Option Bool} {renv : Sprout.Env} {news : List NewEnv}
    (h : step t (.round ge renv news) = .ok t') :
    t'.demes.length = t.demes.length ∨
    ∃ seeds, getSeeds (view t) renv t.cfg.mech = some seeds ∧
      ∃ old nd, t'.demes = old ++ nd ∧ old.length = t.demes.length ∧
        List.Forall₂ (fun (p : Id × Ind) (d : Deme) =>
          d.seed = some p.2 ∧ d.parent = some p.1 ∧ d.active = true ∧ d.startedAt = t.metaepoch) (flat seeds) nd := by
  obtain ⟨_, _, _, _, _, _, hcase⟩ := stepRound_effect h
  rcases hcase with ⟨hd, _⟩ | ⟨_, _, _, seeds, t1, hseeds, se, _, rfl⟩
  · exact Or.inl (by rw [hd])
  · right
    refine ⟨seeds, hseeds, ?_⟩
    obtain ⟨old, nd, hd, hf, hnew⟩ := se.demes
    have hu := updateHibernation_forall2 t1 (seeds.map (·.deme))
    rw [hd] at hu
    obtain ⟨h1, h2⟩ := forall2_split hu
    have hlen : old.length = t.demes.length := (forall2_length hf).symm
    refine ⟨(updateHibernation t1 (seeds.map (·.deme))).demes.take old.length,
      (updateHibernation t1 (seeds.map (·.deme))).demes.drop old.length, by simp, ?_, ?_⟩
    · have := forall2_length h1
      rw [← this, hlen]
    · -- compose: flat ~ nd ~ (hib-only images)
      have hcomp : ∀ {ps : List (Id × Ind)} {xs ys : List Deme},
          List.Forall₂ (fun (p : Id × Ind) (d : Deme) =>
            d.active = true ∧ d.hib = false ∧ d.startedAt = t.metaepoch ∧ d.seed = some p.2 ∧
            d.parent = some p.1 ∧ (LvlId t → d.level = p.1.length + 1)) ps xs →
          List.Forall₂ (fun d d' => ∃ hb, d' = { d with hib := hb }) xs ys →
          List.Forall₂ (fun (p : Id × Ind) (d : Deme) =>
            d.seed = some p.2 ∧ d.parent = some p.1 ∧ d.active = true ∧ d.startedAt = t.metaepoch) ps ys := by
        intro ps xs ys hp hx
        induction hp generalizing ys with
        | nil => cases hx; exact .nil
        | cons hab _ ih =>
          cases hx with
          | cons hxy htl =>
            obtain ⟨hb, rfl⟩ := hxy
            exact .cons ⟨hab.2.2.2.1, hab.2.2.2.2.1, hab.1, hab.2.2.1⟩ (ih htl)
      exact hcomp hnew h2

/-- **C09 at run level (FarEnough).**  If the mechanism's filter chain contains `FarEnough δ`,
every deme created by a sprouting round has a seed that is strictly farther than `δ` — in the
distances the code computed — from the centroid of every active deme of its own level, as
the tree stood before the round. -/
theorem C09_created_far {t t' : T} {ge : Option Bool} {renv : Sprout.Env} {news : List NewEnv} {thr : Rat}
    (h : step t (.round ge renv news) = .ok t')
    (hmem : Filter.farEnough thr ∈ t.cfg.mech.demeFilters ++ t.cfg.mech.treeFilters) :
    ∀ d ∈ t'.demes.drop t.demes.length, ∃ s pid, d.seed = some s ∧ d.parent = some pid ∧
      ∃ l, C09.FarFrom renv thr (((view t).level (l + 1)).filter (·.active)) s := by
  rcases round_creates h with hlen | ⟨seeds, hseeds, old, nd, hd, hol, hnew⟩
  · intro d hd'
    rw [List.drop_of_length_le (by omega)] at hd'
    simp at hd'
  · intro d hd'
    have : t'.demes.drop t.demes.length = nd := by rw [hd, ← hol]; simp
    rw [this] at hd'
    obtain ⟨p, hp, hr⟩ := forall2_mem_right_gen hnew d hd'
    obtain ⟨c, hc, _, hi⟩ := mem_flat hp
    -- the seeds are the non-empty survivors of the chain
    simp only [getSeeds, Option.bind_eq_some_iff, Option.map_eq_some_iff] at hseeds
    obtain ⟨g, _, out, hout, rfl⟩ := hseeds
    have hcout : c ∈ out := (List.mem_filter.mp hc).1
    exact ⟨p.2, p.1, hr.1, hr.2.1, c.level, C09.C09_far hout hmem c hcout p.2 hi⟩

/-- **C10 at run level.**  Every deme created by a sprouting round was proposed by the
generator: its parent is a deme of the tree view on a non-leaf level, and its seed is one of
the individuals the generator proposed for that parent (the filters only remove). -/
theorem C10_created_from_generator {t t' : T} {ge : Option Bool} {renv : Sprout.Env} {news : List NewEnv}
    (h : step t (.round ge renv news) = .ok t') :
    ∀ d ∈ t'.demes.drop t.demes.length, ∃ s pid, d.seed = some s ∧ d.parent = some pid ∧
      ∃ g, generate (view t) renv t.cfg.mech.gen = some g ∧ ∃ c0 ∈ g, c0.deme = pid ∧ s ∈ c0.inds ∧
        ∃ pv ∈ (view t).demes, pv.id = pid ∧ pv.level + 1 < (view t).height := by
  rcases round_creates h with hlen | ⟨seeds, hseeds, old, nd, hd, hol, hnew⟩
  · intro d hd'
    rw [List.drop_of_length_le (by omega)] at hd'
    simp at hd'
  · intro d hd'
    have : t'.demes.drop t.demes.length = nd := by rw [hd, ← hol]; simp
    rw [this] at hd'
    obtain ⟨p, hp, hr⟩ := forall2_mem_right_gen hnew d hd'
    obtain ⟨c, hc, hpc, hi⟩ := mem_flat hp
    simp only [getSeeds, Option.bind_eq_some_iff, Option.map_eq_some_iff] at hseeds
    obtain ⟨g, hg, out, hout, rfl⟩ := hseeds
    have hcout : c ∈ out := (List.mem_filter.mp hc).1
    have hsh := C10.filter_shrinks hout
    obtain ⟨c0, hc0, hrel⟩ := forall2_mem_right_gen hsh c hcout
    obtain ⟨pv, hpv, hid, _, hlv⟩ := C10.gen_sources hg c0 hc0
    refine ⟨p.2, p.1, hr.1, hr.2.1, g, hg, c0, hc0, by rw [hpc, hrel.1], hrel.2.2.2.subset hi, pv, hpv, ?_, hlv⟩
    rw [hpc, hrel.1, hid]

/-- **C09 at run level (NBC_FarEnough).** -/
theorem C09_created_nbc_far {t t' : T} {ge : Option Bool} {renv : Sprout.Env} {news : List NewEnv} {phi : Rat} {oa : Bool}
    (h : step t (.round ge renv news) = .ok t')
    (hmem : Filter.nbcFarEnough phi oa ∈ t.cfg.mech.demeFilters ++ t.cfg.mech.treeFilters) :
    ∀ d ∈ t'.demes.drop t.demes.length, ∃ s pid, d.seed = some s ∧ d.parent = some pid ∧
      ∃ l mean, C09.NbcFar (view t) renv phi oa l mean s := by
  rcases round_creates h with hlen | ⟨seeds, hseeds, old, nd, hd, hol, hnew⟩
  · intro d hd'
    rw [List.drop_of_length_le (by omega)] at hd'
    simp at hd'
  · intro d hd'
    have : t'.demes.drop t.demes.length = nd := by rw [hd, ← hol]; simp
    rw [this] at hd'
    obtain ⟨p, hp, hr⟩ := forall2_mem_right_gen hnew d hd'
    obtain ⟨c, hc, _, hi⟩ := mem_flat hp
    simp only [getSeeds, Option.bind_eq_some_iff, Option.map_eq_some_iff] at hseeds
    obtain ⟨g, _, out, hout, rfl⟩ := hseeds
    have hcout : c ∈ out := (List.mem_filter.mp hc).1
    exact ⟨p.2, p.1, hr.1, hr.2.1, c.level, c.nbcMean, C09.C09_nbc_far hout hmem c hcout p.2 hi⟩

/-- **C10 at run level, best-per-deme generator**: every created deme's seed is the best
individual of its parent's current population (a member of it, at least as good as every
member), and the parent is active and not on the last level. -/
theorem C10_created_best_per_deme {t t' : T} {ge : Option Bool} {renv : Sprout.Env} {news : List NewEnv}
    (h : step t (.round ge renv news) = .ok t') (hgen : t.cfg.mech.gen = .bestPerDeme) :
    ∀ d ∈ t'.demes.drop t.demes.length, ∃ s pid, d.seed = some s ∧ d.parent = some pid ∧
      ∃ pv ∈ (view t).demes, pv.id = pid ∧ pv.active = true ∧ pv.level + 1 < (view t).height ∧
        s ∈ pv.pop ∧ ∀ x ∈ pv.pop, Select.better (view t).maximize x s = false := by
  intro d hd'
  obtain ⟨s, pid, hs, hp, g, hg, c0, hc0, hdeme, hmem, _⟩ := C10_created_from_generator h d hd'
  rw [hgen] at hg
  obtain ⟨pv, hpv, hact, hlv, hid, b, hb, hbp, hbest⟩ := C10.bestPerDeme_is_best hg c0 hc0
  rw [hb] at hmem
  simp only [List.mem_singleton] at hmem
  subst hmem
  exact ⟨s, pid, hs, hp, pv, hpv, by rw [← hid, hdeme], hact, hlv, hbp, hbest⟩

end SproutRun
