import PyhmsVerif.Model.Problem
import PyhmsVerif.Model.Sprout
/-!
# M6 — the deme tree as a small-step state machine (`pyhms/tree.py`, `pyhms/demes/*.py`)

State = configuration + metaepoch counter + demes (creation order) + the `levels`
registration + shared problem-wrapper stacks + a program counter + ghost logs.
An event carries only what the *environment* decided (objective values, the populations
the engines produced, `cma.stop()`, scipy's `nfev`, verdicts of user-defined stop
conditions, NumPy's distances); everything pyhms decides is computed by `step`:
the schedule, how many generations a deme performs, verdicts of the shipped stop
conditions, activity / hibernation flags, counters, sprout candidates and every filter,
ids / levels / start metaepochs of new demes.  `step` returns `.error` for an event the
model cannot perform (a generation after the stop condition held, a stored individual
that was never evaluated, a wrong deme running, …).
-/
namespace Tree
open Select

inductive Engine | ea | de | shade | cma | localOpt | lhs | sobol
deriving DecidableEq, Repr

inductive Lsc
  | dontStop | dontRun | metaepochLimit (n : Nat) | allChildrenStopped
  | env   -- FitnessSteadiness (NumPy means) and user-defined conditions: verdict is environment
deriving Repr

inductive Gsc
  | metaepochLimit (n : Nat) | dontRun | dontStop
  | evalLimit (n : Nat)                          -- SingularProblemEvalLimitReached
  | weighted (limit : Rat) (w : List Rat)        -- FitnessEvalLimitReached
  | precision (stack layer : Nat)                -- SingularProblemPrecisionReached
  | rootStopped | allStopped | noActiveNonroot (n : Nat)
  | env                                          -- user-defined: verdict is environment
  | either (a b : Gsc)                           -- user-level `a or b`
deriving Repr

structure LevelCfg where
  engine : Engine
  /-- name of the deme class configured for this level (built-in or registered by the user);
  only reported, the behaviour is that of `engine` -/
  cls : String
  generations : Nat
  popSize : Nat
  lsc : Lsc
  stack : Nat
  elitist : Bool
  box : List (Rat × Rat)
deriving Repr

structure Cfg where
  levels : List LevelCfg
  gsc : Gsc
  hibernation : Bool
  maximize : Bool
  mech : Sprout.Mechanism
deriving Repr

/-- one recorded generation, with the ghost list of what was evaluated while it was made -/
structure Gen where
  inds : List Ind
  evald : List Ind
deriving Repr

/-- deme ids are paths of per-level creation indices: `root = []`, `"3/4" = [3, 4]` -/
abbrev Id := List Nat

structure Deme where
  id : Id
  level : Nat
  parent : Option Id
  startedAt : Nat
  active : Bool
  hib : Bool
  hist : List (List Gen)       -- metaepochs → generations
  counter : Nat                -- `deme.n_evaluations`
  children : List Id
  seed : Option Ind
deriving Repr

/-- one invocation of the user's objective (ghost log) -/
structure Inv where
  level : Nat
  deme : Id
  x : List Rat
  v : Fit
deriving Repr

inductive Pc
  | head
  | running (queue : List Id) (cur : Option (Id × Nat × List Gen))
  | post
  | done
deriving Repr

structure T where
  cfg : Cfg
  metaepoch : Nat
  demes : List Deme
  levels : List (List Id)
  stacks : List (List Problem.Wrapper)
  pc : Pc
  log : List Inv
  /-- ghost: has some cutoff layer refused a request yet -/
  refused : Bool
  /-- ghost: was the global stop condition observed true yet -/
  gscSeen : Bool
deriving Repr

def T.height (t : T) : Nat := t.cfg.levels.length
def T.find (t : T) (id : Id) : Option Deme := t.demes.find? (·.id == id)

/-- apply `f` to the first deme with this id (the code mutates the object itself) -/
def updFirst (id : Id) (f : Deme → Deme) : List Deme → List Deme
  | [] => []
  | d :: ds => if d.id == id then f d :: ds else d :: updFirst id f ds

def T.update (t : T) (id : Id) (f : Deme → Deme) : T :=
  { t with demes := updFirst id f t.demes }

def showId (id : Id) : String :=
  if id.isEmpty then "root" else "/".intercalate (id.map toString)

def Deme.gens (d : Deme) : List Gen := d.hist.flatten
def Deme.allInds (d : Deme) : List Ind := d.gens.flatMap (·.inds)
def Deme.curPop (d : Deme) : List Ind := (d.gens.getLast?.map (·.inds)).getD []
def Deme.metaepochs (d : Deme) : Nat := d.hist.length - 1

/-- demes level by level, creation order inside a level — the order of `tree.levels`
(the explicit `levels` registration is kept too: `_next_child_id` reads its lengths and
the correspondence check compares it with the real one) -/
def T.levelMajor (t : T) : List Deme :=
  (List.range t.height).flatMap fun l => t.demes.filter (·.level == l)
def T.activeAt (t : T) (l : Nat) : Nat := (t.demes.filter fun d => d.level == l && d.active).length
def T.nEvals (t : T) : Nat := (t.demes.map (·.counter)).sum
def T.levelEvals (t : T) (l : Nat) : Nat := ((t.demes.filter (·.level == l)).map (·.counter)).sum

/-- `tree.best_individual`: `max` over the demes' whole-history bests, level-major -/
def T.best (t : T) : Option Ind :=
  Select.best t.cfg.maximize (t.levelMajor.filterMap fun d => Select.best t.cfg.maximize d.allInds)

-- ---------------------------------------------------------------- stop conditions
def gscEval (t : T) (envv : Option Bool) : Gsc → Option Bool
  | .metaepochLimit n => some (decide (t.metaepoch ≥ n))
  | .dontRun => some true
  | .dontStop => some false
  | .evalLimit n => some (decide (t.nEvals ≥ n))
  | .weighted limit w =>
    some (decide ((t.demes.map fun d => (w.getD d.level 0) * (d.counter : Rat)).sum ≥ limit))
  | .precision s l => ((t.stacks.getD s []).getD l (.counting 0)).hitPrecision |> some
  | .rootStopped => (t.find []).map fun d => !d.active
  | .allStopped => some (t.demes.all fun d => !d.active)
  | .noActiveNonroot n =>
    some ((List.range (t.height - 1)).all fun k =>
      let lvl := t.demes.filter (·.level == k + 1)
      !lvl.isEmpty && lvl.all fun d => !d.active && !(decide (t.metaepoch ≤ d.startedAt + d.metaepochs + n)))
  | .env => envv
  | .either a b => match gscEval t envv a, gscEval t envv b with
    | some x, some y => some (x || y)
    | _, _ => none

def lscEval (t : T) (d : Deme) (envv : Option Bool) : Lsc → Option Bool
  | .dontStop => some false
  | .dontRun => some true
  | .metaepochLimit n => some (decide (d.metaepochs ≥ n))
  | .allChildrenStopped =>
    some (!d.children.isEmpty && d.children.all fun c => match t.find c with
      | some k => !k.active
      | none => true)
  | .env => envv

-- ---------------------------------------------------------------- evaluation requests
structure Req where
  x : List Rat
  /-- the value the objective returned, if it was invoked -/
  v : Option Fit
deriving Repr

def inBox (box : List (Rat × Rat)) (x : List Rat) : Bool :=
  x.length == box.length && (box.zip x).all fun p => decide (p.1.1 ≤ p.2) && decide (p.2 ≤ p.1.2)

/-- one `problem.evaluate(x)` issued by deme `id` at level `lvl`: the deme's own counting
wrapper, then the level's (possibly shared) wrapper stack, then — if no cutoff refuses —
the objective.  Returns the fitness the deme stores. -/
def evalReqCore (t : T) (id : Id) (lvl : Nat) (counts : Bool) (r : Req) (lc : LevelCfg)
    (res : List Problem.Wrapper × Fit × Bool) : Except String (T × Ind) :=
  if res.2.2 != r.v.isSome then
    .error (if res.2.2 then s!"request by {showId id} was not forwarded to the objective although no cutoff is exhausted"
            else s!"objective invoked by {showId id} although an evaluation cutoff is exhausted")
  else
    let t1 := { t with stacks := t.stacks.set lc.stack res.1 }
    let t2 := if counts then t1.update id fun d => { d with counter := d.counter + 1 } else t1
    let t3 := if res.2.2 then { t2 with log := t2.log ++ [⟨lvl, id, r.x, res.2.1⟩] }
              else { t2 with refused := true }
    .ok (t3, ⟨r.x, res.2.1⟩)

def evalReq (t : T) (id : Id) (lvl : Nat) (counts : Bool) (r : Req) : Except String (T × Ind) :=
  match t.cfg.levels[lvl]? with
  | none => .error s!"no level {lvl}"
  | some lc =>
    if !inBox lc.box r.x && r.v.isSome then .error s!"objective invoked outside the box by {showId id}" else
    evalReqCore t id lvl counts r lc
      (Problem.evalStack t.cfg.maximize (t.stacks.getD lc.stack []) (r.v.getD (Fit.sentinel t.cfg.maximize)))

def evalReqs (t : T) (id : Id) (lvl : Nat) (counts : Bool) : List Req → Except String (T × List Ind)
  | [] => .ok (t, [])
  | r :: rs => do
    let (t1, i) ← evalReq t id lvl counts r
    let (t2, is) ← evalReqs t1 id lvl counts rs
    pure (t2, i :: is)

-- ---------------------------------------------------------------- generations
structure GenEnv where
  reqs : List Req
  pop : List Ind
  gscEnv : Option Bool
  cmaStop : Bool
deriving Repr

/-- was some request of this generation refused by an exhausted cutoff (its genome is not observable) -/
def refusedIn (mx : Bool) (evald : List Ind) : Bool :=
  evald.any fun e => e.genome.isEmpty && e.fit == Fit.sentinel mx

/-- an individual of a generation is admissible if it belongs to the generation it was bred
from, or was evaluated while this generation was made, or carries the sentinel of a refused request -/
def memberOk (mx : Bool) (parents evald : List Ind) (i : Ind) : Bool :=
  parents.contains i || evald.contains i || (refusedIn mx evald && i.fit == Fit.sentinel mx)

/-- nothing that was evaluated while a generation (or an initial population) was made is
strictly better than every member of that generation: the best observed value is never forgotten -/
def observedOk (mx : Bool) (evald pop : List Ind) : Bool :=
  evald.all fun e => pop.any fun o => !(better mx e o)

/-- what a generation must satisfy relative to the generation it was bred from -/
def genOk (mx : Bool) (lc : LevelCfg) (parents evald pop : List Ind) (expectedSize : Nat) : Except String Unit :=
  if pop.length != expectedSize then .error s!"generation has {pop.length} individuals, expected {expectedSize}" else
  let fresh := lc.engine == .cma || lc.engine == .lhs || lc.engine == .sobol
  if !(pop.all fun i => memberOk mx (if fresh then [] else parents) evald i) then
    .error "generation contains an individual that is neither in the preceding generation nor evaluated during this generation"
  else if lc.elitist && !(parents.all fun p => pop.any fun o => !(better mx p o)) then
    .error "elitist engine lost ground: some parent is strictly better than every member of the new generation"
  else if (lc.engine == .de || lc.engine == .shade) &&
      !(parents.all fun p => decide (countAtLeast mx p.fit parents ≤ countAtLeast mx p.fit pop)) then
    .error "one-to-one replacement violated: some order statistic got worse"
  else if !observedOk mx evald pop then
    .error "best observed value forgotten: an evaluated individual is strictly better than every member of the new generation"
  else .ok ()

def finish (q : List Id) : Pc := if q.isEmpty then .post else .running q none

/-- `reversed(active_demes)` without the hibernating ones -/
def schedule (t : T) : List Id :=
  ((t.levelMajor.filter fun d => d.active && !(t.cfg.hibernation && d.hib)).map (·.id)).reverse

-- ---------------------------------------------------------------- creating demes
structure NewEnv where
  reqs : List Req
  pop : List Ind
deriving Repr

/-- `_next_child_id`: the parent's id extended by the current size of the target level -/
def nextChildId (t : T) (parent : Deme) : Id :=
  parent.id ++ [(t.levels.getD (parent.level + 1) []).length]

/-- shape of the initial population of a new deme -/
def initPopShape (lc : LevelCfg) (seed : Option Ind) (env : NewEnv) (ev : List Ind) : Except String Unit :=
  if lc.engine == .localOpt then
    match seed with
    | some s =>
      if env.pop != [s] || !env.reqs.isEmpty then .error "a local deme must start from its seed without evaluating" else .ok ()
    | none => .error "local deme without seed"
  else if !(env.pop.all ev.contains) then .error "initial population contains an unevaluated individual"
  else if lc.engine == .cma then
    (if seed.isNone then .error "CMA deme without seed" else .ok ())
  else if lc.engine == .lhs || lc.engine == .sobol then .ok ()
  else if env.pop.length != lc.popSize then
    .error s!"initial population has {env.pop.length} members, configured {lc.popSize} (wrong size)"
  else match seed with
    | none => .ok ()
    | some s =>
      if !(env.pop.any fun i => i.genome == s.genome) then .error "initial population does not contain its seed"
      else .ok ()

/-- what the initial population of a new deme must look like: its shape, and (population
engines) nothing evaluated while it was built is better than all of its members -/
def initPopOk (mx : Bool) (lc : LevelCfg) (seed : Option Ind) (env : NewEnv) (ev : List Ind) : Except String Unit :=
  match initPopShape lc seed env ev with
  | .error e => .error e
  | .ok _ =>
    if lc.engine != .localOpt && !observedOk mx ev env.pop then
      .error "best observed value forgotten: an individual evaluated for the initial population is strictly better than every member of it"
    else .ok ()

/-- `init_from_config` + registration (`add_child`, `levels[target].append`).  The new
deme owns its counting wrapper: its counter starts at the number of requests it issued
while building its initial population (a local deme issues none). -/
def createDeme (t : T) (parent : Option Deme) (seed : Option Ind) (env : NewEnv) : Except String T :=
  let lvl := match parent with | some p => p.level + 1 | none => 0
  let id : Id := match parent with | some p => nextChildId t p | none => []
  match t.cfg.levels[lvl]? with
  | none => .error s!"sprout below the last level ({showId id})"
  | some lc =>
    match evalReqs t id lvl false env.reqs with
    | .error e => .error e
    | .ok (t1, ev0) =>
      -- individuals whose request was refused by an exhausted cutoff carry the sentinel
      let refusedHere := ev0.any fun e => e.genome.isEmpty && e.fit == Fit.sentinel t.cfg.maximize
      let ev := ev0 ++ (if refusedHere then env.pop.filter (fun i => i.fit == Fit.sentinel t.cfg.maximize) else [])
      match initPopOk t.cfg.maximize lc seed env ev with
      | .error e => .error s!"deme {showId id}: {e}"
      | .ok _ =>
        let d : Deme := { id := id, level := lvl, parent := parent.map (·.id), startedAt := t.metaepoch,
                          active := true, hib := false, hist := [[⟨env.pop, ev⟩]],
                          counter := if lc.engine == .localOpt then 0 else env.reqs.length,
                          children := [], seed := seed }
        let old := match parent with
          | some p => updFirst p.id (fun x => { x with children := x.children ++ [id] }) t1.demes
          | none => t1.demes
        .ok { t1 with demes := old ++ [d], levels := t1.levels.set lvl ((t1.levels.getD lvl []) ++ [id]) }

def init (cfg : Cfg) (stacks : List (List Problem.Wrapper)) (rootEnv : NewEnv) : Except String T :=
  createDeme { cfg := cfg, metaepoch := 0, demes := [], levels := cfg.levels.map fun _ => [],
               stacks := stacks, pc := .head, log := [], refused := false, gscSeen := false }
    none none rootEnv

-- ---------------------------------------------------------------- sprouting
def view (t : T) : Sprout.View :=
  { height := t.height, metaepoch := t.metaepoch, maximize := t.cfg.maximize,
    demes := t.levelMajor.map fun d =>
      { id := d.id, level := d.level, active := d.active, children := d.children, seed := d.seed,
        pop := d.curPop, histBest := best t.cfg.maximize d.allInds, startedAt := d.startedAt,
        histLen := d.hist.length } }

def doSprout (t : T) : List (Id × Ind) → List NewEnv → Except String T
  | [], [] => .ok t
  | (pid, s) :: rest, e :: es =>
    match t.find pid with
    | none => .error s!"unknown parent {showId pid}"
    | some p =>
      match createDeme t (some p) (some s) e with
      | .error err => .error err
      | .ok t1 => doSprout t1 rest es
  | _, _ => .error "number of created demes differs from the number of seeds"

/-- hibernation flags after a round: every active non-leaf deme that existed before the
round sleeps iff the round took no seed from it -/
def updateHibernation (t : T) (took : List Id) : T :=
  if !t.cfg.hibernation then t else
  { t with demes := t.demes.map fun d =>
      if d.active && d.level + 1 < t.height && d.startedAt != t.metaepoch then
        { d with hib := !took.contains d.id }
      else d }

-- ---------------------------------------------------------------- events
inductive Ev
  /-- `run()`: the consult at the loop head (and, when false, the start of a step) -/
  | loop (gscEnv : Option Bool)
  /-- one generation of the running deme (or of the next scheduled deme) + the consults after it -/
  | gen (id : Id) (g : GenEnv) (lscEnv : Option Bool)
  /-- one complete local search -/
  | localRun (id : Id) (reqs : List Req) (iterates : List Ind) (nfev : Nat)
  /-- consult after `run_metaepoch` and, when false, the sprouting round -/
  | round (gscEnv : Option Bool) (renv : Sprout.Env) (news : List NewEnv)

def appendHist (t : T) (id : Id) (gens : List Gen) (active : Bool) : T :=
  t.update id fun d => { d with hist := d.hist ++ [gens], active := d.active && active }

def stepLoop (t : T) (ge : Option Bool) : Except String T :=
  match t.pc with
  | .head =>
    match gscEval t ge t.cfg.gsc with
    | none => .error "no verdict for the global stop condition"
    | some true => .ok { t with pc := .done, gscSeen := true }
    | some false =>
      if t.gscSeen then .error "the global stop condition was true and is false again" else
      let t1 := { t with metaepoch := t.metaepoch + 1 }
      .ok { t1 with pc := finish (schedule t1) }
  | _ => .error "loop-head consult at the wrong moment"

/-- who may produce a generation now: the running deme, or the next one in the schedule -/
def prepareGen (t : T) (id : Id) : Except String (List Id × Nat × List Gen × Deme × LevelCfg) :=
  match t.pc with
  | .running queue cur =>
    match (match cur, queue with
      | some (cid, done, pending), q =>
        if cid == id then Except.ok (q, done, pending)
        else .error s!"deme {showId id} produced a generation while {showId cid} is running"
      | none, qid :: q =>
        if qid == id then .ok (q, 0, []) else .error s!"deme {showId id} runs, but {showId qid} is next in the schedule"
      | none, [] => .error "generation after the metaepoch ended") with
    | .error e => .error e
    | .ok (q, done, pending) =>
      match t.find id with
      | none => .error s!"unknown deme {showId id}"
      | some d =>
        match t.cfg.levels[d.level]? with
        | none => .error "no level"
        | some lc =>
          if lc.engine == .localOpt then .error "local deme produced a generation"
          else if !d.active then .error s!"inactive deme {showId id} runs"
          else if t.gscSeen && done > 0 then
            .error s!"deme {showId id} performs another generation after the global stop condition held"
          else .ok (q, done, pending, d, lc)
  | _ => .error s!"deme {showId id} runs outside run_metaepoch"

/-- the consults after a generation and their consequences (`t1` = state after the evaluations) -/
def finishGen (t1 : T) (id : Id) (lc : LevelCfg) (q : List Id) (done : Nat) (pending : List Gen) (gen : Gen)
    (g : GenEnv) (lscEnv : Option Bool) : Except String T :=
  if lc.engine == .lhs || lc.engine == .sobol then
    -- `run()` appends its population as a metaepoch of its own, then `gsc or lsc`
    let t2 := appendHist t1 id (pending ++ [gen]) true
    match gscEval t2 g.gscEnv t2.cfg.gsc with
    | none => .error "no GSC verdict"
    | some gv =>
      match t2.find id with
      | none => .error "lost deme"
      | some d2 =>
        match (if gv then some false else lscEval t2 d2 lscEnv lc.lsc) with
        | none => .error "no LSC verdict"
        | some lv =>
          let t3 := t2.update id fun d => { d with active := d.active && !(gv || lv) }
          .ok { t3 with pc := finish q, gscSeen := t3.gscSeen || gv }
  else
    -- the running metaepoch's generations are appended to the history at its end
    match gscEval t1 g.gscEnv t1.cfg.gsc with
    | none => .error "no GSC verdict"
    | some gv =>
      let selfStop := lc.engine == .cma && g.cmaStop
      if gv || selfStop then
        let t2 := appendHist t1 id (pending ++ [gen]) false
        .ok { t2 with pc := finish q, gscSeen := t2.gscSeen || gv }
      else if done + 1 < lc.generations then
        .ok { t1 with pc := .running q (some (id, done + 1, pending ++ [gen])) }
      else
        let t2 := appendHist t1 id (pending ++ [gen]) true
        match t2.find id with
        | none => .error "lost deme"
        | some d2 =>
          match lscEval t2 d2 lscEnv lc.lsc with
          | none => .error "no LSC verdict"
          | some lv =>
            let t3 := t2.update id fun d => { d with active := d.active && !lv }
            .ok { t3 with pc := finish q }

def stepGen (t : T) (id : Id) (g : GenEnv) (lscEnv : Option Bool) : Except String T :=
  match prepareGen t id with
  | .error e => .error e
  | .ok (q, done, pending, d, lc) =>
    let parents := match pending.getLast? with | some p => p.inds | none => d.curPop
    match evalReqs t id d.level true g.reqs with
    | .error e => .error e
    | .ok (t1, ev) =>
      let expected := if lc.engine == .cma then parents.length else lc.popSize
      match genOk t.cfg.maximize lc parents ev g.pop expected with
      | .error e => .error s!"deme {showId id}: {e}"
      | .ok _ => finishGen t1 id lc q done pending ⟨g.pop, ev⟩ g lscEnv

def stepLocal (t : T) (id : Id) (reqs : List Req) (iterates : List Ind) (nfev : Nat) : Except String T :=
  match t.pc with
  | .running (qid :: q) none =>
    if qid != id then .error s!"deme {showId id} runs, but {showId qid} is next in the schedule" else
    match t.find id with
    | none => .error s!"unknown deme {showId id}"
    | some d =>
      match t.cfg.levels[d.level]? with
      | none => .error "no level"
      | some lc =>
        if lc.engine != .localOpt then .error "localRun of a non-local deme"
        else if !d.active then .error s!"inactive deme {showId id} runs"
        else
          match evalReqs t id d.level false reqs with
          | .error e => .error e
          | .ok (t1, ev) =>
            if nfev != reqs.length then .error s!"scipy reports nfev={nfev} but {reqs.length} evaluations were requested" else
            let refusedHere := ev.any fun e => e.genome.isEmpty && e.fit == Fit.sentinel t.cfg.maximize
            if !(iterates.all fun i => ev.contains i || (refusedHere && i.fit == Fit.sentinel t.cfg.maximize)) then
              .error s!"local deme {showId id} recorded an iterate that was never evaluated with that value"
            else
              let t2 := t1.update id fun d => { d with counter := d.counter + nfev, hist := d.hist ++ [[⟨iterates, ev⟩]], active := false }
              .ok { t2 with pc := finish q }
  | _ => .error s!"local deme {showId id} runs at the wrong moment"

def stepRound (t : T) (ge : Option Bool) (renv : Sprout.Env) (news : List NewEnv) : Except String T :=
  match t.pc with
  | .post =>
    match gscEval t ge t.cfg.gsc with
    | none => .error "no verdict for the global stop condition"
    | some true =>
      if news.isEmpty then .ok { t with pc := .head, gscSeen := true }
      else .error "a deme was sprouted although the global stop condition holds"
    | some false =>
      if t.gscSeen then .error "the global stop condition was true and is false again" else
      match Sprout.getSeeds (view t) renv t.cfg.mech with
      | none => .error "sprout mechanism cannot be performed (missing environment / IndexError)"
      | some seeds =>
        let flat := seeds.flatMap fun c => c.inds.map fun i => (c.deme, i)
        match doSprout t flat news with
        | .error e => .error e
        | .ok t1 => .ok { updateHibernation t1 (seeds.map (·.deme)) with pc := .head }
  | _ => .error "sprouting round at the wrong moment"

def step (t : T) : Ev → Except String T
  | .loop ge => stepLoop t ge
  | .gen id g lscEnv => stepGen t id g lscEnv
  | .localRun id reqs iterates nfev => stepLocal t id reqs iterates nfev
  | .round ge renv news => stepRound t ge renv news

def exec (t : T) : List Ev → Except String T
  | [] => .ok t
  | e :: es => do let t1 ← step t e; exec t1 es

end Tree
