import numpy as np, random, sys, warnings, os, tempfile, hashlib
warnings.filterwarnings("ignore")
from pyhms import *
from pyhms.config import *
from pyhms.demes.single_pop_eas.sea import *
from pyhms.tree import DemeTree
from pyhms.sprout import *
from pyhms.sprout.sprout_mechanisms import SproutMechanism
from pyhms.sprout.sprout_filters import *
from pyhms.sprout.sprout_generators import *

bounds=np.array([(-3.0,5.0),(-2.0,7.0)])
def four(x): 
    c=np.array([[-1,-1],[3,3],[-1,5],[4,0]],float)
    return float(np.min(np.sum((x-c)**2,axis=1)))
def digest(t):
    h=hashlib.sha256()
    h.update(str(t.metaepoch_count).encode())
    for lvl,d in t.all_demes:
        h.update(f"{d.id}|{lvl}|{d.started_at}|{d.is_active}|{d._hibernating}|{d.n_evaluations}|{[c.id for c in d.children]}".encode())
        for me in d._history:
            for g in me:
                for i in g:
                    h.update(np.asarray(i.genome,float).tobytes()); h.update(np.float64(i.fitness).tobytes())
    return h.hexdigest()[:16]

def build(seed, hib):
    prob=FunctionProblem(four,bounds=bounds,maximize=False)
    levels=[EALevelConfig(ea_class=SEA,generations=2,problem=prob,pop_size=20,mutation_std=1.0,lsc=DontStop()),
            SHADELevelConfig(generations=2,problem=prob,pop_size=8,memory_size=5,lsc=MetaepochLimit(4),sample_std_dev=0.3),
            CMALevelConfig(generations=3,problem=prob,sigma0=None,lsc=MetaepochLimit(3))]
    sm=get_NBC_sprout(level_limit=3)
    return DemeTree(TreeConfig(levels,MetaepochLimit(12),sm,options={"random_seed":seed,"hibernation":hib}))

if __name__=="__main__":
  for hib in [False,True]:
      t=build(3,hib)
      d0=None
      for k in range(12):
          if t._gsc(t): break
          ev_before={d.id:(d.n_evaluations,len(d._history),d._hibernating,d.is_active) for _,d in t.all_demes}
          tot=t.n_evaluations
          t.run_step()
          delta=t.n_evaluations-tot
          info=[]
          for _,d in t.all_demes:
              if d.id in ev_before:
                  b=ev_before[d.id]
                  info.append(f"{d.id}:{'H' if b[2] else 'A' if b[3] else 'x'}+{d.n_evaluations-b[0]}")
              else: info.append(f"{d.id}:new")
          # pickle roundtrip
          fn=os.path.join(tempfile.gettempdir(),"snap.pkl")
          st=np.random.get_state()[1].copy(); pst=random.getstate()
          dg=digest(t); t.pickle_dump(fn); 
          same_rng=(np.random.get_state()[1]==st).all() and random.getstate()==pst
          t2=DemeTree.pickle_load(fn)
          ok=(digest(t2)==dg and digest(t)==dg and t2.summary()==t.summary())
          print(hib,k+1,"delta",delta," ".join(info),"| pickle ok",ok,"rng untouched",same_rng)
      # continue loaded tree
      t2.config.gsc.limit=15; 
      t2.run(); print("continued loaded: metaepoch",t2.metaepoch_count, "evals", t2.n_evaluations, "demes", len(t2.all_demes))
      os.remove(fn)
