import numpy as np, random, sys, warnings, os, tempfile
warnings.filterwarnings("ignore")
from pyhms import *
from pyhms.config import *
from pyhms.demes.single_pop_eas.sea import *
from pyhms.tree import DemeTree
from pyhms.sprout import *
from pyhms.sprout.sprout_mechanisms import SproutMechanism
from pyhms.sprout.sprout_filters import *
from pyhms.sprout.sprout_generators import *

bounds=np.array([(-3.0,5.0),(-2.0,7.0)])
def four(x): 
    c=np.array([[-1,-1],[3,3],[-1,5],[4,0]],float)
    return float(np.min(np.sum((x-c)**2,axis=1)))
# C13 LevelLimit in maximize: which candidates survive
for maximize in [False,True]:
    sign=-1 if maximize else 1
    prob=FunctionProblem((lambda x,s=sign: s*four(x)),bounds=bounds,maximize=maximize)
    levels=[EALevelConfig(ea_class=SEA,generations=1,problem=prob,pop_size=30,mutation_std=1.0,lsc=DontStop()),
            DELevelConfig(generations=2,problem=prob,pop_size=8,lsc=DontStop(),sample_std_dev=0.3)]
    sm=SproutMechanism(NBC_Generator(1.0,1.0),[],[LevelLimit(2)])
    t=DemeTree(TreeConfig(levels,MetaepochLimit(1),sm,options={"random_seed":7}))
    t.run_metaepoch()  # without sprout
    t.metaepoch_count=1
    cands=sm.candidates_generator(t)
    allc=[i.fitness for d in cands for i in cands[d].individuals]
    out=sm.apply_tree_filters(cands,t)
    kept=[i.fitness for d in out for i in out[d].individuals]
    print("maximize",maximize,"cands",np.round(sorted(allc),3),"kept",np.round(kept,3))

# C20 marker with best fitness exactly 0.0
prob=FunctionProblem(lambda x: float(np.sum(np.round(x)**2)),bounds=bounds,maximize=False)
levels=[EALevelConfig(ea_class=SEA,generations=1,problem=prob,pop_size=30,mutation_std=1.0,lsc=DontStop())]
t=DemeTree(TreeConfig(levels,MetaepochLimit(3),get_simple_sprout(1.0),options={"random_seed":7}))
t.run()
print(t.tree())
