import PyhmsVerif.Props.C16
/-!
# C04 / C03 — the budget-prefix clause of `minimize(maxfun = N)`

`minimize` wraps the objective in one `EvalCutoffProblem(N)`.  For every request stream:
the wrapper answers the first `N` requests with the objective's own values (invoking it) and
every later request with the sentinel (not invoking it).  Hence two runs with budgets
`N₁ ≤ N₂` that issue the same requests get **identical answers for the first `N₁` requests**
— a deterministic engine therefore issues the same `N₁` evaluations under both budgets — and
the objective invocations under `N₁` are a prefix of those under `N₂`.
-/
namespace C04Prefix
open Problem

/-- closed form of a single cutoff layer on any request stream -/
theorem cutoff_closed (mx : Bool) : ∀ (vs : List Fit) (n c : Nat),
    (runStack mx [.cutoff n c] vs).2 =
      (vs.take (c - n)).map (fun v => (v, true)) ++ List.replicate (vs.length - (c - n)) (Fit.sentinel mx, false)
  | [], n, c => by simp [runStack]
  | v :: vs, n, c => by
    by_cases h : n ≥ c
    · have hz : c - n = 0 := by omega
      have ih := cutoff_closed mx vs n c
      simp only [runStack, evalStack, Wrapper.refuses, h, decide_true, ↓reduceIte, hz, List.take_zero, List.map_nil,
        List.nil_append, List.length_cons, Nat.sub_zero] at ih ⊢
      rw [ih, List.replicate_succ]
    · have hlt : n < c := by omega
      have ih := cutoff_closed mx vs (n + 1) c
      have e1 : c - n = (c - (n + 1)) + 1 := by omega
      simp only [runStack, evalStack, Wrapper.refuses, h, decide_false, Bool.false_eq_true, ↓reduceIte, Wrapper.after]
      rw [ih, e1]
      simp only [List.take_succ_cons, List.map_cons, List.cons_append, List.length_cons, Nat.add_sub_add_right]

theorem filter_tagged (l : List Fit) :
    ((l.map fun v => (v, true)).filter (·.2)).map (·.1) = l := by
  induction l with
  | nil => rfl
  | cons a t ih => simpa using ih

/-- the objective's values that were really obtained: the first `N` requests -/
theorem invoked_values (mx : Bool) (vs : List Fit) (N : Nat) :
    ((runStack mx [.cutoff 0 N] vs).2.filter (·.2)).map (·.1) = vs.take N := by
  rw [cutoff_closed]
  simp only [Nat.sub_zero, List.filter_append, List.map_append]
  rw [filter_tagged]
  simp

/-- the first `k ≤ m` answers of a cutoff with `m` calls left are the objective's own values -/
theorem take_closed (mx : Bool) (vs : List Fit) (m k : Nat) (h : k ≤ m) :
    ((vs.take m).map (fun v => (v, true)) ++ List.replicate (vs.length - m) (Fit.sentinel mx, false)).take k
      = (vs.take k).map (fun v => (v, true)) := by
  by_cases hk : k ≤ vs.length
  · rw [List.take_append_of_le_length (by simp; omega), ← List.map_take, List.take_take, Nat.min_eq_left h]
  · have hm : vs.length - m = 0 := by omega
    rw [hm, List.replicate_zero, List.append_nil, List.take_of_length_le (by omega : vs.length ≤ m),
      List.take_of_length_le (by simp; omega), List.take_of_length_le (by omega : vs.length ≤ k)]

/-- **budget prefix**: with `N₁ ≤ N₂` the invocations under the smaller budget are a prefix of
those under the larger one, and the answers to the first `N₁` requests are identical. -/
theorem budget_prefix (mx : Bool) (vs : List Fit) (N₁ N₂ : Nat) (h : N₁ ≤ N₂) :
    ((runStack mx [.cutoff 0 N₁] vs).2.filter (·.2)).map (·.1) <+:
      ((runStack mx [.cutoff 0 N₂] vs).2.filter (·.2)).map (·.1) ∧
    (runStack mx [.cutoff 0 N₁] vs).2.take N₁ = (runStack mx [.cutoff 0 N₂] vs).2.take N₁ := by
  constructor
  · rw [invoked_values, invoked_values]
    exact (List.take_prefix_take_left (by omega : N₁ ≤ N₂) ) |> fun x => x
  · rw [cutoff_closed, cutoff_closed]
    simp only [Nat.sub_zero]
    rw [take_closed mx vs N₁ N₁ (Nat.le_refl _), take_closed mx vs N₂ N₁ h]

example : (runStack false [.cutoff 0 2] [.fin 3, .fin 1, .fin 7]).2 = [(.fin 3, true), (.fin 1, true), (.posInf, false)] := by
  decide +kernel

end C04Prefix
