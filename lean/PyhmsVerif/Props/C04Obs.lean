import PyhmsVerif.Props.C06Step
/-!
# C04 — the reported best is the best value ever observed (population engines)

`observedOk` (part of what the model demands of every generation and every initial
population): nothing that was evaluated while a generation was made is strictly better than
every member of that generation.  `Obs` lifts this to every recorded and every pending
generation of every non-local deme of every reachable state; with `best_not_worse` and
`tree_best_ge_all` it follows that no individual ever evaluated for a population deme is
better than that deme's best, nor than the tree's best.
-/
namespace C04
open Tree Select

/-- demes of population engines (everything but the one-shot local search) -/
def NonLocal (t : T) (d : Deme) : Prop := ∀ lc, t.cfg.levels[d.level]? = some lc → lc.engine ≠ .localOpt

def GenObs (mx : Bool) (g : Gen) : Prop := observedOk mx g.evald g.inds = true

/-- the invariant: recorded generations of population demes, and the generations of the
metaepoch in progress, never forgot an evaluated individual -/
def Obs (t : T) : Prop :=
  (∀ d ∈ t.demes, NonLocal t d → ∀ g ∈ d.gens, GenObs t.cfg.maximize g) ∧
  (∀ q id done pending, t.pc = .running q (some (id, done, pending)) → ∀ g ∈ pending, GenObs t.cfg.maximize g)

theorem genOk_observed {mx : Bool} {lc : LevelCfg} {parents ev pop : List Ind} {n : Nat} {u : Unit}
    (h : genOk mx lc parents ev pop n = .ok u) : observedOk mx ev pop = true := by
  cases hobs : observedOk mx ev pop with
  | true => rfl
  | false =>
    exfalso
    unfold genOk at h
    simp only [hobs, Bool.not_false, ↓reduceIte] at h
    repeat' split at h
    all_goals simp at h

theorem mem_updFirst {id : Id} {f : Deme → Deme} {ds : List Deme} {d' : Deme} (h : d' ∈ updFirst id f ds) :
    d' ∈ ds ∨ ∃ d0, ds.find? (·.id == id) = some d0 ∧ d' = f d0 := by
  induction ds with
  | nil => simp [updFirst] at h
  | cons a l ih =>
    simp only [updFirst] at h
    by_cases ha : (a.id == id) = true
    · simp only [ha, ↓reduceIte, List.mem_cons] at h
      rcases h with rfl | h
      · exact Or.inr ⟨a, by simp [List.find?_cons, ha], rfl⟩
      · exact Or.inl (List.mem_cons_of_mem _ h)
    · have ha' : (a.id == id) = false := by simpa using ha
      simp only [ha', Bool.false_eq_true, ↓reduceIte, List.mem_cons] at h
      rcases h with rfl | h
      · exact Or.inl (by simp)
      · rcases ih h with h | ⟨d0, hf, rfl⟩
        · exact Or.inl (List.mem_cons_of_mem _ h)
        · exact Or.inr ⟨d0, by simp [List.find?_cons, ha', hf], rfl⟩

/-- the generations `prepareGen` hands out as pending are those of the program counter -/
theorem prepareGen_pending {t : T} {id : Id} {q : List Id} {done : Nat} {pending : List Gen} {d : Deme} {lc : LevelCfg}
    (h : prepareGen t id = .ok (q, done, pending, d, lc)) :
    pending = [] ∨ ∃ q0, t.pc = .running q0 (some (id, done, pending)) := by
  unfold prepareGen at h
  split at h
  · rename_i queue cur hpc
    split at h
    · simp at h
    · rename_i q' done' pending' hm
      have hq : q' = q ∧ done' = done ∧ pending' = pending := by
        split at h
        · simp at h
        · split at h
          · simp at h
          · split at h
            · simp at h
            · split at h
              · simp at h
              · split at h
                · simp at h
                · simp only [Except.ok.injEq, Prod.mk.injEq] at h
                  exact ⟨h.1, h.2.1, h.2.2.1⟩
      obtain ⟨rfl, rfl, rfl⟩ := hq
      rcases cur with _ | ⟨cid, done0, pending0⟩
      · cases queue with
        | nil => simp at hm
        | cons qid q0 =>
          simp only [] at hm
          split at hm
          · simp only [Except.ok.injEq, Prod.mk.injEq] at hm
            exact Or.inl hm.2.2.symm
          · simp at hm
      · simp only [] at hm
        split at hm
        · rename_i hc
          simp only [Except.ok.injEq, Prod.mk.injEq] at hm
          have : cid = id := by simpa using hc
          right
          exact ⟨queue, by rw [hpc, this, hm.2.1, hm.2.2]⟩
        · simp at hm
  · simp at h

theorem gens_of_hist_append (d : Deme) (m : List Gen) (h : List (List Gen)) (hh : h = d.hist ++ [m]) :
    h.flatten = d.gens ++ m := by
  simp [hh, Deme.gens, List.flatten_append]

/-- **a generation keeps the invariant** -/
theorem stepGen_obs {t t' : T} {id : Id} {g : GenEnv} {l : Option Bool} (hinv : Obs t)
    (h : stepGen t id g l = .ok t') : Obs t' := by
  unfold stepGen at h
  split at h
  · simp at h
  · rename_i q done pending d lc hprep
    obtain ⟨hfind, _, _, _, _⟩ := prepareGen_ok hprep
    have hpend : ∀ g' ∈ pending, GenObs t.cfg.maximize g' := by
      rcases prepareGen_pending hprep with rfl | ⟨q0, hpc⟩
      · intro g' hg'; simp at hg'
      · exact hinv.2 q0 id done pending hpc
    simp only [] at h
    split at h
    · simp at h
    · rename_i t1 ev hev
      split at h
      · simp at h
      · rename_i u hgen
        have e := evalReqs_effect hev
        have hnew : GenObs t.cfg.maximize ⟨g.pop, ev⟩ := genOk_observed hgen
        obtain ⟨f, hd, _, hlev, ⟨hcfg, _⟩, hcase⟩ := C06.finishGen_hist h
        have hcfg' : t'.cfg = t.cfg := hcfg.trans e.cfg
        obtain ⟨k, hdem⟩ : ∃ k, t'.demes = updFirst id (f ∘ bump k) t.demes :=
          ⟨_, by rw [hd, e.demes, updFirst_comp id f (bump _) t.demes (fun _ => rfl)]⟩
        refine ⟨?_, ?_⟩
        · intro d' hd' hnl g' hg'
          rw [hcfg']
          rw [hdem] at hd'
          rcases mem_updFirst hd' with hold | ⟨d0, hf0, rfl⟩
          · exact hinv.1 d' hold (by intro lc' hlc'; exact hnl lc' (by rw [hcfg']; exact hlc')) g' hg'
          · have hd0 : d0 ∈ t.demes := List.mem_of_find?_eq_some hf0
            have hnl0 : NonLocal t d0 := by
              intro lc' hlc'
              apply hnl lc'
              rw [hcfg']
              simpa [hlev, bump] using hlc'
            rcases hcase with ⟨hh, _⟩ | ⟨hh, _⟩
            · have : (f (bump k d0)).gens = d0.gens := by simp [Deme.gens, hh, bump]
              simp only [Function.comp] at hg'
              rw [this] at hg'
              exact hinv.1 d0 hd0 hnl0 g' hg'
            · have : (f (bump k d0)).gens = d0.gens ++ (pending ++ [⟨g.pop, ev⟩]) := by
                simp [Deme.gens, hh, bump, List.flatten_append]
              simp only [Function.comp] at hg'
              rw [this] at hg'
              rcases List.mem_append.mp hg' with hg' | hg'
              · exact hinv.1 d0 hd0 hnl0 g' hg'
              · rcases List.mem_append.mp hg' with hg' | hg'
                · exact hpend g' hg'
                · simp only [List.mem_singleton] at hg'
                  rw [hg']; exact hnew
        · intro q' id' done' pending' hpc' g' hg'
          rw [hcfg']
          rcases hcase with ⟨_, hpc⟩ | ⟨_, hpc⟩
          · rw [hpc] at hpc'
            simp only [Pc.running.injEq, Option.some.injEq, Prod.mk.injEq] at hpc'
            obtain ⟨_, _, _, rfl⟩ := hpc'
            rcases List.mem_append.mp hg' with hg' | hg'
            · exact hpend g' hg'
            · simp only [List.mem_singleton] at hg'
              rw [hg']; exact hnew
          · rw [hpc] at hpc'
            unfold finish at hpc'
            split at hpc' <;> simp at hpc'

/-- a local search only changes a local deme and leaves nobody running -/
theorem stepLocal_obs {t t' : T} {id : Id} {reqs : List Req} {its : List Ind} {nfev : Nat} (hinv : Obs t)
    (h : stepLocal t id reqs its nfev = .ok t') : Obs t' := by
  unfold stepLocal at h
  split at h
  · rename_i qid q hpc
    split at h
    · simp at h
    · split at h
      · simp at h
      · rename_i d hfind
        split at h
        · simp at h
        · rename_i lc hlc
          split at h
          · simp at h
          · rename_i hloc
            have hloc' : lc.engine = .localOpt := by simpa using hloc
            split at h
            · simp at h
            · split at h
              · simp at h
              · rename_i t1 ev hev
                split at h
                · simp at h
                · simp only [] at h
                  split at h
                  · simp at h
                  · simp only [Except.ok.injEq] at h
                    subst h
                    have e := evalReqs_effect hev
                    refine ⟨?_, ?_⟩
                    · intro d' hd' hnl g' hg'
                      simp only [T.update] at hd' hnl ⊢
                      rw [e.demes, updFirst_comp id _ (bump _) t.demes (fun _ => rfl)] at hd'
                      rw [e.cfg]
                      rcases mem_updFirst hd' with hold | ⟨d0, hf0, rfl⟩
                      · exact hinv.1 d' hold (by intro lc' hlc'; exact hnl lc' (by simp only [NonLocal, e.cfg] at *; exact hlc')) g' hg'
                      · -- the changed deme is the local one
                        exfalso
                        have : d0 = d := by
                          unfold T.find at hfind
                          rw [hf0] at hfind
                          exact Option.some.inj hfind
                        subst this
                        exact hnl lc (by simpa [e.cfg, bump] using hlc) hloc'
                    · intro q' id' done' pending' hpc'
                      simp only [T.update] at hpc'
                      unfold finish at hpc'
                      split at hpc' <;> simp at hpc'
  · simp at h

theorem obs_of_rel {R : Deme → Deme → Prop} (hR : ∀ a b, R a b → b.level = a.level ∧ b.hist = a.hist)
    {t : T} {ds' : List Deme} (hinv : ∀ d ∈ t.demes, NonLocal t d → ∀ g ∈ d.gens, GenObs t.cfg.maximize g)
    (hf : List.Forall₂ R t.demes ds') :
    ∀ d ∈ ds', (∀ lc, t.cfg.levels[d.level]? = some lc → lc.engine ≠ .localOpt) → ∀ g ∈ d.gens, GenObs t.cfg.maximize g := by
  intro d hd hnl g hg
  obtain ⟨a, ha, hr⟩ := forall2_mem_right hf d hd
  obtain ⟨hl, hh⟩ := hR a d hr
  have : d.gens = a.gens := by simp [Deme.gens, hh]
  rw [this] at hg
  exact hinv a ha (by intro lc hlc; exact hnl lc (by rw [hl]; exact hlc)) g hg

theorem create_obs {t t' : T} {parent : Option Deme} {seed : Option Ind} {env : NewEnv}
    (hinv : ∀ d ∈ t.demes, NonLocal t d → ∀ g ∈ d.gens, GenObs t.cfg.maximize g)
    (h : createDeme t parent seed env = .ok t') :
    ∀ d ∈ t'.demes, NonLocal t' d → ∀ g ∈ d.gens, GenObs t'.cfg.maximize g := by
  have ce := createDeme_effect h
  obtain ⟨old, dn, hd, hf, _, _, ⟨g0, hg0, _⟩, _, _, _, _, _, _, _, ⟨lc, hlc⟩, _⟩ := ce.demes
  intro d hdm hnl g hg
  rw [ce.cfg]
  have hnl' : ∀ lc, t.cfg.levels[d.level]? = some lc → lc.engine ≠ .localOpt := by
    intro lc hlc; exact hnl lc (by rw [ce.cfg]; exact hlc)
  rw [hd] at hdm
  rcases List.mem_append.mp hdm with hdm | hdm
  · exact obs_of_rel (R := SameBC) (fun a b hab => by obtain ⟨cs, rfl⟩ := hab; exact ⟨rfl, rfl⟩) hinv hf d hdm hnl' g hg
  · simp only [List.mem_singleton] at hdm
    subst hdm
    have hlast : t'.demes.getLast? = some d := by rw [hd]; simp
    have : d.gens = [g0] := by simp [Deme.gens, hg0]
    rw [this] at hg
    simp only [List.mem_singleton] at hg
    subst hg
    exact ce.observed d g hlast hg0 lc hlc (hnl' lc hlc)

theorem sprout_obs {t t' : T} {flat : List (Id × Ind)} {news : List NewEnv}
    (hinv : ∀ d ∈ t.demes, NonLocal t d → ∀ g ∈ d.gens, GenObs t.cfg.maximize g)
    (h : doSprout t flat news = .ok t') :
    ∀ d ∈ t'.demes, NonLocal t' d → ∀ g ∈ d.gens, GenObs t'.cfg.maximize g := by
  induction flat generalizing t news with
  | nil =>
    cases news with
    | nil => simp only [doSprout, Except.ok.injEq] at h; subst h; exact hinv
    | cons e es => simp [doSprout] at h
  | cons ps rest ih =>
    obtain ⟨pid, s⟩ := ps
    cases news with
    | nil => simp [doSprout] at h
    | cons e es =>
      simp only [doSprout] at h
      split at h
      · simp at h
      · split at h
        · simp at h
        · rename_i t1 hc
          exact ih (create_obs hinv hc) h

/-- **the invariant is inductive** -/
theorem step_obs {t t' : T} {ev : Ev} (hinv : Obs t) (h : step t ev = .ok t') : Obs t' := by
  cases ev with
  | gen id g l => exact stepGen_obs hinv h
  | localRun id reqs its nfev => exact stepLocal_obs hinv h
  | loop ge =>
    simp only [step, stepLoop] at h
    split at h
    · split at h
      · simp at h
      · simp only [Except.ok.injEq] at h
        subst h
        exact ⟨hinv.1, by intro q id done pending hpc; simp at hpc⟩
      · split at h
        · simp at h
        · simp only [Except.ok.injEq] at h
          subst h
          refine ⟨hinv.1, ?_⟩
          intro q id done pending hpc
          simp only [finish] at hpc
          split at hpc <;> simp at hpc
    · simp at h
  | round ge renv news =>
    obtain ⟨hcfg, _, _, hpc, _, _, hcase⟩ := stepRound_effect h
    refine ⟨?_, by intro q id done pending hpc'; rw [hpc] at hpc'; simp at hpc'⟩
    rcases hcase with ⟨hd, _⟩ | ⟨_, _, _, seeds, t1, _, _, hds, rfl⟩
    · intro d hdm hnl g hg
      rw [hcfg]
      rw [hd] at hdm
      exact hinv.1 d hdm (by intro lc hlc; exact hnl lc (by rw [hcfg]; exact hlc)) g hg
    · have h1 := sprout_obs hinv.1 hds
      have hu := updateHibernation_forall2 t1 (seeds.map (·.deme))
      obtain ⟨f1, _⟩ := updateHibernation_frame t1 (seeds.map (·.deme))
      intro d hdm hnl g hg
      simp only [f1] at hnl ⊢
      exact obs_of_rel (R := fun d d' => ∃ h, d' = { d with hib := h })
        (fun a b hab => by obtain ⟨hb, rfl⟩ := hab; exact ⟨rfl, rfl⟩) h1 hu d hdm
        (by intro lc hlc; exact hnl lc (by simpa [NonLocal, f1] using hlc)) g hg

theorem init_obs {cfg : Cfg} {stks : List (List Problem.Wrapper)} {rootEnv : NewEnv} {t0 : T}
    (hi : init cfg stks rootEnv = .ok t0) : Obs t0 := by
  unfold init at hi
  have ce := createDeme_effect hi
  refine ⟨create_obs (by intro d hd; simp at hd) hi, ?_⟩
  intro q id done pending hpc
  rw [ce.pc] at hpc
  simp at hpc

theorem exec_obs {t t' : T} {evs : List Ev} (hinv : Obs t) (h : exec t evs = .ok t') : Obs t' := by
  induction evs generalizing t with
  | nil => simp only [exec, Except.ok.injEq] at h; subst h; exact hinv
  | cons e es ih =>
    simp only [exec, bind, Except.bind] at h
    split at h
    · simp at h
    · rename_i t1 h1
      exact ih (step_obs hinv h1) h

/-- **C04 — nothing observed is better than what is reported (population engines).**  In
every state reachable from a freshly constructed tree, for every deme of a population engine
and every individual `e` that was ever evaluated for it (in any recorded generation,
including its initial population): the deme's best individual is not worse than `e`. -/
theorem C04_observed_deme {cfg : Cfg} {stks : List (List Problem.Wrapper)} {rootEnv : NewEnv} {t0 t : T}
    {evs : List Ev} (hi : init cfg stks rootEnv = .ok t0) (h : exec t0 evs = .ok t) :
    ∀ d ∈ t.demes, NonLocal t d → ∀ g ∈ d.gens, ∀ e ∈ g.evald,
      ∃ b, best t.cfg.maximize d.allInds = some b ∧ better t.cfg.maximize e b = false := by
  have hobs := exec_obs (init_obs hi) h
  intro d hd hnl g hg e he
  have hgo := hobs.1 d hd hnl g hg
  simp only [GenObs, observedOk, List.all_eq_true, List.any_eq_true, Bool.not_eq_true'] at hgo
  obtain ⟨o, ho, hbo⟩ := hgo e he
  have hoall : o ∈ d.allInds := by
    simp only [Deme.allInds, List.mem_flatMap]
    exact ⟨g, hg, ho⟩
  obtain ⟨b, hb⟩ := Option.isSome_iff_exists.mp
    (best_isSome_of_ne_nil (mx := t.cfg.maximize) (List.ne_nil_of_mem hoall))
  exact ⟨b, hb, better_trans_weak hbo (best_not_worse hb o hoall)⟩

/-- … nor better than the tree's reported best -/
theorem C04_observed_tree {cfg : Cfg} {stks : List (List Problem.Wrapper)} {rootEnv : NewEnv} {t0 t : T}
    {evs : List Ev} (hi : init cfg stks rootEnv = .ok t0) (h : exec t0 evs = .ok t) :
    ∀ d ∈ t.levelMajor, NonLocal t d → ∀ g ∈ d.gens, ∀ e ∈ g.evald,
      ∃ tb, t.best = some tb ∧ better t.cfg.maximize e tb = false := by
  intro d hd hnl g hg e he
  obtain ⟨b, hb, hbe⟩ := C04_observed_deme hi h d (mem_levelMajor.mp hd).1 hnl g hg e he
  -- the tree has a best because this deme has one
  have hne : (t.levelMajor.filterMap fun d => best t.cfg.maximize d.allInds) ≠ [] := by
    apply List.ne_nil_of_mem (a := b)
    simp only [List.mem_filterMap]
    exact ⟨d, hd, hb⟩
  obtain ⟨tb, htb⟩ := Option.isSome_iff_exists.mp (best_isSome_of_ne_nil (mx := t.cfg.maximize) hne)
  have htb' : t.best = some tb := htb
  exact ⟨tb, htb', better_trans_weak hbe (tree_best_ge_all htb' d hd b (best_mem hb))⟩


/-! ## every objective invocation is an evaluated individual of some generation -/

/-- the generations of the metaepoch in progress of deme `id` -/
def pendOf (t : T) (id : Id) : List Gen :=
  match t.pc with
  | .running _ (some (cid, _, p)) => if cid == id then p else []
  | _ => []

/-- every logged invocation `(x, v)` of the objective is recorded as an evaluated individual
of a generation (recorded or in progress) of the deme that issued it -/
def LogCov (t : T) : Prop :=
  ∀ inv ∈ t.log, ∃ d ∈ t.demes, d.id = inv.deme ∧
    ∃ g ∈ d.gens ++ pendOf t d.id, (⟨inv.x, inv.v⟩ : Ind) ∈ g.evald

theorem prepareGen_pendOf {t : T} {id : Id} {q : List Id} {done : Nat} {pending : List Gen} {d : Deme} {lc : LevelCfg}
    (h : prepareGen t id = .ok (q, done, pending, d, lc)) :
    pendOf t id = pending ∧ ∀ id', id' ≠ id → pendOf t id' = [] := by
  unfold prepareGen at h
  split at h
  · rename_i queue cur hpc
    split at h
    · simp at h
    · rename_i q' done' pending' hm
      have hq : pending' = pending := by
        split at h
        · simp at h
        · split at h
          · simp at h
          · split at h
            · simp at h
            · split at h
              · simp at h
              · split at h
                · simp at h
                · simp only [Except.ok.injEq, Prod.mk.injEq] at h
                  exact h.2.2.1
      subst hq
      rcases cur with _ | ⟨cid, done0, pending0⟩
      · cases queue with
        | nil => simp at hm
        | cons qid q0 =>
          simp only [] at hm
          split at hm
          · simp only [Except.ok.injEq, Prod.mk.injEq] at hm
            exact ⟨by simp [pendOf, hpc, hm.2.2], fun id' _ => by simp [pendOf, hpc]⟩
          · simp at hm
      · simp only [] at hm
        split at hm
        · rename_i hc
          simp only [Except.ok.injEq, Prod.mk.injEq] at hm
          have hcid : cid = id := by simpa using hc
          refine ⟨by simp [pendOf, hpc, hcid, hm.2.2], fun id' hne => ?_⟩
          have : (cid == id') = false := by
            rw [hcid]; simpa using fun h => hne h.symm
          simp [pendOf, hpc, this]
        · simp at hm
  · simp at h

theorem mem_updFirst_of_ne {id : Id} {f : Deme → Deme} {ds : List Deme} {d : Deme} (hd : d ∈ ds) (hne : d.id ≠ id) :
    d ∈ updFirst id f ds := by
  induction ds with
  | nil => simp at hd
  | cons a l ih =>
    simp only [updFirst]
    rcases List.mem_cons.mp hd with rfl | hd
    · have : (d.id == id) = false := by simpa using hne
      simp [this]
    · split
      · exact List.mem_cons_of_mem _ hd
      · exact List.mem_cons_of_mem _ (ih hd)

theorem mem_updFirst_first {id : Id} {f : Deme → Deme} {ds : List Deme} {d0 : Deme}
    (h : ds.find? (·.id == id) = some d0) : f d0 ∈ updFirst id f ds := by
  induction ds with
  | nil => simp at h
  | cons a l ih =>
    simp only [updFirst]
    by_cases ha : (a.id == id) = true
    · simp only [List.find?_cons, ha] at h
      cases h
      simp [ha]
    · have ha' : (a.id == id) = false := by simpa using ha
      simp only [List.find?_cons, ha'] at h
      simp only [ha', Bool.false_eq_true, ↓reduceIte]
      exact List.mem_cons_of_mem _ (ih h)

theorem pendOf_finish (t : T) (q : List Id) (h : t.pc = finish q) (id : Id) : pendOf t id = [] := by
  unfold pendOf
  rw [h]
  unfold finish
  by_cases hq : q.isEmpty = true <;> simp [hq]

theorem stepGen_logcov {t t' : T} {id : Id} {g : GenEnv} {l : Option Bool} (hw : C07.WF t) (hinv : LogCov t)
    (h : stepGen t id g l = .ok t') : LogCov t' := by
  unfold stepGen at h
  split at h
  · simp at h
  · rename_i q done pending d0 lc hprep
    obtain ⟨hfind, _, _, _, _⟩ := prepareGen_ok hprep
    obtain ⟨hpend, hpother⟩ := prepareGen_pendOf hprep
    obtain ⟨hd0mem, hd0id⟩ := find_some_mem hfind
    simp only [] at h
    split at h
    · simp at h
    · rename_i t1 ev hev
      split at h
      · simp at h
      · have e := evalReqs_effect hev
        obtain ⟨invs, hlog1, hinvs⟩ := evalReqs_logged hev
        obtain ⟨f, hd, hfid, _, ⟨_, hlogf⟩, hcase⟩ := C06.finishGen_hist h
        obtain ⟨k, hdem⟩ : ∃ k, t'.demes = updFirst id (f ∘ bump k) t.demes :=
          ⟨_, by rw [hd, e.demes, updFirst_comp id f (bump _) t.demes (fun _ => rfl)]⟩
        have hF : (f ∘ bump k) d0 ∈ t'.demes := by rw [hdem]; exact mem_updFirst_first hfind
        have hFid : ((f ∘ bump k) d0).id = id := by simp [hfid, bump, hd0id]
        -- where the generations of the running deme are after the step
        have hwhere : ∀ g0, g0 ∈ d0.gens ++ pending ++ [⟨g.pop, ev⟩] →
            g0 ∈ ((f ∘ bump k) d0).gens ++ pendOf t' id := by
          intro g0 hg0
          rcases hcase with ⟨hh, hpc⟩ | ⟨hh, hpc⟩
          · have h1 : ((f ∘ bump k) d0).gens = d0.gens := by simp [Deme.gens, hh, bump]
            have h2 : pendOf t' id = pending ++ [⟨g.pop, ev⟩] := by simp [pendOf, hpc]
            rw [h1, h2, ← List.append_assoc]; exact hg0
          · have h1 : ((f ∘ bump k) d0).gens = d0.gens ++ (pending ++ [⟨g.pop, ev⟩]) := by
              simp [Deme.gens, hh, bump, List.flatten_append]
            rw [h1, ← List.append_assoc]
            exact List.mem_append_left _ hg0
        intro inv hinv'
        rw [hlogf, hlog1] at hinv'
        rcases List.mem_append.mp hinv' with hold | hnew
        · obtain ⟨d, hdm, hid, g0, hg0, hmem⟩ := hinv inv hold
          by_cases hdi : d.id = id
          · have : d = d0 := by
              have h1 := C07.find_unique hw hdm
              rw [hdi, hfind] at h1
              exact (Option.some.inj h1).symm
            subst this
            refine ⟨_, hF, by rw [hFid, ← hid, hdi], g0, ?_, hmem⟩
            rw [hFid]
            apply hwhere
            rw [hdi, hpend] at hg0
            exact List.mem_append_left _ hg0
          · refine ⟨d, by rw [hdem]; exact mem_updFirst_of_ne hdm hdi, hid, g0, ?_, hmem⟩
            rw [hpother d.id hdi, List.append_nil] at hg0
            exact List.mem_append_left _ hg0
        · obtain ⟨hdeme, hin⟩ := hinvs inv hnew
          refine ⟨_, hF, by rw [hFid, hdeme], ⟨g.pop, ev⟩, ?_, hin⟩
          rw [hFid]
          exact hwhere _ (by simp)

theorem stepLocal_logcov {t t' : T} {id : Id} {reqs : List Req} {its : List Ind} {nfev : Nat} (hw : C07.WF t)
    (hinv : LogCov t) (h : stepLocal t id reqs its nfev = .ok t') : LogCov t' := by
  unfold stepLocal at h
  split at h
  · rename_i qid q hpc
    have hp0 : ∀ id', pendOf t id' = [] := by intro id'; simp [pendOf, hpc]
    split at h
    · simp at h
    · split at h
      · simp at h
      · rename_i d0 hfind
        obtain ⟨hd0mem, hd0id⟩ := find_some_mem hfind
        split at h
        · simp at h
        · split at h
          · simp at h
          · split at h
            · simp at h
            · split at h
              · simp at h
              · rename_i t1 ev hev
                split at h
                · simp at h
                · simp only [] at h
                  split at h
                  · simp at h
                  · simp only [Except.ok.injEq] at h
                    subst h
                    have e := evalReqs_effect hev
                    obtain ⟨invs, hlog1, hinvs⟩ := evalReqs_logged hev
                    have hp1 : ∀ id', pendOf
                        ({ t1.update id fun d => { d with counter := d.counter + nfev, hist := d.hist ++ [[⟨its, ev⟩]], active := false } with
                            pc := finish q } : T) id' = [] := fun id' => pendOf_finish _ q rfl id'
                    intro inv hinv'
                    simp only [T.update] at hinv' ⊢
                    rw [hlog1] at hinv'
                    rw [e.demes, updFirst_comp id _ (bump _) t.demes (fun _ => rfl)]
                    rcases List.mem_append.mp hinv' with hold | hnew
                    · obtain ⟨d, hdm, hid, g0, hg0, hmem⟩ := hinv inv hold
                      rw [hp0, List.append_nil] at hg0
                      by_cases hdi : d.id = id
                      · have : d = d0 := by
                          have h1 := C07.find_unique hw hdm
                          rw [hdi, hfind] at h1
                          exact (Option.some.inj h1).symm
                        subst this
                        refine ⟨_, mem_updFirst_first hfind, by simp [bump, hid], g0, ?_, hmem⟩
                        apply List.mem_append_left
                        simp only [Function.comp, Deme.gens, bump, List.flatten_append]
                        exact List.mem_append_left _ hg0
                      · exact ⟨d, mem_updFirst_of_ne hdm hdi, hid, g0, List.mem_append_left _ hg0, hmem⟩
                    · obtain ⟨hdeme, hin⟩ := hinvs inv hnew
                      refine ⟨_, mem_updFirst_first hfind, by simp [bump, hd0id, hdeme], ⟨its, ev⟩, ?_, hin⟩
                      apply List.mem_append_left
                      simp [Function.comp, Deme.gens, bump, List.flatten_append]
  · simp at h


theorem logcov_of_rel {R : Deme → Deme → Prop} (hR : ∀ a b, R a b → b.id = a.id ∧ b.hist = a.hist)
    {ds ds' : List Deme} (hf : List.Forall₂ R ds ds') {pend : Id → List Gen} {inv : Inv}
    (h : ∃ d ∈ ds, d.id = inv.deme ∧ ∃ g ∈ d.gens ++ pend d.id, (⟨inv.x, inv.v⟩ : Ind) ∈ g.evald) :
    ∃ d ∈ ds', d.id = inv.deme ∧ ∃ g ∈ d.gens ++ pend d.id, (⟨inv.x, inv.v⟩ : Ind) ∈ g.evald := by
  obtain ⟨d, hd, hid, g, hg, hm⟩ := h
  obtain ⟨b, hb, hr⟩ := forall2_mem_left hf d hd
  obtain ⟨hi, hh⟩ := hR d b hr
  refine ⟨b, hb, hi.trans hid, g, ?_, hm⟩
  have : b.gens = d.gens := by simp [Deme.gens, hh]
  rw [this, hi]; exact hg

theorem create_logcov {t t' : T} {parent : Option Deme} {seed : Option Ind} {env : NewEnv}
    (hinv : LogCov t) (h : createDeme t parent seed env = .ok t') : LogCov t' := by
  have ce := createDeme_effect h
  obtain ⟨old, dn, hd, hf, _, _, ⟨g0, hg0, _⟩, _⟩ := ce.demes
  obtain ⟨invs, hlog, hcov⟩ := ce.logged
  have hpend : ∀ id, pendOf t' id = pendOf t id := by intro id; simp [pendOf, ce.pc]
  intro inv hinv'
  rw [hlog] at hinv'
  rcases List.mem_append.mp hinv' with hold | hnew
  · have := logcov_of_rel (R := SameBC) (fun a b hab => by obtain ⟨cs, rfl⟩ := hab; exact ⟨rfl, rfl⟩) hf
      (pend := pendOf t) (hinv inv hold)
    obtain ⟨d, hdm, hid, g, hg, hm⟩ := this
    exact ⟨d, by rw [hd]; exact List.mem_append_left _ hdm, hid, g, by rw [hpend]; exact hg, hm⟩
  · have hlast : t'.demes.getLast? = some dn := by rw [hd]; simp
    obtain ⟨hdeme, hin⟩ := hcov dn g0 hlast hg0 inv hnew
    refine ⟨dn, by rw [hd]; simp, hdeme.symm, g0, ?_, hin⟩
    apply List.mem_append_left
    simp [Deme.gens, hg0]

theorem sprout_logcov {t t' : T} {flat : List (Id × Ind)} {news : List NewEnv}
    (hinv : LogCov t) (h : doSprout t flat news = .ok t') : LogCov t' := by
  induction flat generalizing t news with
  | nil =>
    cases news with
    | nil => simp only [doSprout, Except.ok.injEq] at h; subst h; exact hinv
    | cons e es => simp [doSprout] at h
  | cons ps rest ih =>
    obtain ⟨pid, s⟩ := ps
    cases news with
    | nil => simp [doSprout] at h
    | cons e es =>
      simp only [doSprout] at h
      split at h
      · simp at h
      · split at h
        · simp at h
        · rename_i t1 hc
          exact ih (create_logcov hinv hc) h

/-- **log coverage is inductive** (on well-formed trees) -/
theorem step_logcov {t t' : T} {ev : Ev} (hw : C07.WF t) (hinv : LogCov t) (h : step t ev = .ok t') : LogCov t' := by
  cases ev with
  | gen id g l => exact stepGen_logcov hw hinv h
  | localRun id reqs its nfev => exact stepLocal_logcov hw hinv h
  | loop ge =>
    have hhead : t.pc = .head := by
      simp only [step, stepLoop] at h
      split at h
      · assumption
      · simp at h
    obtain ⟨_, hd, _, hlog, _, _, _, hcase⟩ := stepLoop_effect h
    intro inv hinv'
    rw [hlog] at hinv'
    obtain ⟨d, hdm, hid, g, hg, hm⟩ := hinv inv hinv'
    have : pendOf t d.id = [] := by simp [pendOf, hhead]
    rw [this, List.append_nil] at hg
    exact ⟨d, by rw [hd]; exact hdm, hid, g, List.mem_append_left _ hg, hm⟩
  | round ge renv news =>
    obtain ⟨_, _, hpost, hpc, _, _, hcase⟩ := stepRound_effect h
    have hp0 : ∀ id, pendOf t id = [] := by intro id; simp [pendOf, hpost]
    have hp1 : ∀ id, pendOf t' id = [] := by intro id; simp [pendOf, hpc]
    rcases hcase with ⟨hd, _, hlog, _⟩ | ⟨_, _, _, seeds, t1, _, se, hds, rfl⟩
    · intro inv hinv'
      rw [hlog] at hinv'
      obtain ⟨d, hdm, hid, g, hg, hm⟩ := hinv inv hinv'
      rw [hp0, List.append_nil] at hg
      exact ⟨d, by rw [hd]; exact hdm, hid, g, List.mem_append_left _ hg, hm⟩
    · have h1 := sprout_logcov hinv hds
      have hu := updateHibernation_forall2 t1 (seeds.map (·.deme))
      obtain ⟨_, _, f3, _⟩ := updateHibernation_frame t1 (seeds.map (·.deme))
      intro inv hinv'
      have hinv1 : inv ∈ t1.log := by simpa [f3] using hinv'
      have hp2 : ∀ id, pendOf t1 id = [] := by
        intro id
        have : t1.pc = .post := by rw [se.pc]; exact hpost
        simp [pendOf, this]
      obtain ⟨d, hdm, hid, g, hg, hm⟩ := logcov_of_rel (R := fun d d' => ∃ h, d' = { d with hib := h })
        (fun a b hab => by obtain ⟨hb, rfl⟩ := hab; exact ⟨rfl, rfl⟩) hu (pend := pendOf t1) (h1 inv hinv1)
      rw [hp2, List.append_nil] at hg
      exact ⟨d, hdm, hid, g, List.mem_append_left _ hg, hm⟩

theorem exec_logcov {t t' : T} {evs : List Ev} (hw : C07.WF t) (hinv : LogCov t) (h : exec t evs = .ok t') :
    LogCov t' := by
  induction evs generalizing t with
  | nil => simp only [exec, Except.ok.injEq] at h; subst h; exact hinv
  | cons e es ih =>
    simp only [exec, bind, Except.bind] at h
    split at h
    · simp at h
    · rename_i t1 h1
      exact ih (C07.step_wf hw h1) (step_logcov hw hinv h1) h

theorem init_logcov {cfg : Cfg} {stks : List (List Problem.Wrapper)} {rootEnv : NewEnv} {t0 : T}
    (hi : init cfg stks rootEnv = .ok t0) : LogCov t0 := by
  unfold init at hi
  exact create_logcov (by intro inv hinv; simp at hinv) hi

/-- **C04 — the reported best is the best objective value ever observed (population
engines).**  In every state reachable from a freshly constructed tree in which no metaepoch is
half-way through a deme (every boundary, in particular), for every invocation `(x, v)` of the
objective ever made on behalf of a deme of a population engine: the tree's reported best
individual exists and `(x, v)` is not strictly better than it — nothing the objective ever
returned for such a deme beats what the tree reports. -/
theorem C04_best_is_best_observed {cfg : Cfg} {stks : List (List Problem.Wrapper)} {rootEnv : NewEnv} {t0 t : T}
    {evs : List Ev} (hi : init cfg stks rootEnv = .ok t0) (h : exec t0 evs = .ok t)
    (hb : ∀ q c, t.pc ≠ .running q (some c)) :
    ∀ inv ∈ t.log, ∀ d ∈ t.demes, d.id = inv.deme → NonLocal t d →
      ∃ tb, t.best = some tb ∧ better t.cfg.maximize ⟨inv.x, inv.v⟩ tb = false := by
  have hw := C07.C07_wf hi h
  have hcov := exec_logcov (C07.init_wf hi) (init_logcov hi) h
  intro inv hinv d hd hid hnl
  obtain ⟨d', hd', hid', g, hg, hm⟩ := hcov inv hinv
  have hdd : d' = d := List.inj_on_of_nodup_map hw.nodup hd' hd (hid'.trans hid.symm)
  subst hdd
  have hp : pendOf t d'.id = [] := by
    unfold pendOf
    split
    · rename_i q cid dn p hpc
      exact absurd hpc (hb q _)
    · rfl
  rw [hp, List.append_nil] at hg
  have hlm : d' ∈ t.levelMajor := mem_levelMajor.mpr ⟨hd', hw.below d' hd'⟩
  exact C04_observed_tree hi h d' hlm hnl g hg _ hm

end C04
