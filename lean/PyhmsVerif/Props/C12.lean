import PyhmsVerif.Proofs.SelectLemmas
/-!
# C12 — elitist engines never lose ground; population size is constant

Kernel level: the selection step of the SEA family (for *every* admissible tie-break of
NumPy's `argsort`, through the relation `seaOk`) and the one-to-one replacement of DE /
SHADE.  The lift to whole runs (every consecutive pair of generations of every deme) is
`Tree`-level and uses C11's chaining (see `Props/C11.lean`).
-/
namespace C12
open Select

/-- **SEA elitism.** With at least one elite, after selection there is, for every parent,
a member of the new population that is at least as good — in particular the best fitness
never gets worse.  Holds for every admissible `argsort` tie-break and both directions. -/
theorem sea_never_loses (mx : Bool) (k : Nat) (parents offspring elites out : List Ind)
    (hk : 1 ≤ k) (hpar : parents ≠ [])
    (h : seaOk mx k parents offspring elites out = true) :
    ∀ p ∈ parents, ∃ o ∈ out, better mx p o = false := by
  simp only [seaOk, Bool.and_eq_true] at h
  intro p hp
  obtain ⟨e, he, hpe⟩ := topkOk_covers h.1 hk p hp
  have hn : 1 ≤ parents.length := by
    cases parents with
    | nil => exact absurd rfl hpar
    | cons a l => simp
  obtain ⟨o, ho, heo⟩ := topkOk_covers h.2 hn e (List.mem_append_right _ he)
  exact ⟨o, ho, better_trans_weak hpe heo⟩

/-- **SEA size.** The new population has exactly the parents' size whenever the offspring
population has (the variational operators preserve the size). -/
theorem sea_size (mx : Bool) (k : Nat) (parents offspring elites out : List Ind)
    (hoff : offspring.length = parents.length)
    (h : seaOk mx k parents offspring elites out = true) : out.length = parents.length := by
  simp only [seaOk, Bool.and_eq_true] at h
  have := topkOk_length h.2
  simp only [List.length_append] at this
  omega

/-- **DE/SHADE one-to-one replacement, index-wise**: the survivor at every index is not
worse than the parent at that index. -/
theorem de_pointwise (mx : Bool) (parents trials : List Ind) :
    ∀ p ∈ (parents.zip (deSurvivors mx parents trials)), worse mx p.2 p.1 = false := by
  induction parents generalizing trials with
  | nil => simp [deSurvivors]
  | cons a ps ih =>
    cases trials with
    | nil => simp [deSurvivors]
    | cons t ts =>
      intro p hp
      simp only [deSurvivors, List.zip_cons_cons, List.map_cons, List.mem_cons] at hp
      rcases hp with rfl | hp
      · by_cases hw : trialWins mx a t = true
        · simp only [hw, ↓reduceIte]
          simpa [trialWins] using hw
        · simp only [hw, Bool.false_eq_true, ↓reduceIte]
          exact Fit.worse_irrefl mx a.fit
      · exact ih ts p hp

/-- the code's `trial[idx].merge(parent[~idx])` is a permutation of the index-wise survivors -/
theorem deSelect_perm (mx : Bool) (parents trials : List Ind) :
    (deSelect mx parents trials).Perm (deSurvivors mx parents trials) := by
  unfold deSelect deSurvivors
  generalize parents.zip trials = pairs
  induction pairs with
  | nil => simp
  | cons p ps ih =>
    by_cases hw : trialWins mx p.1 p.2 = true
    · simp only [List.filter_cons, hw, ↓reduceIte, List.map_cons, Bool.not_true, Bool.false_eq_true,
        List.cons_append]
      exact List.Perm.cons _ ih
    · simp only [List.filter_cons, hw, Bool.false_eq_true, ↓reduceIte, List.map_cons, Bool.not_false]
      exact (List.perm_middle).trans (List.Perm.cons _ ih)

/-- **k-th best never gets worse (counting form).** For every threshold fitness `t` the
number of individuals at least as good as `t` does not decrease from the parent
population to the new one.  (Equivalent to: for every k the k-th best fitness of the new
population is not worse than the k-th best of the old one.) -/
theorem de_count_dominates (mx : Bool) (parents trials : List Ind) (t : Fit)
    (hlen : trials.length = parents.length) :
    countAtLeast mx t parents ≤ countAtLeast mx t (deSelect mx parents trials) := by
  have hperm := deSelect_perm mx parents trials
  unfold countAtLeast
  rw [hperm.countP_eq]
  unfold deSurvivors
  induction parents generalizing trials with
  | nil => simp
  | cons a ps ih =>
    cases trials with
    | nil => simp at hlen
    | cons x ts =>
      have hl : ts.length = ps.length := by simpa using hlen
      have ih' := ih ts hl ((deSelect_perm mx ps ts))
      simp only [List.zip_cons_cons, List.map_cons, List.countP_cons]
      have hstep : (if (!Fit.worse mx a.fit t) = true then 1 else 0) ≤
          (if (!Fit.worse mx (if trialWins mx a x = true then x else a).fit t) = true then 1 else 0) := by
        by_cases hw : trialWins mx a x = true
        · simp only [hw, ↓reduceIte]
          by_cases ha : Fit.worse mx a.fit t = true
          · simp [ha]
          · have ha' : Fit.worse mx a.fit t = false := by simpa using ha
            have hx : Fit.worse mx x.fit a.fit = false := by simpa [trialWins, Select.worse] using hw
            have hxt : Fit.worse mx x.fit t = false := by
              cases hcase : Fit.worse mx x.fit t with
              | false => rfl
              | true =>
                have := Fit.worse_of_worse_of_not_worse hcase ha'
                simp [hx] at this
            simp [ha', hxt]
        · simp [hw]
      omega

/-- sizes: DE/SHADE keep the population size -/
theorem de_size (mx : Bool) (parents trials : List Ind) (hlen : trials.length = parents.length) :
    (deSelect mx parents trials).length = parents.length := by
  rw [(deSelect_perm mx parents trials).length_eq]
  simp [deSurvivors, hlen]

-- non-vacuity: a plateau with ties, minimisation, one elite
example : seaOk false 1
    [⟨[0], .fin 2⟩, ⟨[1], .fin 2⟩, ⟨[2], .fin 5⟩]
    [⟨[3], .fin 7⟩, ⟨[4], .fin 2⟩, ⟨[5], .fin 9⟩]
    [⟨[1], .fin 2⟩]
    [⟨[4], .fin 2⟩, ⟨[1], .fin 2⟩, ⟨[3], .fin 7⟩] = true := by decide +kernel
example : seaSelect false 1 [⟨[0], .fin 2⟩, ⟨[1], .fin 3⟩] [⟨[3], .fin 7⟩, ⟨[4], .fin 1⟩]
    = [⟨[4], .fin 1⟩, ⟨[0], .fin 2⟩] := by decide +kernel

end C12
