import numpy as np, random, sys, warnings, os, tempfile, hashlib, collections, traceback, re
warnings.filterwarnings("ignore")
sys.path.insert(0,'/root/scratch')
from mon import *
from probe7 import digest  # noqa

def check2(cfg, maxsteps=10):
    viol=[]
    evcount=lambda: sum(len(r.calls) for r in cfg['recs'])
    class GSCW:
        def __init__(s,inner): s.inner=inner; s.first=None; s.n=0
        def __call__(s,tree):
            v=s.inner(tree); s.n+=1
            if v and s.first is None:
                s.first=dict(n=s.n, ndemes=len(tree.all_demes), evs={d.id:(d.n_evaluations,sum(len(m) for m in d._history),d.is_active) for _,d in tree.all_demes}, me=tree.metaepoch_count)
            return v
    g=GSCW(cfg['gsc'])
    t=DemeTree(TreeConfig(cfg['levels'],g,cfg['sm'],options={"random_seed":cfg['seed'],"hibernation":cfg['hib']}))
    steps=0
    fn=os.path.join(tempfile.gettempdir(),f"snap{os.getpid()}.pkl")
    while not g(t) and steps<maxsteps:
        t.run_step(); steps+=1
        # C07
        ids=[d.id for _,d in t.all_demes]
        if len(set(ids))!=len(ids) or t.levels[0][0].id!="root" or len(t.levels[0])!=1: viol.append(("C07","ids/root"))
        for lvl,d in t.all_demes:
            if d.level!=lvl: viol.append(("C07","level field"))
            for c in d.children:
                if c not in t.levels[lvl+1] if lvl+1<len(t.levels) else True: viol.append(("C07","child not in level"))
            if lvl>0:
                ps=[p for p in t.levels[lvl-1] if d in p.children]
                if len(ps)!=1: viol.append(("C07","parents "+str(len(ps))))
                elif not (ps[0].started_at<=d.started_at<=t.metaepoch_count): viol.append(("C07","started_at"))
        # C20 twice-same & no evals
        e0=evcount(); s1=t.summary(); s2=t.summary(); 
        if s1!=s2 or evcount()!=e0: viol.append(("C20","summary unstable/evals"))
        m=re.search(r"Number of evaluations: (\d+)",s1)
        if int(m.group(1))!=t.n_evaluations: viol.append(("C20","evals"))
        # lines per deme
        shown=set(re.findall(r"Deme (\S+) ",t.tree()))
        want=set(("root" if d.id=="root" else d.id) for _,d in t.all_demes if d.id=="root" or d.metaepoch_count>=1)
        if shown!=want: viol.append(("C20",f"shown {sorted(shown)} want {sorted(want)}"))
        bf=t.best_individual.fitness
        for line in t.tree().split("\n"):
            mm=re.search(r"Deme (\S+?)( \*\*\* | )f\(",line)
            if mm:
                d=[d for _,d in t.all_demes if d.id==mm.group(1)][0]
                if (d.best_individual.fitness==bf)!=(mm.group(2)==" *** "): viol.append(("C20",f"marker {line[:60]} bf={bf}"))
        # C19
        try:
            dg=digest(t); st=np.random.get_state()[1].copy()
            t.pickle_dump(fn); t2=DemeTree.pickle_load(fn)
            if digest(t2)!=dg or digest(t)!=dg or t2.summary()!=s1 or not (np.random.get_state()[1]==st).all(): viol.append(("C19","roundtrip differs"))
        except Exception as e:
            viol.append(("C19","exc "+repr(e)[:100]))
    # C05
    if g.first is not None:
        f=g.first
        if len(t.all_demes)!=f['ndemes']: viol.append(("C05","sprouted after gsc true"))
        for _,d in t.all_demes:
            b=f['evs'].get(d.id)
            if b:
                de=d.n_evaluations-b[0]
                ps=getattr(d,'_pop_size',None) or (len(d.current_population) if type(d).__name__=='CMADeme' else 10**9)
                if de>ps : viol.append(("C05",f"deme {d.id} {type(d).__name__} did {de} more evals (> {ps}) after first true"))
        if t.metaepoch_count!=steps: viol.append(("C05","metaepoch_count"))
    if os.path.exists(fn): os.remove(fn)
    return t,viol,steps

if __name__=="__main__":
    N=int(sys.argv[1]); base=int(sys.argv[2]) if len(sys.argv)>2 else 0
    agg=collections.Counter(); ex={}
    for s in range(base,base+N):
        rng=np.random.default_rng(s); cfg=rand_cfg(rng)
        try: t,viol,steps=check2(cfg)
        except Exception as e:
            agg["EXC "+type(e).__name__]+=1; ex.setdefault("EXC "+type(e).__name__,(s,cfg['names'],traceback.format_exc()[-700:])); continue
        for k in set(v[0] for v in viol): agg[k]+=1
        for v in viol: ex.setdefault(v[0]+":"+v[1][:12],(s,cfg['names'],cfg['maximize'],cfg['hib'],str(cfg['gsc']),v[1]))
    print(agg)
    for k,v in ex.items(): print(k,v)
