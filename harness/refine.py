"""Trace refinement: turn a traced real run into the model's event lines, let the Lean
model (`Tree.step`) re-execute the run, and compare its canonical state dump with the
real tree's at construction time and at every metaepoch boundary; compare the output of
every stage of the sprout mechanism at every round.

The model takes from the trace only environment answers; see lean/PyhmsVerif/Model/Tree.lean.
"""
from fractions import Fraction

import numpy as np

from . import runs as R
import copy

from .common import Slice, fit, fr, ind_tok, run_driver

ENGINE_TOK = {"xsea": "ea", "xde": "de", "sea": "ea", "seax": "ea", "ga": "ea", "adapt": "ea", "mwea": "ea", "de": "de", "ded": "de", "shade": "shade", "cma": "cma", "cmaw": "cma", "cmas": "cma", "local": "local", "lhs": "lhs", "sobol": "sobol"}


CLS_TOK = {}  # class names are compared verbatim


def lsc_tok(s):
    k = s["kind"]
    return {"DontStop": "DS", "DontRun": "DR", "AllChildrenStopped": "ACS", "FitnessSteadiness": "ENV", "User": "ENV"}.get(k) or f"ML {s['limit']}"


def gsc_tok(spec, stack_layer):
    g = spec["gsc"]
    k = g["kind"]
    nlev = len(spec["levels"])
    if k == "MetaepochLimit":
        inner = f"ML {g['limit']}"
    elif k == "DontRun":
        inner = "DR"
    elif k == "SingularProblemEvalLimitReached":
        inner = f"EL {g['limit']}"
    elif k == "FitnessEvalLimitReached":
        w = {"root": [1] + [0] * (nlev - 1), "equal": [1] * nlev, "list": [1.0, 0.5, 0.25, 0.125][:nlev]}[g["weights"]]
        inner = f"W {g['limit']} {len(w)} " + " ".join(fr(x) for x in w)
    elif k == "NoActiveNonrootDemes":
        inner = f"NAN {g['n']}"
    elif k == "AllStopped":
        inner = "AS"
    elif k == "RootStopped":
        inner = "RS"
    elif k == "SingularProblemPrecisionReached":
        inner = f"PR {stack_layer[0]} {stack_layer[1]}"
    elif k == "User":
        inner = "ENV"
    else:
        raise ValueError(k)
    return f"OR {inner} ML {spec['max_steps']}"


def stacks_of(spec):
    """wrapper stacks (outermost first) as the spec builds them; returns (lines, level->stack idx, precision pos)"""
    layers = []
    prec = (0, 0)
    if spec.get("stats_wrapper"):
        layers.append("S 0")
    if spec["gsc"]["kind"] == "SingularProblemPrecisionReached":
        prec = (0, len(layers))
        layers.append(f"P 0 0 {fr(spec['gsc']['precision'])} none 0")
    elif spec.get("precision_wrapper"):
        layers.append(f"P 0 0 {fr(spec['precision_wrapper'])} none 0")
    if spec.get("cutoff"):
        layers.append(f"X 0 {spec['cutoff']}")
    one = f"{len(layers)} " + " ".join(layers) if layers else "0"
    nlev = len(spec["levels"])
    if spec["shared_problem"]:
        return f"1 {one}", [0] * nlev, prec
    return f"{nlev} " + " ".join([one] * nlev), list(range(nlev)), prec


def mech_tok(spec):
    s = spec["sprout"]
    if s["kind"] == "nbc":
        return f"NBC {fr(s['gen_dist_factor'])} {fr(s['trunc_factor'])} 2 NFAR {fr(s['fil_dist_factor'])} 0 DL 1 1 LL {s['level_limit']}"
    if s["kind"] == "simple":
        return f"BEST 1 FAR {fr(s['far_enough'])} 1 LL {s['level_limit']}"
    gen = {"best": "BEST", "nbc": f"NBC {fr(s['gen_dist_factor'])} {fr(s['trunc_factor'])}", "nbc_local": f"NBCL {fr(s['gen_dist_factor'])} {fr(s['trunc_factor'])}"}[s["generator"]]
    dfs = []
    for f in s["deme_filters"]:
        if f == "nbcfar" and s["generator"] != "best":
            dfs.append(f"NFAR {fr(s['fil_dist_factor'])} {1 if s['check_only_active'] else 0}")
        elif f == "far":
            dfs.append(f"FAR {fr(s['far_enough'])}")
        elif f == "demelimit":
            dfs.append(f"DL {s['deme_limit']}")
        elif f == "mahalanobis":
            dfs.append("MAHA")
    tfs = ["SS" if f == "skipsame" else f"LL {s['level_limit']}" for f in s["tree_filters"]]
    return f"{gen} {len(dfs)} " + " ".join(dfs) + f" {len(tfs)} " + " ".join(tfs)


def cfg_line(spec):
    stacks, lvl_stack, prec = stacks_of(spec)
    box = f"{len(spec['bounds'])} " + " ".join(f"{fr(lo)} {fr(hi)}" for lo, hi in spec["bounds"])
    lv = []
    for i, L in enumerate(spec["levels"]):
        e = L["engine"]
        elit = 1 if (e in ("de", "ded", "shade", "xde") or (e in ("sea", "seax", "ga", "adapt", "xsea") and L.get("k_elites", 0) >= 1)) else 0
        gens = L["generations"] if e not in ("lhs", "sobol", "local") else 1
        lv.append(f"{ENGINE_TOK[e]} {R.CLASS_OF[e]} {gens} {L['pop_size']} {lsc_tok(L['lsc'])} {lvl_stack[i]} {elit} {box}")
    return f"tcfg {1 if spec['maximize'] else 0} {1 if spec['hibernation'] else 0} {len(lv)} " + " ".join(lv) + f" {gsc_tok(spec, prec)} {mech_tok(spec)} {stacks}"


def req_toks(evals, n_requests):
    """forwarded requests (x, v) followed by refused ones (counter grew, objective not invoked)"""
    out = [f"{len(x)} " + " ".join(fr(t) for t in x) + " " + fit(v) for x, v in evals]
    for _ in range(max(0, n_requests - len(evals))):
        out.append("0 -")
    return f"{len(out)}" + "".join(" " + o for o in out)


def inds_tok(inds):
    return f"{len(inds)}" + "".join(" " + ind_tok(g, f) for g, f in inds)


def ob(v):
    return "-" if v is None else ("1" if v else "0")


def env_tok(env):
    nb = []
    for did, e in env["nbc"].items():
        flat = " ".join(fr(x) for row in e["mat"] for x in row)
        mean = "-" if (e["mean"] is None or e["mean"] != e["mean"]) else fr(e["mean"])
        nb.append(f"{did} {e['n']} {flat} {mean}")
    ds = []
    seen = set()
    for g, sid, dist, _cen in env["dist"]:
        if (g, sid) in seen:
            continue
        seen.add((g, sid))
        ds.append(f"{len(g)} " + " ".join(fr(t) for t in g) + f" {sid} " + ("-" if dist is None else fr(dist)))
    ms = []
    seen = set()
    for g, sid, inside in env.get("maha", []):
        if (g, sid) in seen:
            continue
        seen.add((g, sid))
        ms.append(f"{len(g)} " + " ".join(fr(t) for t in g) + f" {sid} " + ("1" if inside else "0"))
    return f"{len(nb)}" + "".join(" " + x for x in nb) + f" {len(ds)}" + "".join(" " + x for x in ds) + f" {len(ms)}" + "".join(" " + x for x in ms)


# ---------------------------------------------------------------- canonical dumps (python side)
def show_ind(i):
    return "-" if i is None else ind_tok(i[0], i[1])


def first_best(mx, inds):
    b = None
    for i in inds:
        if b is None or (i[1] > b[1] if mx else i[1] < b[1]):
            b = i
    return b


def py_dump(snap, mx, parents, n_inv, tree_best):
    lv = " ".join("[" + ",".join(l) + "]" for l in snap["levels"])
    head = f"T {snap['metaepoch']} evals {snap['n_evals']} levels {lv} best {show_ind(tree_best)} invocations {n_inv}"
    out = [head]
    for d in snap["demes"]:
        allinds = [i for g in d["hist"] for i in g]
        line = f"D {d['id']} {d['level']} {parents.get(d['id']) or '-'} {d['started_at']} {1 if d['active'] else 0} {1 if d['hib'] else 0} {d['n_evals']} [{','.join(d['children'])}] seed {show_ind(d['seed'])} me {d['metaepochs']} gens {d['ngens']} cls {CLS_TOK.get(d['cls'], d['cls'])} best {show_ind(first_best(mx, allinds))}"
        # history grouped by metaepoch is not observable through the public accessor; the model's
        # grouping is compared through `me` (number of metaepochs) and the flat generation list
        line += " hist " + " ; ".join(inds_tok(g) for g in d["hist"])
        out.append(line)
    rep = snap.get("report")
    if rep is None or "raised" in rep:
        out.append("R ?")
    else:
        ls = " ".join(f"{i}:{CLS_TOK.get(c, c)}:{e}:{m}" for i, c, e, m in rep["lines"])
        out.append(f"R {rep['metaepoch']} {rep['evals']} {rep['demes']} levels {' '.join(rep['levels'])} lines {ls}")
    return " | ".join(out)


def norm_model_dump(s):
    """the model prints metaepochs separated by ' / ' — flatten to the public view"""
    return s.replace(" / ", " ; ")


# ---------------------------------------------------------------- one run -> lines + expectations
def emit(run):
    spec = run.spec
    mx = spec["maximize"]
    lines = [cfg_line(spec)]
    expect = ["ok"]  # expected driver answers (None = not compared)
    kinds = ["cfg"]
    ev = run.ev
    i = 0
    n = len(ev)
    parents = {}
    boundary_idx = 0
    n_inv = 0
    # tree best at each boundary comes from the snapshots' histories (level-major first max)

    def tree_best(snap):
        order = [did for l in snap["levels"] for did in l]
        demes = {d["id"]: d for d in snap["demes"]}
        bests = [first_best(mx, [x for g in demes[did]["hist"] for x in g]) for did in order]
        return first_best(mx, [b for b in bests if b is not None])

    def add_dump():
        nonlocal boundary_idx
        snap = run.snaps[boundary_idx]
        lines.append("tdumpfull")
        expect.append(py_dump(snap, mx, parents, n_inv, tree_best(snap)))
        kinds.append(f"dump@{boundary_idx}")
        boundary_idx += 1

    cur_new = None
    round_news = None
    round_gsc = None
    pending_round = None
    run_ctx = None
    user_gsc = spec["gsc"]["kind"] == "User"
    while i < n:
        e = ev[i]
        k = e[0]
        if k == "NEW_BEGIN":
            cur_new = {"evals": []}
        elif k == "EVAL":
            n_inv += 1
            if cur_new is not None:
                cur_new["evals"].append((e[3], e[4]))
            elif run_ctx is not None:
                run_ctx["win"].append((e[3], e[4]))
        elif k == "NEW":
            _, did, lvl, par, started, cls, seed, pop, nev = e[:9]
            parents[did] = par
            is_local = cls == "LocalDeme"
            ne = req_toks(cur_new["evals"], 0 if is_local else nev) + " " + inds_tok(pop)
            cur_new = None
            if par is None:
                lines.append("tinit " + ne)
                expect.append("ok")
                kinds.append("init")
                add_dump()
            else:
                round_news.append(ne)
        elif k == "GSC":
            _, who, v, me, cnt, uv = e
            genv = ob(uv) if user_gsc else "-"
            if who is None:
                # loop-head or post-metaepoch consult: decided by the next structural event
                pending_consult = genv
                # look ahead
                nxt = next((x for x in ev[i + 1 :] if x[0] in ("STEP", "ROUND_BEGIN", "BOUNDARY", "RETURN")), None)
                if nxt is None or nxt[0] in ("STEP", "RETURN"):
                    lines.append(f"tev loop {genv}")
                    expect.append(None)
                    kinds.append("loop")
                elif nxt[0] == "BOUNDARY":
                    # post-metaepoch consult was true: no round
                    lines.append(f"tev round {genv} 0 0 0 0")
                    expect.append(None)
                    kinds.append("round-skipped")
                else:
                    round_gsc = genv
            elif run_ctx is not None and who == run_ctx["id"]:
                run_ctx["gens_env"].append({"win": run_ctx["win"], "cnt": cnt, "genv": genv})
                run_ctx["win"] = []
        elif k == "RUN_BEGIN":
            run_ctx = {"id": e[1], "evals0": e[2], "win": [], "gens_env": [], "lsc": None}
        elif k == "LSC":
            if run_ctx is not None and e[1] == run_ctx["id"]:
                run_ctx["lsc"] = e[2]
        elif k == "RUN_END":
            _, did, active, gens, evals1, cma_stop = e
            d = run.deme_objs[did]
            cls = type(d).__name__
            if cls == "LocalDeme":
                reqs = run_ctx["win"]
                nfev = evals1 - run_ctx["evals0"]
                # with an evaluation cutoff in the stack, requests refused by it never reach the recorder
                nreq = max(len(reqs), nfev) if spec.get("cutoff") else len(reqs)
                lines.append(f"tev local {did} {req_toks(reqs, nreq)} {inds_tok(gens[0] if gens else [])} {evals1 - run_ctx['evals0']}")
                expect.append(None)
                kinds.append("local")
            else:
                ge = run_ctx["gens_env"]
                prev_cnt = run_ctx["evals0"]
                for j, g in enumerate(gens):
                    if j < len(ge):
                        win, cnt, genv = ge[j]["win"], ge[j]["cnt"], ge[j]["genv"]
                    else:
                        win, cnt, genv = [], prev_cnt, "-"
                    last = j == len(gens) - 1
                    cs = 0
                    if cls == "CMADeme" and last:
                        if cma_stop is None:
                            gsc_true = any(x[2] for x in ev[: i] if x[0] == "GSC" and x[1] == did) and False
                            cs = 1 if (not active and not run_ctx["lsc"] and not gsc_true) else 0
                        else:
                            cs = 1 if cma_stop else 0
                    lsc_env = ob(run_ctx["lsc"]) if last else "-"
                    lines.append(f"tev gen {did} {req_toks(win, cnt - prev_cnt)} {inds_tok(g)} {genv} {cs} {lsc_env}")
                    expect.append(None)
                    kinds.append("gen")
                    prev_cnt = cnt
            run_ctx = None
        elif k == "ROUND_BEGIN":
            round_news = []
        elif k == "ROUND_END":
            pending_round = next(r for r in run.rounds if r["metaepoch"] == ev[[j for j in range(i, -1, -1) if ev[j][0] == "ROUND_BEGIN"][0]][1])
        elif k == "BOUNDARY":
            if pending_round is not None:
                rnd = pending_round
                et = env_tok(rnd["env"])
                lines.append("tstages " + et)
                expect.append(" || ".join(" ; ".join(f"{did} {inds_tok(c['inds'])}" for did, c in st["out"].items()) for st in rnd["stages"]))
                kinds.append("stages")
                lines.append(f"tev round {round_gsc if round_gsc is not None else '-'} {et} {len(round_news)}" + "".join(" " + x for x in round_news))
                expect.append(None)
                kinds.append("round")
                round_news = None
                round_gsc = None
                pending_round = None
            add_dump()
        i += 1
    return lines, expect, kinds


# ---------------------------------------------------------------- numeric sanity of the environment
def env_sanity(run):
    """NumPy's distances / centroids / means against exact rational geometry (2^-40 relative)."""
    out = []
    tol = Fraction(1, 2**40)
    ordn = R.norm_ord_of(run.spec)
    for r in run.rounds:
        env = r.get("env")
        if not env:
            continue
        pops = r["pre_pops"]
        for g, sid, dist, cen in env["dist"]:
            pop = pops.get(sid, [])
            if not pop:
                continue
            exact_c = [sum(Fraction(x[k]) for x, _ in pop) / len(pop) for k in range(len(g))]
            if cen is None:
                out.append({"signature": "C09/stale-centroid", "detail": f"deme {sid} has a population but reports no centroid"})
                continue
            scale = max([abs(c) for c in exact_c] + [Fraction(1, 10**300)])
            if any(abs(Fraction(c) - ec) > tol * max(scale, 1) for c, ec in zip(cen, exact_c)):
                out.append({"signature": "C09/stale-centroid", "detail": f"round of metaepoch {r['metaepoch']}: deme {sid} reports centroid {cen}, exact mean of its current population is {[float(c) for c in exact_c]}"})
                continue
            diffs = [Fraction(a) - ec for a, ec in zip(g, exact_c)]
            if ordn == 2:
                ex2 = sum(d * d for d in diffs)
                if abs(Fraction(dist) ** 2 - ex2) > Fraction(1, 2**30) * max(ex2, Fraction(1, 10**300)):
                    out.append({"signature": "C09/distance-mismatch", "detail": f"distance {dist} of {g} to centroid of {sid} is not the Euclidean distance {float(ex2) ** 0.5}"})
            elif ordn == 1:
                ex = sum(abs(d) for d in diffs)
                if abs(Fraction(dist) - ex) > Fraction(1, 2**30) * max(ex, Fraction(1, 10**300)):
                    out.append({"signature": "C09/distance-mismatch", "detail": f"1-norm distance {dist} vs exact {float(ex)}"})
        for did, e in env["nbc"].items():
            pop = pops.get(did, [])
            for a in range(e["n"]):
                for b in range(e["n"]):
                    ex2 = sum((Fraction(x) - Fraction(y)) ** 2 for x, y in zip(pop[a][0], pop[b][0]))
                    if abs(Fraction(e["mat"][a][b]) ** 2 - ex2) > Fraction(1, 2**30) * max(ex2, Fraction(1, 10**300)):
                        out.append({"signature": "C15/distance-mismatch", "detail": "NumPy distance differs from the exact Euclidean distance"})
                        break
    return out


def refine_run(spec):
    """returns (run, lines, expect, kinds)"""
    run = R.Run(spec)
    run.record_engines = True
    run.execute()
    lines, expect, kinds = emit(run)
    # every generation the DE / SHADE / SEA-family demes of this run made is also a case for the engine model
    for line, exp, _extra in run.engine_cases:
        lines.append(line)
        expect.append(exp)
        kinds.append("engine")
    return run, lines, expect, kinds


ERROR_CATS = [
    ("outside the box", "box"),
    ("neither in the preceding generation", "chain"),
    ("never evaluated", "chain"),
    ("unevaluated individual", "chain"),
    ("best observed value forgotten", "observed"),
    ("elitist engine lost ground", "elitism"),
    ("order statistic", "elitism"),
    ("individuals, expected", "size"),
    ("members, configured", "size"),
    ("wrong size", "size"),
    ("outside run_metaepoch", "control"),
    ("at the wrong moment", "control"),
    ("after the global stop condition held", "control"),
    ("although the global stop condition holds", "control"),
    ("after the metaepoch ended", "control"),
    ("is false again", "control"),
    ("is next in the schedule", "schedule"),
    ("is running", "schedule"),
    ("inactive deme", "schedule"),
    ("cutoff is exhausted", "budget"),
    ("not forwarded", "budget"),
    ("nfev", "count"),
    ("does not contain its seed", "structure"),
    ("must start from its seed", "seed"),
    ("below the last level", "structure"),
    ("number of created demes", "sprout"),
    ("sprout mechanism cannot be performed", "sprout"),
    ("unknown parent", "structure"),
]

# which kinds of disagreement bear on which property
RELEVANT = {
    "C01": {"box", "engine"},
    "C02": {"chain", "hist", "seed", "engine"},
    "C03": {"count", "budget", "evals", "counter", "invocations", "seed", "engine"},
    "C04": {"best", "observed"},
    "C05": {"control", "metaepoch"},
    "C06": {"schedule", "active", "me", "gens", "control", "hist"},
    "C07": {"structure", "levels", "id", "level", "parent", "startedAt", "children", "seed", "cls"},
    "C08": {"stage:LevelLimit", "active"},
    "C09": {"stage:FarEnough", "stage:NBC_FarEnough"},
    "C10": {"stage:FarEnough", "stage:NBC_FarEnough", "stage:DemeLimit", "stage:LevelLimit", "stage:SkipSameSprout", "stage:BestPerDeme", "stage:NBC_Generator", "stage:NBCGeneratorWithLocalMethod", "stage:MahalanobisFarEnough", "sprout"},
    "C11": {"chain", "hist", "engine"},
    "C12": {"elitism", "size", "engine"},
    "C15": {"stage:NBC_Generator", "stage:NBCGeneratorWithLocalMethod"},
    "C18": {"hib", "schedule", "sprout"},
    "C20": {"best", "evals", "counter", "report:metaepoch", "report:evals", "report:demes", "report:levels", "report:cls", "report:line-evals", "report:marker", "report:displayed"},
}


def dump_fields(line):
    """canonical dump -> {(deme or 'T', field): value}"""
    out = {}
    for seg in line.split(" | "):
        tk = seg.split(" ")
        if tk[0] == "T":
            out[("T", "metaepoch")] = tk[1]
            out[("T", "evals")] = tk[3]
            b = seg.index(" best ")
            out[("T", "levels")] = seg[seg.index(" levels ") + 8 : b]
            iv = seg.index(" invocations ")
            out[("T", "best")] = seg[b + 6 : iv]
            out[("T", "invocations")] = seg[iv + 13 :]
        elif tk[0] == "D":
            did = tk[1]
            for k, name in enumerate(["id", "level", "parent", "startedAt", "active", "hib", "counter", "children"]):
                out[(did, name)] = tk[1 + k]
            a, b, c, d = seg.index(" seed "), seg.index(" me "), seg.index(" best "), seg.index(" hist ")
            out[(did, "seed")] = seg[a + 6 : b]
            me = seg[b + 4 : c].split(" ")
            out[(did, "me")] = me[0]
            out[(did, "gens")] = me[2]
            out[(did, "cls")] = me[4]
            out[(did, "best")] = seg[c + 6 : d]
            out[(did, "hist")] = seg[d + 6 :]
        elif tk[0] == "R":
            if len(tk) > 1 and tk[1] == "?":
                out[("R", "skip")] = "1"
                continue
            out[("R", "report:metaepoch")] = tk[1]
            out[("R", "report:evals")] = tk[2]
            out[("R", "report:demes")] = tk[3]
            a, b = seg.index(" levels "), seg.index(" lines ")
            out[("R", "report:levels")] = seg[a + 8 : b]
            for ln in seg[b + 7 :].split(" "):
                if not ln:
                    continue
                f = ln.split(":")
                if len(f) == 4:
                    out[(f[0], "report:cls")] = f[1]
                    out[(f[0], "report:line-evals")] = f[2]
                    out[(f[0], "report:marker")] = f[3]
            out[("R", "report:displayed")] = " ".join(ln.split(":")[0] for ln in seg[b + 7 :].split(" ") if ln)
    return out


def compare(lines, expect, kinds, got, stage_classes=None):
    """all disagreements between the model's answers and the real run, as (category, detail) records;
    the comparison stops at the first event the model cannot perform"""
    out = []
    ns = 0
    for j, (l, e, k, g) in enumerate(zip(lines, expect, kinds, got)):
        if g.startswith("error") or g == "bad-op":
            cat = next((c for pat, c in ERROR_CATS if pat in g), "other")
            out.append({"cat": cat, "at": j, "kind": k, "model": g[:500], "op": l[:200], "terminal": True})
            break
        if e is None:
            continue
        if k == "engine":
            g3 = " | ".join(g.split(" | ")[:3]) if l.startswith("shadegen") else g
            if g3 != e:
                out.append({"cat": "engine", "at": j, "kind": k, "model": g3[:600], "impl": e[:600], "op": l[:300]})
            continue
        if k == "stages":
            cls = stage_classes[ns] if stage_classes and ns < len(stage_classes) else []
            ns += 1
            if g != e:
                a, b = g.split(" || "), e.split(" || ")
                seg = next((x for x in range(min(len(a), len(b))) if a[x] != b[x]), min(len(a), len(b)))
                name = cls[seg] if seg < len(cls) else "?"
                out.append({"cat": f"stage:{name}", "at": j, "kind": k, "model": (a[seg] if seg < len(a) else "<missing>")[:500], "impl": (b[seg] if seg < len(b) else "<missing>")[:500]})
            continue
        if k.startswith("dump"):
            fa, fb = dump_fields(norm_model_dump(g)), dump_fields(e)
            if ("R", "skip") in fb:  # the real summary() raised (no individual anywhere yet): no report to compare
                fa = {kk: vv for kk, vv in fa.items() if not kk[1].startswith("report:")}
                fb.pop(("R", "skip"))
            seen = set()
            for key in sorted(set(fa) | set(fb)):
                if fa.get(key) != fb.get(key) and key[1] not in seen:
                    seen.add(key[1])
                    out.append({"cat": key[1], "at": j, "kind": k, "deme": key[0], "model": str(fa.get(key))[:400], "impl": str(fb.get(key))[:400]})
        elif g != e:
            out.append({"cat": "other", "at": j, "kind": k, "model": g[:300], "impl": e[:300]})
    return out


def refine_specs(specs):
    """refine given specs; returns {index: [disagreement records]}"""
    all_lines, metas, out = [], [], {}
    for k, spec in enumerate(specs):
        try:
            run, lines, expect, kinds = refine_run(spec)
        except Exception as ex:
            out[k] = [{"cat": "crash", "model": repr(ex)}]
            continue
        metas.append((k, run, len(all_lines), len(lines), expect, kinds))
        all_lines += lines
    got = run_driver(all_lines) if all_lines else []
    for k, run, off, ln, expect, kinds in metas:
        stage_classes = [[st["cls"] for st in r["stages"]] for r in run.rounds]
        out[k] = compare(all_lines[off : off + ln], expect, kinds, got[off : off + ln], stage_classes)
    return out


def _refine_worker(args):
    """one traced run turned into model lines (runs in a pool process); returns plain data"""
    spec, pid = args
    from .common import RunTimeout, run_limit

    try:
        with run_limit():
            run, lines, expect, kinds = refine_run(spec)
    except RunTimeout as ex:
        return {"status": "crash", "impl": f"run did not terminate: {ex}", "tb": ""}
    except Exception as ex:
        import traceback

        from .common import is_env_crash

        if is_env_crash(ex):
            return {"status": "env", "exc": type(ex).__name__}
        return {"status": "crash", "impl": f"run crashed: {type(ex).__name__}: {ex}", "tb": traceback.format_exc()[-800:]}
    sanity = [dict(v) for v in env_sanity(run) if pid is None or v["signature"].startswith(pid)]
    untraced = None
    if spec["seed"] % 3 == 0 and run.error is None:
        # the run the traced run stands for, without the tracer (the configured objects themselves, not the tracer's
        # pass-throughs around them): it must end in the same tree
        try:
            with run_limit():
                tw = R.untraced_twin(copy.deepcopy(spec))
            key = lambda sn: sorted((d["id"], d["active"], d["hib"], d["n_evals"], d["metaepochs"], tuple(d["digest"])) for d in sn["demes"])  # noqa: E731
            a, b = key(run.snaps[-1]), key(tw)
            if a != b:
                first = next((x for x, y in zip(a, b) if x != y), (a + b)[-1] if len(a) != len(b) else None)
                untraced = f"traced run ends with {len(a)} demes / untraced run of the same configuration with {len(b)}; first difference at deme {first[0] if first else '?'} (traced: active={first[1]}, hibernating={first[2]}, evaluations={first[3]}, metaepochs={first[4]})" if first else "different trees"
        except Exception as ex:  # noqa: BLE001
            from .common import is_env_crash

            if not is_env_crash(ex) and not isinstance(ex, RunTimeout):
                untraced = f"the untraced run raised {type(ex).__name__}: {ex}"
    return {"status": "ok", "untraced": untraced, "lines": lines, "expect": expect, "kinds": kinds, "demes": list(run.order), "steps": run.steps,
            "nrounds": len(run.rounds), "stage_classes": [[st["cls"] for st in r["stages"]] for r in run.rounds], "sanity": sanity}


def refine_batch(ctx, n, salt=31, force=None, name="trace-refinement", pid=None):
    from .common import pmap

    sl = Slice(name)
    sl.is_trace = True
    rng = ctx.rng(salt)
    n = ctx.boost(n) if hasattr(ctx, "boost") else n
    specs = [cs if cs is not None else R.rand_spec(rng, **(force(rng) if callable(force) else (force or {}))) for cs in R.corpus_specs() + [None] * n]
    results = pmap(_refine_worker, [(spec, pid) for spec in specs], chunksize=2)
    all_lines = []
    metas = []
    for spec, r in zip(specs, results):
        if r["status"] == "env":
            sl.skipped += 1
            sl.count("skipped:third-party-library-raised:" + r["exc"])
            continue
        if r["status"] == "crash":
            sl.disagreements.append({"spec": spec, "impl": r["impl"], "model": "", "tb": r["tb"]})
            continue
        metas.append((spec, r, len(all_lines), len(r["lines"])))
        all_lines += r["lines"]
    got = run_driver_parallel(all_lines, [(off, ln) for _, _, off, ln in metas]) if all_lines else []
    for spec, r, off, ln in metas:
        sl.cases += 1
        d = R.describe(spec)
        sl.count("engines:" + ">".join(d["engines"]))
        sl.count("gsc:" + d["gsc"])
        sl.count("sprout:" + d["sprout"])
        sl.count("events", ln)
        sl.count("rounds", r["nrounds"])
        sl.count("engine-generations-replayed", sum(1 for k in r["kinds"] if k == "engine"))
        sl.count("demes", len(r["demes"]))
        if len(r["demes"]) >= 2 and r["steps"] >= 2:
            sl.nontrivial.add(R.spec_id(spec))
        dis = compare(all_lines[off : off + ln], r["expect"], r["kinds"], got[off : off + ln], r["stage_classes"])
        rel = RELEVANT.get(pid)
        first = True
        for x in dis:
            sl.count("diff:" + x["cat"])
            if x.get("terminal"):
                sl.count("runs-cut-short-by-model-error")
            if rel is None or x["cat"] in rel or (x["cat"] == "other"):
                if first:
                    x["spec"] = spec
                    x["describe"] = d
                    first = False
                    sl.disagreements.append(x)
        if r.get("untraced"):
            sl.count("diff:untraced")
            sl.disagreements.append({"cat": "untraced", "spec": spec, "describe": d, "impl": r["untraced"], "model": "the tracer is transparent: observed and unobserved runs of one seeded configuration end in the same tree (the code treats its configuration objects differently when they are wrapped, or behaves differently when its runs are observed)"})
        for v in r["sanity"]:
            sl.violations.append(dict(v, replay={"spec": spec}))
        if sl.cases <= 2:
            sl.sample({"spec": d, "event_lines": ln, "first_event": all_lines[off + 1][:160], "last_dump": got[off + ln - 1][:200]})
    return sl


def _driver_chunk(lines):
    return run_driver(lines)


def run_driver_parallel(all_lines, segments):
    """the model driver on whole runs in parallel: every run's lines start a fresh session (the first
    line of a run is its configuration), so the input can be cut at run boundaries"""
    from .common import n_workers, pmap

    k = n_workers()
    if k == 1 or len(segments) < 8:
        return run_driver(all_lines)
    per = max(1, (len(segments) + k - 1) // k)
    chunks = []
    for i in range(0, len(segments), per):
        segs = segments[i : i + per]
        chunks.append(all_lines[segs[0][0] : segs[-1][0] + segs[-1][1]])
    outs = pmap(_driver_chunk, chunks)
    got = []
    for o in outs:
        got += o
    return got
